import Zc.Model.Survive
import Zc.Model.BrowserCb
import Zc.Model.Responder
import Zc.Model.Lookup
import Zc.Model.Sched2
import Zc.Model.QueryGen
import Zc.Model.NameText
/-! # C15 — the downstream of the listener, composed from the models of the other properties

`Zc.Survive.Down` left everything behind the listener uninterpreted.  Here it is instantiated with
the models that exist:

* the **record manager and the cache** (`Zc.ingest` over `Cache.ops`: C05/C06) — the loop of
  `async_updates_from_response`, the cache-flush marking, the adds and the removes with their
  `KeyError` sites (`_remove_key`);
* the **service browsers** among the listeners (`Browser.updateRecords` / `Browser.complete`: C04);
* the **registry and the answer computation** (`Zc.respond`: C03) — `_get_answer_strategies` with the
  registry lookups that can raise `KeyError`, `_answer_question`, the memo fills;
* the browsers' **query-scheduler bookkeeping** done inside `async_update_records`
  (`reschedule_ptr_first_refresh`, `cancel_ptr_refresh` on the two-container model `Sched2`: C10);
* the **service-info lookups in progress** among the listeners (`Lookup.processAll`: C18);
* the encoder for what is sent inside the block is already part of `Zc.Survive.handleAssembled`.

What stays uninterpreted is the record `Rest`: the listeners that are neither browsers nor
lookups (user `RecordUpdateListener`s), `async_notify_all` / future wake-ups,
the `_QueryResponse` routing with the question history, and `MulticastOutgoingQueue.async_add`.

Text layer: decoded names become `str` (`textOfName`), registry/cache names become wire labels again
(`labelsOfText`); both are the text-layer model `Zc.NameText` wrapped into `String`, and the identity the
timer-block theorems need of them (`TextGlue`) is proved in `Proofs/NameTextGlue.lean`.
No Mathlib. -/
namespace Zc.Survive.Comp
open Zc Zc.Wire Zc.Survive

/-! ## text layer -/

/-- `label.decode('utf-8', 'replace')` as a `String` -/
def textOfLabel (l : Label) : String := String.ofList (NameText.decodeLabel l)

/-- `'.'.join(labels) + '.'`: `_read_name`'s text, by the text-layer model (`Zc.NameText.textOfLabels`) -/
def textOfName (n : WName) : String := String.ofList (NameText.textOfLabels n)

/-- what `write_name` does with a `str`: drop one trailing dot, `split('.')`, UTF-8 encode — the text-layer
model's `Zc.NameText.labelsOfText` (proved against the `str`-keyed `write_name` in `Proofs/NameText.lean`) -/
def labelsOfText (s : String) : WName := NameText.labelsOfText s.toList

/-- a decoded record as the `DNSRecord` object the record manager sees (`created = msg.now`) -/
def recOfW (now : Ms) (w : WRecord) : Option Rec :=
  let mk (rd : RData) : Rec :=
    ⟨textOfName w.name, w.rtype, Gen.Dns.class_of w.rclass, Gen.Dns.unique_of w.rclass, w.ttl, now, rd⟩
  match w.rdata with
  | .addr a => some (mk (.addr a none))
  | .ptr t => some (mk (.ptr (textOfName t)))
  | .txt t => some (mk (.txt t))
  | .srv p wt q t => some (mk (.srv p wt q (textOfName t)))
  | .hinfo c o => some (mk (.hinfo (textOfLabel c) (textOfLabel o)))
  | .nsec n ts => some (mk (.nsec (textOfName n) ts))
  | .other _ => none

/-- `msg.answers()` -/
def recsOf (k : Pkt) : List Rec := k.p.records.filterMap (recOfW k.now)

def questionOf (q : WQuestion) : Question :=
  ⟨textOfName q.name, q.qtype, Gen.Dns.class_of q.qclass, Gen.Dns.unique_of q.qclass⟩

/-- a packet as the answer computation reads it -/
def msgOf (k : Pkt) : Zc.Msg :=
  ⟨Gen.Listener.is_probe k.p.hdr.nau, k.p.questions.map questionOf, recsOf k⟩

/-- a registry / cache record as handed to the encoder -/
def wireOfRec (r : Rec) : Encode.ERecord :=
  let rd : Encode.ERData := match r.rdata with
    | .addr a _ => .addr a
    | .hinfo c o => .hinfo c.toUTF8.toList o.toUTF8.toList
    | .ptr a => .ptr (labelsOfText a)
    | .txt t => .txt t
    | .srv p w q s => .srv p w q (labelsOfText s)
    | .nsec n ts => .nsec (labelsOfText n) ts
  ⟨labelsOfText r.name, r.type, r.class_, r.unique, r.ttl, r.created, rd⟩

/-! ## the composite state -/

/-- the answer sets `_QueryResponse` selected for the block -/
structure Routed where
  ucast : DictRS
  mcastNow : DictRS
  aggregate : DictRS
  aggregateLast : DictRS
  deriving Repr

/-- every record of an answer ↦ additionals map -/
def dictRecords (d : DictRS) : List Rec := d.flatMap (fun p => p.1 :: p.2)

/-- what this composition still leaves uninterpreted, over its own state `ρ` -/
structure Rest (ρ ω : Type) where
  /-- `async_update_records` + `async_update_records_complete` of every listener that is neither a browser nor a
  lookup (user `RecordUpdateListener`s), waking lookup futures, `async_notify_all`.
  Arguments: clock, the `(new, old)` pairs, the cache during the first call, the cache during the second call, `new` -/
  listeners : ρ → Ms → List (Rec × Option Rec) → Cache → Cache → Bool → Except PyExc (ρ × List ω)
  /-- `_QueryResponse` (QU / unicast-source / multicast routing against the cache) and the question history -/
  route : ρ → Cache → List Pkt → Bool → DictRS → Except PyExc (ρ × Routed)
  /-- `out_queue.async_add` / `out_delay_queue.async_add` -/
  enqueue : ρ → Ms → Routed → ρ × List ω

structure CState (ρ : Type) where
  /-- `zc.cache` -/
  cache : Cache
  /-- the `ServiceBrowser`s registered with the record manager -/
  browsers : List Browser
  /-- the `QueryScheduler` of each browser: its configuration (browsed types, minimum delay …) and its two containers -/
  scheds : List (Sched.Cfg × Sched2.S2) := []
  /-- the `ServiceInfo` objects of the lookups in progress (`async_request` adds them as listeners) -/
  lookups : List Lookup.Info := []
  /-- `zc.registry` -/
  reg : Registry
  /-- `zc.question_history` as the browsers' query generation reads and writes it (the responder side of it lives in the
  routing residue) -/
  hist : QueryGen.History := []
  /-- the question history as the lookups' query generation reads it -/
  lhist : Lookup.Hist := []
  /-- the answer sets of the query being handled, between `answer` and `enqueue` -/
  pending : Option Routed := none
  rest : ρ

/-- what the composite emits -/
inductive COut (ω : Type) where
  | callback (browser : Nat) (cb : Callback)
  /-- datagrams a timer block of the composite transmits (browser / lookup queries) -/
  | sent (pkts : List Bytes)
  | other (o : ω)
  deriving Repr

section
variable (lower : String → String) (possible : String → List String) (ettl : Nat)
variable {ρ ω : Type} (R : Rest ρ ω)

/-- all browsers see the same `(new, old)` list and the same cache, then fire their pending callbacks -/
def browsersStep (c1 : Cache) (now : Ms) (pairs : List (Rec × Option Rec)) (bs : List Browser) :
    List Browser × List (List Callback) :=
  let done := bs.map (fun b => Browser.complete (Browser.updateRecords lower possible c1 now b pairs))
  (done.map (·.1), done.map (·.2))

/-- Python's exception for a scheduler error (`dangling` / `notEnabled` cannot be expressed in Python) -/
def pyOfSched : Sched2.Err → PyExc
  | .keyError => .keyError
  | _ => .other

/-- the scheduler calls `async_update_records` makes for one `(new, old)` pair: once per browsed type matching the
pointer's owner name — `reschedule_ptr_first_refresh` for a new or refreshed pointer, `cancel_ptr_refresh` for an expired
one; keyed by `pointer.alias_key` -/
def schedOne (cfg : Sched.Cfg) (now : Ms) (s : Sched2.S2) (u : Rec × Option Rec) : Except Sched2.Err Sched2.S2 :=
  if u.1.type = Gen.typePtr then
    match u.1.rdata with
    | .ptr alias =>
      (cfg.types.filter (fun t => (possible u.1.name).contains t)).foldlM (fun s _ =>
        match u.2 with
        | none => Sched2.reschedule2 cfg s (lower alias) u.1.name u.1.ttl u.1.created
        | some _ =>
          if u.1.isExpired now then .ok (Sched2.cancel2 s (lower alias))
          else Sched2.reschedule2 cfg s (lower alias) u.1.name u.1.ttl u.1.created) s
    | _ => .ok s
  else .ok s

/-- every scheduler sees every pair -/
def schedsStep (now : Ms) (pairs : List (Rec × Option Rec)) (ss : List (Sched.Cfg × Sched2.S2)) :
    Except Sched2.Err (List (Sched.Cfg × Sched2.S2)) :=
  ss.mapM (fun cs => (pairs.foldlM (schedOne lower possible cs.1 now) cs.2).map (fun s => (cs.1, s)))

def callbacksOut (cbs : List (List Callback)) : List (COut ω) :=
  (cbs.zipIdx).flatMap (fun p => p.1.map (COut.callback p.2))

/-- `RecordManager.async_updates_from_response(msg)` -/
def ingest (d : CState ρ) (k : Pkt) : Except PyExc (CState ρ × List (COut ω)) :=
  match Zc.ingest lower (Cache.ops lower) d.cache k.now (recsOf k) with
  | .error e => .error e
  | .ok out =>
    match out.call1 with
    | none => .ok ({ d with cache := out.cache }, [])
    | some call =>
      let bs := browsersStep lower possible call.2 k.now call.1 d.browsers
      match schedsStep lower possible k.now call.1 d.scheds with
      | .error e => .error (pyOfSched e)
      | .ok scheds' =>
        match R.listeners d.rest k.now call.1 call.2 out.cache out.notify with
        | .error e => .error e
        | .ok (rest', o) =>
          let ls := d.lookups.map (fun i => (Lookup.processAll lower call.2.allRecs k.now i (call.1.map (·.1))).1)
          .ok ({ d with cache := out.cache, browsers := bs.1, scheds := scheds', lookups := ls, rest := rest' },
               callbacksOut bs.2 ++ o.map COut.other)

/-- answers and additionals as `_add_answers_additionals` orders them, converted for the encoder -/
def setOf (dd : DictRS) : AnswerSet :=
  let pa := Zc.packetize lower dd
  ⟨pa.1.map wireOfRec, pa.2.map wireOfRec⟩

/-- `QueryHandler.async_response(packets, ucast_source)` -/
def answer (d : CState ρ) (ks : List Pkt) (u : Bool) : Except PyExc (CState ρ × Option QA) :=
  match Zc.respond lower ettl d.reg (ks.map msgOf) with
  | .error e => .error e
  | .ok (none, reg') => .ok ({ d with reg := reg', pending := none }, none)
  | .ok (some dict, reg') =>
    match R.route d.rest d.cache ks u dict with
    | .error e => .error e
    | .ok (rest', sel) =>
      .ok ({ d with reg := reg', rest := rest', pending := some sel },
           some ⟨setOf lower sel.ucast, setOf lower sel.mcastNow, !sel.aggregate.isEmpty, !sel.aggregateLast.isEmpty⟩)

/-- the two `async_add` calls at the end of `handle_assembled_query` -/
def enqueue (d : CState ρ) (now : Ms) (_q : QA) : CState ρ × List (COut ω) :=
  match d.pending with
  | none => (d, [])
  | some sel =>
    let r := R.enqueue d.rest now sel
    ({ d with rest := r.1, pending := none }, r.2.map COut.other)

/-- the downstream of the listener, composed -/
def down : Down (CState ρ) (COut ω) where
  ingest := ingest lower possible R
  hasEntries d := d.reg.hasEntries
  answer := answer lower ettl R
  enqueue := enqueue R

end

end Zc.Survive.Comp
