import Zc.Model.Registry
/-! `_handlers/query_handler.py`: `_get_answer_strategies`, `_answer_question`, `_add_*_answers`,
known-answer suppression (`DNSRRSet.suppresses`) and `answers.py:_add_answers_additionals` (C03).

The observable of `async_response` modelled here is the merged map *answer record ↦ set of additionals*
(`_QueryResponse._additionals`, whose key set is the union of the four routing buckets); which bucket a
record goes to (unicast / multicast now / aggregate / last second) is C11/C12's subject.

Reading a memo-aware builder (`Svc.ptr` …) and filling the memo (`Svc.warmPtr` …) are separated: within one
query the fields of a service do not change and a fill stores exactly what the read returns, so reads are
invariant under fills (`Svc.ptr_warm…` lemmas in `Proofs/Responder.lean`); the answers are therefore computed
from the pre-state and the post-state by `Strategy.warm`. -/
namespace Zc
open Zc.Gen

/-- `Dict[DNSRecord, Set[DNSRecord]]`, keyed by record identity, insertion-ordered -/
abbrev DictRS := List (Rec × List Rec)

section
variable (lower : String → String)

/-- `d[k] = v`: an equal key keeps the *old key object* (its TTL and spelling) and takes the new value -/
def dictSet (d : DictRS) (k : Rec) (v : List Rec) : DictRS :=
  match d with
  | [] => [(k, v)]
  | (k', v') :: r => if k'.beq lower k then (k', v) :: r else (k', v') :: dictSet r k v

/-- `d.update(e)` -/
def dictUpdate (d e : DictRS) : DictRS := e.foldl (fun acc p => dictSet lower acc p.1 p.2) d

/-- `DNSRRSet.suppresses`: `{record: record for record in records}.get(r)` is the *last* listed record
equal to `r`; then `other.ttl > r.ttl / 2` -/
def suppresses (known : List Rec) (r : Rec) : Bool :=
  match known.reverse.find? (fun o => o.beq lower r) with
  | none => false
  | some o => Gen.Dns.rrset_suppresses_ttl r.ttl o.ttl

/-- one message of a (possibly multi-packet) query -/
structure Msg where
  isProbe : Bool
  questions : List Question
  answers : List Rec
  deriving Repr

/-- `_AnswerStrategy` (the question is kept only as far as it is used: its type, for address strategies) -/
inductive Strategy where
  | enum (types : List String)
  | pointer (svcs : List Svc)
  | address (qtype : Nat) (svcs : List Svc)
  | service (s : Svc)
  | text (s : Svc)
  deriving Repr

def pointerPart (reg : Registry) (q : Question) : Except PyExc (List Strategy) :=
  if Gen.Responder.q_wants_pointer q.type then
    match reg.byIndex lower reg.types (lower q.name) with
    | .error e => .error e
    | .ok svcs => .ok (if svcs.isEmpty then [] else [.pointer svcs])
  else .ok []

def addressPart (reg : Registry) (q : Question) : Except PyExc (List Strategy) :=
  if Gen.Responder.q_wants_address q.type then
    match reg.byIndex lower reg.servers (lower q.name) with
    | .error e => .error e
    | .ok svcs => .ok (if svcs.isEmpty then [] else [.address q.type svcs])
  else .ok []

def instancePart (reg : Registry) (q : Question) : List Strategy :=
  if Gen.Responder.q_wants_instance q.type then
    match sget lower (lower q.name) reg.services with
    | none => []
    | some s =>
      (if Gen.Responder.q_wants_service q.type then [.service s] else [])
      ++ (if Gen.Responder.q_wants_text q.type then [.text s] else [])
  else []

/-- `_get_answer_strategies` -/
def strategiesFor (reg : Registry) (q : Question) : Except PyExc (List Strategy) :=
  if Gen.Responder.q_is_enum q.type (decide (lower q.name = Gen.serviceTypeEnumerationName)) then
    .ok (if reg.getTypes.isEmpty then [] else [.enum reg.getTypes])
  else
    match pointerPart lower reg q with
    | .error e => .error e
    | .ok a =>
      match addressPart lower reg q with
      | .error e => .error e
      | .ok b => .ok (a ++ b ++ instancePart lower reg q)

def strategiesAll (reg : Registry) : List Question → Except PyExc (List Strategy)
  | [] => .ok []
  | q :: qs =>
    match strategiesFor lower reg q with
    | .error e => .error e
    | .ok a => match strategiesAll reg qs with
      | .error e => .error e
      | .ok b => .ok (a ++ b)

/-- the enumeration pointer for one type key; `ettl` is `_DNS_OTHER_TTL` -/
def enumPtr (ettl : Nat) (stype : String) : Rec :=
  { name := Gen.serviceTypeEnumerationName, type := Gen.typePtr, class_ := Svc.clsShared.1, unique := Svc.clsShared.2,
    ttl := ettl, created := 0, rdata := .ptr stype }

/-- successive `dict.update`s into an empty dict -/
def mergeAll (ds : List DictRS) : DictRS := ds.foldl (dictUpdate lower) []

/-- one iteration of `_add_service_type_enumeration_query_answers` -/
def enumEntry (ettl : Nat) (known : List Rec) (t : String) : DictRS :=
  if suppresses lower known (enumPtr ettl t) then [] else [(enumPtr ettl t, [])]

/-- `_add_service_type_enumeration_query_answers` -/
def answerEnum (ettl : Nat) (known : List Rec) (types : List String) : DictRS :=
  mergeAll lower (types.map (enumEntry lower ettl known))

/-- one iteration of `_add_pointer_answers` -/
def pointerEntry (known : List Rec) (s : Svc) : DictRS :=
  if suppresses lower known s.ptr then [] else [(s.ptr, recSet lower ([s.srv, s.txt] ++ s.an lower))]

/-- `_add_pointer_answers` -/
def answerPointer (known : List Rec) (svcs : List Svc) : DictRS :=
  mergeAll lower (svcs.map (pointerEntry lower known))

/-- body of the loop of `_add_address_answers` for one service -/
def addressEntries (known : List Rec) (qtype : Nat) (s : Svc) : DictRS :=
  let addrs := s.addrs
  let answers := addrs.filter (fun a => !(Gen.Responder.addr_is_other_type a.type qtype) && !(suppresses lower known a))
  let others := recSet lower (addrs.filter (fun a => Gen.Responder.addr_is_other_type a.type qtype))
  let missing := Svc.missingTypes addrs
  if !answers.isEmpty then
    let additionals := if missing.isEmpty then others else recInsert lower others (s.buildNsec missing)
    answers.map (fun a => (a, additionals))
  else if missing.contains qtype then [(s.buildNsec missing, [])]
  else []

/-- `_add_address_answers` -/
def answerAddress (known : List Rec) (qtype : Nat) (svcs : List Svc) : DictRS :=
  mergeAll lower (svcs.map (addressEntries lower known qtype))

/-- `_answer_question` -/
def Strategy.answer (ettl : Nat) (known : List Rec) : Strategy → DictRS
  | .enum types => answerEnum lower ettl known types
  | .pointer svcs => answerPointer lower known svcs
  | .address qtype svcs => answerAddress lower known qtype svcs
  | .service s => if suppresses lower known s.srv then [] else [(s.srv, s.an lower)]
  | .text s => if suppresses lower known s.txt then [] else [(s.txt, [])]

/-- which memo slots answering a strategy fills on the object `s` -/
def Strategy.warm (known : List Rec) : Strategy → Svc → Svc
  | .enum _, s => s
  | .pointer svcs, s =>
    if svcs.any (fun o => lower o.name = lower s.name) then
      if suppresses lower known s.ptr then s.warmPtr
      else ((s.warmPtr).warmSrv.warmTxt).warmAN lower
    else s
  | .address _ svcs, s => if svcs.any (fun o => lower o.name = lower s.name) then s.warmAddrs else s
  | .service o, s =>
    if lower o.name = lower s.name then
      if suppresses lower known s.srv then s.warmSrv else (s.warmSrv).warmAN lower
    else s
  | .text o, s => if lower o.name = lower s.name then s.warmTxt else s

/-- the known answers are those of the non-probe packets -/
def knownOf (msgs : List Msg) : List Rec := (msgs.filter (fun m => !m.isProbe)).flatMap (·.answers)

def questionsOf (msgs : List Msg) : List Question := msgs.flatMap (·.questions)

/-- `async_response`: `none` when no strategy applies, else the merged answer ↦ additionals map; and the
registry afterwards (memos filled) -/
def respond (ettl : Nat) (reg : Registry) (msgs : List Msg) : Except PyExc (Option DictRS × Registry) :=
  match strategiesAll lower reg (questionsOf msgs) with
  | .error e => .error e
  | .ok [] => .ok (none, reg)
  | .ok sts =>
    let known := knownOf msgs
    let m := mergeAll lower (sts.map (fun st => st.answer lower ettl known))
    let reg' := { reg with services := reg.services.map (fun s => sts.foldl (fun s st => st.warm lower known s) s) }
    .ok (some m, reg')

/-- `if additional not in sending: out.add_additional_answer(additional); sending.add(additional)` -/
def addAdditional (keys acc : List Rec) (x : Rec) : List Rec :=
  if (keys ++ acc).any (fun o => o.beq lower x) then acc else acc ++ [x]

/-- `_add_answers_additionals`: answers in name order (stable), each additional once and never if it is an
answer.  Returns (answers, additionals). -/
def packetize (d : DictRS) : List Rec × List Rec :=
  let keys := d.map (·.1)
  let sorted := d.mergeSort (fun a b => decide (a.1.name ≤ b.1.name))
  let adds := sorted.foldl (fun acc p => p.2.foldl (addAdditional lower keys) acc) []
  (sorted.map (·.1), adds)

end
end Zc
