import Zc.Model.SurviveRoute
import Zc.Gen.SurviveApi
/-! # C15 — the last uninterpreted residue: user listeners, future wake-ups, `async_notify_all`

`Zc.Survive.Route.Base` left one function uninterpreted: what the record manager does with the listeners that
are neither browsers nor lookups.  That function is library code around application code:

* `RecordManager.async_updates(now, records)`: `for listener in self.listeners.copy():
  listener.async_update_records(self.zc, now, records)` — **no `try`**, so an exception out of a user listener leaves
  `async_updates_from_response`, `datagram_received` and reaches the event loop (observed on the real code, see
  `notes/agents/C15.md`, finding F-U1);
* `ServiceInfo.async_update_records`: `if updated and new_records_futures: _resolve_all_futures_to_none(new_records_futures)`;
* `RecordManager.async_updates_complete(notify)`: the second round, then `if notify: self.zc.async_notify_all()`;
* `Zeroconf.async_notify_all`: `if notify_futures: _resolve_all_futures_to_none(notify_futures)`;
* `_resolve_all_futures_to_none`: `for fut in futures: _set_future_none_if_not_done(fut)`, `futures.clear()`;
  `_set_future_none_if_not_done`: `if not fut.done(): fut.set_result(None)` (`_utils/asyncio.py`).

Here the library part is modelled and the application part is a parameter `UserL`: the two callbacks of a user
`RecordUpdateListener`, over the listener's own state `υ`, which **may raise**.  `Base` is instantiated by `userBase`.
Which lookups saw a record that updated them (`updated`) is computed inside `ServiceInfo.async_update_records`
(C18's `processAll`), which the `Base` interface does not see: it is the parameter `upd` — every theorem holds for every `upd`.
A user callback that itself adds or removes listeners is C06's subject (`ListenerAct`) and not repeated here.  No Mathlib. -/
namespace Zc.Survive.User
open Zc Zc.Survive Zc.Survive.Comp Zc.Survive.Route

/-- a user-supplied `RecordUpdateListener`: arbitrary application code -/
structure UserL (υ ω : Type) where
  /-- `listener.async_update_records(zc, now, records)`; the cache is the one the callback can read at that moment -/
  update : υ → Ms → List (Rec × Option Rec) → Cache → Except PyExc (υ × List ω)
  /-- `listener.async_update_records_complete()` -/
  complete : υ → Cache → Except PyExc (υ × List ω)

/-- an `asyncio.Future` as the library touches it -/
structure Fut where
  id : Nat
  /-- `fut.done()`: a result or an exception was set, or the future was cancelled -/
  done : Bool
  deriving DecidableEq, Repr, Inhabited

/-- `fut.set_result(None)`: `InvalidStateError` on a future that is done -/
def Fut.setResult (f : Fut) : Except PyExc Fut := if f.done then .error .other else .ok { f with done := true }

/-- `_set_future_none_if_not_done(fut)`: `if not fut.done(): fut.set_result(None)` (the test is a translated leaf) -/
def setNoneIfNotDone (f : Fut) : Except PyExc Fut := if Gen.SurviveApi.fut_set_guard f.done then f.setResult else .ok f

/-- what `_resolve_all_futures_to_none` does with one future: through the guard (translated leaf `resolve_all_guarded`: does the loop
call `_set_future_none_if_not_done`?), or `fut.set_result(None)` outright -/
def resolveOne (f : Fut) : Except PyExc Fut :=
  if Gen.SurviveApi.resolve_all_guarded then setNoneIfNotDone f else f.setResult

/-- the loop of `_resolve_all_futures_to_none(futures)`; returns the futures as they are afterwards (the set itself is then cleared) -/
def resolveAll : List Fut → Except PyExc (List Fut)
  | [] => .ok []
  | f :: fs =>
    match resolveOne f with
    | .error e => .error e
    | .ok f' =>
      match resolveAll fs with
      | .error e => .error e
      | .ok r => .ok (f' :: r)

/-- `if futures: _resolve_all_futures_to_none(futures)` when `cond`: the set afterwards (`futures.clear()`) -/
def wake (cond : Bool) (fs : List Fut) : Except PyExc (List Fut) :=
  if cond then
    match resolveAll fs with
    | .error e => .error e
    | .ok _ => .ok []
  else .ok fs

/-- the part of the host this file interprets -/
structure UState (υ : Type) where
  /-- the user listeners registered with the record manager (`zc.async_add_listener(listener, None)`), in iteration order -/
  users : List υ := []
  /-- `zc._notify_futures` -/
  notify : List Fut := []
  /-- `_new_records_futures` of each lookup in progress -/
  lfuts : List (List Fut) := []

section
variable {υ ω : Type}

/-- one round over the user listeners, in order; the first exception ends the round and propagates -/
def roundU (f : υ → Except PyExc (υ × List ω)) : List υ → Except PyExc (List υ × List ω)
  | [] => .ok ([], [])
  | u :: us =>
    match f u with
    | .error e => .error e
    | .ok (u', o) =>
      match roundU f us with
      | .error e => .error e
      | .ok (us', o') => .ok (u' :: us', o ++ o')

/-- the lookups' own wake-ups in round 1 -/
def wakeLookups (upd : Nat → Bool) : Nat → List (List Fut) → Except PyExc (List (List Fut))
  | _, [] => .ok []
  | j, fs :: rest =>
    match wake (upd j) fs with
    | .error e => .error e
    | .ok fs' =>
      match wakeLookups upd (j + 1) rest with
      | .error e => .error e
      | .ok r => .ok (fs' :: r)

variable (U : UserL υ ω) (upd : Ms → List (Rec × Option Rec) → Nat → Bool)

/-- what the record manager does with the listeners that are neither browsers nor lookups, and with the futures:
round 1 (`async_update_records`), the lookups' wake-ups, round 2 (`async_update_records_complete`), `async_notify_all` -/
def listeners (r : UState υ) (now : Ms) (pairs : List (Rec × Option Rec)) (c1 c2 : Cache) (n : Bool) :
    Except PyExc (UState υ × List ω) :=
  match roundU (fun u => U.update u now pairs c1) r.users with
  | .error e => .error e
  | .ok (us1, o1) =>
    match wakeLookups (upd now pairs) 0 r.lfuts with
    | .error e => .error e
    | .ok lf =>
      match roundU (fun u => U.complete u c2) us1 with
      | .error e => .error e
      | .ok (us2, o2) =>
        match wake n r.notify with
        | .error e => .error e
        | .ok nf => .ok ({ users := us2, notify := nf, lfuts := lf }, o1 ++ o2)

/-- `Base` with the library part interpreted -/
def userBase : Base (UState υ) ω where
  listeners := listeners U upd

end

end Zc.Survive.User
