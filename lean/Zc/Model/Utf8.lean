import Zc.Model.Basic
/-! CPython's `bytes.decode('utf-8', 'replace')` (Unicode "maximal subpart" rule, Table 3-7)
and `str.encode('utf-8')`, over code points.  See notes/model-spec.md §15.
Written as a one-byte-at-a-time state machine so that it is structurally recursive. -/
namespace Zc.Utf8

/-- For a lead byte: number of continuation bytes and the allowed range of the *first* continuation. -/
def leadInfo (b : Nat) : Option (Nat × Nat × Nat) :=
  if 0xC2 ≤ b ∧ b ≤ 0xDF then some (1, 0x80, 0xBF)
  else if b = 0xE0 then some (2, 0xA0, 0xBF)
  else if (0xE1 ≤ b ∧ b ≤ 0xEC) ∨ b = 0xEE ∨ b = 0xEF then some (2, 0x80, 0xBF)
  else if b = 0xED then some (2, 0x80, 0x9F)
  else if b = 0xF0 then some (3, 0x90, 0xBF)
  else if 0xF1 ≤ b ∧ b ≤ 0xF3 then some (3, 0x80, 0xBF)
  else if b = 0xF4 then some (3, 0x80, 0x8F)
  else none

def replacement : Nat := 0xFFFD

/-- decoder state: `need = 0` is idle; otherwise `need` continuation bytes are outstanding,
the next one restricted to `[lo, hi]` -/
structure St where
  need : Nat
  acc : Nat
  lo : Nat
  hi : Nat
  deriving Repr, DecidableEq

def idle : St := ⟨0, 0, 0, 0⟩

/-- a byte seen in the idle state: emitted code points and the new state -/
def start (b : Nat) : List Nat × St :=
  if b < 0x80 then ([b], idle)
  else match leadInfo b with
    | none => ([replacement], idle)
    | some (n, lo, hi) =>
      ([], ⟨n, (if n = 1 then b - 0xC0 else if n = 2 then b - 0xE0 else b - 0xF0), lo, hi⟩)

def go : St → List UInt8 → List Nat
  | st, [] => if st.need = 0 then [] else [replacement]
  | st, b :: rest =>
    if st.need = 0 then
      (start b.toNat).1 ++ go (start b.toNat).2 rest
    else if st.lo ≤ b.toNat ∧ b.toNat ≤ st.hi then
      if st.need = 1 then (st.acc * 64 + (b.toNat - 0x80)) :: go idle rest
      else go ⟨st.need - 1, st.acc * 64 + (b.toNat - 0x80), 0x80, 0xBF⟩ rest
    else
      -- maximal subpart ends here: one U+FFFD for what was accepted, resume at this byte
      replacement :: ((start b.toNat).1 ++ go (start b.toNat).2 rest)

/-- `bytes.decode('utf-8', 'replace')` as a list of code points -/
def decodeReplace (b : List UInt8) : List Nat := go idle b

/-- number of characters of the decoded text -/
def charCount (b : List UInt8) : Nat := (decodeReplace b).length

/-- UTF-8 length of one code point (no surrogates are ever produced by `decodeReplace`) -/
def encLen (c : Nat) : Nat := if c < 0x80 then 1 else if c < 0x800 then 2 else if c < 0x10000 then 3 else 4

/-- `len(text.encode('utf-8'))` of the decoded text -/
def reencodedLen (b : List UInt8) : Nat := ((decodeReplace b).map encLen).sum

def encodeCp (c : Nat) : List UInt8 :=
  if c < 0x80 then [c.toUInt8]
  else if c < 0x800 then [(0xC0 + c / 64).toUInt8, (0x80 + c % 64).toUInt8]
  else if c < 0x10000 then [(0xE0 + c / 4096).toUInt8, (0x80 + c / 64 % 64).toUInt8, (0x80 + c % 64).toUInt8]
  else [(0xF0 + c / 262144).toUInt8, (0x80 + c / 4096 % 64).toUInt8, (0x80 + c / 64 % 64).toUInt8, (0x80 + c % 64).toUInt8]

def encode (cps : List Nat) : List UInt8 := cps.flatMap encodeCp

def isAscii (b : List UInt8) : Bool := b.all (fun x => x.toNat < 0x80)

end Zc.Utf8
