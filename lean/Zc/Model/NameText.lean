import Zc.Model.Wire.Encode
import Zc.Gen.NameText
/-! # The text layer of DNS names

The wire models carry a name as its list of labels (`WName = List (List UInt8)`).  The library works on
`str`: `DNSOutgoing.write_name` drops one trailing dot, `split('.')`s, UTF-8 encodes every piece and keys
its compression table by the *text* of every suffix; `DNSIncoming._decode_labels_at_offset` decodes each
label with `('utf-8', 'replace')`, `_read_name` joins with dots, appends a dot and counts characters.
This file models exactly that, over `Text = List Char` (a Python `str` without lone surrogates — a `str`
with one cannot be encoded and is not text).

Statement-by-statement correspondence (source pins in `Zc.Gen.NameText`, stated in `GenFacts/NameText.lean`):

| Python                                              | here                       |
|-----------------------------------------------------|----------------------------|
| `if name.endswith('.'): name = name[:-1]`           | `stripTrailingDot`         |
| `name.split('.')`                                   | `splitDot`                 |
| `'.'.join(labels[count:])`, `'.'.join(labels) + '.'`| `joinDot`, `textOfLabels`  |
| `s.encode('utf-8')`                                 | `encodeText`               |
| `bytes.decode('utf-8', 'replace')`                  | `decodeLabel`              |
| `len(name)`                                         | `List.length`              |
| `write_name` with its `str`-keyed `self.names`      | `writeNameText`            |

Corner cases are the library's: `''` and `'.'` are both the label list `['']` (written `00 00`), `'a..b'` has an
empty label in the middle (written as a premature root byte), only **one** trailing dot is dropped
(`'a.b..'` is `['a', 'b', '']`), a name without trailing dot is treated like the one with it.
No Mathlib (compiled into `zcdriver`). -/
namespace Zc.NameText
open Zc Zc.Wire

/-- a Python `str` without lone surrogates -/
abbrev Text := List Char

/-! ## `split` / `join` at a one-element separator (generic, so that the code-point version used by C15's
`reencName` is literally the same function) -/
section generic
variable {α : Type} [DecidableEq α]

/-- `s.split(sep)` -/
def splitOn (sep : α) : List α → List (List α)
  | [] => [[]]
  | c :: r =>
    if c = sep then [] :: splitOn sep r
    else
      match splitOn sep r with
      | [] => [[c]]
      | l :: ls => (c :: l) :: ls

/-- `sep.join(ls)` -/
def joinWith (sep : α) : List (List α) → List α
  | [] => []
  | [l] => l
  | l :: l' :: ls => l ++ sep :: joinWith sep (l' :: ls)

end generic

def dot : Char := '.'

/-- `s.split('.')` -/
def splitDot (s : Text) : List Text := splitOn dot s

/-- `'.'.join(ls)` -/
def joinDot (ls : List Text) : Text := joinWith dot ls

/-- `s.endswith('.')` -/
def endsWithDot (s : Text) : Bool := s.getLast? == some dot

/-- `if name.endswith('.'): name = name[:-1]` — exactly one dot -/
def stripTrailingDot (s : Text) : Text := if endsWithDot s then s.dropLast else s

/-- `s.encode('utf-8')` -/
def encodeText (s : Text) : Label := Utf8.encode (s.map Char.toNat)

/-- `len(s.encode('utf-8'))` -/
def utf8Len (s : Text) : Nat := (encodeText s).length

/-- `label.decode('utf-8', 'replace')` -/
def decodeLabel (l : Label) : Text := (Utf8.decodeReplace l).map Char.ofNat

/-- the label list `write_name` works on: `name[:-1] if name.endswith('.')`, `.split('.')`, each piece UTF-8 encoded -/
def labelsOfText (s : Text) : WName := (splitDot (stripTrailingDot s)).map encodeText

/-- the `str` `_read_name` returns for the labels `_decode_labels_at_offset` collected: `'.'.join(labels) + '.'` -/
def textOfLabels (n : WName) : Text := joinDot (n.map decodeLabel) ++ [dot]

/-- the label list under which the names table of the *model* (`Encode.Names`) holds the text key `k` -/
def keyLabels (k : Text) : WName := (splitDot k).map encodeText

/-! ## `write_name` on text, with the library's `str`-keyed names table -/

/-- `self.names`: text of a (stripped) name or suffix ↦ absolute offset -/
abbrev TNames := List (Text × Nat)

/-- `self.names.get(key, 0)`: a stored 0 is indistinguishable from absence -/
def lookupText (names : TNames) (k : Text) : Option Nat :=
  match names.find? (fun p => p.1 = k) with
  | some p => if p.2 = 0 then none else some p.2
  | none => none

/-- the loop `for count in range(1, len(labels))` of `write_name`, on `labels[count:]`, then the root byte.
`start`, `nameLen` are `start_size` and `len(name.encode('utf-8'))`; the offset registered for a suffix is
computed from *text lengths* (`Gen.NameText.suffix_offset`), not from the running size. -/
def writeRest (start nameLen : Nat) (names : TNames) : List Text → Except PyExc (Bytes × TNames)
  | [] => do let b ← Encode.byteOf 0; pure (b, names)
  | l :: rest =>
    let partialName := joinDot (l :: rest)
    match lookupText names partialName with
    | some idx => do let b ← Encode.linkOf idx; pure (b, names)
    | none => do
      let off := (Gen.NameText.suffix_offset start nameLen (utf8Len partialName)).toNat
      let lb ← Encode.utfOf (encodeText l)
      let (rb, names') ← writeRest start nameLen ((partialName, off) :: names) rest
      pure (lb ++ rb, names')

/-- `DNSOutgoing.write_name(name)` at absolute offset `size`: the bytes appended and the new names table -/
def writeNameText (size : Nat) (names : TNames) (name : Text) : Except PyExc (Bytes × TNames) :=
  let name := stripTrailingDot name
  match lookupText names name with
  | some idx => do let b ← Encode.linkOf idx; pure (b, names)
  | none =>
    match splitDot name with
    | [] => .error .indexError       -- `labels[0]`; `split` never returns `[]`
    | l0 :: rest => do
      let lb ← Encode.utfOf (encodeText l0)
      let (rb, names') ← writeRest size (utf8Len name) ((name, size) :: names) rest
      pure (lb ++ rb, names')

/-! ## messages whose names are text (what the application hands to `DNSOutgoing`, what `DNSIncoming` shows) -/

/-- rdata as handed to the builder, names as `str` -/
inductive TRData where
  | addr (a : Bytes)
  | ptr (target : Text)
  | txt (text : Bytes)
  | srv (priority weight port : Nat) (target : Text)
  | hinfo (cpu os : Bytes)
  | nsec (next : Text) (types : List Nat)
  deriving DecidableEq, Repr, Inhabited

structure TQuestion where
  name : Text
  qtype : Nat
  qclass : Nat
  unique : Bool
  deriving DecidableEq, Repr, Inhabited

structure TRecord where
  name : Text
  rtype : Nat
  rclass : Nat
  unique : Bool
  ttl : Nat
  created : Ms
  rdata : TRData
  deriving DecidableEq, Repr, Inhabited

structure TMsg where
  flags : Nat
  id : Nat
  multicast : Bool
  questions : List TQuestion
  answers : List (TRecord × Ms)
  authorities : List TRecord
  additionals : List TRecord
  deriving Repr, Inhabited

def TRData.toE : TRData → Encode.ERData
  | .addr a => .addr a
  | .ptr t => .ptr (labelsOfText t)
  | .txt t => .txt t
  | .srv p w q t => .srv p w q (labelsOfText t)
  | .hinfo c o => .hinfo c o
  | .nsec n ts => .nsec (labelsOfText n) ts

def TQuestion.toE (q : TQuestion) : Encode.EQuestion := ⟨labelsOfText q.name, q.qtype, q.qclass, q.unique⟩

def TRecord.toE (r : TRecord) : Encode.ERecord :=
  ⟨labelsOfText r.name, r.rtype, r.rclass, r.unique, r.ttl, r.created, r.rdata.toE⟩

/-- what `write_name` makes of the message: every name split and encoded -/
def TMsg.toE (m : TMsg) : Encode.Msg :=
  { flags := m.flags, id := m.id, multicast := m.multicast, questions := m.questions.map TQuestion.toE,
    answers := m.answers.map (fun x => (x.1.toE, x.2)), authorities := m.authorities.map TRecord.toE,
    additionals := m.additionals.map TRecord.toE }

def TRData.names : TRData → List Text
  | .ptr t => [t]
  | .srv _ _ _ t => [t]
  | .nsec n _ => [n]
  | _ => []

/-- every name handed to the builder -/
def TMsg.names (m : TMsg) : List Text :=
  m.questions.map (·.name)
    ++ (m.answers.map (·.1) ++ m.authorities ++ m.additionals).flatMap (fun r => r.name :: r.rdata.names)

/-- rdata as `DNSIncoming` presents it: names as `str` -/
inductive SRData where
  | addr (a : Bytes)
  | ptr (target : Text)
  | txt (text : Bytes)
  | srv (priority weight port : Nat) (target : Text)
  | hinfo (cpu os : Bytes)
  | nsec (next : Text) (types : List Nat)
  | other (raw : Bytes)
  deriving DecidableEq, Repr, Inhabited

/-- a question as seen on a decoded object (`qclass`: the 16-bit field as transmitted) -/
structure SQuestion where
  name : Text
  qtype : Nat
  qclass : Nat
  deriving DecidableEq, Repr, Inhabited

structure SRecord where
  name : Text
  rtype : Nat
  rclass : Nat
  ttl : Nat
  rdata : SRData
  deriving DecidableEq, Repr, Inhabited

/-- the decoder's view of wire rdata: every name through `_read_name` -/
def seenRData : WRData → SRData
  | .addr a => .addr a
  | .ptr t => .ptr (textOfLabels t)
  | .txt t => .txt t
  | .srv p w q t => .srv p w q (textOfLabels t)
  | .hinfo c o => .hinfo c o
  | .nsec n ts => .nsec (textOfLabels n) ts
  | .other r => .other r

def seenQuestion (q : WQuestion) : SQuestion := ⟨textOfLabels q.name, q.qtype, q.qclass⟩

def seenRecord (r : WRecord) : SRecord := ⟨textOfLabels r.name, r.rtype, r.rclass, r.ttl, seenRData r.rdata⟩

/-- the spelling a name comes back with: `_read_name` always ends it with a dot -/
def canonical (s : Text) : Text := stripTrailingDot s ++ [dot]

/-- what must come back for rdata handed to the builder: the same strings -/
def TRData.expect : TRData → SRData
  | .addr a => .addr a
  | .ptr t => .ptr (canonical t)
  | .txt t => .txt t
  | .srv p w q t => .srv p w q (canonical t)
  | .hinfo c o => .hinfo c o
  | .nsec n ts => .nsec (canonical n) ts

def TQuestion.expect (multicast : Bool) (q : TQuestion) : SQuestion :=
  ⟨canonical q.name, q.qtype, Encode.wireClass q.qclass q.unique multicast⟩

def TRecord.expect (multicast : Bool) (r : TRecord) (now : Ms) : SRecord :=
  ⟨canonical r.name, r.rtype, Encode.wireClass r.rclass r.unique multicast, Encode.wireTtl r.toE now, r.rdata.expect⟩

/-! ## the property's quantifier over names, in text terms -/

/-- a fully-qualified name inside C01's quantifier: trailing dot, no empty label, every label at most 63
bytes of UTF-8, at most 253 characters (trailing dot included) and at most 255 octets on the wire
(`len(name.encode()) + 1`: per label a length byte instead of the dot, plus the root byte) -/
def TextName (s : Text) : Prop :=
  endsWithDot s = true ∧ (∀ l ∈ splitDot (stripTrailingDot s), l ≠ [] ∧ utf8Len l ≤ 63) ∧ s.length ≤ 253 ∧ utf8Len s + 1 ≤ 255

instance (s : Text) : Decidable (TextName s) := by unfold TextName; infer_instance

/-! ## line protocol: a text name is the token `=<hex of its UTF-8>` (`=-` for the empty string) -/

/-- the `str` a token stands for (the harness only sends valid UTF-8: a `str` with a lone surrogate is not text) -/
def textOfToken (t : String) : Option Text :=
  match t.toList with
  | '=' :: h => (bytesOfHex (String.ofList h)).map decodeLabel
  | _ => none

def tokenOfText (s : Text) : String := "=" ++ hexOfBytes (encodeText s)

/-- a name token: `=<hex>` is text, put through `labelsOfText`; anything else is the label-list form of `Wire.parseName` -/
def parseNameTok (t : String) : Option WName :=
  match textOfToken t with
  | some s => some (labelsOfText s)
  | none => parseName t

def Tok.nameT : Tok WName := do let t ← Tok.next; match parseNameTok t with | some n => pure n | none => failure

end Zc.NameText
