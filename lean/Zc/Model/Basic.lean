/-! Shared types of the hand-written model (DESIGN §4).  No Mathlib. -/
namespace Zc

abbrev Byte := UInt8
abbrev Bytes := List UInt8
/-- milliseconds -/
abbrev Ms := Int

/-- the Python exceptions the model distinguishes (DESIGN §4.6) -/
inductive PyExc where
  | indexError | structError | decodeError | namePartTooLong | keyError | valueError
  | assertion | recursion | badType | alreadyRegistered | nonUnique | notRunning | other
  deriving DecidableEq, Repr, Inhabited

def PyExc.name : PyExc → String
  | .indexError => "IndexError" | .structError => "struct.error" | .decodeError => "IncomingDecodeError"
  | .namePartTooLong => "NamePartTooLongException" | .keyError => "KeyError" | .valueError => "ValueError"
  | .assertion => "AssertionError" | .recursion => "RecursionError" | .badType => "BadTypeInNameException"
  | .alreadyRegistered => "ServiceNameAlreadyRegistered" | .nonUnique => "NonUniqueNameException"
  | .notRunning => "NotRunningException" | .other => "Exception"

/-! ### hex and tokens (the line protocol of the correspondence driver) -/

def hexDigit (n : Nat) : Char :=
  if n < 10 then Char.ofNat (48 + n) else Char.ofNat (87 + n)

def hexOfBytes (b : Bytes) : String :=
  if b.isEmpty then "-" else
  String.ofList (b.foldr (fun x acc => hexDigit (x.toNat / 16) :: hexDigit (x.toNat % 16) :: acc) [])

def hexVal (c : Char) : Option Nat :=
  if '0' ≤ c ∧ c ≤ '9' then some (c.toNat - 48)
  else if 'a' ≤ c ∧ c ≤ 'f' then some (c.toNat - 87)
  else if 'A' ≤ c ∧ c ≤ 'F' then some (c.toNat - 55)
  else none

def bytesOfHexChars : List Char → Option Bytes
  | [] => some []
  | [_] => none
  | a :: b :: rest => do
    let x ← hexVal a
    let y ← hexVal b
    let r ← bytesOfHexChars rest
    pure ((x * 16 + y).toUInt8 :: r)

def bytesOfHex (s : String) : Option Bytes :=
  if s = "-" then some [] else bytesOfHexChars s.toList

def strOfHex (s : String) : Option String := do
  let b ← bytesOfHex s
  String.fromUTF8? ⟨b.toArray⟩

def hexOfStr (s : String) : String := hexOfBytes s.toUTF8.toList

/-- token-stream parser -/
abbrev Tok := StateT (List String) Option

namespace Tok
def next : Tok String := fun s => match s with | [] => none | t :: r => some (t, r)
def nat : Tok Nat := do let t ← next; match t.toNat? with | some n => pure n | none => failure
def int : Tok Int := do let t ← next; match t.toInt? with | some n => pure n | none => failure
def bool : Tok Bool := do let t ← next; if t = "1" then pure true else if t = "0" then pure false else failure
def bytes : Tok Bytes := do let t ← next; match bytesOfHex t with | some b => pure b | none => failure
def str : Tok String := do let t ← next; match strOfHex t with | some b => pure b | none => failure
def optNat : Tok (Option Nat) := do let t ← next; if t = "-" then pure none else match t.toNat? with | some n => pure (some n) | none => failure
def natList : Tok (List Nat) := do
  let t ← next
  if t = "-" then pure [] else (t.splitOn ",").mapM (fun x => match x.toNat? with | some n => pure n | none => failure)
def many {α} (p : Tok α) : Nat → Tok (List α)
  | 0 => pure []
  | n+1 => do let a ← p; let r ← many p n; pure (a :: r)
/-- a count followed by that many items -/
def list {α} (p : Tok α) : Tok (List α) := do let n ← nat; many p n
def done : Tok Unit := fun s => match s with | [] => some ((), []) | _ => none
end Tok

def tokensAux : List Char → List Char → List String → List String
  | [], cur, acc => (if cur.isEmpty then acc else String.ofList cur.reverse :: acc).reverse
  | c :: rest, cur, acc =>
    if c = ' ' || c = '\n' || c = '\r' || c = '\t' then
      tokensAux rest [] (if cur.isEmpty then acc else String.ofList cur.reverse :: acc)
    else tokensAux rest (c :: cur) acc

def tokens (line : String) : List String := tokensAux line.toList [] []

def natListStr (l : List Nat) : String :=
  if l.isEmpty then "-" else ",".intercalate (l.map toString)

end Zc
