import Zc.Model.Basic
import Zc.Gen.Const
import Zc.Gen.Dns
import Zc.Gen.Reply
/-! Reply timing and routing (C12, C11): `_handlers/query_handler.py` (classification and
`handle_assembled_query`), `_handlers/multicast_outgoing_queue.py`, the truncated-query part of
`_listener.py`, and the packet-level facts of `_handlers/answers.py` / `_protocol/outgoing.py`
that C11 speaks about.  No Mathlib.

Records are identified by a number (`RecId`): the harness numbers the distinct records (Python
`==`, i.e. C20 identity) of a scenario.  What the registry answers to a question
(`_answer_question`, C03's subject) is an input: each question strategy arrives with its candidate
answers and their additionals; known-answer suppression, classification, queueing and sending are
modelled here.  The host's cache is an input too: every assembly carries, for each record, what
`DNSCache.async_get_unique` returned at that moment (`Seen`). -/
namespace Zc.Reply
open Zc.Gen

abbrev RecId := Nat

/-- Python `dict[DNSRecord, Set[DNSRecord]]`: insertion-ordered association list -/
abbrev Dict := List (RecId × List RecId)

def Dict.keys (d : Dict) : List RecId := d.map (·.1)

def Dict.has (d : Dict) (k : RecId) : Bool := d.any (fun e => e.1 == k)

/-- `d[k] = v` -/
def Dict.set (d : Dict) (k : RecId) (v : List RecId) : Dict :=
  if d.has k then d.map (fun e => if e.1 == k then (k, v) else e) else d ++ [(k, v)]

/-- `d.update(o)` -/
def Dict.update (d : Dict) (o : Dict) : Dict := o.foldl (fun acc e => acc.set e.1 e.2) d

/-- `d.pop(k, None)` -/
def Dict.erase (d : Dict) (k : RecId) : Dict := d.filter (fun e => !(e.1 == k))

def Dict.get (d : Dict) (k : RecId) : List RecId :=
  match d.find? (fun e => e.1 == k) with | some e => e.2 | none => []

/-- `set.add` -/
def setAdd (s : List RecId) (k : RecId) : List RecId := if s.contains k then s else s ++ [k]

/-! ### classification (`_QueryResponse`) -/

/-- the cached copy of a record: creation time (last multicast sighting) and TTL -/
structure Seen where
  created : Int
  ttl : Nat
  deriving Repr, DecidableEq, Inhabited

/-- `_has_mcast_within_one_quarter_ttl` -/
def withinQuarter (seen : Option Seen) (now : Int) : Bool :=
  Gen.Reply.has_mcast_within_one_quarter_ttl seen.isNone
    (match seen with | some s => Gen.Dns.is_recent s.created s.ttl now | none => false)

/-- `_has_mcast_record_in_last_second` -/
def inLastSecond (seen : Option Seen) (now : Int) : Bool :=
  Gen.Reply.has_mcast_record_in_last_second seen.isNone now (match seen with | some s => s.created | none => 0)

inductive McRoute where | now | lastSecond | aggregate
  deriving Repr, DecidableEq

/-- the per-record cascade of `add_mcast_question_response` -/
def mcRoute (isProbe inLast : Bool) (nq q0type : Nat) : McRoute :=
  if Gen.Reply.mc_test_probe isProbe then .now
  else if Gen.Reply.mc_test_last_second inLast then .lastSecond
  else if Gen.Reply.mc_test_single_question nq && Gen.Reply.mc_test_immediate_type q0type then .now
  else .aggregate

/-- the per-record cascade of `add_qu_question_response`: (goes to `_ucast`, goes to `_mcast_now`) -/
def quRoute (isProbe within : Bool) : Bool × Bool :=
  let u := Gen.Reply.qu_test_probe isProbe
  if Gen.Reply.qu_test_mcast_now within then (u, true)
  else (u || Gen.Reply.qu_test_ucast isProbe, false)

/-- a candidate answer of a strategy: the record, its TTL, its additionals -/
structure Cand where
  id : RecId
  ttl : Nat
  adds : List RecId
  /-- `false` for the one answer `_answer_question` adds without consulting the known answers
      (the NSEC that answers a question for a missing address type) -/
  sup : Bool := true
  deriving Repr, Inhabited

/-- one `_AnswerStrategy` with what `_answer_question` yields for it before known-answer suppression -/
structure QItem where
  qu : Bool
  cands : List Cand
  deriving Repr, Inhabited

/-- a parsed query datagram (`DNSIncoming`) as far as the responder looks at it -/
structure Pkt where
  dataId : Nat               -- identifies the datagram bytes
  now : Int                  -- `msg.now`
  id : Nat                   -- DNS message id
  flags : Nat
  numAuth : Nat
  nq : Nat                   -- `len(msg._questions)`
  q0type : Nat               -- type of the first question (0 if none)
  items : List QItem         -- strategies of this packet's questions, in order
  known : List (RecId × Nat) -- answer section: (record, ttl)
  deriving Repr, Inhabited

def Pkt.truncated (p : Pkt) : Bool := Gen.Reply.in_truncated p.flags
def Pkt.isProbe (p : Pkt) : Bool := Gen.Reply.in_is_probe p.numAuth

/-- `DNSRRSet.suppresses`: the dict comprehension keeps the last equal record's value -/
def suppresses (known : List (RecId × Nat)) (c : Cand) : Bool :=
  c.sup &&
  match known.reverse.find? (fun k => k.1 == c.id) with
  | some k => Gen.Dns.rrset_suppresses_ttl c.ttl k.2
  | none => false

def answerSet (known : List (RecId × Nat)) (it : QItem) : Dict :=
  (it.cands.filter (fun c => !suppresses known c)).foldl (fun d c => d.set c.id c.adds) []

structure QR where
  additionals : Dict := []
  ucast : List RecId := []
  mcastNow : List RecId := []
  mcastAgg : List RecId := []
  mcastLast : List RecId := []
  deriving Repr, Inhabited

abbrev SeenMap := List (RecId × Seen)
def SeenMap.get (m : SeenMap) (r : RecId) : Option Seen := (m.find? (fun e => e.1 == r)).map (·.2)

/-- `add_qu_question_response` -/
def QR.addQu (isProbe : Bool) (seen : SeenMap) (now : Int) (qr : QR) (answers : Dict) : QR :=
  answers.foldl (fun qr e =>
    let (u, m) := quRoute isProbe (withinQuarter (seen.get e.1) now)
    { qr with additionals := qr.additionals.set e.1 e.2
              ucast := if u then setAdd qr.ucast e.1 else qr.ucast
              mcastNow := if m then setAdd qr.mcastNow e.1 else qr.mcastNow }) qr

/-- `add_ucast_question_response` -/
def QR.addUcast (qr : QR) (answers : Dict) : QR :=
  { qr with additionals := qr.additionals.update answers, ucast := answers.keys.foldl setAdd qr.ucast }

/-- `add_mcast_question_response` -/
def QR.addMcast (isProbe : Bool) (seen : SeenMap) (now : Int) (nq q0type : Nat) (qr : QR) (answers : Dict) : QR :=
  answers.foldl (fun qr e =>
    match mcRoute isProbe (inLastSecond (seen.get e.1) now) nq q0type with
    | .now => { qr with mcastNow := setAdd qr.mcastNow e.1 }
    | .lastSecond => { qr with mcastLast := setAdd qr.mcastLast e.1 }
    | .aggregate => { qr with mcastAgg := setAdd qr.mcastAgg e.1 })
    { qr with additionals := qr.additionals.update answers }

/-- `QuestionAnswers` -/
structure QA where
  ucast : Dict
  mcastNow : Dict
  mcastAgg : Dict
  mcastLast : Dict
  deriving Repr, Inhabited, DecidableEq

def QR.answers (qr : QR) : QA :=
  let f := fun (s : List RecId) => s.map (fun r => (r, qr.additionals.get r))
  { ucast := f qr.ucast, mcastNow := f qr.mcastNow, mcastAgg := f qr.mcastAgg, mcastLast := f qr.mcastLast }

/-- routing of one strategy's answers inside `async_response` -/
def QR.route (ucastSource isProbe : Bool) (seen : SeenMap) (now : Int) (nq q0type : Nat) (qr : QR) (qu : Bool) (answers : Dict) : QR :=
  if Gen.Reply.route_qu_only ucastSource qu then qr.addQu isProbe seen now answers
  else
    let qr := if ucastSource then qr.addUcast answers else qr
    qr.addMcast isProbe seen now nq q0type answers

/-- `QueryHandler.async_response` (`none`: no strategy, nothing to say) -/
def asyncResponse (pkts : List Pkt) (ucastSource : Bool) (seen : SeenMap) : Option QA :=
  let items := pkts.flatMap (·.items)
  if items.isEmpty then none else
  match pkts.head?, pkts.getLast? with
  | some first, some last =>
    let isProbe := pkts.any (·.isProbe)
    let known := (pkts.filter (fun p => !p.isProbe)).flatMap (·.known)
    let qr : QR := items.foldl (fun (qr : QR) it => qr.route ucastSource isProbe seen last.now first.nq first.q0type it.qu (answerSet known it)) {}
    some qr.answers
  | _, _ => none

/-! ### what goes on the wire -/

/-- `_add_answers_additionals`: the answers, and every additional that is not an answer, once -/
def additionalsOf (d : Dict) : List RecId :=
  (d.flatMap (·.2)).foldl (fun acc a => if d.keys.contains a || acc.contains a then acc else acc ++ [a]) []

inductive Out where
  /-- `construct_outgoing_multicast_answers` sent to the group on every sender socket -/
  | mcast (answers adds : List RecId)
  /-- `construct_outgoing_unicast_answers` sent to `(addr, port)` on the receiving transport -/
  | ucast (addr port id : Nat) (nquestions : Nat) (answers adds : List RecId)   -- `nquestions`: size of the echoed question section
  deriving Repr, DecidableEq

def Out.ofMcast (d : Dict) : Out := .mcast d.keys (additionalsOf d)

/-! ### `MulticastOutgoingQueue` -/

structure QP where
  addl : Int   -- `_additional_delay`
  agg : Int    -- `_aggregation_delay`
  deriving Repr

def outQP : QP := { addl := 0, agg := Gen.aggregationDelay }
def delayQP : QP := { addl := Gen.oneSecond, agg := Gen.protectedAggregationDelay }
def drawLo : Int := (Gen.multicastDelayRandomInterval.getD 0 0 : Nat)
def drawHi : Int := (Gen.multicastDelayRandomInterval.getD 1 0 : Nat)

/-- `AnswerGroup`; `born` is a ghost field (the loop time at which the group was created), not in the code -/
structure Group where
  sa : Int
  sb : Int
  answers : Dict
  born : Int
  deriving Repr

structure Queue where
  groups : List Group := []
  /-- due time of the one armed `call_at(…, self.async_ready)`, if any -/
  timer : Option Int := none
  deriving Repr

instance : Inhabited Queue := ⟨{}⟩

/-- `async_add(now, answers)` executed at loop time `clock` with random draw `draw` -/
def Queue.add (p : QP) (q : Queue) (clock now draw : Int) (answers : Dict) : Queue :=
  let rd := Gen.Reply.q_random_delay draw p.addl
  let sa := Gen.Reply.q_send_after now rd
  let sb := Gen.Reply.q_send_before now p.agg p.addl
  if Gen.Reply.q_add_nonempty q.groups.length then
    match q.groups.getLast? with
    | some last =>
      if Gen.Reply.q_add_merge sa last.sa then
        { q with groups := q.groups.dropLast ++ [{ last with answers := last.answers.update answers }] }
      else
        { q with groups := q.groups ++ [{ sa := sa, sb := sb, answers := answers, born := clock }] }
    | none => q
  else
    { groups := q.groups ++ [{ sa := sa, sb := sb, answers := answers, born := clock }]
      timer := some (clock + Gen.Reply.q_add_timer_delay rd) }

/-- the `while` loop of `async_ready` -/
def popReady (now : Int) : List Group → Dict → List Group × Dict
  | [], acc => ([], acc)
  | g :: gs, acc =>
    if Gen.Reply.q_ready_pop (gs.length + 1) g.sa now then popReady now gs (acc.update g.answers) else (g :: gs, acc)

/-- `_remove_answers_from_queue` -/
def removeAnswers (gs : List Group) (batch : Dict) : List Group :=
  gs.map (fun g => { g with answers := batch.keys.foldl Dict.erase g.answers })

/-- `async_remove_answers(records)` (the repair of D5, 07342aa; called on both queues by `async_unregister_service` and
`generate_unregister_all_services`): every pending group loses the answers that are withdrawn, the answers that stay lose the
withdrawn additionals.  Groups are kept even when they become empty (`async_ready` then sends nothing for them).
`Dict.withdraw` is the dict comprehension, `Queue.removeRecords` the loop over the pending groups. -/
def Dict.withdraw (d : Dict) (remove : List RecId) : Dict :=
  (d.filter (fun e => Gen.Reply.q_remove_keep (remove.contains e.1))).map (fun e => (e.1, e.2.filter (fun a => !remove.contains a)))

def Queue.removeRecords (q : Queue) (remove : List RecId) : Queue :=
  { q with groups := q.groups.map (fun g => { g with answers := g.answers.withdraw remove }) }

/-- `async_ready()` at loop time `now`: new state and the batch that is multicast (if any) -/
def Queue.ready (q : Queue) (now : Int) : Queue × Option Dict :=
  match q.groups with
  | [] => ({ q with timer := none }, none)
  | g :: gs =>
    if Gen.Reply.q_ready_wait (gs.length + 1) g.sb now then
      ({ q with timer := some (now + Gen.Reply.q_ready_wait_delay g.sb now) }, none)
    else
      let (rest, batch) := popReady now (g :: gs) []
      let timer := match rest with
        | [] => none
        | h :: _ => some (now + Gen.Reply.q_ready_rearm_delay h.sa now)
      if batch.isEmpty then ({ groups := rest, timer := timer }, none)
      else ({ groups := removeAnswers rest batch, timer := timer }, some batch)

/-! ### `AsyncListener`: duplicate guard and truncated queries -/

structure Timer where
  addr : Nat
  due : Int
  port : Nat
  deriving Repr, DecidableEq

structure Listener where
  lastData : Option Nat := none      -- `self.data`
  lastTime : Int := 0                -- `self.last_time`
  lastMsgQu : Option Bool := none    -- `self.last_message` (its `has_qu_question()`)
  deferred : List (Nat × List Pkt) := []
  timers : List Timer := []
  deriving Repr

instance : Inhabited Listener := ⟨{}⟩

def Listener.deferredOf (l : Listener) (addr : Nat) : List Pkt :=
  match l.deferred.find? (fun e => e.1 == addr) with | some e => e.2 | none => []

def Listener.setDeferred (l : Listener) (addr : Nat) (ps : List Pkt) : Listener :=
  if l.deferred.any (fun e => e.1 == addr) then
    { l with deferred := l.deferred.map (fun e => if e.1 == addr then (addr, ps) else e) }
  else { l with deferred := l.deferred ++ [(addr, ps)] }

def Listener.popDeferred (l : Listener) (addr : Nat) : Listener :=
  { l with deferred := l.deferred.filter (fun e => !(e.1 == addr)) }

/-- `_cancel_any_timers_for_addr` -/
def Listener.cancelTimer (l : Listener) (addr : Nat) : Listener :=
  { l with timers := l.timers.filter (fun t => !(t.addr == addr)) }

/-- `handle_query_or_defer` for a truncated packet that is not yet deferred: store it, cancel the
address's timer, arm a new one `d` ms ahead -/
def Listener.defer (l : Listener) (t : Int) (addr port : Nat) (p : Pkt) (d : Int) : Listener :=
  let lis := (l.setDeferred addr (l.deferredOf addr ++ [p])).cancelTimer addr
  { lis with timers := lis.timers ++ [{ addr := addr, due := t + d, port := port }] }

/-! ### the host: both queues and the listener -/

structure Host where
  outQ : Queue := {}
  delayQ : Queue := {}
  lis : Listener := {}
  deriving Repr

instance : Inhabited Host := ⟨{}⟩

/-- consumed random draws: requested interval and value -/
structure Draw where
  lo : Int
  hi : Int
  v : Int
  deriving Repr, DecidableEq

/-- take the next draw from the input, checking the interval the code asked for -/
def takeDraw (lo hi : Int) : List Int → Except String (Int × List Int)
  | [] => .error "missing-draw"
  | d :: ds => if lo ≤ d ∧ d ≤ hi then .ok (d, ds) else .error "draw-out-of-range"

structure StepOut where
  host : Host
  outs : List Out := []
  draws : List Draw := []

/-- one `async_add` of `handle_assembled_query` (skipped when there is nothing to add) with its random draw -/
def queueAdd (p : QP) (q : Queue) (clock now : Int) (answers : Dict) (draws : List Int) :
    Except String (Queue × List Draw × List Int) :=
  if answers.isEmpty then .ok (q, [], draws) else
  match takeDraw drawLo drawHi draws with
  | .error e => .error e
  | .ok (d, rest) => .ok (q.add p clock now d answers, [Draw.mk drawLo drawHi d], rest)

/-- the datagrams `handle_assembled_query` sends at once -/
def immediateOuts (qa : QA) (addr port id nq : Nat) (ucastSource : Bool) : List Out :=
  (if qa.ucast.isEmpty then [] else
    [Out.ucast addr port id (if Gen.Reply.ans_echo_questions ucastSource then nq else 0) qa.ucast.keys (additionalsOf qa.ucast)])
  ++ (if qa.mcastNow.isEmpty then [] else [Out.ofMcast qa.mcastNow])

/-- `handle_assembled_query` at loop time `clock` -/
def Host.assemble (h : Host) (clock : Int) (pkts : List Pkt) (addr port : Nat) (seen : SeenMap) (draws : List Int) :
    Except String (StepOut × List Int) :=
  match pkts.head? with
  | none => .error "IndexError"          -- `packets[0]`
  | some first =>
    let ucastSource := Gen.Reply.ucast_source port
    match asyncResponse pkts ucastSource seen with
    | none => .ok ({ host := h }, draws)
    | some qa =>
      match queueAdd outQP h.outQ clock first.now qa.mcastAgg draws with
      | .error e => .error e
      | .ok (oq, dr1, draws1) =>
        match queueAdd delayQP h.delayQ clock first.now qa.mcastLast draws1 with
        | .error e => .error e
        | .ok (dq, dr2, draws2) =>
          .ok ({ host := { h with outQ := oq, delayQ := dq }, outs := immediateOuts qa addr port first.id first.nq ucastSource,
                 draws := dr1 ++ dr2 }, draws2)

def tcLo : Int := (Gen.tcDelayRandomInterval.getD 0 0 : Nat)
def tcHi : Int := (Gen.tcDelayRandomInterval.getD 1 0 : Nat)

inductive RxKind where
  | invalid                       -- `msg.valid` false
  | response                      -- handled by the record manager (not modelled here)
  | query (p : Pkt)
  deriving Repr

inductive Ev where
  /-- `datagram_received` -/
  | rx (t : Int) (addr port : Nat) (dataId size : Nat) (hasQu : Bool) (kind : RxKind) (seen : SeenMap) (draws : List Int)
  /-- the truncated-query timer of `addr` fires (`_respond_query(None, addr, …)`) -/
  | tcfire (t : Int) (addr : Nat) (seen : SeenMap) (draws : List Int)
  /-- `async_ready` of the aggregation queue (`delayed = false`) or the protected queue -/
  | qfire (t : Int) (delayed : Bool)
  /-- `async_remove_answers(recs)` on the aggregation / protected queue: the registry changed (a service was unregistered)
  while answers may be queued -/
  | qremove (t : Int) (delayed : Bool) (recs : List RecId)
  deriving Repr

def Ev.time : Ev → Int
  | .rx t .. => t | .tcfire t .. => t | .qfire t .. => t | .qremove t .. => t

/-- the loop never lets the clock pass a due timer -/
def Host.notOverdue (h : Host) (t : Int) : Bool :=
  (match h.outQ.timer with | some d => decide (t ≤ d) | none => true)
  && (match h.delayQ.timer with | some d => decide (t ≤ d) | none => true)
  && h.lis.timers.all (fun tm => decide (t ≤ tm.due))

/-- `_respond_query(msg, addr, port, …)` -/
def Host.respond (h : Host) (clock : Int) (msg : Option Pkt) (addr port : Nat) (seen : SeenMap) (draws : List Int) :
    Except String (StepOut × List Int) :=
  let lis := h.lis.cancelTimer addr
  let pkts := lis.deferredOf addr ++ (match msg with | some m => [m] | none => [])
  let lis := lis.popDeferred addr
  { h with lis := lis }.assemble clock pkts addr port seen draws

/-- what a block does, decided from the event and the listener's state alone -/
inductive Act where
  /-- nothing is sent and nothing queued: the datagram is dropped (oversize, duplicate, already deferred), invalid, or a response
  (handled by the record manager, not modelled); `lis` is the listener afterwards (only its duplicate-guard fields can differ) -/
  | idle (lis : Listener)
  /-- a truncated packet is stored and the address's timer re-armed with draw `d` -/
  | defer (lis : Listener) (d : Int)
  /-- `handle_assembled_query(pkts, addr, port, …)`; `lis` is the listener after `_respond_query` cancelled the address's timer
  and took its deferred packets -/
  | answer (lis : Listener) (pkts : List Pkt) (addr port : Nat)
  /-- `async_ready` of the aggregation (`false`) or the protected (`true`) queue -/
  | ready (delayed : Bool)
  /-- `async_remove_answers(recs)` on the aggregation (`false`) or the protected (`true`) queue -/
  | remove (delayed : Bool) (recs : List RecId)
  deriving Repr

/-- `_respond_query`'s bookkeeping: the listener afterwards and the packets handed on -/
def Listener.take (l : Listener) (msg : Option Pkt) (addr : Nat) : Listener × List Pkt :=
  ((l.cancelTimer addr).popDeferred addr, (l.cancelTimer addr).deferredOf addr ++ msg.toList)

/-- which action the block takes, with the draws it may consume (`datagram_received`, the truncated-query timer, a queue timer).
The event-loop facts the model relies on are checked here and in `Host.step`: a timer callback runs exactly when it is due, a
datagram is stamped with the time of its block. -/
def Host.decide (h : Host) : Ev → Except String Act
  | .rx t addr port dataId size hasQu kind _ draws =>
    if Gen.Reply.l_oversize size then .ok (.idle h.lis)
    else if Gen.Reply.l_duplicate (h.lis.lastData == some dataId) t h.lis.lastTime h.lis.lastMsgQu.isNone (h.lis.lastMsgQu.getD false) then
      .ok (.idle h.lis)
    else
      let lis := { h.lis with lastData := some dataId, lastTime := t, lastMsgQu := some hasQu }
      match kind with
      | .invalid | .response => .ok (.idle lis)
      | .query p =>
        if p.now ≠ t then .error "packet-not-stamped-with-its-arrival" else
        if Gen.Reply.l_not_truncated p.truncated then
          .ok (.answer (lis.take (some p) addr).1 (lis.take (some p) addr).2 addr port)
        else if (lis.deferredOf addr).any (fun q => q.dataId == p.dataId) then .ok (.idle lis)
        else
          match takeDraw tcLo tcHi draws with
          | .error e => .error e
          | .ok (d, rest) => if !rest.isEmpty then .error "unused-draw" else .ok (.defer (lis.defer t addr port p d) d)
  | .tcfire t addr _ _ =>
    match h.lis.timers.find? (fun tm => tm.addr == addr) with
    | none => .error "no-such-timer"
    | some tm =>
      if tm.due ≠ t then .error "timer-not-due"
      else .ok (.answer (h.lis.take none addr).1 (h.lis.take none addr).2 addr tm.port)
  | .qfire t delayed =>
    if (if delayed then h.delayQ else h.outQ).timer ≠ some t then .error "timer-not-due" else .ok (.ready delayed)
  | .qremove _ delayed recs => .ok (.remove delayed recs)

def Ev.seen : Ev → SeenMap
  | .rx _ _ _ _ _ _ _ s _ => s | .tcfire _ _ s _ => s | .qfire _ _ => [] | .qremove .. => []

def Ev.draws : Ev → List Int
  | .rx _ _ _ _ _ _ _ _ d => d | .tcfire _ _ _ d => d | .qfire _ _ => [] | .qremove .. => []

/-- carrying the action out at loop time `t` -/
def Host.perform (h : Host) (t : Int) (seen : SeenMap) (draws : List Int) : Act → Except String StepOut
  | .idle lis => if draws.isEmpty then .ok { host := { h with lis := lis } } else .error "unused-draw"
  | .defer lis d => .ok { host := { h with lis := lis }, draws := [Draw.mk tcLo tcHi d] }
  | .answer lis pkts addr port =>
    match { h with lis := lis }.assemble t pkts addr port seen draws with
    | .error e => .error e
    | .ok (r, rest) => if rest.isEmpty then .ok r else .error "unused-draw"
  | .ready delayed =>
    let q := if delayed then h.delayQ else h.outQ
    let (q', batch) := q.ready t
    let h' := if delayed then { h with delayQ := q' } else { h with outQ := q' }
    .ok { host := h', outs := match batch with | some b => [Out.ofMcast b] | none => [] }
  | .remove delayed recs =>
    .ok { host := if delayed then { h with delayQ := h.delayQ.removeRecords recs } else { h with outQ := h.outQ.removeRecords recs } }

/-- one atomic block of the host: the clock has not passed a due timer, then `decide` and `perform` -/
def Host.step (h : Host) (e : Ev) : Except String StepOut :=
  if !h.notOverdue e.time then .error "clock-passed-a-due-timer" else
  match h.decide e with
  | .error m => .error m
  | .ok a => h.perform e.time e.seen e.draws a

/-- run a whole trace: per event the outputs and the draws consumed -/
def Host.run : Host → Int → List Ev → Except String (Host × List (Int × List Out × List Draw))
  | h, _, [] => .ok (h, [])
  | h, clock, e :: es =>
    if e.time < clock then .error "time-went-backwards" else do
      let r ← h.step e
      let (h', tl) ← Host.run r.host e.time es
      pure (h', (e.time, r.outs, r.draws) :: tl)

/-! ### packet-level format (C11): header id, flags, class field -/

/-- the 16-bit id written by `DNSOutgoing.packets` -/
def wireId (multicast : Bool) (id : Nat) : Nat := if Gen.Reply.out_id_zero multicast then 0 else id

/-- the class field written by `_write_record_class` -/
def wireClass (class_ : Nat) (unique multicast : Bool) : Nat :=
  if Gen.Reply.out_class_flush unique multicast then Gen.Reply.out_class_with_flush class_ else Gen.Reply.out_class_plain class_

/-- `DNSIncoming._read_questions`: the value of `_has_qu_question` after reading questions with these QU bits -/
def hasQuFlag (qus : List Bool) : Bool :=
  qus.foldl (fun flag u => if Gen.Reply.in_qu_flag_test u then Gen.Reply.in_qu_flag_value u else flag) false

/-- the `multicast` argument `construct_outgoing_unicast_answers` gives to `DNSOutgoing` -/
def ucastReplyMulticast (id : Nat) (ucastSource : Bool) : Bool := Gen.Reply.ans_unicast_multicast_arg id ucastSource

/-- the `multicast` argument `construct_outgoing_multicast_answers` gives to `DNSOutgoing` -/
def mcastReplyMulticast : Bool := Gen.Reply.ans_multicast_multicast_arg

/-- flags of both reply constructors -/
def replyFlags : Nat := Gen.flagsQrResponseAa

end Zc.Reply
