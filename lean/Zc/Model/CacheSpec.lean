import Zc.Model.Cache
/-! The plain reference model of RFC 6762 §10 used by C05/C06: the cache is a flat list of records in
arrival order, at most one per identity; every lookup is a filter.  No index, no buckets. -/
namespace Zc
namespace Flat

section
variable (lower : String → String)

def getUnique (s : List Rec) (r : Rec) : Option Rec := s.find? (fun e => e.beq lower r)

def resetTtl (s : List Rec) (r : Rec) : List Rec :=
  s.map (fun e => if e.beq lower r then e.setLife r.created r.ttl else e)

def markFlush (s : List Rec) (uts : List (String × Nat × Nat)) (answers : List Rec) (now : Ms) : List Rec :=
  s.map (fun e => if Cache.flushHit lower uts answers now e then e.setLife now 1 else e)

def add (s : List Rec) (r : Rec) : List Rec × Bool :=
  (s.filter (fun e => !(e.beq lower r)) ++ [r],
   Gen.Cache.add_is_new (!(s.any (fun e => e.beq lower r))) (decide (r.rdata.kind = .nsec)))

def remove (s : List Rec) (r : Rec) : Except PyExc (List Rec) :=
  if s.any (fun e => e.beq lower r) then .ok (s.filter (fun e => !(e.beq lower r))) else .error .keyError

def ops : CacheOps (List Rec) where
  getUnique := getUnique lower
  resetTtl := resetTtl lower
  markFlush := markFlush lower
  add := add lower
  remove := remove lower
  allRecs := fun s => s

/-! the lookup paths of the reference model -/
def get (s : List Rec) (r : Rec) : Option Rec := s.find? (fun e => e.beq lower r)
def entriesWithName (s : List Rec) (name : String) : List Rec := s.filter (fun e => decide (lower e.name = lower name))
def entriesWithServer (s : List Rec) (name : String) : List Rec :=
  s.filter (fun e => decide (e.serverKey lower = some (lower name)))
def getAllByDetails (s : List Rec) (name : String) (type class_ : Nat) : List Rec :=
  s.filter (fun e => decide (lower e.name = lower name) && (decide (type = e.type) && decide (class_ = e.class_)))
/-- the most recently arrived match -/
def getByDetails (s : List Rec) (name : String) (type class_ : Nat) : Option Rec :=
  (getAllByDetails lower s name type class_).getLast?
/-- the most recently arrived unexpired pointer record of `name` with alias `alias` -/
def currentEntryWithNameAndAlias (s : List Rec) (name alias : String) (now : Ms) : Option Rec :=
  (entriesWithName lower s name).reverse.find? (fun e =>
    decide (e.type = Gen.typePtr) && !(e.isExpired now) && (match e.rdata with | .ptr a => decide (a = alias) | _ => false))
/-- is `k` the (lower-cased) owner name of some cached record? -/
def hasName (s : List Rec) (k : String) : Prop := ∃ e ∈ s, lower e.name = k

/-- the periodic purge of the reference model: drop exactly the records whose TTL has fully elapsed -/
def purge (s : List Rec) (now : Ms) : List Rec × List Rec :=
  (s.filter (fun e => !(e.isExpired now)), s.filter (fun e => e.isExpired now))

end
end Flat

/-! ### histories -/

/-- what happens to a cache: a response datagram arrives at `now`, or the periodic purge runs at `now` -/
inductive Event where
  | datagram (now : Ms) (recs : List Rec)
  | purge (now : Ms)
  deriving Repr, Inhabited

section
variable (lower : String → String) {σ : Type} (ops : CacheOps σ)

/-- one event; a `KeyError` would abort the callback and leave the state as it was (never happens: `C06_no_keyerror`) -/
def stepEvent (c : σ) : Event → σ
  | .datagram now recs => match ingest lower ops c now recs with | .ok o => o.cache | .error _ => c
  | .purge now => match expire ops c now with | .ok o => o.1 | .error _ => c

def runEvents (init : σ) (evs : List Event) : σ := evs.foldl (stepEvent lower ops) init

end
end Zc
