import Zc.Model.Responder
import Zc.Model.RespSpec
/-! The receiving socket's scope id on known answers (C03, defect D25).

`AsyncListener._process_datagram_at_time` hands the scope id of the sockaddr (IPv6 sockets: 4-tuples) to `DNSIncoming`, which
stamps it on every AAAA record it parses (`incoming.py:345`) — the known answers of a *query* included.  The scope id is not on
the wire: it is the receiver's annotation.  The responder's own AAAA records never carry one (`ServiceInfo._dns_addresses`), and
record identity compares it (C20), so on the code as shipped a known AAAA answer received on an IPv6 socket never suppresses.
The D25 repair makes `async_response` compare its own records with the known answers *without* the scope id
(`own_known_answers`); the two translated leaves `Gen.Responder.own_known_unscoped` / `own_known_passed` say whether the tree has
that test (absent ⇒ `false`), so this model follows both trees.

`Zc.respond` itself is unchanged (it is given the known answers the suppression looks at); this file is the step in front of it. -/
namespace Zc

/-- the record as it is on the wire: without the receiver's scope annotation -/
def Rec.unscope (r : Rec) : Rec :=
  { r with rdata := match r.rdata with | .addr a _ => .addr a none | d => d }

/-- a query packet as the listener hands it to `async_response`: the parsed message, and `msg.scope_id is not None` -/
structure QPkt where
  msg : Msg
  hasScope : Bool
  deriving Repr

/-- `msg.scope_id is not None` of the packet `async_response` looks at (the loop variable after `for msg in msgs`) -/
def lastScoped (ps : List QPkt) : Bool := (ps.getLast?.map (·.hasScope)).getD false

section
/- `unscopes hasScope`: does `async_response` hand `_answer_question` the known answers without scope ids?
(the repaired code: `id`; the code as shipped: `fun _ => false`; the tree at hand: `treeUnscopes`) -/
variable (unscopes : Bool → Bool)

/-- the messages with the known answers `_answer_question` is given -/
def ownView (ps : List QPkt) : List Msg :=
  if unscopes (lastScoped ps) then ps.map (fun p => { p.msg with answers := p.msg.answers.map Rec.unscope })
  else ps.map (·.msg)

/-- `QueryHandler.async_response` on packets as the listener delivers them -/
def respondQ (lower : String → String) (ettl : Nat) (reg : Registry) (ps : List QPkt) : Except PyExc (Option DictRS × Registry) :=
  respond lower ettl reg (ownView unscopes ps)

end

/-- the querier's known-answer list as it is on the wire -/
def wireKnown (ps : List QPkt) : List Rec := (knownOf (ps.map (·.msg))).map Rec.unscope

/-- what the working tree does (translated leaves; both `false` on a tree without the D25 repair) -/
def treeUnscopes (hasScope : Bool) : Bool := Gen.Responder.own_known_unscoped hasScope && Gen.Responder.own_known_passed

/-- what the listener and the parser guarantee about one (re)assembled query: all packets come from one socket (one
`AsyncListener` per socket, deferred packets are kept per listener), and a packet parsed without a scope id has no scoped record -/
def WellStamped (ps : List QPkt) : Prop :=
  (∀ p ∈ ps, p.hasScope = lastScoped ps) ∧ (∀ p ∈ ps, p.hasScope = false → ∀ a ∈ p.msg.answers, a.unscope = a)

/-- the input class of D25, negated: no known answer that carries a scope id is — without it — the same record as a record of a
registered service -/
def NoScopedKnownOfOwn (lower : String → String) (ettl : Nat) (svcs : List Svc) (ps : List QPkt) : Prop :=
  ∀ k ∈ knownOf (ps.map (·.msg)), k.unscope ≠ k → ∀ s ∈ svcs, ∀ r ∈ RespSpec.own lower ettl s, (k.unscope).beq lower r = false

end Zc
