import Zc.Model.Cache
/-! The callback side of `_services/browser.py` (`_ServiceBrowserBase`): `_enqueue_callback`,
`async_update_records`, `async_update_records_complete`, and the initial replay of
`RecordManager.async_add_listener`.  The query scheduler is not part of this model (C10). -/
namespace Zc
open Zc.Gen

/-- `ServiceStateChange` -/
inductive Change where | added | removed | updated
  deriving DecidableEq, Repr, Inhabited

/-- `possible_types` (`_utils/name.py`): the suffixes of 4, 5, … labels (counting the empty label after the
final dot) as long as their first label starts with `_` -/
def possibleTypes (name : String) : List String :=
  let labels := name.splitOn "."
  let n := labels.length
  let rec go (fuel count : Nat) (acc : List String) : List String :=
    match fuel with
    | 0 => acc
    | fuel + 1 =>
      let i : Int := (n : Int) - (count : Int) - 4
      let start : Nat := if i ≥ 0 then i.toNat else ((n : Int) + i).toNat
      match labels.drop start with
      | [] => acc
      | p :: rest => if p.startsWith "_" then go fuel (count + 1) (acc ++ [".".intercalate (p :: rest)]) else acc
  go n 0 []

/-- a fired callback: `(state_change, service_type, name)` -/
structure Callback where
  change : Change
  type : String
  name : String
  deriving DecidableEq, Repr, Inhabited

structure Browser where
  types : List String
  /-- `_pending_handlers`: `(name, type) ↦ state change`, insertion-ordered -/
  pending : List ((String × String) × Change) := []
  deriving Repr, Inhabited

def pendingGet (p : List ((String × String) × Change)) (key : String × String) : Option Change :=
  match p with
  | [] => none
  | (k, v) :: t => if k = key then some v else pendingGet t key

def pendingSet (p : List ((String × String) × Change)) (key : String × String) (v : Change) : List ((String × String) × Change) :=
  match p with
  | [] => [(key, v)]
  | (k, v') :: t => if k = key then (k, v) :: t else (k, v') :: pendingSet t key v

namespace Browser

section
variable (lower : String → String) (possible : String → List String)

/-- `self.types.intersection(cached_possible_types(name))` -/
def matching (b : Browser) (name : String) : List String := b.types.filter (fun t => (possible name).contains t)

/-- `_enqueue_callback` -/
def enqueue (b : Browser) (ch : Change) (type name : String) : Browser :=
  let key := (name, type)
  let cur := pendingGet b.pending key
  if Gen.Cache.enqueue_test (decide (ch = .added)) (decide (ch = .removed)) (decide (cur ≠ some .added)) (decide (ch = .updated)) cur.isNone
  then { b with pending := pendingSet b.pending key ch } else b

def dedupStr : List String → List String
  | [] => []
  | a :: t => a :: (dedupStr t).filter (fun x => x != a)

/-- one iteration of `for record_update in records` in `async_update_records`; `c` is the cache at call time -/
def updateOne (c : Cache) (now : Ms) (b : Browser) (u : Rec × Option Rec) : Browser :=
  let r := u.1
  if r.type = Gen.typePtr then
    match r.rdata with
    | .ptr alias =>
      (b.matching possible r.name).foldl (fun b t =>
        match u.2 with
        | none => b.enqueue .added t alias
        | some _ => if r.isExpired now then b.enqueue .removed t alias else b) b
    | _ => b
  else if Gen.Cache.nonptr_skip u.2.isSome (r.isExpired now) then b
  else if Gen.Cache.browser_is_address_type r.type then
    let names := dedupStr ((c.entriesWithServer lower r.name).map (fun s => s.name))
    names.foldl (fun b name => (b.matching possible name).foldl (fun b t => b.enqueue .updated t name) b) b
  else (b.matching possible r.name).foldl (fun b t => b.enqueue .updated t r.name) b

/-- `async_update_records` -/
def updateRecords (c : Cache) (now : Ms) (b : Browser) (us : List (Rec × Option Rec)) : Browser :=
  us.foldl (updateOne lower possible c now) b

/-- `async_update_records_complete`: fire in insertion order, clear -/
def complete (b : Browser) : Browser × List Callback :=
  ({ b with pending := [] }, b.pending.map (fun kv => { change := kv.2, type := kv.1.2, name := kv.1.1 }))

/-- `DNSQuestion(type_, _TYPE_PTR, _CLASS_IN).answered_by(rec)` -/
def answeredBy (type : String) (r : Rec) : Bool :=
  decide (Gen.classIn = r.class_) && (decide (Gen.typePtr = r.type) || decide (Gen.typePtr = Gen.typeAny)) && decide (type = r.name)

/-- `RecordManager._async_update_matching_records` for a new browser: the `(record, None)` list -/
def replayList (c : Cache) (now : Ms) (types : List String) : List (Rec × Option Rec) :=
  types.flatMap (fun t => ((c.entriesWithName lower t).filter (fun r => !(r.isExpired now) && answeredBy t r)).map (fun r => (r, none)))

/-- `async_add_listener(browser, questions)`: initial replay -/
def start (c : Cache) (now : Ms) (types : List String) : Browser × List Callback :=
  let b : Browser := { types := types }
  let us := replayList lower c now types
  if us.isEmpty then (b, []) else complete (updateRecords lower possible c now b us)

end
end Browser

/-! ### a browser registered with the record manager -/

/-- what one event does to the cache and to one browser, and the callbacks the browser fires -/
structure BrowserOut where
  cache : Cache
  browser : Browser
  /-- fired from `async_update_records_complete`, i.e. when the cache is `cache` -/
  callbacks : List Callback

section
variable (lower : String → String) (possible : String → List String)

/-- a response datagram: `async_updates_from_response` with the browser among the listeners -/
def Browser.onDatagram (c : Cache) (b : Browser) (now : Ms) (recs : List Rec) : Except PyExc BrowserOut := do
  let out ← ingest lower (Cache.ops lower) c now recs
  match out.call1 with
  | none => pure { cache := out.cache, browser := b, callbacks := [] }
  | some call =>
    let b1 := Browser.updateRecords lower possible call.2 now b call.1
    pure { cache := out.cache, browser := (Browser.complete b1).1, callbacks := (Browser.complete b1).2 }

/-- what the creation of a browser (`_async_start` → `async_add_listener(browser, questions)`) does -/
structure CreateOut where
  /-- the cache after the purge that precedes the registration -/
  cache : Cache
  /-- the purged records: reported as `(r, r)`, then `complete(False)`, to the listeners registered before — if there are any -/
  purged : List Rec
  browser : Browser
  /-- the new browser's callbacks from the initial replay -/
  callbacks : List Callback

/-- `async_add_listener(browser, questions)`.  `purgesFirst` (generated leaf `add_listener_purges_first`; true since the D23
repair): the expired records are purged, with notifications to the listeners already registered, *before* the browser is added, at
the instant `tPurge` read there.  Then the cache is replayed to the browser at the instant `tReplay` that
`_async_update_matching_records` is handed (before the D23b repair it read the clock a second time; now it is the same reading). -/
def Browser.createWith (purgesFirst : Bool) (c : Cache) (tPurge tReplay : Ms) (types : List String) : Except PyExc CreateOut := do
  let out ← if purgesFirst then expire (Cache.ops lower) c (Gen.Cache.add_listener_purge_expire_now tPurge) else pure (c, [])
  let s := Browser.start lower possible out.1 tReplay types
  pure { cache := out.1, purged := out.2, browser := s.1, callbacks := s.2 }

/-- the code as it is: the clock is read once (`now`), the purge and the replay both use that reading (generated leaf
`add_listener_replay_now`: the `now` handed to `_async_update_matching_records` is the one `cache.async_expire` got; D23b repair) -/
def Browser.create (c : Cache) (now : Ms) (types : List String) : Except PyExc CreateOut :=
  Browser.createWith lower possible Gen.Cache.add_listener_purges_first c now (Gen.Cache.add_listener_replay_now now) types

/-- the second purge site, as the listeners registered *before* see it: `async_add_listener(l, question)` sweeps the cache at the one
instant it read and — only `if expired:`, unlike the periodic purge, which always calls — runs the two notification rounds
(`async_updates(now, [(r, r) …])`, `async_updates_complete(False)`) before `l` joins the set.  Callbacks are `set.add`/`set.remove`
actions as in `deliverPurge` (a callback that re-enters `async_add_listener` with a question is outside this model). -/
def deliverCreationPurgeWith (copied1 copied2 catches : Bool) (order : List Nat → List Nat) (c : Cache) (ls : List Nat)
    (now : Ms) (react1 react2 : Nat → List ListenerAct) : Except PyExc PurgeDelivery := do
  let out ← expire (Cache.ops lower) c (Gen.Cache.add_listener_purge_expire_now now)
  if out.2.isEmpty then
    pure { cache := out.1, pairs := [], listeners := ls, round1 := [], round2 := [], err := none, notify := false }
  else
    let pairs := out.2.map (fun r => (r, some r))
    let r1 := notifyRoundWith copied1 catches (order ls) react1
    match r1.err with
    | some e => pure { cache := out.1, pairs := pairs, listeners := r1.live, round1 := r1.called, round2 := [], err := some e, notify := false }
    | none =>
      let r2 := notifyRoundWith copied2 catches (order r1.live) react2
      pure { cache := out.1, pairs := pairs, listeners := r2.live, round1 := r1.called, round2 := r2.called, err := r2.err, notify := false }

/-- the code as it is -/
def deliverCreationPurge (order : List Nat → List Nat) (c : Cache) (ls : List Nat) (now : Ms)
    (react1 react2 : Nat → List ListenerAct) : Except PyExc PurgeDelivery :=
  deliverCreationPurgeWith lower Gen.Cache.updates_iterates_copy Gen.Cache.complete_iterates_copy Gen.Cache.remove_listener_catches_keyerror
    order c ls now react1 react2

/-- the periodic purge: `_async_cache_cleanup` reports every purged record as `(record, record)` -/
def Browser.onPurge (c : Cache) (b : Browser) (now : Ms) : Except PyExc BrowserOut := do
  -- `now` is read once: the cache is swept with the instant the listeners are told (leaves `purge_expire_now`, `purge_updates_now`)
  let out ← expire (Cache.ops lower) c (Gen.Cache.purge_expire_now now)
  let b1 := Browser.updateRecords lower possible out.1 (Gen.Cache.purge_updates_now now) b (out.2.map (fun r => (r, some r)))
  pure { cache := out.1, browser := (Browser.complete b1).1, callbacks := (Browser.complete b1).2 }

end

end Zc
