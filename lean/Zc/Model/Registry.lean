import Zc.Model.Dns
import Zc.Gen.Responder
/-! `_services/registry.py` and the record builders of `_services/info.py` (C03).

* A `ServiceInfo` object is a `Svc`: its fields plus the five memo slots
  (`_dns_pointer_cache`, `_dns_service_cache`, `_dns_text_cache`, `_dns_address_cache`,
  `_get_address_and_nsec_records_cache`).
* `ServiceRegistry` is three insertion-ordered dicts with `str` keys: `_services` (key ↦ info; the key is
  `info.key = name.lower()`, so it is derived, not stored), `types` (`type.lower()` ↦ list of keys) and
  `servers` (`server_key` ↦ list of keys).
* `NameIndex.remove` mirrors the **repaired** `_remove` (D3): a bucket that becomes empty is deleted.

`str.lower` is the parameter `lower` (DESIGN §4.3).  Registered infos always have a server
(`_add` asserts it, `async_register_service` calls `set_server_if_missing`), so `server` is a `String`. -/
namespace Zc
open Zc.Gen

/-! ### `dict` with `str` keys: insertion-ordered association list -/
section Dict
variable {β : Type}

/-- `d.get(k)` -/
def dget (k : String) : List (String × β) → Option β
  | [] => none
  | (k', v) :: r => if k' = k then some v else dget k r

/-- `d[k] = v`: an existing key keeps its position, a new key goes to the end -/
def dset (k : String) (v : β) : List (String × β) → List (String × β)
  | [] => [(k, v)]
  | (k', v') :: r => if k' = k then (k', v) :: r else (k', v') :: dset k v r

/-- `del d[k]` (a dict never holds a key twice, so removing every entry for `k` is the same thing) -/
def ddel (k : String) (l : List (String × β)) : List (String × β) := l.filter (fun p => !decide (p.1 = k))
end Dict

/-- `types` / `servers`: key ↦ list of service keys -/
abbrev NameIndex := List (String × List String)

/-- `index.setdefault(k, []).append(x)` -/
def NameIndex.add (idx : NameIndex) (k x : String) : NameIndex := dset k ((dget k idx).getD [] ++ [x]) idx

/-- `_remove_from_index` (repaired, D3): `names = index[k]; names.remove(x); if not names: del index[k]` -/
def NameIndex.remove (idx : NameIndex) (k x : String) : Except PyExc NameIndex :=
  match dget k idx with
  | none => .error .keyError
  | some names =>
    if x ∈ names then
      let names' := names.erase x
      .ok (if names'.isEmpty then ddel k idx else dset k names' idx)
    else .error .valueError

/-- the unrepaired `_remove` (kept for the refutation theorem and for replaying D3): the bucket stays -/
def NameIndex.removeUnrepaired (idx : NameIndex) (k x : String) : Except PyExc NameIndex :=
  match dget k idx with
  | none => .error .keyError
  | some names => if x ∈ names then .ok (dset k (names.erase x) idx) else .error .valueError

/-- a `ServiceInfo` object -/
structure Svc where
  type : String
  name : String
  server : String
  port : Nat
  weight : Nat
  priority : Nat
  text : Bytes
  hostTtl : Nat
  otherTtl : Nat
  /-- packed `_ipv4_addresses`, in order -/
  v4 : List Bytes
  /-- packed `_ipv6_addresses`, in order -/
  v6 : List Bytes
  ptrMemo : Option Rec := none
  srvMemo : Option Rec := none
  txtMemo : Option Rec := none
  addrMemo : Option (List Rec) := none
  anMemo : Option (List Rec) := none
  deriving DecidableEq, Repr, Inhabited

/-- a Python `set` of records: first occurrence of each identity, in insertion order -/
def recInsert (lower : String → String) (l : List Rec) (r : Rec) : List Rec :=
  if l.any (fun o => o.beq lower r) then l else l ++ [r]

def recSet (lower : String → String) (l : List Rec) : List Rec := l.foldl (recInsert lower) []

namespace Svc

/-- `_CLASS_IN` as stored by `DNSEntry._set_class` -/
def clsShared : Nat × Bool := (Gen.Dns.class_of Gen.classIn, Gen.Dns.unique_of Gen.classIn)
/-- `_CLASS_IN_UNIQUE` as stored by `DNSEntry._set_class` -/
def clsUnique : Nat × Bool := (Gen.Dns.class_of Gen.classInUnique, Gen.Dns.unique_of Gen.classInUnique)

/-- `async_clear_cache` -/
def clearMemo (s : Svc) : Svc :=
  { s with ptrMemo := none, srvMemo := none, txtMemo := none, addrMemo := none, anMemo := none }

/-! record builders (what the `_dns_*` methods construct on a memo miss); `created` is normalised to 0 -/

def buildPtr (s : Svc) : Rec :=
  { name := s.type, type := Gen.typePtr, class_ := clsShared.1, unique := clsShared.2, ttl := s.otherTtl, created := 0,
    rdata := .ptr s.name }

def buildSrv (s : Svc) : Rec :=
  { name := s.name, type := Gen.typeSrv, class_ := clsUnique.1, unique := clsUnique.2, ttl := s.hostTtl, created := 0,
    rdata := .srv s.priority s.weight s.port s.server }

def buildTxt (s : Svc) : Rec :=
  { name := s.name, type := Gen.typeTxt, class_ := clsUnique.1, unique := clsUnique.2, ttl := s.otherTtl, created := 0,
    rdata := .txt s.text }

def buildAddr (s : Svc) (version : Nat) : Bytes → Rec := fun packed =>
  { name := s.server, type := Gen.Responder.addr_type_of_version version, class_ := clsUnique.1, unique := clsUnique.2,
    ttl := s.hostTtl, created := 0, rdata := .addr packed none }

/-- `[*ipv4, *ipv6]` -/
def buildAddrs (s : Svc) : List Rec := s.v4.map (s.buildAddr 4) ++ s.v6.map (s.buildAddr 6)

/-- `_ADDRESS_RECORD_TYPES - seen_types` (sorted, as `DNSNsec.__init__` sorts) -/
def missingTypes (addrs : List Rec) : List Nat :=
  Gen.addressRecordTypes.filter (fun t => !(addrs.any (fun a => a.type == t)))

/-- `_dns_nsec(missing_types, None)` — never memoised; owner and next name are the *instance* name -/
def buildNsec (s : Svc) (missing : List Nat) : Rec :=
  { name := s.name, type := Gen.typeNsec, class_ := clsUnique.1, unique := clsUnique.2, ttl := s.hostTtl, created := 0,
    rdata := .nsec s.name missing }

/-! memo-aware readers: what the `_dns_*` methods *return* -/

def ptr (s : Svc) : Rec := s.ptrMemo.getD s.buildPtr
def srv (s : Svc) : Rec := s.srvMemo.getD s.buildSrv
def txt (s : Svc) : Rec := s.txtMemo.getD s.buildTxt
def addrs (s : Svc) : List Rec := s.addrMemo.getD s.buildAddrs

/-- body of `_get_address_and_nsec_records` on a memo miss: a set built from `_dns_addresses` (memo-aware!) -/
def buildAN (lower : String → String) (s : Svc) : List Rec :=
  let a := s.addrs
  let base := recSet lower a
  let missing := missingTypes a
  if missing.isEmpty then base else recInsert lower base (s.buildNsec missing)

def an (lower : String → String) (s : Svc) : List Rec := s.anMemo.getD (s.buildAN lower)

/-! memo fills (the side effect of the same calls) -/
def warmPtr (s : Svc) : Svc := { s with ptrMemo := some s.ptr }
def warmSrv (s : Svc) : Svc := { s with srvMemo := some s.srv }
def warmTxt (s : Svc) : Svc := { s with txtMemo := some s.txt }
def warmAddrs (s : Svc) : Svc := { s with addrMemo := some s.addrs }
/-- a hit returns at once; a miss calls `_dns_addresses` (filling that memo too) -/
def warmAN (lower : String → String) (s : Svc) : Svc :=
  if s.anMemo.isSome then s else { s with addrMemo := some s.addrs, anMemo := some (s.buildAN lower) }

def key (lower : String → String) (s : Svc) : String := lower s.name
def typeKey (lower : String → String) (s : Svc) : String := lower s.type
def serverKey (lower : String → String) (s : Svc) : String := lower s.server

end Svc

/-- in-place attribute writes on a (registered) `ServiceInfo`; only the `addresses` setter touches memos -/
inductive Mut where
  | port (n : Nat) | weight (n : Nat) | priority (n : Nat) | text (b : Bytes) | hostTtl (n : Nat) | otherTtl (n : Nat)
  | addrs (v4 v6 : List Bytes)
  deriving DecidableEq, Repr

def Svc.mutate (s : Svc) : Mut → Svc
  | .port n => { s with port := n }
  | .weight n => { s with weight := n }
  | .priority n => { s with priority := n }
  | .text b => { s with text := b }
  | .hostTtl n => { s with hostTtl := n }
  | .otherTtl n => { s with otherTtl := n }
  | .addrs a b => { s with v4 := a, v6 := b, addrMemo := none, anMemo := none }

/-- `ServiceRegistry` -/
structure Registry where
  services : List Svc := []
  types : NameIndex := []
  servers : NameIndex := []
  hasEntries : Bool := false
  deriving DecidableEq, Repr, Inhabited

section
variable (lower : String → String)

/-- `_services.get(key)` -/
def sget (k : String) (svcs : List Svc) : Option Svc := svcs.find? (fun s => lower s.name = k)

namespace Registry

/-- `_add` -/
def add (reg : Registry) (s : Svc) : Except PyExc Registry :=
  let k := s.key lower
  if (sget lower k reg.services).isSome then .error .alreadyRegistered
  else .ok { services := reg.services ++ [s.clearMemo],
             types := reg.types.add (s.typeKey lower) k,
             servers := reg.servers.add (s.serverKey lower) k,
             hasEntries := true }

/-- one iteration of the loop in `_remove`; `k` is `info.key` of the object passed in, the buckets are
located through the *stored* object -/
def removeOne (reg : Registry) (k : String) : Except PyExc Registry :=
  match sget lower k reg.services with
  | none => .ok reg
  | some old =>
    match reg.types.remove (old.typeKey lower) k with
    | .error e => .error e
    | .ok types =>
      match reg.servers.remove (old.serverKey lower) k with
      | .error e => .error e
      | .ok servers => .ok { reg with services := reg.services.filter (fun s => !decide (lower s.name = k)), types, servers }

/-- `_remove(infos)` -/
def remove (reg : Registry) : List String → Except PyExc Registry
  | [] => .ok { reg with hasEntries := !reg.services.isEmpty }
  | k :: ks => match reg.removeOne lower k with
    | .error e => .error e
    | .ok r => r.remove ks

/-- `async_update` -/
def update (reg : Registry) (s : Svc) : Except PyExc Registry :=
  match reg.remove lower [s.key lower] with
  | .error e => .error e
  | .ok r => r.add lower s

/-- attribute write on the registered object with key `k` -/
def mutate (reg : Registry) (k : String) (m : Mut) : Registry :=
  { reg with services := reg.services.map (fun s => if lower s.name = k then s.mutate m else s) }

/-- `[self._services[name] for name in record_list]` (`KeyError` if an index names an unknown service) -/
def lookupAll (svcs : List Svc) : List String → Except PyExc (List Svc)
  | [] => .ok []
  | n :: ns =>
    match sget lower n svcs with
    | none => .error .keyError
    | some s => match lookupAll svcs ns with
      | .error e => .error e
      | .ok r => .ok (s :: r)

/-- `_async_get_by_index` -/
def byIndex (reg : Registry) (idx : NameIndex) (k : String) : Except PyExc (List Svc) :=
  match dget k idx with
  | none => .ok []
  | some names => lookupAll lower reg.services names

/-- `async_get_types` -/
def getTypes (reg : Registry) : List String := reg.types.map Prod.fst

/-! the unrepaired `_remove`, for D3 -/
def removeOneUnrepaired (reg : Registry) (k : String) : Except PyExc Registry :=
  match sget lower k reg.services with
  | none => .ok reg
  | some old =>
    match reg.types.removeUnrepaired (old.typeKey lower) k with
    | .error e => .error e
    | .ok types =>
      match reg.servers.removeUnrepaired (old.serverKey lower) k with
      | .error e => .error e
      | .ok servers => .ok { reg with services := reg.services.filter (fun s => !decide (lower s.name = k)), types, servers,
                                       hasEntries := !(reg.services.filter (fun s => !decide (lower s.name = k))).isEmpty }

end Registry
end

end Zc
