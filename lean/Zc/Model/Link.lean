import Zc.Model.Basic
import Zc.Gen.Const
import Zc.Gen.Browser
/-! # The link: traces of abstract events of several hosts, and the single-host contracts K1–K7 (C07)

A run of several `Zeroconf` instances on one link is abstracted into a time-ordered list of events:
API calls (`up`, `close`, `reg`, `upd`, `unreg`, `browse`), `send`s with the PTR records / PTR questions
the datagram carries, `dlv` (a delivery processed by a host; it repeats the datagram's items), and the
`added` / `removed` callbacks of browsers.  A `close` is preceded, at the same instant, by an `unreg` of
every service still registered on that host (that is what `async_close` does first).

The seven contracts of DESIGN §7 (C07) are *executable monitors* over such a trace: the harness evaluates
them on every simulated run of the real code (with `Cfg.gen`, built from the constants translated from the
source) and `Zc.Props.C07` proves convergence from them.  Nothing here is Mathlib. -/
namespace Zc.Link

/-- a service instance: its owner host and service type are part of its identity -/
structure Svc where
  owner : Nat
  ty : Nat
  idx : Nat
  deriving DecidableEq, Repr

/-- a browser: host, browsed type, serial -/
structure Br where
  host : Nat
  ty : Nat
  idx : Nat
  deriving DecidableEq, Repr

/-- what a datagram carries, as far as discovery is concerned -/
inductive Item where
  /-- a response record PTR(type(s) → s) with its TTL; `full` = SRV, TXT and an address of the target travel with it -/
  | ptr (s : Svc) (ttl : Nat) (full : Bool)
  /-- a PTR question for a type with the instances listed as known answers; `qu` = unicast response requested -/
  | query (ty : Nat) (known : List Svc) (qu : Bool)
  deriving DecidableEq, Repr

inductive Ev where
  | up (h : Nat)
  | close (h : Nat)
  | reg (s : Svc)
  | upd (s : Svc)
  | unreg (s : Svc)
  | browse (b : Br)
  /-- datagram `d` leaves host `h`; `dst = none` is multicast -/
  | send (h d : Nat) (dst : Option Nat) (items : List Item)
  /-- datagram `d` from `src` is processed by host `h` -/
  | dlv (d src h : Nat) (mc : Bool) (items : List Item)
  | added (b : Br) (s : Svc)
  | removed (b : Br) (s : Svc)
  /-- an instant at which the observer looks at every browser (long-horizon runs) -/
  | obs
  deriving DecidableEq, Repr

structure TEv where
  t : Int
  e : Ev
  deriving DecidableEq, Repr

abbrev Trace := List TEv

/-- timing parameters of the contracts -/
structure Cfg where
  /-- `register` returns (registry add, first announcement) this long after the call -/
  regDelay : Int
  /-- announcement offsets after a `register` call / after an `update` call -/
  ann : List Int
  updAnn : List Int
  /-- goodbye offsets after `unregister` / `close` -/
  bye : List Int
  maxDelay : Int
  /-- first query delay interval and the offsets of the start-up queries after it -/
  qLo : Int
  qHi : Int
  qOff : List Int
  /-- duplicate-question window -/
  dupQ : Int
  /-- a query is answered within `respAfter`; a byte-identical query inside the duplicate-packet window
  `respBefore` is not answered again -/
  respBefore : Int
  respAfter : Int
  /-- effective minimum TTL of a cached PTR (s); the cache is purged of expired records every `cleanup` ms -/
  ptrMinTtl : Nat
  cleanup : Int
  /-- a browser re-queries a held PTR at these per-mille of its TTL, each no earlier than `refreshEarly` before (a refreshed
  record keeps a schedule that is within one `browserTime` of its new 75 % point: "avoid churn") and within `refreshWin` after
  (the kept schedule may equally lie one `browserTime` *after* the new 75 % point, and the 75 % pass and the 85 % pass may each
  be one `browserTime` late: 30 s — the bound `Bridge.K3b_windows_running` proves from C10's model) -/
  refresh1 : Int
  refresh2 : Int
  refreshEarly : Int
  refreshWin : Int
  deriving DecidableEq, Repr

/-- the numbers of the English property / DESIGN §7 -/
@[reducible] def Cfg.paper : Cfg :=
  { regDelay := 350, ann := [350, 575, 800], updAnn := [0, 225, 450], bye := [0, 125, 250], maxDelay := 100,
    qLo := 20, qHi := 120, qOff := [0, 1000, 5000, 14000], dupQ := 999, respBefore := 1000, respAfter := 1200,
    ptrMinTtl := 1125, cleanup := 10000, refresh1 := 750, refresh2 := 850, refreshEarly := 10000, refreshWin := 30000 }

def startupOffsets : Nat → Int → Int → List Int
  | 0, _, _ => []
  | n + 1, k, acc => acc :: startupOffsets n (k + 1) (acc + Gen.Browser.startup_backoff_s (k + 1) * 1000)

/-- the same numbers computed from today's source constants (`GenFacts.Link.cfg_gen_eq` proves they agree) -/
def Cfg.gen : Cfg :=
  let rd : Int := ((Gen.registerBroadcasts - 1) * Gen.checkTime : Nat)
  let rt : Int := (Gen.registerTime : Nat)
  let ut : Int := (Gen.unregisterTime : Nat)
  { regDelay := rd, ann := [rd, rd + rt, rd + 2 * rt], updAnn := [0, rt, 2 * rt], bye := [0, ut, 2 * ut], maxDelay := 100,
    qLo := (Gen.firstQueryDelayRandomInterval.getD 0 0 : Nat), qHi := (Gen.firstQueryDelayRandomInterval.getD 1 0 : Nat),
    qOff := startupOffsets Gen.startupQueries 0 0, dupQ := (Gen.duplicateQuestionInterval : Nat),
    respBefore := (Gen.duplicatePacketSuppressionInterval : Nat),
    respAfter := ((Gen.oneSecond + Gen.protectedAggregationDelay : Nat) : Int),
    ptrMinTtl := Gen.dnsPtrMinTtl, cleanup := ((Gen.cacheCleanupInterval * 1000 : Nat) : Int),
    refresh1 := ((Gen.expireRefreshTimePercent * 10 : Nat) : Int),
    refresh2 := ((Gen.expireRefreshTimePercent * 10 + Gen.rescueRecordRetryTtlPercentagePerMille : Nat) : Int),
    refreshEarly := (Gen.browserTime : Nat),
    -- a kept schedule up to `browserTime` after the new 75 % point, and each of the two passes at most `browserTime` late
    refreshWin := ((3 * Gen.browserTime : Nat) : Int) }

/-! ### typed views of a trace -/

structure SendE where
  t : Int
  h : Nat
  d : Nat
  dst : Option Nat
  items : List Item
  deriving DecidableEq

structure DlvE where
  t : Int
  d : Nat
  src : Nat
  h : Nat
  mc : Bool
  items : List Item
  deriving DecidableEq

def sends (tr : Trace) : List SendE :=
  tr.filterMap fun e => match e.e with | .send h d dst items => some ⟨e.t, h, d, dst, items⟩ | _ => none
def dlvs (tr : Trace) : List DlvE :=
  tr.filterMap fun e => match e.e with | .dlv d src h mc items => some ⟨e.t, d, src, h, mc, items⟩ | _ => none
def ups (tr : Trace) : List (Int × Nat) := tr.filterMap fun e => match e.e with | .up h => some (e.t, h) | _ => none
def closes (tr : Trace) : List (Int × Nat) := tr.filterMap fun e => match e.e with | .close h => some (e.t, h) | _ => none
def regs (tr : Trace) : List (Int × Svc) := tr.filterMap fun e => match e.e with | .reg s => some (e.t, s) | _ => none
def upds (tr : Trace) : List (Int × Svc) := tr.filterMap fun e => match e.e with | .upd s => some (e.t, s) | _ => none
def unregs (tr : Trace) : List (Int × Svc) := tr.filterMap fun e => match e.e with | .unreg s => some (e.t, s) | _ => none
def browses (tr : Trace) : List (Int × Br) := tr.filterMap fun e => match e.e with | .browse b => some (e.t, b) | _ => none
/-- every register / update / unregister call, as (time, service) -/
def regEvs (tr : Trace) : List (Int × Svc) :=
  tr.filterMap fun e => match e.e with | .reg s => some (e.t, s) | .upd s => some (e.t, s) | .unreg s => some (e.t, s) | _ => none

def upAt (tr : Trace) (h : Nat) (t : Int) : Bool := (ups tr).any fun u => u.2 == h && u.1 ≤ t
/-- `h` came up strictly before `t` (a datagram sent in the very instant a host comes up need not reach it) -/
def upBefore (tr : Trace) (h : Nat) (t : Int) : Bool := (ups tr).any fun u => u.2 == h && u.1 < t
def closedBy (tr : Trace) (h : Nat) (t : Int) : Bool := (closes tr).any fun c => c.2 == h && c.1 ≤ t
def neverClosed (tr : Trace) (h : Nat) : Bool := (closes tr).all fun c => !(c.2 == h)

/-! ### items -/

/-- TTL and completeness of the first PTR item for `s` -/
def ptrOf (s : Svc) : List Item → Option (Nat × Bool)
  | [] => none
  | .ptr s' ttl full :: r => if s' = s then some (ttl, full) else ptrOf s r
  | _ :: r => ptrOf s r

def pos (s : Svc) (items : List Item) : Bool := match ptrOf s items with | some (ttl, _) => 0 < ttl | none => false
def posFull (s : Svc) (items : List Item) : Bool := match ptrOf s items with | some (ttl, full) => 0 < ttl && full | none => false
def bye (s : Svc) (items : List Item) : Bool := match ptrOf s items with | some (ttl, _) => ttl == 0 | none => false
def ptrSvcs (items : List Item) : List Svc := items.filterMap fun it => match it with | .ptr s _ _ => some s | _ => none

/-! ### derived state: the *last* relevant event decides -/

def lastSome {α β : Type} (f : α → Option β) : List α → Option β
  | [] => none
  | a :: r => match lastSome f r with | some b => some b | none => f a

def heldEv (h : Nat) (s : Svc) (e : TEv) : Option (Nat × Int) :=
  match e.e with
  | .dlv _ _ h' _ items => if h' = h then (ptrOf s items).map (fun p => (p.1, e.t)) else none
  | _ => none

/-- the last PTR(`s`) that host `h` processed had TTL > 0 -/
def held (tr : Trace) (h : Nat) (s : Svc) : Bool :=
  match lastSome (heldEv h s) tr with | some (ttl, _) => 0 < ttl | none => false

/-- lifetime in ms of a cached PTR received with `ttl` s (the record manager raises it to the 1125 s floor) -/
def effTtl (cfg : Cfg) (ttl : Nat) : Int := ((max ttl cfg.ptrMinTtl : Nat) : Int) * 1000

/-- the last PTR(`s`) processed by `h` has not outlived its TTL by more than `grace` at `T` -/
def unexpired (cfg : Cfg) (tr : Trace) (h : Nat) (s : Svc) (T grace : Int) : Bool :=
  match lastSome (heldEv h s) tr with | some (ttl, t) => T < t + effTtl cfg ttl + grace | none => true

/-- `h` holds PTR(`s`) at `T`: last PTR positive and not expired -/
def heldFresh (cfg : Cfg) (tr : Trace) (h : Nat) (s : Svc) (T : Int) : Bool := held tr h s && unexpired cfg tr h s T 0
/-- … or expired less than one cache-cleanup period ago (the Removed callback fires at the cleanup) -/
def heldGrace (cfg : Cfg) (tr : Trace) (h : Nat) (s : Svc) (T : Int) : Bool := held tr h s && unexpired cfg tr h s T cfg.cleanup

def cbEv (b : Br) (s : Svc) (e : TEv) : Option Bool :=
  match e.e with
  | .added b' s' => if b' = b ∧ s' = s then some true else none
  | .removed b' s' => if b' = b ∧ s' = s then some false else none
  | _ => none

/-- browser `b` reports `s`: Added and not Removed since -/
def live (tr : Trace) (b : Br) (s : Svc) : Bool :=
  match lastSome (cbEv b s) tr with | some v => v | none => false

/-- `some (some base)`: announce event whose first announcement is due at `base`; `some none`: withdrawn -/
def regEv (cfg : Cfg) (s : Svc) (e : TEv) : Option (Option Int) :=
  match e.e with
  | .reg s' => if s' = s then some (some (e.t + cfg.regDelay)) else none
  | .upd s' => if s' = s then some (some e.t) else none
  | .unreg s' => if s' = s then some none else none
  | _ => none

/-- `s` is registered at the end of the trace: its last register/update/unregister call is not an unregister -/
def registered (cfg : Cfg) (tr : Trace) (s : Svc) : Bool :=
  match lastSome (regEv cfg s) tr with | some (some _) => true | _ => false

def isApi (e : TEv) : Bool :=
  match e.e with
  | .up _ | .close _ | .reg _ | .upd _ | .unreg _ | .browse _ => true
  | _ => false

/-- time of the last API call (0 if none) -/
def lastChange (tr : Trace) : Int := (tr.filter isApi).foldl (fun m e => if m < e.t then e.t else m) 0

/-! ### well-formedness of an observed trace -/

def sortedB : Trace → Bool
  | [] => true
  | [_] => true
  | a :: b :: r => a.t ≤ b.t && sortedB (b :: r)

def distinctB : List (Int × Svc) → Bool
  | [] => true
  | a :: r => (r.all fun b => !(a == b)) && distinctB r

/-- registered on `[?, x]` through `y`: a `reg` call at `t` with `t + regDelay ≤ x` and no `unreg` in `(t, y]` -/
def regThrough (cfg : Cfg) (tr : Trace) (s : Svc) (x y : Int) : Bool :=
  (regs tr).any fun r => r.2 == s && r.1 + cfg.regDelay ≤ x && (unregs tr).all fun u => !(u.2 == s && r.1 < u.1 && u.1 ≤ y)

/-- registered at a send instant `u`: a `reg` call at `t ≤ u - regDelay` and no `unreg` in `[t, u)` -/
def regAt (cfg : Cfg) (tr : Trace) (s : Svc) (u : Int) : Bool :=
  (regs tr).any fun r => r.2 == s && r.1 + cfg.regDelay ≤ u && (unregs tr).all fun x => !(x.2 == s && r.1 ≤ x.1 && x.1 < u)

def WF (cfg : Cfg) (tr : Trace) (endT : Int) : Bool :=
  sortedB tr
  && (tr.all fun e => e.t ≤ endT)
  && ((regs tr).all fun r =>
        upAt tr r.2.owner r.1
        && (closes tr).all fun c => !(c.2 == r.2.owner) || (r.1 < c.1 && (unregs tr).any fun u => u.2 == r.2 && r.1 < u.1 && u.1 ≤ c.1))
  && ((browses tr).all fun b => upAt tr b.2.host b.1)
  && ((upds tr).all fun u =>
        (regs tr).any fun r => r.2 == u.2 && r.1 + cfg.regDelay ≤ u.1 && (unregs tr).all fun x => !(x.2 == u.2 && r.1 ≤ x.1 && x.1 ≤ u.1))
  && distinctB (regEvs tr)

/-! ### K7 — the link -/

def dstOK (dst : Option Nat) (h : Nat) : Bool := match dst with | none => true | some x => x == h

/-- K7a: every processed delivery is of a datagram sent at most `maxDelay` earlier, to a host that is up -/
def K7a (cfg : Cfg) (tr : Trace) : Bool :=
  (dlvs tr).all fun e =>
    upAt tr e.h e.t
    && (sends tr).any fun s => s.d == e.d && s.h == e.src && s.items == e.items && s.t ≤ e.t && e.t ≤ s.t + cfg.maxDelay
                                && (s.dst.isNone == e.mc) && dstOK s.dst e.h

structure Obl where
  d : Nat
  t : Int
  h : Nat
  items : List Item
  deriving DecidableEq

def hostsOf (tr : Trace) : List Nat := (ups tr).map (·.2)

def obligations (cfg : Cfg) (tr : Trace) (endT : Int) : List Obl :=
  (sends tr).flatMap fun s =>
    (hostsOf tr).filterMap fun h =>
      if s.t + cfg.maxDelay ≤ endT && dstOK s.dst h && upBefore tr h s.t && !closedBy tr h (s.t + cfg.maxDelay)
      then some ⟨s.d, s.t, h, s.items⟩ else none

def delivered (cfg : Cfg) (tr : Trace) (o : Obl) : Bool :=
  (dlvs tr).any fun e => e.d == o.d && e.h == o.h && e.items == o.items && o.t ≤ e.t && e.t ≤ o.t + cfg.maxDelay

def missing (cfg : Cfg) (tr : Trace) (endT : Int) : List Obl := (obligations cfg tr endT).filter fun o => !delivered cfg tr o

/-- K7b — "the loss of any single datagram": every datagram reaches every host that came up before it was sent (and is not closed
meanwhile) within `maxDelay`, except that **one datagram** may be lost — for one receiver, for several, or for all of them
(a multicast datagram lost at the sender): all deliveries that are owed and did not happen are deliveries of the same send -/
def K7b (cfg : Cfg) (tr : Trace) (endT : Int) : Bool :=
  (missing cfg tr endT).all fun a => (missing cfg tr endT).all fun b => a.d == b.d && a.t == b.t

def K7 (cfg : Cfg) (tr : Trace) (endT : Int) : Bool := K7a cfg tr && K7b cfg tr endT

/-! ### K6, K2 — what a host sends about a service follows its registration state -/

/-- K6 (C08, strengthened to "from the unregister call on"): a PTR with TTL > 0 for `s` is only sent by the owner
of `s` while `s` is registered -/
def K6 (cfg : Cfg) (tr : Trace) : Bool :=
  (sends tr).all fun sd => (ptrSvcs sd.items).all fun s => !pos s sd.items || (s.owner == sd.h && regAt cfg tr s sd.t)

def lastOr (l : List Int) (d : Int) : Int := l.getLastD d

/-- K2 safety: a goodbye for `s` is only sent by its owner within the goodbye window of an `unreg` -/
def K2s (cfg : Cfg) (tr : Trace) : Bool :=
  (sends tr).all fun sd => (ptrSvcs sd.items).all fun s =>
    !bye s sd.items || (s.owner == sd.h && (unregs tr).any fun u => u.2 == s && u.1 ≤ sd.t && sd.t ≤ u.1 + lastOr cfg.bye 0)

def mcastAt (tr : Trace) (h : Nat) (t : Int) (p : List Item → Bool) : Bool :=
  (sends tr).any fun sd => sd.h == h && sd.t == t && sd.dst.isNone && p sd.items

/-- K2 liveness (C08): `unregister s` / `close` at `t` ⇒ multicast goodbyes for `s` at `t`, `t+125`, `t+250` -/
def K2l (cfg : Cfg) (tr : Trace) (endT : Int) : Bool :=
  (unregs tr).all fun u => cfg.bye.all fun off => !(u.1 + off ≤ endT) || mcastAt tr u.2.owner (u.1 + off) (bye u.2)

def K2 (cfg : Cfg) (tr : Trace) (endT : Int) : Bool := K2s cfg tr && K2l cfg tr endT

/-! ### K1 — announcements -/

/-- another register/update/unregister call for `s` at a time in `(t, t2]` -/
def laterRegEv (tr : Trace) (s : Svc) (t t2 : Int) : Bool := (regEvs tr).any fun x => x.2 == s && t < x.1 && x.1 ≤ t2

def K1for (tr : Trace) (endT : Int) (offs : List Int) (t : Int) (s : Svc) : Bool :=
  !(t + lastOr offs 0 ≤ endT) || laterRegEv tr s t (t + lastOr offs 0) || offs.all fun off => mcastAt tr s.owner (t + off) (posFull s)

/-- K1 (C09): `register s` at `t`, not withdrawn or replaced meanwhile ⇒ complete announcements at `t+350`, `t+575`, `t+800`;
`update s` at `t` ⇒ at `t`, `t+225`, `t+450` -/
def K1 (cfg : Cfg) (tr : Trace) (endT : Int) : Bool :=
  ((regs tr).all fun r => K1for tr endT cfg.ann r.1 r.2) && ((upds tr).all fun u => K1for tr endT cfg.updAnn u.1 u.2)

/-! ### K3 — query opportunities of a browser -/

/-- host `h` has processed a PTR(`s`) with TTL > 0 by time `t` -/
def received (tr : Trace) (h : Nat) (s : Svc) (t : Int) : Bool := (dlvs tr).any fun e => e.h == h && e.t ≤ t && pos s e.items

/-- the datagram asks for `ty` (QU iff `qu`) and lists as known answers only instances that `h` has received -/
def asks (tr : Trace) (h : Nat) (t : Int) (ty : Nat) (qu : Bool) (items : List Item) : Bool :=
  items.any fun it => match it with
    | .query ty' known qu' => ty' == ty && qu' == qu && known.all fun k => received tr h k t
    | _ => false

/-- the `k`-th opportunity (window `[lo, hi]`): the first is a QU question that is always sent; a later one is a QM
question that is sent unless the host asked or heard the same QM question at most `dupQ` earlier with known answers
among its own -/
def K3opp (cfg : Cfg) (tr : Trace) (h : Nat) (ty : Nat) (first : Bool) (lo hi : Int) : Bool :=
  if first then
    (sends tr).any fun sd => sd.h == h && sd.dst.isNone && lo ≤ sd.t && sd.t ≤ hi && asks tr h sd.t ty true sd.items
  else
    ((sends tr).any fun sd => sd.h == h && sd.dst.isNone && lo - cfg.dupQ ≤ sd.t && sd.t ≤ hi && asks tr h sd.t ty false sd.items)
    || ((dlvs tr).any fun e => e.h == h && e.mc && lo - cfg.dupQ ≤ e.t && e.t ≤ hi && asks tr h e.t ty false e.items)

def K3opps (cfg : Cfg) (tr : Trace) (endT : Int) (h ty : Nat) (t : Int) : List Int → Bool → Bool
  | [], _ => true
  | off :: r, first =>
    (!(t + cfg.qHi + off ≤ endT) || K3opp cfg tr h ty first (t + cfg.qLo + off) (t + cfg.qHi + off)) && K3opps cfg tr endT h ty t r false

/-- K3 (C10, C13): a browser started at `t` has query opportunities at `t+d`, `+1 s`, `+5 s`, `+14 s` (20 ≤ d ≤ 120) -/
def K3 (cfg : Cfg) (tr : Trace) (endT : Int) : Bool :=
  (browses tr).all fun b => !neverClosed tr b.2.host || K3opps cfg tr endT b.2.host b.2.ty b.1 cfg.qOff true

/-! ### K4 — the responder -/

def svcsOf (tr : Trace) : List Svc := (regs tr).map (·.2)

def answersTo (cfg : Cfg) (tr : Trace) (h : Nat) (a : Int) (src : Nat) (qu : Bool) (s : Svc) : Bool :=
  (sends tr).any fun sd => sd.h == h && a - cfg.respBefore ≤ sd.t && sd.t ≤ a + cfg.respAfter && posFull s sd.items
                            && (sd.dst.isNone || (qu && sd.dst == some src))

/-- K4 (C03, C11, C12): a PTR question for type(`s`) that does not list `s`, processed by the owner while `s` is
registered, is answered with PTR(`s`) + SRV, TXT, addresses within `[a - 1000, a + 1200]` by multicast (or, QU, by
unicast to the asker).  The window opens 1 s *before* the arrival because the listener ignores a byte-identical datagram
that follows one it processed less than a second earlier (that one was answered). -/
def K4 (cfg : Cfg) (tr : Trace) (endT : Int) : Bool :=
  (dlvs tr).all fun e => !(e.t + cfg.respAfter ≤ endT) || e.items.all fun it => match it with
    | .query ty known qu => (svcsOf tr).all fun s =>
        !(s.owner == e.h && s.ty == ty && !(known.contains s) && regThrough cfg tr s (e.t - cfg.respBefore) (e.t + cfg.respAfter))
        || answersTo cfg tr e.h e.t e.src qu s
    | _ => true

/-! ### K5 — browser callbacks follow the host's cache -/

def cbSvcs (tr : Trace) : List Svc :=
  tr.filterMap fun e => match e.e with | .added _ s => some s | .removed _ s => some s | _ => none

def dlvSvcs (tr : Trace) : List Svc := (dlvs tr).flatMap fun e => ptrSvcs e.items

def dedupSvc : List Svc → List Svc
  | [] => []
  | a :: r => if r.contains a then dedupSvc r else a :: dedupSvc r

/-- at instant `T`, the end of `p`: every browser on a host that has not been closed reports the instances of its type that its
host holds (unexpired), and nothing that the host does not hold (or held until less than a cleanup period ago) -/
def k5At (cfg : Cfg) (p : Trace) (T : Int) : Bool :=
  (browses p).all fun b => !neverClosed p b.2.host ||
    (dedupSvc (cbSvcs p ++ dlvSvcs p)).all fun s =>
      (!(heldFresh cfg p b.2.host s T && s.ty == b.2.ty) || live p b.2 s)
      && (!live p b.2 s || (heldGrace cfg p b.2.host s T && s.ty == b.2.ty))

def relevantK5 (e : TEv) : Bool :=
  match e.e with
  | .dlv _ _ _ _ items => !(ptrSvcs items).isEmpty
  | .added _ _ | .removed _ _ | .browse _ | .close _ | .obs => true
  | _ => false

def dedupAdj : List Int → List Int
  | a :: b :: r => if a = b then dedupAdj (b :: r) else a :: dedupAdj (b :: r)
  | l => l

/-- K5 (C04, C06) as an invariant of every instant at which something relevant happened or the observer looked:
`live = held ∧ type`, `held` = last PTR positive and unexpired (with one cleanup period of grace for the Removed) -/
def K5 (cfg : Cfg) (tr : Trace) (endT : Int) : Bool :=
  (endT :: dedupAdj ((tr.filter relevantK5).map (·.t))).all fun T => k5At cfg (tr.filter fun e => e.t ≤ T) T

/-! ### K3b — refresh: a held PTR is re-queried before it expires -/

/-- a QM question for `ty` that does not list `s` as a known answer -/
def asksWithout (ty : Nat) (s : Svc) (items : List Item) : Bool :=
  items.any fun it => match it with
    | .query ty' known qu => ty' == ty && !qu && !(known.contains s)
    | _ => false

/-- host `h` multicasts such a question at a time in `[a, b]`, or hears one (which suppresses its own) -/
def refreshOpp (tr : Trace) (h ty : Nat) (s : Svc) (a b : Int) : Bool :=
  ((sends tr).any fun sd => sd.h == h && sd.dst.isNone && a ≤ sd.t && sd.t ≤ b && asksWithout ty s sd.items)
  || ((dlvs tr).any fun e => e.h == h && e.mc && a ≤ e.t && e.t ≤ b && asksWithout ty s e.items)

/-- host `h` processes no PTR(`s`) (of any TTL) at a time in `(t1, t2]` -/
def noPtrBetween (tr : Trace) (h : Nat) (s : Svc) (t1 t2 : Int) : Bool :=
  (dlvs tr).all fun e => !(e.h == h && (ptrOf s e.items).isSome && t1 < e.t && e.t ≤ t2)

/-- the two refresh windows for a PTR processed at `t` with lifetime `e` seconds by a host whose browser started at `tb`.
If the browser had finished its start-up phase when the earliest possible schedule of the record's 75 % query came
(`tb + qHi + 14 s + refreshEarly ≤ t + 75 % e`): around `t + 75 % e` and `t + 85 % e` (from `refreshEarly + dupQ` before — a
refreshed record keeps a schedule within one `browserTime` of its new 75 % point, and a heard question suppresses — to `refreshWin`
after).  Otherwise — the browser started later, or so shortly before that the 75 % point falls into its start-up phase, during
which the scheduler serves no refresh — its third and fourth start-up questions (K3's windows): by then the record is past half its
life, stale, and is not listed. -/
def refreshWindow (cfg : Cfg) (t e tb : Int) (second : Bool) : Int × Int :=
  if tb + cfg.qHi + cfg.qOff.getD 3 0 + cfg.refreshEarly ≤ t + cfg.refresh1 * e then
    let due := t + (if second then cfg.refresh2 else cfg.refresh1) * e
    (due - cfg.refreshEarly - cfg.dupQ, due + cfg.refreshWin)
  else
    let off := if second then cfg.qOff.getD 3 0 else cfg.qOff.getD 2 0
    (tb + cfg.qLo + off - cfg.dupQ, tb + cfg.qHi + off)

def k3bAt (cfg : Cfg) (tr : Trace) (endT : Int) (h ty : Nat) (tb : Int) (t e : Int) (s : Svc) (second : Bool) : Bool :=
  !((refreshWindow cfg t e tb second).2 ≤ endT && noPtrBetween tr h s t (refreshWindow cfg t e tb second).2)
  || refreshOpp tr h ty s (refreshWindow cfg t e tb second).1 (refreshWindow cfg t e tb second).2

/-- K3b (C10): a browser's host that processed PTR(`s`) with TTL τ > 0 at `t` and no PTR(`s`) since asks for the type again —
not listing `s`, which is stale by then — in each of the two `refreshWindow`s, unless the record was refreshed or withdrawn
by the end of that window -/
def K3b (cfg : Cfg) (tr : Trace) (endT : Int) : Bool :=
  (browses tr).all fun b => !neverClosed tr b.2.host || (dlvs tr).all fun x => !(x.h == b.2.host) ||
    (ptrSvcs x.items).all fun s => !(s.ty == b.2.ty && pos s x.items) ||
      match ptrOf s x.items with
      | none => true
      | some (ttl, _) =>
        k3bAt cfg tr endT b.2.host b.2.ty b.1 x.t (effTtl cfg ttl / 1000) s false
        && k3bAt cfg tr endT b.2.host b.2.ty b.1 x.t (effTtl cfg ttl / 1000) s true

/-- KF (a *theorem* from K3b, K4, K7 and the other contracts: `C07_fresh`; still monitored as a cross-check): on a browsing host, the PTR of a registered
instance of the browsed type has not expired at the end of the window -/
def KF (cfg : Cfg) (tr : Trace) (endT : Int) : Bool :=
  (browses tr).all fun b => !neverClosed tr b.2.host ||
    (dlvSvcs tr).all fun s => !(s.ty == b.2.ty && registered cfg tr s) || unexpired cfg tr b.2.host s endT 0

/-! ### the lookup started from `Added` -/

/-- completeness of every positive answer (the "+ SRV, TXT, addresses" of K1 and K4, for *every* send): whenever a host sends
PTR(`s`) with TTL > 0, SRV, TXT and an address of the target travel in the same datagram -/
def K6full (tr : Trace) : Bool :=
  (sends tr).all fun sd => (ptrSvcs sd.items).all fun s => !pos s sd.items || posFull s sd.items

def addeds (tr : Trace) : List (Int × Br × Svc) :=
  tr.filterMap fun e => match e.e with | .added b s => some (e.t, b, s) | _ => none

/-- the causal clause of K5 for Added: the callback fires no earlier than the host processed a PTR(`s`) with TTL > 0 -/
def K5added (tr : Trace) : Bool :=
  (addeds tr).all fun a => (dlvs tr).any fun e => e.h == a.2.1.host && e.t ≤ a.1 && pos a.2.2 e.items

/-! ### the conclusion -/

def activeBrowsers (tr : Trace) : List Br := ((browses tr).filter fun b => neverClosed tr b.2.host).map (·.2)

def convergedFor (cfg : Cfg) (tr : Trace) (b : Br) (s : Svc) : Bool :=
  live tr b s == (registered cfg tr s && s.ty == b.ty)

end Zc.Link
