import Zc.Model.Link
import Zc.Model.Goodbye
import Zc.Gen.Link
/-! # From a host model to the link: the projection of runs of `Zc.Goodbye.Host` (C08/C09's block machine: registry,
outgoing queues, broadcast tasks, close sequence) to the link events of `Zc.Model.Link`

A *timed run* is a list of `Step`s: consecutive enabled blocks from a start state, each with the instant at which it runs
(non-decreasing; a block that carries its own time — `now`, `due` — runs at exactly that time) and the datagrams it emits.
`events` projects a run to the link trace of that host:

* `reg s` / `unreg s` are read off the **registry**: a step after which the registry holds a service it did not hold before
  yields `reg` dated `regDelay = 350 ms` earlier (the machine's `register` block is the registry add at the *end* of
  `async_register_service`; the link trace dates `reg` at the call); a step after which it no longer holds one yields `unreg`
  at that instant (that is how the harness logs `unregister` and `close`);
* every datagram emitted yields a `send` whose items are the well-formed PTR records it carries (type PTR, class IN) with
  their TTLs — what `harness/c07.py:abstract` extracts, except that `abstract` sets `full` only when an address record of the SRV
  *target* is present and `fullFor` accepts any address record (unchecked correspondence) — and whose destination is the block's route (`dstOf`: the
  multicast group for everything but the query handler's immediate answer, by the generated leaves of `Zc.Gen.Link`).

Names are mapped to link identities by a `Naming` (host number, numbering of lower-cased type and instance names).
No Mathlib. -/
namespace Zc.Bridge
open Zc Zc.Goodbye Zc.Register

structure Naming where
  host : Nat
  tyId : String → Nat
  svcId : String → Nat

structure Step where
  t : Int
  b : Block
  pre : Host
  post : Host
  out : List Pkt
  /-- where the query handler sends what an `answer` block emits (multicast `none`, or the host of the unicast destination) — an
  input of the step, like the records of that block; ignored for every other block (`dstOf`) -/
  adst : Option Nat := none

/-- the instant a block carries, if any -/
def blockTime : Block → Option Int
  | .register _ _ now => some now
  | .update _ _ now => some now
  | .unregister _ _ now => some now
  | .task _ _ _ due => some due
  | .answer _ => none
  | .enqueue _ now _ _ => some now
  | .ready _ now => some now
  | .unregisterAll now => some now
  | .allStep due => some due
  | .close => none

/-- a call `async_send(out)` that passes the packet alone has no address (`addr=None`), and `async_send_with_transport` sends a
datagram without address to the mDNS group: generated leaves -/
def mcastCall (nargs : Nat) : Bool :=
  decide (nargs = 1) && Gen.Link.send_addr_default_none && Gen.Link.send_to_group true

/-- **the route of what a block emits.**  Broadcast tasks (`_async_broadcast_service`: announcements and goodbyes), the close
sequence (`async_unregister_all_services`) and the timer callbacks of the two outgoing queues (`async_ready`) call
`async_send(out)` with the packet alone, i.e. send to the multicast group; only the query handler's immediate answer (`answer`) can
be a unicast, and its destination `adst` is an input of the step.  The other blocks emit nothing. -/
def dstOf (b : Block) (adst : Option Nat) : Option Nat :=
  match b with
  | .answer _ => adst
  | .task _ _ _ _ => if mcastCall Gen.Link.broadcast_send_nargs then none else adst
  | .unregisterAll _ => if mcastCall Gen.Link.unregister_all_send_nargs then none else adst
  | .allStep _ => if mcastCall Gen.Link.unregister_all_send_nargs then none else adst
  | .ready _ _ => if mcastCall Gen.Link.queue_ready_send_nargs then none else adst
  | _ => adst

section
variable (lower : String → String) (N : Naming)

/-- a timed run from state `h`, not earlier than `T` -/
inductive IsRun : Host → Int → List Step → Prop where
  | nil (h : Host) (T : Int) : IsRun h T []
  | cons (h h' : Host) (T t : Int) (b : Block) (out : List Pkt) (ad : Option Nat) (rest : List Step) :
      h.step lower b = some (h', out) → T ≤ t → (∀ bt, blockTime b = some bt → bt = t) → IsRun h' t rest →
      IsRun h T (⟨t, b, h, h', out, ad⟩ :: rest)

/-- executable construction of a timed run from a schedule of (instant, block); immediate answers, if any, are multicast -/
def mkRun : Host → Int → List (Int × Block) → Option (List Step)
  | _, _, [] => some []
  | h, T, (t, b) :: rest =>
    if T ≤ t ∧ (blockTime b = none ∨ blockTime b = some t) then
      match h.step lower b with
      | none => none
      | some (h', out) => (mkRun h' t rest).map (fun l => ⟨t, b, h, h', out, none⟩ :: l)
    else none

/-- … with the destination of every immediate answer given -/
def mkRunD : Host → Int → List (Int × Block × Option Nat) → Option (List Step)
  | _, _, [] => some []
  | h, T, (t, b, ad) :: rest =>
    if T ≤ t ∧ (blockTime b = none ∨ blockTime b = some t) then
      match h.step lower b with
      | none => none
      | some (h', out) => (mkRunD h' t rest).map (fun l => ⟨t, b, h, h', out, ad⟩ :: l)
    else none

/-- the link identity of a service of this host -/
def sigma (s : Register.Svc) : Link.Svc := ⟨N.host, N.tyId (lower s.type), N.svcId (lower s.name)⟩

def sig (h : Host) : List Link.Svc := h.reg.map (fun e => sigma lower N e.svc)

/-- SRV, TXT and an address travel with the pointer -/
def fullFor (p : Pkt) (alias : String) : Bool :=
  let rs := p.answers ++ p.additionals
  (rs.any fun x => decide (x.type = Gen.typeSrv) && decide (lower x.name = lower alias))
  && (rs.any fun x => decide (x.type = Gen.typeTxt) && decide (lower x.name = lower alias))
  && (rs.any fun x => decide (x.type = Gen.typeA) || decide (x.type = Gen.typeAaaa))

/-- a well-formed PTR record (type PTR, class IN) as a link item -/
def ptrItem (p : Pkt) (r : Rec) : Option Link.Item :=
  match r.rdata with
  | .ptr alias =>
    if r.type = Gen.typePtr ∧ r.class_ = Gen.Dns.class_of Gen.classIn then
      some (.ptr ⟨N.host, N.tyId (lower r.name), N.svcId (lower alias)⟩ r.ttl (fullFor lower p alias))
    else none
  | _ => none

def itemsOf (p : Pkt) : List Link.Item := (p.answers ++ p.additionals).filterMap (ptrItem lower N p)

/-- services the registry holds after the step and did not hold before / held before and no longer holds -/
def adds (st : Step) : List Link.Svc := (sig lower N st.post).filter fun s => !(sig lower N st.pre).contains s
def removes (st : Step) : List Link.Svc := (sig lower N st.pre).filter fun s => !(sig lower N st.post).contains s

/-- `upd s`: an `update` block for a service the registry holds (an `update` of a name it does not hold acts as a registration
and shows up as `reg`) -/
def updSvcs (st : Step) : List Link.Svc :=
  match st.b with
  | .update s _ _ => if (sig lower N st.pre).contains (sigma lower N s) then [sigma lower N s] else []
  | _ => []

def stepEvents (st : Step) : Link.Trace :=
  (adds lower N st).map (fun s => ⟨st.t - 350, .reg s⟩)
  ++ (removes lower N st).map (fun s => ⟨st.t, .unreg s⟩)
  ++ (updSvcs lower N st).map (fun s => ⟨st.t, .upd s⟩)
  ++ st.out.map (fun p => ⟨st.t, .send N.host 0 (dstOf st.b st.adst) (itemsOf lower N p)⟩)

/-- the link trace of a run (not sorted: `reg` is dated back; the contracts K1, K2, K6 do not depend on the order) -/
def events (l : List Step) : Link.Trace := l.flatMap (stepEvents lower N)

/-- API discipline of a step (what the harness's WF asks of the application): `update` and `unregister` are called with an
info whose type is the type under which that name is registered -/
def Disc (st : Step) : Prop :=
  match st.b with
  | .update s _ _ => ∀ e ∈ st.pre.reg, key lower e.svc = key lower s → lower e.svc.type = lower s.type
  | .unregister s _ _ => ∀ e ∈ st.pre.reg, key lower e.svc = key lower s → lower e.svc.type = lower s.type
  | _ => True

/-- further API discipline, needed for the safety half of K2: services are registered / updated with non-zero TTLs
(`other_ttl`, `host_ttl` > 0), and `unregister` is called on a name that is registered (the real registry raises `KeyError`
otherwise; the machine would start a goodbye task for nothing) -/
def Disc2 (st : Step) : Prop :=
  match st.b with
  | .register s _ _ => 0 < s.otherTtl ∧ 0 < s.hostTtl
  | .update s _ _ => 0 < s.otherTtl ∧ 0 < s.hostTtl
  | .unregister s _ _ => ∃ e ∈ st.pre.reg, key lower e.svc = key lower s
  | _ => True

/-- for K1: a registered / updated service has at least one address (otherwise its announcement carries an NSEC record only and is
not "complete") -/
def Disc3 (st : Step) : Prop :=
  match st.b with
  | .register s _ _ => s.v4 ≠ [] ∨ s.v6 ≠ []
  | .update s _ _ => s.v4 ≠ [] ∨ s.v6 ≠ []
  | _ => True

/-- the step yields a register / update / unregister event of `s` -/
def regEvOf (st : Step) (s : Link.Svc) : Prop := s ∈ adds lower N st ∨ s ∈ removes lower N st ∨ s ∈ updSvcs lower N st

/-- API calls on one service happen at distinct instants (the harness's WF: `distinctB (regEvs tr)`) -/
def DistinctCalls (l : List Step) : Prop :=
  ∀ pre st post, l = pre ++ st :: post → ∀ st' ∈ post, st'.t = st.t → ∀ s, regEvOf lower N st s → ¬ regEvOf lower N st' s

/-- … and a name is registered again no earlier than 350 ms (one probing phase) after it was last withdrawn: the `reg` event
of a service follows all its earlier `unreg` events -/
def Spaced (E : Link.Trace) (l : List Step) : Prop :=
  ∀ pre st post, l = pre ++ st :: post → ∀ s ∈ adds lower N st,
    ∀ x ∈ Link.unregs (E ++ events lower N pre), x.2 = s → x.1 < st.t - 350

/-- the liveness half of the event-loop axiom (DESIGN §4.7 `WFSched`) for this machine, which `Host.run` itself does not
state (it accepts every list of enabled blocks): a broadcast task, or a close sequence, that is pending after a step and due
within the window is the one executed by a later step — at its due time, since a `task` / `allStep` block runs at its `due` -/
def Fair (steps : List Step) (endT : Int) : Prop :=
  (∀ pre st post, steps = pre ++ st :: post → ∀ τ ∈ st.post.tasks, τ.due ≤ endT →
      ∃ post1 st' post2, post = post1 ++ st' :: post2 ∧ st'.b = .task τ.oid τ.ttl τ.addresses τ.due ∧
        findTask st'.pre.tasks τ.oid τ.ttl τ.addresses τ.due = some τ)
  ∧ (∀ pre st post, steps = pre ++ st :: post → ∀ a ∈ st.post.closing, a.due ≤ endT →
      ∃ post1 st' post2, post = post1 ++ st' :: post2 ∧ st'.b = .allStep a.due ∧
        st'.pre.closing.find? (fun x => x.due == a.due) = some a)

/-- the instance is not closed (`_close`) before the end of the run: `async_send` is not yet a no-op -/
def Open (steps : List Step) : Prop := ∀ st ∈ steps, st.pre.done = false

end

end Zc.Bridge
