import Zc.Model.Dns
import Zc.Gen.Cache
/-! `_cache.py` (`DNSCache`) and `_handlers/record_manager.py` (`RecordManager`).

The model mirrors the code with the D4 repair (`store.pop(record, None)` before
`store[record] = record` in both indexes), under which the key object and the value object of a
dict entry are always the same live record: an entry is one `Rec`.  The SRV index
`service_cache` holds the *same objects* as `cache`; in this value model every in-place mutation
(`reset_ttl`, `set_created_ttl`) is therefore applied to the copies in both indexes (`mapRecs`).

Python `dict` = insertion-ordered association list; `str.lower` = the parameter `lower`. -/
namespace Zc
open Zc.Gen

abbrev Bucket := List Rec
/-- `Dict[str, Dict[DNSRecord, DNSRecord]]` -/
abbrev Index := List (String × Bucket)

namespace Index
def find? : Index → String → Option Bucket
  | [], _ => none
  | (k', b) :: t, k => if k' = k then some b else find? t k
/-- `m.get(k) or {}` -/
def get (m : Index) (k : String) : Bucket := (find? m k).getD []
def keys (m : Index) : List String := m.map Prod.fst
/-- `m[k] = b`: in place when the key exists, appended otherwise -/
def set : Index → String → Bucket → Index
  | [], k, b => [(k, b)]
  | (k', b') :: t, k, b => if k' = k then (k', b) :: t else (k', b') :: set t k b
/-- `del m[k]` -/
def erase (m : Index) (k : String) : Index := m.filter (fun e => e.1 != k)
/-- apply `f` to every stored record object -/
def mapRecs (f : Rec → Rec) (m : Index) : Index := m.map (fun kb => (kb.1, kb.2.map f))
end Index

def Rec.setLife (r : Rec) (created : Ms) (ttl : Nat) : Rec := { r with created := created, ttl := ttl }

/-- `record.server_key` when `isinstance(record, DNSService)` -/
def Rec.serverKey (lower : String → String) (r : Rec) : Option String :=
  match r.rdata with
  | .srv _ _ _ s => some (lower s)
  | _ => none

section
variable (lower : String → String)

/-- `record in store` -/
def Bucket.has (b : Bucket) (r : Rec) : Bool := b.any (fun e => e.beq lower r)
/-- `store.get(record)` -/
def Bucket.lookup (b : Bucket) (r : Rec) : Option Rec := b.find? (fun e => e.beq lower r)
/-- `store.pop(record, None); store[record] = record` (D4 repair: key and value are the new object, at the end) -/
def Bucket.put (b : Bucket) (r : Rec) : Bucket := b.filter (fun e => !(e.beq lower r)) ++ [r]
/-- `del store[record]` -/
def Bucket.del (b : Bucket) (r : Rec) : Bucket := b.filter (fun e => !(e.beq lower r))

structure Cache where
  cache : Index := []
  svc : Index := []
  deriving Repr, Inhabited

namespace Cache

/-- `DNSCache._async_add` -/
def add (c : Cache) (r : Rec) : Cache × Bool :=
  let k := lower r.name
  let store := c.cache.get k
  let new := Gen.Cache.add_is_new (!(Bucket.has lower store r)) (decide (r.rdata.kind = .nsec))
  let cache := c.cache.set k (Bucket.put lower store r)
  let svc := match r.serverKey lower with
    | some h => c.svc.set h (Bucket.put lower (c.svc.get h) r)
    | none => c.svc
  ({ cache := cache, svc := svc }, new)

/-- `_remove_key(cache, key, record)` -/
def removeKey (m : Index) (k : String) (r : Rec) : Except PyExc Index :=
  match m.find? k with
  | none => .error .keyError
  | some b =>
    if Bucket.has lower b r then
      let b' := Bucket.del lower b r
      .ok (if b'.isEmpty then m.erase k else m.set k b')
    else .error .keyError

/-- `DNSCache._async_remove` -/
def remove (c : Cache) (r : Rec) : Except PyExc Cache := do
  let svc ← match r.serverKey lower with
    | some h => removeKey lower c.svc h r
    | none => pure c.svc
  let cache ← removeKey lower c.cache (lower r.name) r
  pure { cache := cache, svc := svc }

/-- `for records in self.cache.values() for record in records` -/
def allRecs (c : Cache) : List Rec := c.cache.flatMap (fun kb => kb.2)

/-! readers -/

/-- `DNSCache.async_get_unique` -/
def getUnique (c : Cache) (r : Rec) : Option Rec := (c.cache.find? (lower r.name)).bind (fun b => Bucket.lookup lower b r)

/-- `DNSCache.get` -/
def get (c : Cache) (r : Rec) : Option Rec :=
  if r.rdata.kind ≠ .nsec then Bucket.lookup lower (c.cache.get (lower r.name)) r
  else (c.cache.get (lower r.name)).reverse.find? (fun e => r.beq lower e)

/-- `DNSCache.get_by_details` -/
def getByDetails (c : Cache) (name : String) (type class_ : Nat) : Option Rec :=
  (c.cache.get (lower name)).reverse.find? (fun e => decide (type = e.type) && decide (class_ = e.class_))

/-- `DNSCache.get_all_by_details` / `async_all_by_details` -/
def getAllByDetails (c : Cache) (name : String) (type class_ : Nat) : List Rec :=
  (c.cache.get (lower name)).filter (fun e => decide (type = e.type) && decide (class_ = e.class_))

/-- `DNSCache.entries_with_name` -/
def entriesWithName (c : Cache) (name : String) : List Rec := c.cache.get (lower name)
/-- `DNSCache.entries_with_server` -/
def entriesWithServer (c : Cache) (name : String) : List Rec := c.svc.get (lower name)
/-- `DNSCache.names` -/
def names (c : Cache) : List String := c.cache.keys

/-! the event-loop-only twins: separate function bodies in `_cache.py`, each with its own `name.lower()`, returning the live
dict / a fresh list instead of a copy.  Same contents as the thread-safe readers. -/
/-- `DNSCache.async_entries_with_name` (the keys of the bucket dict) -/
def asyncEntriesWithName (c : Cache) (name : String) : List Rec := c.cache.get (lower name)
/-- `DNSCache.async_entries_with_server` -/
def asyncEntriesWithServer (c : Cache) (name : String) : List Rec := c.svc.get (lower name)
/-- `DNSCache.async_all_by_details` -/
def asyncAllByDetails (c : Cache) (name : String) (type class_ : Nat) : List Rec :=
  (c.cache.get (lower name)).filter (fun e => decide (type = e.type) && decide (class_ = e.class_))

/-- `DNSCache.current_entry_with_name_and_alias`: the most recently inserted pointer record of `name` whose alias is spelled
`alias` and that has not expired at `now` — the one lookup that reads the wall clock itself (`now = current_time_millis()`).
(A record of type PTR that is not a `DNSPointer` has no `alias`: the code would raise `AttributeError`; the decoder never builds
one, the model answers "no match".) -/
def currentEntryWithNameAndAlias (c : Cache) (name alias : String) (now : Ms) : Option Rec :=
  (c.entriesWithName lower name).reverse.find? (fun e =>
    decide (e.type = Gen.typePtr) && !(e.isExpired now) && (match e.rdata with | .ptr a => decide (a = alias) | _ => false))

/-! in-place mutation of cached record objects -/

def mapRecs (f : Rec → Rec) (c : Cache) : Cache := { cache := c.cache.mapRecs f, svc := c.svc.mapRecs f }

/-- `maybe_entry.reset_ttl(record)`, `maybe_entry` being the cached object equal to `record` -/
def resetTtl (c : Cache) (r : Rec) : Cache :=
  c.mapRecs (fun e => if e.beq lower r then e.setLife r.created r.ttl else e)

/-- does the flush of `async_mark_unique_records_older_than_1s_to_expire` hit the cached record `e`? -/
def flushHit (uts : List (String × Nat × Nat)) (answers : List Rec) (now : Ms) (e : Rec) : Bool :=
  uts.any (fun u => decide (lower u.1 = lower e.name) && decide (u.2.1 = e.type) && decide (u.2.2 = e.class_))
    && Gen.Cache.flush_test now e.created (!(answers.any (fun a => a.beq lower e)))

/-- `DNSCache.async_mark_unique_records_older_than_1s_to_expire` -/
def markFlush (c : Cache) (uts : List (String × Nat × Nat)) (answers : List Rec) (now : Ms) : Cache :=
  c.mapRecs (fun e => if flushHit lower uts answers now e then e.setLife now 1 else e)

end Cache

/-! ### `RecordManager.async_updates_from_response`

The record manager only uses the cache through six operations, so it is written once over an
abstract cache (`CacheOps`) and instantiated with the indexed `Cache` above (the code) and with the
flat reference store of `Zc.Flat` (the RFC 6762 §10 reference model of C05/C06). -/

structure CacheOps (σ : Type) where
  getUnique : σ → Rec → Option Rec
  resetTtl : σ → Rec → σ
  markFlush : σ → List (String × Nat × Nat) → List Rec → Ms → σ
  add : σ → Rec → σ × Bool
  remove : σ → Rec → Except PyExc σ
  /-- iteration over all cached records (`async_expire`) -/
  allRecs : σ → List Rec

def Cache.ops : CacheOps Cache where
  getUnique := Cache.getUnique lower
  resetTtl := Cache.resetTtl lower
  markFlush := Cache.markFlush lower
  add := Cache.add lower
  remove := Cache.remove lower
  allRecs := Cache.allRecs

/-- the PTR TTL floor (`record.set_created_ttl(record.created, _DNS_PTR_MIN_TTL)`) -/
def floorPtr (r : Rec) : Rec :=
  if Gen.Cache.ptr_floor_test r.ttl r.type then r.setLife r.created Gen.dnsPtrMinTtl else r

/-- the per-datagram work lists -/
structure IngestAcc (σ : Type) where
  cache : σ
  /-- `(record, maybe_entry is not None)`; the old object is live, so it is re-read at call time -/
  updates : List (Rec × Bool) := []
  addrAdds : List Rec := []
  otherAdds : List Rec := []
  /-- a `set` of records -/
  removes : List Rec := []
  uniqueTypes : List (String × Nat × Nat) := []

/-- `removes.add(record)` -/
def setInsert (l : List Rec) (r : Rec) : List Rec := if l.any (fun x => x.beq lower r) then l else l ++ [r]

section
variable {σ : Type} (ops : CacheOps σ)

/-- `DNSCache.async_add_records` -/
def addAll (c : σ) (rs : List Rec) : σ × Bool :=
  rs.foldl (fun (acc : σ × Bool) r => ((ops.add acc.1 r).1, acc.2 || (ops.add acc.1 r).2)) (c, false)

/-- `DNSCache.async_remove_records` -/
def removeAll (c : σ) (rs : List Rec) : Except PyExc σ := rs.foldlM ops.remove c

/-- `DNSCache.async_expire`: the purged records, in iteration order -/
def expire (c : σ) (now : Ms) : Except PyExc (σ × List Rec) := do
  let expired := (ops.allRecs c).filter (fun r => r.isExpired now)
  let c' ← removeAll ops c expired
  pure (c', expired)

/-- one iteration of `for record in answers` -/
def ingestStep (now : Ms) (a : IngestAcc σ) (r0 : Rec) : IngestAcc σ :=
  let r := floorPtr r0
  let uts := if r.unique then a.uniqueTypes ++ [(r.name, r.type, r.class_)] else a.uniqueTypes
  match ops.getUnique a.cache r, r.isExpired now with
  | some _, false => { a with uniqueTypes := uts, cache := ops.resetTtl a.cache r, updates := a.updates ++ [(r, true)] }
  | none, false =>
    if Gen.Cache.is_address_type r.type then
      { a with uniqueTypes := uts, addrAdds := a.addrAdds ++ [r], updates := a.updates ++ [(r, false)] }
    else
      { a with uniqueTypes := uts, otherAdds := a.otherAdds ++ [r], updates := a.updates ++ [(r, false)] }
  | some _, true => { a with uniqueTypes := uts, updates := a.updates ++ [(r, true)], removes := setInsert lower a.removes r }
  | none, true => { a with uniqueTypes := uts }

/-- what one datagram does, with the cache as the listeners see it in each of the two calls -/
structure IngestOut (σ : Type) where
  cache : σ
  /-- arguments of `async_update_records` (pairs, `old` read live) and the cache at that moment; `none` = not called -/
  call1 : Option (List (Rec × Option Rec) × σ)
  /-- the cache at `async_update_records_complete`; `none` = not called -/
  call2 : Option σ
  /-- argument of `async_updates_complete` (`new`) -/
  notify : Bool

/-- records as `DNSIncoming` hands them over: `created = msg.now` -/
def stamp (now : Ms) (recs : List Rec) : List Rec := recs.map (fun r => r.setLife now r.ttl)

/-- the loop and the flush: the state when `async_update_records` is called -/
def ingestPre (c : σ) (now : Ms) (recs : List Rec) : IngestAcc σ :=
  let answers := stamp now recs
  let a := answers.foldl (ingestStep lower ops now) { cache := c }
  let c1 := if a.uniqueTypes.isEmpty then a.cache else ops.markFlush a.cache a.uniqueTypes (answers.map floorPtr) now
  { a with cache := c1 }

/-- the `(new, old)` pairs as a listener reads them during `async_update_records` -/
def livePairs (c1 : σ) (updates : List (Rec × Bool)) : List (Rec × Option Rec) :=
  updates.map (fun u => (u.1, if u.2 then ops.getUnique c1 u.1 else none))

/-- `[record for record in removes if cache.async_get_unique(record) is not None]` (D24 repair): the withdrawn records that are
still cached when the first round of callbacks is over — a callback may have registered a listener with a question, whose purge of
expired records (`async_add_listener`) can already have removed one.  `keep` is the test applied to "is it still cached". -/
def keptRemovesWith (keep : Bool → Bool) (c : σ) (rs : List Rec) : List Rec :=
  rs.filter (fun r => keep (ops.getUnique c r).isSome)

/-- the code as it is: the test is the generated leaf `removes_keep_test`; on a tree without the filter it is the constant `true`
(every withdrawn record is handed to `async_remove_records`) -/
def keptRemoves (c : σ) (rs : List Rec) : List Rec := keptRemovesWith ops Gen.Cache.removes_keep_test c rs

/-- `RecordManager.async_updates_from_response` (listeners abstracted to the two observation points) -/
def ingest (c : σ) (now : Ms) (recs : List Rec) : Except PyExc (IngestOut σ) := do
  let a := ingestPre lower ops c now recs
  let c1 := a.cache
  let call1 := if a.updates.isEmpty then none else some (livePairs ops c1 a.updates, c1)
  let c2 := addAll ops c1 a.addrAdds
  let c3 := addAll ops c2.1 a.otherAdds
  let c4 ← removeAll ops c3.1 (keptRemoves ops c3.1 a.removes)
  pure { cache := c4, call1 := call1, call2 := if a.updates.isEmpty then none else some c4, notify := c2.2 || c3.2 }

/-- the second half of `async_updates_from_response`, on the cache as the first round of callbacks left it (`c1`): address adds,
other adds, then the withdrawn records that pass `keep`; returns the cache and `new` -/
def ingestFinishWith (keep : Bool → Bool) (c1 : σ) (a : IngestAcc σ) : Except PyExc (σ × Bool) := do
  let c2 := addAll ops c1 a.addrAdds
  let c3 := addAll ops c2.1 a.otherAdds
  let c4 ← removeAll ops c3.1 (keptRemovesWith ops keep c3.1 a.removes)
  pure (c4, c2.2 || c3.2)

/-- the code as it is -/
def ingestFinish (c1 : σ) (a : IngestAcc σ) : Except PyExc (σ × Bool) := ingestFinishWith ops Gen.Cache.removes_keep_test c1 a

end

end

/-! ### the listener set (`RecordManager.async_updates` / `async_updates_complete`)

`for listener in self.listeners.copy(): listener.async_update_records(...)`: the set is copied before the
iteration, so whatever the callbacks do to `self.listeners` (add or remove listeners, themselves included)
changes who is called *next time*, never who is called now.

`async_remove_listener` does `self.listeners.remove(listener)` on a **set** and catches `ValueError`: removing a
listener that is not registered raises `KeyError`, which is not caught (D18).  Raised from inside a callback it
propagated out of `async_updates` / `async_updates_complete` and aborted the datagram; repaired in 1ae3781
(`except (KeyError, ValueError)`): now a logged no-op. -/

/-- something a callback does to the listener set -/
inductive ListenerAct where
  | add (l : Nat)
  | remove (l : Nat)
  deriving Repr, DecidableEq

/-- `async_add_listener(l, None)` (`set.add`) / `async_remove_listener(l)`: `set.remove` raises `KeyError` when the listener
is not registered; `catches` = does `async_remove_listener` catch it (generated leaf `remove_listener_catches_keyerror`; since
the D18 repair it does: a logged no-op).  Before the repair only `ValueError` was caught and the `KeyError` escaped. -/
def applyAct (catches : Bool) (ls : List Nat) : ListenerAct → Except PyExc (List Nat)
  | .add l => .ok (if ls.contains l then ls else ls ++ [l])
  | .remove l => if ls.contains l then .ok (ls.filter (fun x => x != l)) else if catches then .ok ls else .error .keyError

/-- the body of one callback: its actions in order, up to the first one that raises -/
def runActs (catches : Bool) (live : List Nat) (acts : List ListenerAct) : List Nat × Option PyExc :=
  acts.foldl (fun st a =>
    match st.2 with
    | some _ => st
    | none => match applyAct catches st.1 a with
      | .ok l => (l, none)
      | .error e => (st.1, some e)) (live, none)

/-- one notification round -/
structure Round where
  /-- the listeners whose callback was entered, in order -/
  called : List Nat
  /-- `self.listeners` afterwards -/
  live : List Nat
  /-- the exception that ended the round early, if any -/
  err : Option PyExc
  deriving Repr

/-- one notification round.  `copied`: is `self.listeners` copied before the loop (generated leaves
`updates_iterates_copy` / `complete_iterates_copy`)?  With the copy, the loop runs over the snapshot `ls` in its order,
whatever the callbacks do to the live set; `react l` is what listener `l`'s callback does to the live set; an exception
out of a callback ends the round.  Without the copy CPython raises `RuntimeError: Set changed size during iteration`
at the next step of the loop (also at the step that would end it) once a callback has changed the size of the set. -/
def notifyRoundWith (copied catches : Bool) (ls : List Nat) (react : Nat → List ListenerAct) : Round :=
  let r := ls.foldl (fun st l =>
    match st.err with
    | some _ => st
    | none =>
      if !copied && st.live.length != ls.length then { st with err := some .other }
      else
        let r := runActs catches st.live (react l)
        { called := st.called ++ [l], live := r.1, err := r.2 }) { called := [], live := ls, err := none }
  if !copied && r.err.isNone && r.live.length != ls.length then { r with err := some .other } else r

/-- the round as the code runs it today: over `self.listeners.copy()`, removals of absent listeners caught -/
def notifyRound (ls : List Nat) (react : Nat → List ListenerAct) : Round := notifyRoundWith true true ls react

/-- what one datagram does when listeners are registered -/
structure Delivery where
  /-- the cache when `async_updates_from_response` returns or raises -/
  cache : Cache
  listeners : List Nat
  /-- listeners whose `async_update_records` was entered -/
  round1 : List Nat
  /-- listeners whose `async_update_records_complete` was entered -/
  round2 : List Nat
  /-- the exception that propagated out of `async_updates_from_response`, if any -/
  err : Option PyExc
  /-- what the listeners were shown (`Zc.ingest`) -/
  out : IngestOut Cache

/-- `async_updates_from_response` with the listener set `ls`: round 1 (`async_update_records`) before the cache adds and
removes, round 2 (`async_update_records_complete`) after them.  An exception out of round 1 propagates before the adds
and removes: the cache stays as the listeners of round 1 saw it.  `order` is the order in which a set is iterated
(unspecified in Python: any function; the driver sorts, because the harness's listeners hash to their ids).
`copied1`, `copied2`, `catches`: the three facts about the code that the generated leaves supply. -/
def deliverWith (copied1 copied2 catches : Bool) (lower : String → String) (order : List Nat → List Nat) (c : Cache) (ls : List Nat)
    (now : Ms) (recs : List Rec) (react1 react2 : Nat → List ListenerAct) : Except PyExc Delivery := do
  let out ← ingest lower (Cache.ops lower) c now recs
  match out.call1 with
  | none => pure { cache := out.cache, listeners := ls, round1 := [], round2 := [], err := none, out := out }
  | some call =>
    let r1 := notifyRoundWith copied1 catches (order ls) react1
    match r1.err with
    | some e => pure { cache := call.2, listeners := r1.live, round1 := r1.called, round2 := [], err := some e, out := out }
    | none =>
      let r2 := notifyRoundWith copied2 catches (order r1.live) react2
      pure { cache := out.cache, listeners := r2.live, round1 := r1.called, round2 := r2.called, err := r2.err, out := out }

/-- the code as it is -/
def deliver (lower : String → String) (order : List Nat → List Nat) (c : Cache) (ls : List Nat) (now : Ms) (recs : List Rec)
    (react1 react2 : Nat → List ListenerAct) : Except PyExc Delivery :=
  deliverWith Gen.Cache.updates_iterates_copy Gen.Cache.complete_iterates_copy Gen.Cache.remove_listener_catches_keyerror
    lower order c ls now recs react1 react2

/-- what the periodic purge (`AsyncEngine._async_cache_cleanup`) does when listeners are registered -/
structure PurgeDelivery where
  cache : Cache
  /-- argument of `async_updates`: `RecordUpdate(record, record)` for every purged record (also when there is none) -/
  pairs : List (Rec × Option Rec)
  listeners : List Nat
  round1 : List Nat
  round2 : List Nat
  err : Option PyExc
  /-- argument of `async_updates_complete` -/
  notify : Bool

def deliverPurgeWith (copied1 copied2 catches : Bool) (lower : String → String) (order : List Nat → List Nat) (c : Cache) (ls : List Nat)
    (now : Ms) (react1 react2 : Nat → List ListenerAct) : Except PyExc PurgeDelivery := do
  -- one reading of the clock: the instant the cache is swept with is the instant the listeners are told (leaf `purge_expire_now`)
  let out ← expire (Cache.ops lower) c (Gen.Cache.purge_expire_now now)
  let pairs := out.2.map (fun r => (r, some r))
  let r1 := notifyRoundWith copied1 catches (order ls) react1
  match r1.err with
  | some e => pure { cache := out.1, pairs := pairs, listeners := r1.live, round1 := r1.called, round2 := [], err := some e, notify := false }
  | none =>
    let r2 := notifyRoundWith copied2 catches (order r1.live) react2
    pure { cache := out.1, pairs := pairs, listeners := r2.live, round1 := r1.called, round2 := r2.called, err := r2.err, notify := false }

/-- the code as it is -/
def deliverPurge (lower : String → String) (order : List Nat → List Nat) (c : Cache) (ls : List Nat) (now : Ms)
    (react1 react2 : Nat → List ListenerAct) : Except PyExc PurgeDelivery :=
  deliverPurgeWith Gen.Cache.updates_iterates_copy Gen.Cache.complete_iterates_copy Gen.Cache.remove_listener_catches_keyerror
    lower order c ls now react1 react2

/-- `async_updates(now, records)` hands the **one object** `records` to every listener of the round.  If it is a list (`isList`:
generated leaves `purge_updates_is_list`, `add_listener_purge_updates_is_list`) the `k`-th listener iterates the pairs like every
other; if it were a generator expression the first listener's iteration would exhaust it and every later one would be told nothing. -/
def toldAt (isList : Bool) (pairs : List (Rec × Option Rec)) (k : Nat) : List (Rec × Option Rec) :=
  if isList || k == 0 then pairs else []

/-- what listener `l` is handed in round 1 of a purge (`none` = not called) -/
def PurgeDelivery.told (d : PurgeDelivery) (isList : Bool) (l : Nat) : Option (List (Rec × Option Rec)) :=
  if d.round1.contains l then some (toldAt isList d.pairs (d.round1.idxOf l)) else none

end Zc
