import Zc.Model.SurviveRoute
import Zc.Model.SurviveTimers
/-! # C15 — the multicast answer queue flush as a block of the composite

`MulticastOutgoingQueue.async_ready` (C12's `Reply.Queue.ready`): wait for the aggregation deadline or pop the
groups that are due, strike the batch from the groups that stay, re-arm, and multicast the batch —
`construct_outgoing_multicast_answers` (`_add_answers_additionals`: C03's `packetize`) → `DNSOutgoing.packets()`
(C01's encoder).  The queues hold record ids; the record objects are the routing residue's table `recs`
(an id is the position of the record in it).  No Mathlib. -/
namespace Zc.Survive.Route
open Zc Zc.Survive Zc.Survive.Comp

/-- the answer ↦ additionals map of a batch, as record objects -/
def batchRecs (tbl : List Rec) (batch : Reply.Dict) : DictRS :=
  batch.filterMap (fun e => (tbl[e.1]?).map (fun r => (r, e.2.filterMap (fun i => tbl[i]?))))

section
variable (lower : String → String)

/-- `async_ready` of the aggregation queue (`delay = false`) or of the protected one-second queue (`delay = true`) at loop time `now` -/
def queueFlush (delay : Bool) (st : RState) (now : Ms) : Except PyExc (RState × List (List Bytes)) :=
  let r := (if delay then st.delayQ else st.outQ).ready now
  let st' : RState := if delay then { st with delayQ := r.1 } else { st with outQ := r.1 }
  match r.2 with
  | none => .ok (st', [])
  | some batch =>
    match Wire.Encode.packets (multicastMsg (setOf lower (batchRecs st.recs batch))) with
    | .error e => .error e
    | .ok pk => .ok (st', [pk])

variable {ρ₀ : Type}

/-- the flush as a block of the composite over the routing residue -/
def flushStep (d : CState (ρ₀ × RState)) (delay : Bool) (now : Ms) : Except PyExc (CState (ρ₀ × RState) × List (List Bytes)) :=
  match queueFlush lower delay d.rest.2 now with
  | .error e => .error e
  | .ok (st', pks) => .ok ({ d with rest := (d.rest.1, st') }, pks)

/-- a queue's timer fires -/
structure FlushBlock where
  delay : Bool
  now : Ms
  deriving Repr

variable {ω : Type} (sz : QueryGen.QOut → Nat)

/-- the other blocks of the composite over the routing residue: browser / lookup query blocks, queue flushes, residual blocks -/
def otherF {β : Type} (other' : CState (ρ₀ × RState) → β → Except PyExc (CState (ρ₀ × RState) × List (COut ω))) :
    CState (ρ₀ × RState) → TimerBlock ⊕ (FlushBlock ⊕ β) → Except PyExc (CState (ρ₀ × RState) × List (COut ω))
  | d, .inl tb => otherT lower sz other' d (.inl tb)
  | d, .inr (.inl fb) =>
    match flushStep lower d fb.delay fb.now with
    | .error e => .error e
    | .ok (d', pks) => .ok (d', pks.map COut.sent)
  | d, .inr (.inr b) => other' d b

end

end Zc.Survive.Route
