import Zc.Model.SurviveFlush
import Zc.Model.SurviveUser
import Zc.Model.Name
import Zc.Model.RespSpec
/-! # C15 — the remaining blocks of a running instance, as blocks of the composite

`C15_history_all_timers_partial` quantified over datagram arrivals, deferred-query timers, browser query timers, lookup query
transmissions, queue flushes **and residual blocks assumed to preserve the invariant**.  The residual blocks are modelled here,
each from the component model of the property that owns it, over the composite state whose residue is now fully interpreted
(`UState` of `Model/SurviveUser` × `RState` of `Model/SurviveRoute`):

| block | code | component model |
|---|---|---|
| `register` | `async_register_service` from `instance_name_from_service_info` (after the probing) to `registry.async_add` | C19 `Name.serviceTypeName`, C03 `Registry.add` |
| `update` | `async_update_service`: `registry.async_update` | C03 `Registry.update` |
| `unregister` | `async_unregister_service`: `registry.async_remove`, `async_get_infos_server`, `async_remove_answers` on both queues (D5 repair) | C03 `Registry.remove` / `byIndex`, C08's purge on the reply model's queues |
| `serviceSend` | one transmission of `_async_broadcast_service` (a task step: its exception goes to the task, not to the loop) | C03 record builders, C01 encoder |
| `browserStart` | `_ServiceBrowserBase._async_start` → `RecordManager.async_add_listener(browser, questions)`: purge with notifications, add, replay | C04 `Browser.create`, C05 `expire`, C10 `Sched2` bookkeeping |
| `schedStart` | `_async_start_query_sender` → `QueryScheduler.start` | C10 `Sched2.step2 … (.start d)` |
| `browserCancel` | `_async_cancel`: `query_scheduler.stop()`, `async_remove_listener` | C10 `.stop`, C06 (D18 repaired) |
| `lookupStart` | `async_request`: `_load_from_cache`, `async_add_listener(self, None)` | C18 `loadFromCache` |
| `lookupFinish` | `async_request`'s `finally: zc.async_remove_listener(self)` | — |
| `purge` | `AsyncEngine._async_cache_cleanup`: `question_history.async_expire`, `cache.async_expire`, both listener rounds with `(record, record)` | C05 `expire`, C13 `History.cleanupTick`, C04/C10/C18 listener reactions |
| `addUser` / `removeUser` | `zc.async_add_listener(listener, None)` / `async_remove_listener` for a user `RecordUpdateListener` | C06 |
| `waitNotify` / `waitRecords` | `wait_for_future_set_or_timeout`: a coroutine parks a future in `_notify_futures` / a lookup's `_new_records_futures`; its timeout handle is `_set_future_none_if_not_done` | `Model/SurviveUser` |

`.error` of `apiStep` is an exception that reaches the **event loop** (the purge is a timer callback; a browser is started from a
coroutine or `call_soon_threadsafe`; both call user listeners).  An exception that goes back to the *caller* of an API coroutine
(`BadTypeInNameException`, `ServiceNameAlreadyRegistered`, an encoder exception in a task step) leaves the state as the code leaves
it and is not an `.error` here; `registerE` exposes it.  No Mathlib. -/
namespace Zc.Survive.Api
open Zc Zc.Wire Zc.Survive Zc.Survive.Comp Zc.Survive.Route Zc.Survive.User

/-- the composite state with nothing left uninterpreted but the application's own listener code -/
abbrev CS (υ : Type) := CState (UState υ × RState)

inductive ApiBlock (υ : Type) where
  | register (s : Svc) (strict : Bool)
  | update (s : Svc)
  | unregister (s : Svc)
  | serviceSend (key : String)
  | browserStart (cfg : Sched.Cfg) (now : Ms)
  | schedStart (i : Nat) (draw : Nat) (now : Ms)
  | browserCancel (i : Nat)
  | lookupStart (name : String) (now : Ms)
  | lookupFinish (j : Nat)
  | purge (now : Ms)
  | addUser (u : υ)
  | removeUser (i : Nat)
  | waitNotify (id : Nat)
  | waitRecords (j : Nat) (id : Nat)
  | waitTimeout (id : Nat)

section
variable (lower : String → String) (possible : String → List String) (ettl : Nat)
variable {υ ω : Type} (U : UserL υ ω) (upd : Ms → List (Rec × Option Rec) → Nat → Bool)

/-! ### the listener fan-out shared by ingestion, purge and listener registration -/

/-- `RecordManager.async_updates(now, pairs)` then `async_updates_complete(notify)` for every registered listener: browsers
(callbacks and scheduler bookkeeping), user listeners and futures, lookups.  `c1` is the cache during the first round, `c2` during
the second.  (`Comp.ingest` is this after the cache update: `ingest_eq_fanout`.) -/
def fanout (d : CS υ) (now : Ms) (pairs : List (Rec × Option Rec)) (c1 c2 : Cache) (notify : Bool) :
    Except PyExc (CS υ × List (COut ω)) :=
  let bs := browsersStep lower possible c1 now pairs d.browsers
  match schedsStep lower possible now pairs d.scheds with
  | .error e => .error (pyOfSched e)
  | .ok scheds' =>
    match User.listeners U upd d.rest.1 now pairs c1 c2 notify with
    | .error e => .error e
    | .ok (u', o) =>
      let ls := d.lookups.map (fun i => (Lookup.processAll lower c1.allRecs now i (pairs.map (·.1))).1)
      .ok ({ d with browsers := bs.1, scheds := scheds', lookups := ls, rest := (u', d.rest.2) },
           callbacksOut bs.2 ++ o.map COut.other)

/-! ### registration API -/

/-- `instance_name_from_service_info(info, strict)`: the name is validated, the type only has to end with the name's service type -/
def checkName (s : Svc) (strict : Bool) : Except PyExc Unit :=
  match Name.serviceTypeName s.name.toList strict with
  | .error e => .error e
  | .ok t => if t <:+ s.type.toList then .ok () else .error .badType

/-- the records one transmission of `_async_broadcast_service` carries (`_add_broadcast_answer`) -/
def broadcastRecs (s : Svc) : List Rec := [RespSpec.ptrOf s, RespSpec.srvOf s, RespSpec.txtOf s] ++ RespSpec.addrsOf s

/-- the D28 repair: `self.generate_service_broadcast(info, None).packets()` — every record of the service is encoded once, and an
encoder exception (`NamePartTooLongException`, `struct.error` …) goes to the caller, before the registry holds the service.
`enabled` is the translated leaf (`register_encodes_first` / `update_encodes_first`): false on the unrepaired tree, where the
unencodable service is registered and the exception surfaces only in the broadcast task (defect D28) -/
def encodesFirst (enabled : Bool) (s : Svc) : Except PyExc Unit :=
  if enabled then
    match Encode.packets (multicastMsg ⟨(broadcastRecs s).map wireOfRec, []⟩) with
    | .error e => .error e
    | .ok _ => .ok ()
  else .ok ()

/-- `async_register_service` from the name check to `registry.async_add(info)`; `.error` goes to the caller, nothing was changed -/
def registerE (d : CS υ) (s : Svc) (strict : Bool) : Except PyExc (CS υ) :=
  match checkName s strict with
  | .error e => .error e
  | .ok () =>
    match encodesFirst Gen.SurviveApi.register_encodes_first s with
    | .error e => .error e
    | .ok () =>
      match d.reg.add lower s with
      | .error e => .error e
      | .ok reg' => .ok { d with reg := reg' }

/-- `async_update_service` up to `registry.async_update(info)` -/
def updateE (d : CS υ) (s : Svc) : Except PyExc (CS υ) :=
  match encodesFirst Gen.SurviveApi.update_encodes_first s with
  | .error e => .error e
  | .ok () =>
    match d.reg.update lower s with
    | .error e => .error e
    | .ok reg' => .ok { d with reg := reg' }

/-- `MulticastOutgoingQueue.async_remove_answers(records)`, on record ids: struck as answers and as additionals of every pending group -/
def purgeDict (W : List Nat) (a : Reply.Dict) : Reply.Dict := a.withdraw W   -- the reply model's own (`Model/Reply.lean`)

def purgeQueue (W : List Nat) (q : Reply.Queue) : Reply.Queue := q.removeRecords W

/-- the records `async_unregister_service` withdraws from the queues -/
def withdrawn (s : Svc) (broadcastAddresses : Bool) : List Rec :=
  [s.ptr, s.srv, s.txt] ++ (if broadcastAddresses then s.an lower else [])

/-- `async_unregister_service(info)` up to the goodbye task; `.error` goes to the caller -/
def unregisterE (d : CS υ) (s : Svc) : Except PyExc (CS υ) :=
  match d.reg.remove lower [s.key lower] with
  | .error e => .error e
  | .ok reg' =>
    match reg'.byIndex lower reg'.servers (s.serverKey lower) with
    | .error e => .error e
    | .ok entries =>
      let W := (withdrawn lower s entries.isEmpty).map (idOf lower d.rest.2.recs)
      .ok { d with reg := reg',
                   rest := (d.rest.1, { d.rest.2 with outQ := purgeQueue W d.rest.2.outQ, delayQ := purgeQueue W d.rest.2.delayQ }) }

/-- `generate_service_broadcast(info, None)` → `async_send` for the registered service with key `key` -/
def serviceSendE (d : CS υ) (key : String) : Except PyExc (List (List Bytes)) :=
  match sget lower key d.reg.services with
  | none => .ok []
  | some s =>
    match Encode.packets (multicastMsg ⟨(broadcastRecs s).map wireOfRec, []⟩) with
    | .error e => .error e
    | .ok pk => .ok [pk]

/-! ### browsers -/

/-- `async_add_listener(browser, questions)` → `query_scheduler` bookkeeping of the replay on the new scheduler -/
def browserStart (d : CS υ) (cfg : Sched.Cfg) (now : Ms) : Except PyExc (CS υ × List (COut ω)) :=
  match Browser.create lower possible d.cache now cfg.types with
  | .error e => .error e
  | .ok cr =>
    -- `if expired: self.async_updates(now, [(r, r) …]); self.async_updates_complete(False)` to the listeners registered before
    let told : Except PyExc (CS υ × List (COut ω)) :=
      if cr.purged.isEmpty then .ok ({ d with cache := cr.cache }, [])
      else fanout lower possible U upd { d with cache := cr.cache } (Gen.Cache.add_listener_purge_updates_now now)
             (cr.purged.map (fun r => (r, some r))) cr.cache cr.cache false
    match told with
    | .error e => .error e
    | .ok (d1, o1) =>
      let replay := Browser.replayList lower cr.cache (Gen.Cache.add_listener_replay_now now) cfg.types
      match replay.foldlM (schedOne lower possible cfg (Gen.Cache.add_listener_replay_now now)) ({} : Sched2.S2) with
      | .error e => .error (pyOfSched e)
      | .ok s2 =>
        -- `_async_update_matching_records` ends with `self.zc.async_notify_all()` when something was replayed
        match wake (!replay.isEmpty) d1.rest.1.notify with
        | .error e => .error e
        | .ok nf =>
          .ok ({ d1 with browsers := d1.browsers ++ [cr.browser], scheds := d1.scheds ++ [(cfg, s2)],
                         rest := ({ d1.rest.1 with notify := nf }, d1.rest.2) },
               o1 ++ cr.callbacks.map (COut.callback d1.browsers.length))

/-- `QueryScheduler.start`: arms the first start-up query; a draw outside the interval asked for is not a block of a run -/
def schedStart (d : CS υ) (i : Nat) (draw : Nat) (now : Ms) : CS υ :=
  match d.scheds[i]? with
  | none => d
  | some cs =>
    match Sched2.step2 cs.1 cs.2 now (.start draw) with
    | .ok (s', _) => { d with scheds := d.scheds.set i (cs.1, s') }
    | .error _ => d

/-- `_async_cancel` -/
def browserCancel (d : CS υ) (i : Nat) : CS υ :=
  { d with browsers := d.browsers.eraseIdx i, scheds := d.scheds.eraseIdx i }

/-! ### lookups -/

/-- `async_request` up to `async_add_listener(self, None)`: a lookup the cache completes is never registered -/
def lookupStart (d : CS υ) (name : String) (now : Ms) : CS υ :=
  let p := Lookup.loadFromCache lower d.cache.allRecs (Lookup.Info.fresh lower name) now
  if p.2 then d
  else { d with lookups := d.lookups ++ [p.1], rest := ({ d.rest.1 with lfuts := d.rest.1.lfuts ++ [[]] }, d.rest.2) }

def lookupFinish (d : CS υ) (j : Nat) : CS υ :=
  { d with lookups := d.lookups.eraseIdx j, rest := ({ d.rest.1 with lfuts := d.rest.1.lfuts.eraseIdx j }, d.rest.2) }

/-! ### the periodic purge -/

/-- `AsyncEngine._async_cache_cleanup` (a timer callback: `.error` reaches the loop, and then the timer is not re-armed) -/
def purge (d : CS υ) (now : Ms) : Except PyExc (CS υ × List (COut ω)) :=
  match expire (Cache.ops lower) d.cache (Gen.Cache.purge_expire_now now) with
  | .error e => .error e
  | .ok out =>
    fanout lower possible U upd
      { d with cache := out.1, hist := d.hist.cleanupTick now,
               rest := (d.rest.1, { d.rest.2 with history := d.rest.2.history.cleanupTick now }) }
      (Gen.Cache.purge_updates_now now) (out.2.map (fun r => (r, some r))) out.1 out.1 false

/-! ### futures parked by waiting coroutines -/

/-- the timeout handle of `wait_for_future_set_or_timeout`: `_set_future_none_if_not_done(future)`, wherever the future is -/
def timeoutFut (id : Nat) (fs : List Fut) : Except PyExc (List Fut) :=
  fs.mapM (fun f => if f.id = id then setNoneIfNotDone f else .ok f)

def waitTimeout (d : CS υ) (id : Nat) : Except PyExc (CS υ) :=
  match timeoutFut id d.rest.1.notify with
  | .error e => .error e
  | .ok nf =>
    match d.rest.1.lfuts.mapM (timeoutFut id) with
    | .error e => .error e
    | .ok lf => .ok { d with rest := ({ d.rest.1 with notify := nf, lfuts := lf }, d.rest.2) }

/-! ### one block -/

def apiStep (d : CS υ) : ApiBlock υ → Except PyExc (CS υ × List (COut ω))
  | .register s strict =>
    match registerE lower d s strict with
    | .ok d' => .ok (d', [])
    | .error _ => .ok (d, [])
  | .update s =>
    match updateE lower d s with
    | .ok d' => .ok (d', [])
    | .error _ => .ok (d, [])
  | .unregister s =>
    match unregisterE lower d s with
    | .ok d' => .ok (d', [])
    | .error _ => .ok (d, [])
  | .serviceSend key =>
    match serviceSendE lower d key with
    | .ok pks => .ok (d, pks.map COut.sent)
    | .error _ => .ok (d, [])
  | .browserStart cfg now => browserStart lower possible U upd d cfg now
  | .schedStart i draw now => .ok (schedStart d i draw now, [])
  | .browserCancel i => .ok (browserCancel d i, [])
  | .lookupStart name now => .ok (lookupStart lower d name now, [])
  | .lookupFinish j => .ok (lookupFinish d j, [])
  | .purge now => purge lower possible U upd d now
  | .addUser u => .ok ({ d with rest := ({ d.rest.1 with users := d.rest.1.users ++ [u] }, d.rest.2) }, [])
  | .removeUser i => .ok ({ d with rest := ({ d.rest.1 with users := d.rest.1.users.eraseIdx i }, d.rest.2) }, [])
  | .waitNotify id => .ok ({ d with rest := ({ d.rest.1 with notify := d.rest.1.notify ++ [⟨id, false⟩] }, d.rest.2) }, [])
  | .waitRecords j id =>
    .ok ({ d with rest := ({ d.rest.1 with lfuts := d.rest.1.lfuts.modify j (· ++ [⟨id, false⟩]) }, d.rest.2) }, [])
  | .waitTimeout id =>
    match waitTimeout d id with
    | .ok d' => .ok (d', [])
    | .error e => .error e

end

end Zc.Survive.Api
