import Zc.Model.SurviveComp
import Zc.Model.QueryGen
/-! # C15 — the timer blocks that build packets from cache content

Three blocks of a running instance are not triggered by a datagram but write what datagrams left in
the cache (or in the answer queues) into new packets; an exception in them reaches the event loop as
surely as one in `datagram_received` (D8b raised in the first of them):

* `browserFire` — a browser's `QueryScheduler` timer: `_process_startup_queries` /
  `_process_ready_types` (C10's `Sched2.step2 … (.fire done)`), then for every `Send` the query of
  `generate_service_query` (C13's `QueryGen.serviceQuery`: PTR questions for the types, the unstale
  cached pointers as known answers, history suppression), grouped into buckets, each bucket one
  `DNSOutgoing` → `packets()` (C01's encoder);
* `lookupQuery` — an `async_request` wake-up that transmits: `_generate_request_query`
  (C18's `Lookup.genQuery`: SRV / TXT / A / AAAA questions with the unstale cached answers) → `packets()`.
* the flush of a multicast answer queue is `Zc.Survive.Route.queueFlush` (`Model/SurviveFlush.lean`): it
  needs the reply model's queues.

A `fire` for a scheduler that is not armed for this instant, or an index that names no scheduler /
lookup, is not a block the event loop can run; it is mapped to a no-op so that every block list is a
history (the enabledness discipline is C10's `WFSched`).  The bucket size estimate `sz` is a parameter:
it decides which questions share a datagram, nothing else.  No Mathlib. -/
namespace Zc.Survive.Comp
open Zc Zc.Wire Zc.Survive

/-- the timer blocks of the composite -/
inductive TimerBlock where
  | browserFire (i : Nat) (done : Bool) (now : Ms)
  | lookupQuery (j : Nat) (now : Ms) (qu : Bool)
  deriving Repr

section
variable (lower : String → String) (sz : QueryGen.QOut → Nat)

/-- a `DNSQuestion` handed to the encoder -/
def eqOf (q : Question) : Encode.EQuestion := ⟨labelsOfText q.name, q.type, q.class_, q.unique⟩

/-- the `DNSOutgoing(_FLAGS_QR_QUERY)` of one bucket: its questions and, with the bucket's time, their known answers -/
def bucketMsg (now : Ms) (b : QueryGen.Bucket) : Encode.Msg :=
  { flags := Gen.flagsQrQuery, id := 0, multicast := true,
    questions := b.items.map (fun it => eqOf it.2.q),
    answers := b.items.flatMap (fun it => it.2.wire.map (fun x => (wireOfRec x.1, QueryGen.browserAnswerTime now))),
    authorities := [], additionals := [] }

/-- the messages of one `Send` of the scheduler and the question history afterwards -/
def sendMsgs (c : Cache) (now : Ms) (h : QueryGen.History) (snd : Sched.Send) : List Encode.Msg × QueryGen.History :=
  let r := QueryGen.serviceQuery lower c.allRecs now (QueryGen.quOf true snd.qtype) snd.types h
  ((QueryGen.group QueryGen.maxBucketSize (r.1.map (fun o => (sz o, o)))).map (bucketMsg now), r.2)

/-- `packets()` of every message, in order -/
def encodeAll : List Encode.Msg → Except PyExc (List (List Bytes))
  | [] => .ok []
  | m :: rest =>
    match Encode.packets m with
    | .error e => .error e
    | .ok pk =>
      match encodeAll rest with
      | .error e => .error e
      | .ok pks => .ok (pk :: pks)

variable {ρ ω : Type}

/-- a browser's scheduler timer fires -/
def browserFire (t : CState ρ) (i : Nat) (done : Bool) (now : Ms) : Except PyExc (CState ρ × List (List Bytes)) :=
  match t.scheds[i]? with
  | none => .ok (t, [])
  | some cs =>
    match Sched2.step2 cs.1 cs.2 now (.fire done) with
    | .error .notEnabled => .ok (t, [])
    | .error e => .error (pyOfSched e)
    | .ok (s', sends) =>
      let r := sends.foldl (fun (acc : List Encode.Msg × QueryGen.History) snd =>
        let x := sendMsgs lower sz t.cache now acc.2 snd
        (acc.1 ++ x.1, x.2)) ([], t.hist)
      match encodeAll r.1 with
      | .error e => .error e
      | .ok pks => .ok ({ t with scheds := t.scheds.set i (cs.1, s'), hist := r.2 }, pks)

/-- the `DNSOutgoing` of `_generate_request_query` -/
def lookupMsg (now : Ms) (qs : List (Question × List Rec)) : Encode.Msg :=
  { flags := Gen.flagsQrQuery, id := 0, multicast := true,
    questions := qs.map (fun x => eqOf x.1),
    answers := qs.flatMap (fun x => x.2.map (fun r => (wireOfRec r, QueryGen.lookupAnswerTime now))),
    authorities := [], additionals := [] }

/-- a lookup transmits its query (`async_request`: `out = self._generate_request_query(…)`; `zc.async_send(out)` when it has questions) -/
def lookupQuery (t : CState ρ) (j : Nat) (now : Ms) (qu : Bool) : Except PyExc (CState ρ × List (List Bytes)) :=
  match t.lookups[j]? with
  | none => .ok (t, [])
  | some info =>
    let qs := Lookup.genQuery lower t.cache.allRecs t.lhist now info qu
    if qs.isEmpty then .ok (t, [])
    else
      match Encode.packets (lookupMsg now qs) with
      | .error e => .error e
      | .ok pk => .ok (t, [pk])

/-- the loop's clock never reads earlier than the creation time of a cached record (`created = msg.now` of a datagram
received before): part of the loop axioms `WFSched`.  A timer block with a clock reading that violates it is not a block of
a run; like a fire that is not enabled it is mapped to a no-op. -/
def clockOK (c : Cache) (t : Ms) : Bool := c.allRecs.all (fun r => decide (r.created ≤ t))

def timerStep (t : CState ρ) : TimerBlock → Except PyExc (CState ρ × List (List Bytes))
  | .browserFire i done now =>
    if clockOK t.cache (QueryGen.browserAnswerTime now) then browserFire lower sz t i done now else .ok (t, [])
  | .lookupQuery j now qu =>
    if clockOK t.cache (QueryGen.lookupAnswerTime now) then lookupQuery lower t j now qu else .ok (t, [])

/-- the other blocks of the composite: the modelled timer blocks, or a block of the residue -/
def otherT {β : Type} (other' : CState ρ → β → Except PyExc (CState ρ × List (COut ω))) :
    CState ρ → TimerBlock ⊕ β → Except PyExc (CState ρ × List (COut ω))
  | d, .inl tb =>
    match timerStep lower sz d tb with
    | .error e => .error e
    | .ok (d', pks) => .ok (d', pks.map COut.sent)
  | d, .inr b => other' d b

end

end Zc.Survive.Comp
