import Zc.Model.Reply
import Zc.Model.Wire.Encode
import Zc.Gen.ReplyNet
/-! What leaves the sockets (C11): `_core.py::async_send` / `async_send_with_transport`, the two reply constructors of
`_handlers/answers.py`, the two send sites of `query_handler.py::handle_assembled_query`, the send site of
`multicast_outgoing_queue.py::async_ready`, the sockaddr split of `_listener.py`.  No Mathlib.

`Model/Reply.lean` decides *which records* go into which logical datagram (`Out`).  This file refines every logical
datagram into the physical ones: on which socket it is written, to which complete sockaddr
`(host, port[, flowinfo, scope_id])`, and with which `DNSOutgoing` (flags, multicast flag, id, question list, records with
their class and cache-flush flag) — and, through C01's encoder, with which bytes.

Numeric tests and constants are translated leaves (`Gen.ReplyNet`, `tools/leaves/replynet.py`); the statements whose
control flow is mirrored by hand are pinned by their source text (`GenFacts/ReplyNet.lean`). -/
namespace Zc.Reply.Net
open Zc Zc.Gen Zc.Wire Zc.Wire.Encode

/-! ### addresses and sockets -/

/-- an address string as far as the code looks at it: the two group constants, or a peer's address (`id` names the text,
`colon` is `':' in address`) -/
inductive Ip where
  | group4                          -- `_MDNS_ADDR`
  | group6                          -- `_MDNS_ADDR6`
  | peer (id : Nat) (colon : Bool)
  deriving Repr, DecidableEq, Inhabited

/-- `':' in address` (`can_send_to` is only asked about a peer's address: it is skipped when `addr is None`) -/
def Ip.hasColon : Ip → Bool
  | .group4 => false
  | .group6 => true
  | .peer _ c => c

/-- what follows `host, port` in a sockaddr: nothing (`()`, IPv4) or `(flowinfo, scope_id)` (IPv6) -/
abbrev FlowScope := Option (Nat × Nat)

/-- a sockaddr tuple: `(host, port)` or `(host, port, flowinfo, scope_id)` -/
structure SockAddr where
  ip : Ip
  port : Nat
  fs : FlowScope
  deriving Repr, DecidableEq, Inhabited

/-- `len(addrs)` -/
def SockAddr.len (a : SockAddr) : Nat := if a.fs.isSome then 4 else 2

/-- a `_WrappedTransport`: `fileno`, `is_ipv6`, and flowinfo / scope id of `sock_name` -/
structure Sock where
  id : Nat
  v6 : Bool
  flow : Nat
  scope : Nat
  deriving Repr, DecidableEq, Inhabited

/-- `_process_datagram_at_time`: the source sockaddr is split into `addr`, `port` and `v6_flow_scope` -/
def splitAddrs (a : SockAddr) : Ip × Nat × FlowScope :=
  if Gen.ReplyNet.l_two_tuple a.len then (a.ip, a.port, none) else (a.ip, a.port, a.fs)

/-! ### `async_send_with_transport` and `Zeroconf.async_send` -/

/-- `async_send_with_transport(…, transport, packet, …, addr, port, v6_flow_scope)`: the sockaddr handed to
`transport.transport.sendto`, or `none` when the socket is skipped (address family does not match) -/
def sendWith (s : Sock) (addr : Option Ip) (port : Nat) (fs : FlowScope) : Option SockAddr :=
  let proceed (real : Ip) : Option SockAddr :=
    -- `if ipv6_socket and not v6_flow_scope: v6_flow_scope = (sock_flowinfo, sock_scopeid)`
    let fs' := if Gen.ReplyNet.send_fill_flow_scope s.v6 fs.isSome then some (s.flow, s.scope) else fs
    -- `sendto(packet, (real_addr, port or _MDNS_PORT, *v6_flow_scope))`
    some { ip := real, port := Gen.ReplyNet.send_port port, fs := fs' }
  if Gen.ReplyNet.send_addr_none addr.isNone then
    proceed (if Gen.ReplyNet.send_group_v6 s.v6 then .group6 else .group4)
  else
    let real := addr.getD .group4      -- `real_addr = addr` (not `None` on this branch)
    if Gen.ReplyNet.send_skip (Gen.Reply.can_send_to s.v6 real.hasColon) then none else proceed real

/-- one `sendto`: socket (fileno), destination sockaddr, payload -/
structure Sent (α : Type) where
  sock : Nat
  dest : SockAddr
  packet : α
  deriving Repr, DecidableEq

/-- the inner `for send_transport in transports` loop for one packet -/
def sendAll {α : Type} (transports : List Sock) (addr : Option Ip) (port : Nat) (fs : FlowScope) (p : α) : List (Sent α) :=
  transports.filterMap (fun t => (sendWith t addr port fs).map (fun d => { sock := t.id, dest := d, packet := p }))

/-- the outer `for packet_num, packet in enumerate(out.packets())` loop: an over-sized packet ends the whole call (`return`) -/
def sendLoop {α : Type} (size : α → Nat) (transports : List Sock) (addr : Option Ip) (port : Nat) (fs : FlowScope) :
    List α → List (Sent α)
  | [] => []
  | p :: ps =>
    if Gen.ReplyNet.send_oversize (size p) then []
    else sendAll transports addr port fs p ++ sendLoop size transports addr port fs ps

/-- `Zeroconf.async_send(out, addr, port, v6_flow_scope, transport)` on a running instance (`self.done` false: C17's subject);
`packets` is `out.packets()`, `senders` is `self.engine.senders` -/
def asyncSend {α : Type} (senders : List Sock) (size : α → Nat) (packets : List α)
    (addr : Option Ip) (port : Nat) (fs : FlowScope) (transport : Option Sock) : List (Sent α) :=
  -- `transports = [transport] if transport else self.engine.senders`
  let transports := if Gen.ReplyNet.send_one_transport transport.isSome then transport.toList else senders
  sendLoop size transports addr port fs packets

/-! ### the records the responder answers with -/

/-- the seven constructor sites: `ServiceInfo._dns_pointer/_dns_service/_dns_text/_dns_addresses` (IPv4, IPv6) `/_dns_nsec`
and the service-type enumeration pointer of `query_handler.py` -/
inductive RKind where
  | ptr | srv | txt | a | aaaa | nsec | enumPtr
  deriving Repr, DecidableEq, Inhabited

def RKind.all : List RKind := [.ptr, .srv, .txt, .a, .aaaa, .nsec, .enumPtr]

/-- the `type_` constructor argument -/
def RKind.ctorType : RKind → Nat
  | .ptr => Gen.ReplyNet.rec_ptr_type
  | .srv => Gen.ReplyNet.rec_srv_type
  | .txt => Gen.ReplyNet.rec_txt_type
  | .a => Gen.ReplyNet.rec_addr_type 4
  | .aaaa => Gen.ReplyNet.rec_addr_type 6
  | .nsec => Gen.ReplyNet.rec_nsec_type
  | .enumPtr => Gen.ReplyNet.rec_enum_type

/-- the `class_` constructor argument (cache-flush bit included) -/
def RKind.ctorClass : RKind → Nat
  | .ptr => Gen.ReplyNet.rec_ptr_class
  | .srv => Gen.ReplyNet.rec_srv_class
  | .txt => Gen.ReplyNet.rec_txt_class
  | .a | .aaaa => Gen.ReplyNet.rec_addr_class Gen.ReplyNet.rec_addr_class_var
  | .nsec => Gen.ReplyNet.rec_nsec_class
  | .enumPtr => Gen.ReplyNet.rec_enum_class

/-- `DNSEntry._set_class`: the stored class … -/
def RKind.rclass (k : RKind) : Nat := Gen.Dns.class_of k.ctorClass
/-- … and the stored `unique` flag -/
def RKind.unique (k : RKind) : Bool := Gen.Dns.unique_of k.ctorClass

/-- the record is what constructor site `k` builds, as far as type, class and `unique` go -/
def builtBy (k : RKind) (r : ERecord) : Bool :=
  r.rtype == k.ctorType && r.rclass == k.rclass && r.unique == k.unique

/-! ### the two reply constructors -/

/-- a `DNSOutgoing` as a constructor of `answers.py` leaves it (no authorities) -/
structure Content where
  flags : Nat
  multicast : Bool
  id : Nat
  questions : List EQuestion
  answers : List RecId
  adds : List RecId
  deriving Repr, DecidableEq, Inhabited

/-- `construct_outgoing_multicast_answers(answers)`: `DNSOutgoing(_FLAGS_QR_RESPONSE_AA, True)` (id defaults to 0), then
`_add_answers_additionals`.  Neither function contains a call to `add_question` (translated `has_call` leaves): the question
list stays as `DNSOutgoing.__init__` made it, empty.  (Were such a call added the model could not know what it adds; the
placeholder makes `C11_mcast_no_questions` fail to build.) -/
def mcastContent (answers adds : List RecId) : Content :=
  { flags := Gen.ReplyNet.ans_multicast_flags, multicast := mcastReplyMulticast, id := 0
    questions := if Gen.ReplyNet.ans_multicast_calls_add_question || Gen.ReplyNet.ans_fill_calls_add_question then [default] else []
    answers := answers, adds := adds }

/-- `construct_outgoing_unicast_answers(answers, ucast_source, questions, id_)`: `DNSOutgoing(_FLAGS_QR_RESPONSE_AA, False, id_)`,
the questions added back when the source is a legacy unicast one -/
def ucastContent (questions : List EQuestion) (ucastSource : Bool) (id : Nat) (answers adds : List RecId) : Content :=
  { flags := Gen.ReplyNet.ans_unicast_flags, multicast := ucastReplyMulticast id ucastSource, id := Gen.ReplyNet.ans_unicast_id id
    questions := if Gen.Reply.ans_echo_questions ucastSource then questions else []
    answers := answers, adds := adds }

/-- the `DNSOutgoing` as C01's encoder model takes it: answers through `add_answer_at_time(answer, 0)`, additionals through
`add_additional_answer` -/
def Content.msg (recOf : RecId → ERecord) (c : Content) : Msg :=
  { flags := c.flags, id := c.id, multicast := c.multicast, questions := c.questions
    answers := c.answers.foldl (fun acc r => addAnswerAtTime acc (recOf r) 0) []
    authorities := [], additionals := c.adds.map recOf }

/-! ### a host: its sockets, the peers behind the model's address ids, the question sections, the records -/

structure World where
  /-- `engine.senders`, in order -/
  senders : List Sock
  /-- the transport of the listener the model instance stands for (`self.transport`: every socket has its own listener) -/
  rx : Sock
  /-- the source sockaddr (minus the port) behind an address id of `Model/Reply` -/
  peer : Nat → Ip × FlowScope
  /-- `DNSIncoming._questions` of the datagram with this `dataId` -/
  questions : Nat → List EQuestion
  /-- the record behind a `RecId` -/
  recOf : RecId → ERecord

/-- the sockaddr a query came from -/
def World.src (w : World) (addr port : Nat) : SockAddr := { ip := (w.peer addr).1, port := port, fs := (w.peer addr).2 }

/-- `zc.async_send(construct_outgoing_multicast_answers(answers))`: no address, default port, no flow/scope, every sender -/
def multicast (w : World) (d : Dict) : List (Sent Content) :=
  asyncSend w.senders (fun _ => 0) [mcastContent d.keys (additionalsOf d)] none Gen.mdnsPort none none

/-- the unicast send site of `handle_assembled_query`: `zc.async_send(out, addr, port, v6_flow_scope, transport)` with
`addr, port, v6_flow_scope` as the listener split them from the source sockaddr and `transport` the listener's own -/
def unicast (w : World) (first : Pkt) (addr port : Nat) (ucastSource : Bool) (d : Dict) : List (Sent Content) :=
  let (ip, p, fs) := splitAddrs (w.src addr port)
  asyncSend w.senders (fun _ => 0) [ucastContent (w.questions first.dataId) ucastSource first.id d.keys (additionalsOf d)]
    (some ip) p fs (some w.rx)

/-- what `handle_assembled_query` writes to the sockets in its block (each reply is taken to fit one datagram: `size` 0;
the byte level below uses the encoder's real packets) -/
def assemble (w : World) (pkts : List Pkt) (addr port : Nat) (seen : SeenMap) : List (Sent Content) :=
  match pkts.head? with
  | none => []
  | some first =>
    let ucastSource := Gen.Reply.ucast_source port
    match asyncResponse pkts ucastSource seen with
    | none => []
    | some qa =>
      (if qa.ucast.isEmpty then [] else unicast w first addr port ucastSource qa.ucast)
      ++ (if qa.mcastNow.isEmpty then [] else multicast w qa.mcastNow)

/-- the logical datagram a physical one belongs to (`addr` is the address id the block was run for) -/
def logical (addr port : Nat) (c : Content) : Out :=
  if c.multicast then .mcast c.answers c.adds else .ucast addr port c.id c.questions.length c.answers c.adds

/-- one block of the host with what it writes to the sockets: `Host.step`, and the physical datagrams of the action taken -/
def step (w : World) (h : Host) (e : Ev) : Except String (StepOut × List (Sent Content)) :=
  match h.step e with
  | .error m => .error m
  | .ok r =>
    match h.decide e with
    | .ok (.answer _ pkts addr port) => .ok (r, assemble w pkts addr port e.seen)
    | .ok (.ready delayed) =>
      .ok (r, match ((if delayed then h.delayQ else h.outQ).ready e.time).2 with | some b => multicast w b | none => [])
    | _ => .ok (r, [])

/-! ### down to the bytes: C01's encoder -/

/-- `async_send` of a `DNSOutgoing`: `out.packets()` (which may raise) and then the socket loop over the real packets -/
def sendBytes (w : World) (c : Content) (addr : Option Ip) (port : Nat) (fs : FlowScope) (transport : Option Sock) :
    Except PyExc (List (Sent Bytes)) :=
  match packets (c.msg w.recOf) with
  | .error e => .error e
  | .ok pks => .ok (asyncSend w.senders List.length pks addr port fs transport)

/-- the bytes of a multicast reply on the sockets -/
def multicastBytes (w : World) (d : Dict) : Except PyExc (List (Sent Bytes)) :=
  sendBytes w (mcastContent d.keys (additionalsOf d)) none Gen.mdnsPort none none

/-- the bytes of the unicast reply on the sockets -/
def unicastBytes (w : World) (first : Pkt) (addr port : Nat) (ucastSource : Bool) (d : Dict) : Except PyExc (List (Sent Bytes)) :=
  let (ip, p, fs) := splitAddrs (w.src addr port)
  sendBytes w (ucastContent (w.questions first.dataId) ucastSource first.id d.keys (additionalsOf d)) (some ip) p fs (some w.rx)

end Zc.Reply.Net
