import Zc.Model.Dns
import Zc.Gen.Register
/-! `_core.py:326-547`, `_services/info.py:562-702`, `_cache.py:221-230`: service registration.

* `Svc` and its record builders (`dns_pointer`, `dns_service`, `dns_text`, `dns_addresses`, `dns_nsec`,
  `get_address_and_nsec_records`),
* the probe and announcement datagrams (`generate_service_query`, `_add_broadcast_answer`),
* `async_check_service` as a machine of *atomic blocks* (DESIGN §4.7): one block is the code between two
  `await self.async_wait(...)`; a block is entered at the start of the coroutine or when the wait returns
  (timer **or** `async_notify_all`),
* `_async_broadcast_service` as a task stepped by its sleep timer.

Every numeric test is a generated leaf (`Zc.Gen.Register`).  No Mathlib. -/
namespace Zc.Register
open Zc Zc.Gen

/-- the fields of a `ServiceInfo` that registration reads (after `set_server_if_missing`) -/
structure Svc where
  type : String
  name : String
  server : String
  port : Nat
  weight : Nat
  priority : Nat
  text : Bytes
  /-- packed IPv4 addresses, in `_ipv4_addresses` order -/
  v4 : List Bytes
  /-- packed IPv6 addresses -/
  v6 : List Bytes
  hostTtl : Nat
  otherTtl : Nat
  deriving DecidableEq, Repr, Inhabited

/-- `override_ttl if override_ttl is not None else x` -/
def ttlOf (ovr : Option Nat) (x : Nat) : Nat := match ovr with | some t => t | none => x

def mkRec (name : String) (type cls ttl : Nat) (rd : RData) : Rec :=
  { name, type, class_ := Gen.Dns.class_of cls, unique := Gen.Dns.unique_of cls, ttl, created := 0, rdata := rd }

/-- `_dns_pointer` (info.py:602) -/
def Svc.ptr (s : Svc) (ovr : Option Nat) : Rec := mkRec s.type typePtr classIn (ttlOf ovr s.otherTtl) (.ptr s.name)
/-- `_dns_service` (info.py:623) -/
def Svc.srv (s : Svc) (ovr : Option Nat) : Rec :=
  mkRec s.name typeSrv classInUnique (ttlOf ovr s.hostTtl) (.srv s.priority s.weight s.port s.server)
/-- `_dns_text` (info.py:650) -/
def Svc.txt (s : Svc) (ovr : Option Nat) : Rec := mkRec s.name typeTxt classInUnique (ttlOf ovr s.otherTtl) (.txt s.text)
/-- `_dns_addresses` (info.py:570): IPv4 first, then IPv6, owner = the host name -/
def Svc.addrs (s : Svc) (ovr : Option Nat) : List Rec :=
  s.v4.map (fun a => mkRec s.server typeA classInUnique (ttlOf ovr s.hostTtl) (.addr a none))
  ++ s.v6.map (fun a => mkRec s.server typeAaaa classInUnique (ttlOf ovr s.hostTtl) (.addr a none))
/-- the address types the service has no address for (`missing_types`, sorted as `DNSNsec` sorts them) -/
def Svc.missing (s : Svc) : List Nat :=
  (if s.v4.isEmpty then [typeA] else []) ++ (if s.v6.isEmpty then [typeAaaa] else [])
/-- `_dns_nsec` (info.py:671): owner and next name are the *instance* name -/
def Svc.nsec (s : Svc) (ovr : Option Nat) : Rec :=
  mkRec s.name typeNsec classInUnique (ttlOf ovr s.hostTtl) (.nsec s.name s.missing)
/-- `_get_address_and_nsec_records` (info.py:687): a set; listed addresses first -/
def Svc.addrNsec (s : Svc) (ovr : Option Nat) : List Rec :=
  s.addrs ovr ++ (if s.missing.isEmpty then [] else [s.nsec ovr])

/-- a DNS message as far as this model looks at it -/
structure Pkt where
  flags : Nat
  questions : List Question
  answers : List Rec
  authorities : List Rec
  additionals : List Rec
  deriving DecidableEq, Repr, Inhabited

/-- `generate_service_query` (_core.py:414): QU PTR question for the type, proposed pointer in the authority section -/
def probePkt (s : Svc) : Pkt :=
  { flags := flagsQrQuery ||| flagsAa
    questions := [{ name := s.type, type := typePtr, class_ := Gen.Dns.class_of classInUnique, unique := Gen.Dns.unique_of classInUnique }]
    answers := [], authorities := [s.ptr none], additionals := [] }

/-- `_add_broadcast_answer` (_core.py:429) -/
def broadcastAnswers (s : Svc) (ovr : Option Nat) (addresses : Bool) : List Rec :=
  [s.ptr ovr, s.srv ovr, s.txt ovr] ++ (if Gen.Register.add_addresses addresses then s.addrNsec ovr else [])

/-- `generate_service_broadcast` (_core.py:403) -/
def broadcastPkt (s : Svc) (ovr : Option Nat) (addresses : Bool) : Pkt :=
  { flags := flagsQrResponse ||| flagsAa, questions := [], answers := broadcastAnswers s ovr addresses, authorities := [], additionals := [] }

/-! ### `async_check_service` -/

/-- `current_entry_with_name_and_alias(type, name)` on the cache bucket of the type: some PTR record, unexpired at
the time of the call, whose alias is spelled exactly `name` -/
def conflict (bucket : List Rec) (now : Int) (name : String) : Bool :=
  bucket.any (fun r => Gen.Register.cache_conflict r.type (r.isExpired now)
    (match r.rdata with | .ptr a => decide (a = name) | _ => false))

/-- `f'{instance_name}-{next_instance_number}.{info.type}'` -/
def mkName (inst : String) (n : Nat) (type : String) : String := inst ++ "-" ++ toString n ++ "." ++ type

/-- local variables of the coroutine -/
structure PState where
  svc : Svc
  inst : String
  nextInst : Nat
  nextTime : Int
  now : Int
  i : Nat
  deriving DecidableEq, Repr, Inhabited

/-- what the environment of one block fixes: the flags of the call, name validation (`service_type_name`, C19)
and the cache bucket of the service type as it is during the block -/
structure Env where
  allow : Bool
  valid : String → Bool
  bucket : List Rec

inductive Outcome where
  /-- `await self.async_wait(timeout)` -/
  | wait (timeout : Int)
  /-- the loop finished: three probes were sent -/
  | done
  | raised (e : PyExc)
  /-- the model ran out of fuel (never happens, `Proofs/Register.lean`) -/
  | stuck
  deriving DecidableEq, Repr, Inhabited

/-- the inner `while self.cache.current_entry_with_name_and_alias(info.type, info.name)` loop.  The name is
assigned *before* it is validated, so a `BadTypeInNameException` leaves the new name in the info. -/
def rename (env : Env) : Nat → PState → PState × Option Outcome
  | 0, st => (st, some .stuck)
  | fuel + 1, st =>
    if conflict env.bucket st.now st.svc.name then
      if !env.allow then (st, some (.raised .nonUnique))
      else
        let name := mkName st.inst st.nextInst st.svc.type
        let st' := { st with svc := { st.svc with name := name }, nextInst := st.nextInst + 1 }
        if !env.valid name then (st', some (.raised .badType))
        else rename env fuel { st' with nextTime := st'.now, i := 0 }
    else (st, none)

/-- the outer `while i < _REGISTER_BROADCASTS` loop up to the next `await` -/
def outer (env : Env) : Nat → PState → List Pkt → PState × List Pkt × Outcome
  | 0, st, out => (st, out, .stuck)
  | fuel + 1, st, out =>
    if Gen.Register.probe_continue st.i then
      match rename env (env.bucket.length + 2) st with
      | (st', some o) => (st', out, o)
      | (st', none) =>
        if Gen.Register.must_wait st'.now st'.nextTime then
          (st', out, .wait (Gen.Register.wait_timeout st'.now st'.nextTime))
        else
          outer env fuel { st' with i := Gen.Register.next_probe_count st'.i, nextTime := Gen.Register.next_probe_time st'.nextTime }
            (out ++ [probePkt st'.svc])
    else (st, out, .done)

/-- fuel of the outer loop: at most `_REGISTER_BROADCASTS` probes leave in one block, plus the exit test -/
def outerFuel : Nat := Gen.Register.broadcast_count + 2

/-- first block: `next_time = now = current_time_millis(); i = 0` -/
def PState.init (svc : Svc) (inst : String) (now : Int) : PState :=
  { svc, inst, nextInst := 2, nextTime := now, now, i := 0 }

def startBlock (env : Env) (svc : Svc) (inst : String) (now : Int) : PState × List Pkt × Outcome :=
  outer env outerFuel (PState.init svc inst now) []

/-- a later block: `now = current_time_millis(); continue` -/
def resumeBlock (env : Env) (st : PState) (now : Int) : PState × List Pkt × Outcome :=
  outer env outerFuel { st with now := now } []

/-! ### the whole registration as a run of blocks -/

inductive Phase where
  | waiting (due : Int)
  | done
  | failed (e : PyExc)
  | stuck
  deriving DecidableEq, Repr, Inhabited

/-- configuration of a registration in progress; `sent` is everything sent so far with its send time -/
structure Cfg where
  st : PState
  phase : Phase
  sent : List (Int × Pkt)
  deriving Repr, Inhabited

def phaseOf (now : Int) : Outcome → Phase
  | .wait d => .waiting (now + d)
  | .done => .done
  | .raised e => .failed e
  | .stuck => .stuck

def Cfg.start (env : Env) (svc : Svc) (inst : String) (now : Int) : Cfg :=
  let (st, out, o) := startBlock env svc inst now
  { st, phase := phaseOf now o, sent := out.map (fun p => (now, p)) }

/-- a wake-up of the waiting coroutine at time `now` (timer: `now = due`; notification: `now < due`).
Rejected (`none`) unless the coroutine is waiting and the clock is between the last block and the timer. -/
def Cfg.wake (env : Env) (c : Cfg) (now : Int) : Option Cfg :=
  match c.phase with
  | .waiting due =>
    if c.st.now ≤ now ∧ now ≤ due then
      let (st, out, o) := resumeBlock env c.st now
      some { st, phase := phaseOf now o, sent := c.sent ++ out.map (fun p => (now, p)) }
    else none
  | _ => none

/-- one wake-up: the time and the cache bucket at that time -/
structure Wake where
  now : Int
  bucket : List Rec
  deriving Repr, Inhabited

def Cfg.run (allow : Bool) (valid : String → Bool) (c : Cfg) : List Wake → Option Cfg
  | [] => some c
  | w :: ws =>
    match c.wake { allow, valid, bucket := w.bucket } w.now with
    | some c' => Cfg.run allow valid c' ws
    | none => none

/-! ### `_async_broadcast_service` as a task -/

/-- an announce/goodbye task between two sleeps: the next broadcast is number `i`, at `due` -/
structure Task where
  svc : Svc
  /-- identity of the `ServiceInfo` object (`is`) -/
  oid : Nat
  interval : Nat
  ttl : Option Nat
  addresses : Bool
  i : Nat
  due : Int
  deriving DecidableEq, Repr, Inhabited

/-- the task's step at its due time.  `registered` = `registry.async_get_info_name(info.key) is info`.
Returns the continuation (if any) and the datagram (if any). -/
def Task.step (registered : Bool) (t : Task) : Option Task × Option Pkt :=
  if Gen.Register.announce_stops t.ttl.isNone (!registered) then (none, none)
  else
    let pkt := broadcastPkt t.svc t.ttl t.addresses
    if t.i + 1 < Gen.Register.broadcast_count then
      (some { t with i := t.i + 1, due := t.due + t.interval }, some pkt)
    else (none, some pkt)

/-- the send times and datagrams of a task that is never stopped -/
def Task.schedule (t : Task) : Nat → List (Int × Pkt)
  | 0 => []
  | fuel + 1 =>
    match t.step true with
    | (some t', some p) => (t.due, p) :: t'.schedule fuel
    | (none, some p) => [(t.due, p)]
    | _ => []

/-- `async_register_service` after the check: the announcement task spawned at time `now` -/
def announceTask (svc : Svc) (oid : Nat) (now : Int) : Task :=
  { svc, oid, interval := registerTime, ttl := none, addresses := true, i := 0, due := now }

/-! ### the registry's name table (`registry.py:89-113`), for `C09_unique` -/

/-- `_services`: lower-cased name ↦ object identity -/
abbrev Names := List (String × Nat)

/-- `_add`: `ServiceNameAlreadyRegistered` when the key is present -/
def Names.add (r : Names) (key : String) (oid : Nat) : Except PyExc Names :=
  if r.any (fun e => e.1 == key) then .error .alreadyRegistered else .ok (r ++ [(key, oid)])

/-- `_remove` of one info: silently ignores an unknown key -/
def Names.remove (r : Names) (key : String) : Names := r.filter (fun e => !(e.1 == key))

/-- `async_update = _remove; _add` -/
def Names.update (r : Names) (key : String) (oid : Nat) : Except PyExc Names := (r.remove key).add key oid

/-! ### `async_register_service` as a whole (`_core.py:346-351`): check, `registry.async_add`, announcement task -/

/-- what one `async_register_service` call leaves behind -/
structure RegResult where
  /-- the check as far as the wake-ups given took it -/
  cfg : Cfg
  /-- the registry's key table afterwards -/
  names : Names
  /-- the announcement task, spawned only when the check completed and the name was added -/
  task : Option Task
  /-- the exception the call raised, if any (`NonUniqueNameException`, `BadTypeInNameException`, `ServiceNameAlreadyRegistered`) -/
  error : Option PyExc
  deriving Repr

/-- `await self.async_check_service(...)`; `self.registry.async_add(info)`; `ensure_future(self._async_broadcast_service(info, _REGISTER_TIME, None))`.
`none` = the wake-ups are not a run of the coroutine (a wake-up after its timer, or after it ended). -/
def registerRun (allow : Bool) (valid : String → Bool) (lower : String → String) (names : Names) (svc : Svc) (inst : String) (oid : Nat)
    (w0 : Wake) (ws : List Wake) : Option RegResult :=
  match (Cfg.start { allow, valid, bucket := w0.bucket } svc inst w0.now).run allow valid ws with
  | none => none
  | some c =>
    match c.phase with
    | .done =>
      match names.add (lower c.st.svc.name) oid with
      | .ok names' => some { cfg := c, names := names', task := some (announceTask c.st.svc oid c.st.now), error := none }
      | .error e => some { cfg := c, names := names, task := none, error := some e }
    | .failed e => some { cfg := c, names := names, task := none, error := some e }
    | _ => some { cfg := c, names := names, task := none, error := none }

/-- everything the call (and the task it spawned) puts on the wire -/
def RegResult.wire (r : RegResult) : List (Int × Pkt) :=
  r.cfg.sent ++ (match r.task with | some t => t.schedule 3 | none => [])

end Zc.Register
