import Zc.Model.Register
/-! Withdrawal of services (`Zeroconf.async_unregister_service`, `_async_send_repeatedly`, `generate_unregister_all_services`,
`async_unregister_all_services`, `async_send`, `_close` in `_core.py`; `multicast_outgoing_queue.py`; `registry.py`): the host as a
machine of atomic blocks over

* the registry (`_services`: lower-cased name ↦ info object),
* the two outgoing queues (`out_queue`, `out_delay_queue`) of answer groups,
* the live broadcast tasks (`_async_broadcast_service`: announcements and goodbyes) and the close sequence,
* the `done` flag.

What the query handler decides (which records answer a query and by which route) is an *input* of the
blocks `answer`/`enqueue`; the blocks are enabled only if every record offered is a record of a service that is
registered at that instant (the contract of C03).  Timer instants of the queues are inputs as well (C12).
No Mathlib. -/
namespace Zc.Goodbye
open Zc Zc.Gen Zc.Register

/-- `_services[key] = info` -/
structure Entry where
  svc : Svc
  oid : Nat
  deriving DecidableEq, Repr, Inhabited

/-- an `AnswerGroup`; `answers` is the dict record ↦ set of additionals, in insertion order -/
structure Group where
  sa : Int
  sb : Int
  answers : List (Rec × List Rec)
  deriving DecidableEq, Repr, Inhabited

/-- the datagram of `async_unregister_all_services`, sent three times -/
structure AllTask where
  answers : List Rec
  i : Nat
  due : Int
  deriving DecidableEq, Repr, Inhabited

structure Host where
  reg : List Entry
  outq : List Group
  delayq : List Group
  tasks : List Task
  /-- the running `async_unregister_all_services` sequences -/
  closing : List AllTask
  done : Bool
  deriving DecidableEq, Repr, Inhabited

def Host.init : Host := { reg := [], outq := [], delayq := [], tasks := [], closing := [], done := false }

section
variable (lower : String → String)

def key (s : Svc) : String := lower s.name
def serverKey (s : Svc) : String := lower s.server

/-- every record the service defines (TTLs not overridden) -/
def recs (s : Svc) : List Rec := [s.ptr none, s.srv none, s.txt none] ++ s.addrNsec none

/-- membership up to record identity (`__eq__`/`__hash__`: TTL, creation time and flush bit ignored) -/
def hits (W : List Rec) (r : Rec) : Bool := W.any (fun w => r.beq lower w)

/-! ### registry -/

def regGet (reg : List Entry) (k : String) : Option Entry := reg.find? (fun e => key lower e.svc == k)

/-- `registry.async_get_info_name(info.key) is info` -/
def registeredAs (reg : List Entry) (s : Svc) (oid : Nat) : Bool :=
  match regGet lower reg (key lower s) with
  | some e => e.oid == oid
  | none => false

def regRemove (reg : List Entry) (k : String) : List Entry := reg.filter (fun e => !(key lower e.svc == k))

/-- `registry.async_remove(info)` as `async_unregister_service` calls it.  The registry is keyed by name, so the entry goes
whatever object is passed (the registered one, an equal-but-distinct one, the handle from before `update_service`); the two
generated leaves say whether `async_remove`/`_remove` test object identity (they do not: `GenFacts/Goodbye.lean`). -/
def unregRemove (reg : List Entry) (s : Svc) (oid : Nat) : List Entry :=
  if (Gen.Register.registry_remove_by_identity || Gen.Register.registry_remove_inner_by_identity) && !(registeredAs lower reg s oid) then reg
  else regRemove lower reg (key lower s)

/-- the synchronous wrapper `Zeroconf.unregister_service` (threads themselves are not modelled): how many of the three goodbyes of
the task have been handed to `async_send` when the call returns — all of them when the wrapper awaits the task
(`await_awaitable`, D19 repair), only the first otherwise (the caller then cannot wait for the rest, and a `close()` that follows
sets `done` before they are due) -/
def syncUnregisterGoodbyesOnReturn : Nat :=
  if Gen.Register.sync_unregister_awaits_goodbyes then Gen.Register.broadcast_count else 1

/-- `async_get_infos_server(server_key)` is non-empty -/
def hostShared (reg : List Entry) (s : Svc) : Bool := reg.any (fun e => serverKey lower e.svc == serverKey lower s)

/-! ### queues -/

/-- `dict.update` with record identity as the key: a present key keeps its place (and its key object), the value is replaced -/
def dictSet (d : List (Rec × List Rec)) (k : Rec) (v : List Rec) : List (Rec × List Rec) :=
  if d.any (fun e => e.1.beq lower k) then d.map (fun e => if e.1.beq lower k then (e.1, v) else e) else d ++ [(k, v)]

def dictUpdate (d new : List (Rec × List Rec)) : List (Rec × List Rec) := new.foldl (fun acc e => dictSet lower acc e.1 e.2) d

/-- `MulticastOutgoingQueue.async_add` (timers left out) -/
def qadd (addl agg : Nat) (q : List Group) (now : Int) (draw : Nat) (answers : List (Rec × List Rec)) : List Group :=
  let sa := now + draw + addl
  let sb := now + agg + addl
  match q.getLast? with
  | some last => if sa ≤ last.sa then q.dropLast ++ [{ last with answers := dictUpdate lower last.answers answers }] else q ++ [⟨sa, sb, answers⟩]
  | none => [⟨sa, sb, answers⟩]

/-- the D5 repair, `async_remove_answers`: drop the records from every pending group, as answers and as additionals -/
def qpurge (W : List Rec) (q : List Group) : List Group :=
  q.map (fun g => { g with answers := g.answers.filterMap (fun e =>
    if hits lower W e.1 then none else some (e.1, e.2.filter (fun a => !hits lower W a))) })

/-- groups that are ready at `now` (a prefix), and the rest -/
def popReady (now : Int) : List Group → List Group × List Group
  | [] => ([], [])
  | g :: rest => if g.sa ≤ now then let (a, b) := popReady now rest; (g :: a, b) else ([], g :: rest)

/-- `_remove_answers_from_queue`: drop the keys just sent from the groups still pending -/
def qremoveKeys (keys : List Rec) (q : List Group) : List Group :=
  q.map (fun g => { g with answers := g.answers.filter (fun e => !hits lower keys e.1) })

/-- `construct_outgoing_multicast_answers`: answers = the keys, additionals = the additionals that are not answers (once each) -/
def answersPkt (d : List (Rec × List Rec)) : Pkt :=
  let keys := d.map (·.1)
  -- `sorted(answers, key=NAME_GETTER)` decides which of two identical additionals (same identity, other TTL or spelling) is kept
  let adds := ((d.mergeSort (fun a b => decide (a.1.name ≤ b.1.name))).flatMap (·.2)).foldl (fun acc a => if hits lower keys a || hits lower acc a then acc else acc ++ [a]) []
  { flags := flagsQrResponse ||| flagsAa, questions := [], answers := keys, authorities := [], additionals := adds }

/-- `async_ready` at `now` -/
def qready (q : List Group) (now : Int) : List Group × Option Pkt :=
  match q with
  | g :: _ :: _ => if g.sb > now then (q, none) else
      let (ready, rest) := popReady now q
      let d := ready.foldl (fun acc g => dictUpdate lower acc g.answers) []
      if d.isEmpty then (rest, none) else (qremoveKeys lower (d.map (·.1)) rest, some (answersPkt lower d))
  | _ =>
      let (ready, rest) := popReady now q
      let d := ready.foldl (fun acc g => dictUpdate lower acc g.answers) []
      if d.isEmpty then (rest, none) else (qremoveKeys lower (d.map (·.1)) rest, some (answersPkt lower d))

/-! ### blocks -/

/-- the records withdrawn by `async_unregister_service`: PTR, SRV, TXT, and addresses + NSEC unless another
registered service uses the host -/
def withdrawn (s : Svc) (shared : Bool) : List Rec :=
  [s.ptr none, s.srv none, s.txt none] ++ (if Gen.Register.goodbye_addresses shared then s.addrNsec none else [])

inductive Block where
  /-- `async_register_service` after the check: `registry.async_add`, announcement task -/
  | register (s : Svc) (oid : Nat) (now : Int)
  /-- `async_update_service` -/
  | update (s : Svc) (oid : Nat) (now : Int)
  /-- `async_unregister_service` -/
  | unregister (s : Svc) (oid : Nat) (now : Int)
  /-- the step, due at `due`, of a broadcast task of info `oid` with TTL override `ttl` -/
  | task (oid : Nat) (ttl : Option Nat) (addresses : Bool) (due : Int)
  /-- the query handler answers at once (multicast or unicast) with these records -/
  | answer (recs : List Rec)
  /-- the query handler queues answers: `delayed = false` → `out_queue`, `true` → `out_delay_queue` -/
  | enqueue (delayed : Bool) (now : Int) (draw : Nat) (answers : List (Rec × List Rec))
  /-- `async_ready` of a queue -/
  | ready (delayed : Bool) (now : Int)
  /-- `generate_unregister_all_services` + the first goodbye -/
  | unregisterAll (now : Int)
  /-- the next goodbye, due at `due`, of an `async_unregister_all_services` sequence -/
  | allStep (due : Int)
  /-- `_close`: `done := True` -/
  | close
  deriving Repr

/-- is `r` a record of a service registered now?  (A unicast reply carries the record without its cache-flush bit.) -/
def live (reg : List Entry) (r : Rec) : Bool := reg.any (fun e => (recs e.svc).any (fun x => { x with unique := r.unique } == r))

/-- `async_send`: a no-op once `done` -/
def emit (h : Host) (p : Pkt) : List Pkt := if Gen.Register.send_is_noop h.done then [] else [p]

def allPkt (answers : List Rec) : Pkt :=
  { flags := flagsQrResponse ||| flagsAa, questions := [], answers := answers, authorities := [], additionals := [] }

def findTask (tasks : List Task) (oid : Nat) (ttl : Option Nat) (addresses : Bool) (due : Int) : Option Task :=
  tasks.find? (fun t => t.oid == oid && t.ttl == ttl && t.addresses == addresses && t.due == due)

/-- remove the first task matching -/
def dropTask (tasks : List Task) (oid : Nat) (ttl : Option Nat) (addresses : Bool) (due : Int) : List Task :=
  match tasks with
  | [] => []
  | t :: rest => if t.oid == oid && t.ttl == ttl && t.addresses == addresses && t.due == due then rest else t :: dropTask rest oid ttl addresses due

def dropAll (l : List AllTask) (due : Int) : List AllTask :=
  match l with
  | [] => []
  | a :: rest => if a.due == due then rest else a :: dropAll rest due

/-- one block; `none` = the block is not enabled in this state -/
def Host.step (h : Host) : Block → Option (Host × List Pkt)
  | .register s oid now =>
    if (regGet lower h.reg (key lower s)).isSome then none   -- ServiceNameAlreadyRegistered: not a block of this machine
    else if h.tasks.any (fun t => t.oid == oid && t.svc != s) then none   -- infos are not mutated while one of their tasks runs
    else some ({ h with reg := h.reg ++ [⟨s, oid⟩], tasks := h.tasks ++ [announceTask s oid now] }, [])
  | .update s oid now =>
    if h.tasks.any (fun t => t.oid == oid && t.svc != s) then none
    else some ({ h with reg := regRemove lower h.reg (key lower s) ++ [⟨s, oid⟩], tasks := h.tasks ++ [announceTask s oid now] }, [])
  | .unregister s oid now =>
    let reg' := unregRemove lower h.reg s oid
    let shared := hostShared lower reg' s
    let W := withdrawn s shared
    let purge := fun q => if Gen.Register.unregister_purges_queues then qpurge lower W q else q
    some ({ h with reg := reg', outq := purge h.outq, delayq := purge h.delayq,
                   tasks := h.tasks ++ [{ svc := s, oid, interval := unregisterTime, ttl := some 0,
                                          addresses := Gen.Register.goodbye_addresses shared, i := 0, due := now }] }, [])
  | .task oid ttl addresses due =>
    match findTask h.tasks oid ttl addresses due with
    | none => none
    | some t =>
      let (t', p) := t.step (registeredAs lower h.reg t.svc t.oid)
      let rest := dropTask h.tasks oid ttl addresses due
      some ({ h with tasks := match t' with | some t' => rest ++ [t'] | none => rest },
            match p with | some p => emit h p | none => [])
  | .answer rs =>
    if rs.all (live h.reg) then
      some (h, emit h { flags := flagsQrResponse ||| flagsAa, questions := [], answers := rs, authorities := [], additionals := [] })
    else none
  | .enqueue delayed now draw answers =>
    if answers.all (fun e => live h.reg e.1 && e.2.all (live h.reg)) then
      if delayed then some ({ h with delayq := qadd lower oneSecond protectedAggregationDelay h.delayq now draw answers }, [])
      else some ({ h with outq := qadd lower 0 aggregationDelay h.outq now draw answers }, [])
    else none
  | .ready delayed now =>
    if delayed then
      let (q, p) := qready lower h.delayq now
      some ({ h with delayq := q }, match p with | some p => emit h p | none => [])
    else
      let (q, p) := qready lower h.outq now
      some ({ h with outq := q }, match p with | some p => emit h p | none => [])
  | .unregisterAll now =>
    if h.reg.isEmpty then some (h, [])
    else
      let answers := h.reg.flatMap (fun e => broadcastAnswers e.svc (some 0) true)
      let purge := fun q => if Gen.Register.unregister_all_purges_queues then qpurge lower answers q else q
      some ({ h with reg := [], outq := purge h.outq, delayq := purge h.delayq,
                     closing := h.closing ++ [{ answers, i := 1, due := now + unregisterTime }] }, emit h (allPkt answers))
  | .allStep due =>
    match h.closing.find? (fun a => a.due == due) with
    | none => none
    | some a =>
      let rest := dropAll h.closing due
      some ({ h with closing := if a.i + 1 < Gen.Register.broadcast_count then rest ++ [{ a with i := a.i + 1, due := a.due + unregisterTime }] else rest },
            emit h (allPkt a.answers))
  | .close => some ({ h with done := true }, [])

def Host.run (h : Host) : List Block → Option (Host × List Pkt)
  | [] => some (h, [])
  | b :: bs =>
    match h.step lower b with
    | none => none
    | some (h', out) =>
      match Host.run h' bs with
      | none => none
      | some (h'', out') => some (h'', out ++ out')

/-! ### the public close calls (`AsyncZeroconf.async_close`, `Zeroconf.close()` from another thread) as programs of blocks

`_close` (block `.close`) is the private primitive and is enabled in any state; what the property speaks about — "its instance is
closed" — is the public call, which is a *sequence* of blocks of this machine.  Which sequence is read off the source by four
call-order leaves. -/

/-- a block of a shutdown call (`async_unregister_all_services`, its later steps, `_close`) -/
def Block.isShutdown : Block → Bool
  | .unregisterAll _ | .allStep _ | .close => true
  | _ => false

/-- a public close call at `now` on host `h`, as the blocks it consists of; `mid1`, `mid2` = whatever other blocks the loop runs
while the call sleeps between its goodbyes.  `goodbye`: the call says goodbye at all (it calls `async_unregister_all_services`);
`first`: it does so before `_close` sets `done`.  With nothing registered `generate_unregister_all_services` returns `None`
and `_close` follows in the same task step. -/
def closeCall (goodbye first : Bool) (h : Host) (now : Int) (mid1 mid2 : List Block) : List Block :=
  let seq := if h.reg.isEmpty then [Block.unregisterAll now]
             else [Block.unregisterAll now] ++ mid1 ++ [Block.allStep (now + unregisterTime)] ++ mid2 ++ [Block.allStep (now + unregisterTime + unregisterTime)]
  if !goodbye then [Block.close]
  else if first then seq ++ [Block.close]
  else [Block.close] ++ seq

/-- `AsyncZeroconf.async_close` (`asyncio.py:224-233`) -/
def asyncClose (h : Host) (now : Int) (mid1 mid2 : List Block) : List Block :=
  closeCall Gen.Register.async_close_unregisters_all Gen.Register.async_close_goodbyes_before_done h now mid1 mid2

/-- `Zeroconf.close()` called from another thread (`_core.py:655-672`; on the instance's own loop the goodbyes are skipped by
design with a warning — outside the quantifier) -/
def syncClose (h : Host) (now : Int) (mid1 mid2 : List Block) : List Block :=
  closeCall Gen.Register.sync_close_unregisters_all Gen.Register.sync_close_goodbyes_before_done h now mid1 mid2

/-! ### a `ServiceInfo` object mutated under its running tasks (known finding D27)

`_async_broadcast_service` holds the *object* and reads it again at each of its three steps.  The machine's tasks hold the fields
(`Task.svc`) and `register`/`update` are not enabled for an object whose fields differ from those of one of its running tasks,
so runs of the machine never mutate an object under a task.  The library itself does: `async_unregister_service(info)` followed
by `async_register_service(info, allow_name_change=True)` renames the object in `async_check_service` before the goodbye task's
first step.  `mutate` is what that does to the host; it is *not* a block of `Host.step` (runs of the machine never mutate), the
trace replay and the extended machine `Host.xrun` (`Proofs/GoodbyeClose.lean`) use it to follow the real code.

`snap` = the goodbye datagram is built when `async_unregister_service` is *called* (the D27 repair: the task re-sends that packet
and no longer reads the object); an announcement task reads the object at every step in either tree. -/
def Host.mutateWith (snap : Bool) (h : Host) (oid : Nat) (s' : Svc) : Host :=
  { h with tasks := h.tasks.map (fun t => if t.oid == oid && (t.ttl.isNone || !snap) then { t with svc := s' } else t) }

/-- … as the tree being checked does it: the leaf says whether `async_unregister_service` builds the goodbye packet itself -/
def Host.mutate (h : Host) (oid : Nat) (s' : Svc) : Host := h.mutateWith Gen.Register.unregister_builds_goodbye_at_call oid s'

end

end Zc.Goodbye
