import Zc.Model.Basic
import Zc.Gen.Const
import Zc.Gen.Dns
import Zc.Gen.Ident
/-! `_dns.py`: entries, records, lifetimes, identity.

Identity (`__eq__` / `__hash__`) is *defined from the generated field lists*
(`Zc.Gen.Ident`), so that the theorems of C20 speak about what the classes say today. -/
namespace Zc
open Zc.Gen

/-- rdata, one constructor per concrete record class of `_dns.py` -/
inductive RData where
  | addr (address : Bytes) (scope : Option Nat)            -- DNSAddress
  | hinfo (cpu os : String)                                -- DNSHinfo
  | ptr (alias : String)                                   -- DNSPointer
  | txt (text : Bytes)                                     -- DNSText
  | srv (priority weight port : Nat) (server : String)     -- DNSService
  | nsec (nextName : String) (rdtypes : List Nat)          -- DNSNsec (rdtypes already sorted)
  deriving DecidableEq, Repr, Inhabited

/-- the concrete Python class of a record -/
inductive Kind where | addr | hinfo | ptr | txt | srv | nsec
  deriving DecidableEq, Repr, Inhabited

def RData.kind : RData → Kind
  | .addr .. => .addr | .hinfo .. => .hinfo | .ptr .. => .ptr | .txt .. => .txt | .srv .. => .srv | .nsec .. => .nsec

/-- A `DNSRecord` object.  `class_` is already masked (15 bit), `unique` is the top bit. -/
structure Rec where
  name : String
  type : Nat
  class_ : Nat
  unique : Bool
  ttl : Nat
  created : Ms
  rdata : RData
  deriving DecidableEq, Repr, Inhabited

/-- A `DNSQuestion` object. -/
structure Question where
  name : String
  type : Nat
  class_ : Nat
  unique : Bool
  deriving DecidableEq, Repr, Inhabited

/-! ### lifetimes (generated leaves) -/
def Rec.isExpired (r : Rec) (now : Ms) : Bool := Gen.Dns.is_expired r.created r.ttl now
def Rec.isStale (r : Rec) (now : Ms) : Bool := Gen.Dns.is_stale r.created r.ttl now
def Rec.isRecent (r : Rec) (now : Ms) : Bool := Gen.Dns.is_recent r.created r.ttl now
def Rec.expirationTime (r : Rec) (pct : Nat) : Ms := Gen.Dns.get_expiration_time r.created r.ttl pct
def Rec.remainingTtl (r : Rec) (now : Ms) : Nat := (Gen.Dns.get_remaining_ttl r.created r.ttl now).toNat

/-! ### identity -/

/-- value of an attribute -/
inductive FVal where
  | s (v : String) | n (v : Nat) | b (v : Bytes) | on (v : Option Nat) | nl (v : List Nat) | bool (v : Bool) | i (v : Int) | none
  deriving DecidableEq, Repr

open Zc.Gen.Ident in
/-- attribute read on a record object; `lower` is `str.lower` -/
def Rec.field (lower : String → String) (r : Rec) : Field → FVal
  | .key => .s (lower r.name)
  | .name => .s r.name
  | .type => .n r.type
  | .class_ => .n r.class_
  | .unique => .bool r.unique
  | .ttl => .n r.ttl
  | .created => .i r.created
  | .address => match r.rdata with | .addr a _ => .b a | _ => .none
  | .scope_id => match r.rdata with | .addr _ s => .on s | _ => .none
  | .cpu => match r.rdata with | .hinfo c _ => .s c | _ => .none
  | .os => match r.rdata with | .hinfo _ o => .s o | _ => .none
  | .alias => match r.rdata with | .ptr a => .s a | _ => .none
  | .alias_key => match r.rdata with | .ptr a => .s (lower a) | _ => .none
  | .text => match r.rdata with | .txt t => .b t | _ => .none
  | .priority => match r.rdata with | .srv p _ _ _ => .n p | _ => .none
  | .weight => match r.rdata with | .srv _ w _ _ => .n w | _ => .none
  | .port => match r.rdata with | .srv _ _ p _ => .n p | _ => .none
  | .server => match r.rdata with | .srv _ _ _ s => .s s | _ => .none
  | .server_key => match r.rdata with | .srv _ _ _ s => .s (lower s) | _ => .none
  | .next_name => match r.rdata with | .nsec n _ => .s n | _ => .none
  | .rdtypes => match r.rdata with | .nsec _ t => .nl t | _ => .none

open Zc.Gen.Ident in
def Kind.eqFields : Kind → List Field
  | .addr => addressEq | .hinfo => hinfoEq | .ptr => pointerEq | .txt => textEq | .srv => serviceEq | .nsec => nsecEq

open Zc.Gen.Ident in
def Kind.hashFields : Kind → List Field
  | .addr => addressHash | .hinfo => hinfoHash | .ptr => pointerHash | .txt => textHash | .srv => serviceHash | .nsec => nsecHash

/-- `a.__eq__(b)`: `isinstance(other, <class of a>) and a._eq(other)` -/
def Rec.beq (lower : String → String) (a b : Rec) : Bool :=
  decide (a.rdata.kind = b.rdata.kind) && a.rdata.kind.eqFields.all (fun f => decide (a.field lower f = b.field lower f))

/-- the tuple whose `hash()` is the record's `__hash__` -/
def Rec.hashKey (lower : String → String) (a : Rec) : Kind × List FVal :=
  (a.rdata.kind, a.rdata.kind.hashFields.map (a.field lower))

open Zc.Gen.Ident in
def Question.field (lower : String → String) (q : Question) : Field → FVal
  | .key => .s (lower q.name)
  | .name => .s q.name
  | .type => .n q.type
  | .class_ => .n q.class_
  | .unique => .bool q.unique
  | _ => .none

def Question.beq (lower : String → String) (a b : Question) : Bool :=
  Gen.Ident.questionEq.all (fun f => decide (a.field lower f = b.field lower f))

def Question.hashKey (lower : String → String) (a : Question) : List FVal :=
  Gen.Ident.questionHash.map (a.field lower)

/-- ASCII lowering; the driver's instantiation of `str.lower` (DESIGN §4.3) -/
def asciiLower (s : String) : String := s.map Char.toLower

/-! ### the property's own sentence (C20): what identity is supposed to be -/

/-- rdata as far as identity is concerned: PTR target and SRV host lowered, scope kept -/
def RData.ident (lower : String → String) : RData → RData
  | .ptr a => .ptr (lower a)
  | .srv p w q s => .srv p w q (lower s)
  | r => r

/-- owner name (case-insensitively), type, class and rdata; never TTL, creation time or the flush bit -/
def Rec.specIdent (lower : String → String) (r : Rec) : String × Nat × Nat × RData :=
  (lower r.name, r.type, r.class_, r.rdata.ident lower)

def Question.specIdent (lower : String → String) (q : Question) : String × Nat × Nat :=
  (lower q.name, q.type, q.class_)

/-! ### construction: what `DNSEntry.__init__` makes of the class argument

A record object is built from a *raw* 16-bit class whose top bit is the cache-flush (QU) bit;
`DNSEntry._set_class` (generated leaves `class_of` / `unique_of`) splits it.  `normCtor` turns a record
whose `class_` field holds the raw constructor argument into the object Python builds. -/
def Rec.normCtor (r : Rec) : Rec :=
  { r with class_ := Gen.Dns.class_of r.class_, unique := Gen.Dns.unique_of r.class_ }

def Question.normCtor (q : Question) : Question :=
  { q with class_ := Gen.Dns.class_of q.class_, unique := Gen.Dns.unique_of q.class_ }

/-- `DNSRecord._suppressed_by_answer`: `self == other and other.ttl > self.ttl / 2` (the first conjunct is pinned by the
translator, the second is the generated leaf) -/
def Rec.suppressedByAnswer (lower : String → String) (a b : Rec) : Bool :=
  a.beq lower b && Gen.Dns.suppressed_by_answer_ttl a.ttl b.ttl

/-! ### `DNSRRSet`: known-answer suppression looks records up by identity -/

/-- `{record: record for record in records}.get(r)`: the value kept for a key is the *last* equal record -/
def rrsetLookup (lower : String → String) (rs : List Rec) (r : Rec) : Option Rec :=
  rs.reverse.find? (fun o => o.beq lower r)

/-- `DNSRRSet.suppresses` -/
def rrsetSuppresses (lower : String → String) (rs : List Rec) (r : Rec) : Bool :=
  match rrsetLookup lower rs r with
  | none => false
  | some o => Gen.Dns.rrset_suppresses_ttl r.ttl o.ttl

/-- `DNSRecord.suppressed_by(msg)` (`_dns.py:177-184`): **some** answer of the message is the same record with more than
half of this record's TTL (`for record in answers: if self._suppressed_by_answer(record): return True`) -/
def Rec.suppressedBy (lower : String → String) (a : Rec) (answers : List Rec) : Bool :=
  answers.any (fun o => a.suppressedByAnswer lower o)

/-- Duplicate removal in a reply (`_handlers/answers.py: _add_answers_additionals`): `sending = set(answers)`; an
additional record goes out only if it is not (by identity) in `sending`, and is then added to it.  `adds` is the set of
additionals in whatever order the `set` is iterated; the result is the additional section. -/
def replyAdditionals (lower : String → String) (answers adds : List Rec) : List Rec :=
  adds.foldl (fun sent x => if (answers ++ sent).any (fun o => o.beq lower x) then sent else sent ++ [x]) []

/-- ASCII upper-casing (only used to state that `asciiLower` identifies ASCII case variants) -/
def asciiUpper (s : String) : String := s.map Char.toUpper

/-! ### wire/line serialisation of records (driver protocol) -/

def Rec.parse : Tok Rec := do
  let k ← Tok.next
  let name ← Tok.str; let type ← Tok.nat; let class_ ← Tok.nat; let unique ← Tok.bool
  let ttl ← Tok.nat; let created ← Tok.int
  let rd ← match k with
    | "a" => do let a ← Tok.bytes; let s ← Tok.optNat; pure (RData.addr a s)
    | "h" => do let c ← Tok.str; let o ← Tok.str; pure (RData.hinfo c o)
    | "p" => do let a ← Tok.str; pure (RData.ptr a)
    | "t" => do let t ← Tok.bytes; pure (RData.txt t)
    | "s" => do let p ← Tok.nat; let w ← Tok.nat; let q ← Tok.nat; let s ← Tok.str; pure (RData.srv p w q s)
    | "n" => do let n ← Tok.str; let t ← Tok.natList; pure (RData.nsec n t)
    | _ => failure
  pure { name, type, class_, unique, ttl, created, rdata := rd }

def optNatStr : Option Nat → String | none => "-" | some n => toString n

def RData.toLine : RData → String
  | .addr a s => s!"a {hexOfBytes a} {optNatStr s}"
  | .hinfo c o => s!"h {hexOfStr c} {hexOfStr o}"
  | .ptr a => s!"p {hexOfStr a}"
  | .txt t => s!"t {hexOfBytes t}"
  | .srv p w q s => s!"s {p} {w} {q} {hexOfStr s}"
  | .nsec n t => s!"n {hexOfStr n} {natListStr t}"

def Rec.toLine (r : Rec) : String :=
  let k := match r.rdata.kind with | .addr => "a" | .hinfo => "h" | .ptr => "p" | .txt => "t" | .srv => "s" | .nsec => "n"
  let rd := (r.rdata.toLine.splitOn " ").drop 1
  s!"{k} {hexOfStr r.name} {r.type} {r.class_} {if r.unique then 1 else 0} {r.ttl} {r.created} {" ".intercalate rd}"

def Question.parse : Tok Question := do
  let name ← Tok.str; let type ← Tok.nat; let class_ ← Tok.nat; let unique ← Tok.bool
  pure { name, type, class_, unique }

def Question.toLine (q : Question) : String :=
  s!"{hexOfStr q.name} {q.type} {q.class_} {if q.unique then 1 else 0}"

end Zc
