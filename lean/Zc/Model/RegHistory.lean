import Zc.Model.Responder
/-! Histories of registry operations (C03): the concrete step function over `Registry`, the abstract
specification (a finite map key ↦ service fields), and the set of keys whose registered object was written to
since its last (re-)registration. -/
namespace Zc

/-- one operation on a host's registry, as the API exposes it -/
inductive RegOp where
  /-- `registry.async_add(info)` -/
  | register (s : Svc)
  /-- `registry.async_update(info)` (with a new object or the registered one) -/
  | update (s : Svc)
  /-- `registry.async_remove([...])`, by the keys of the objects passed -/
  | unregister (ks : List String)
  /-- an attribute write on the registered object with key `k` -/
  | mutate (k : String) (m : Mut)
  /-- `QueryHandler.async_response(msgs, …)` -/
  | query (msgs : List Msg)

section
variable (lower : String → String) (ettl : Nat)

/-- one operation; `.error` is the Python exception the call raises -/
def Registry.stepE (reg : Registry) : RegOp → Except PyExc Registry
  | .register s => reg.add lower s
  | .update s => reg.update lower s
  | .unregister ks => reg.remove lower ks
  | .mutate k m => .ok (reg.mutate lower k m)
  | .query msgs => match respond lower ettl reg msgs with
    | .ok (_, r) => .ok r
    | .error e => .error e

/-- … with the state left unchanged when the call raises (what `_add` does for a duplicate name) -/
def Registry.step (reg : Registry) (op : RegOp) : Registry :=
  match reg.stepE lower ettl op with
  | .ok r => r
  | .error _ => reg

def Registry.run (ops : List RegOp) : Registry := ops.foldl (Registry.step lower ettl) {}

/-- the abstract registry: key ↦ fields (memo slots cleared), in registration order -/
def RegSpec.step (m : List Svc) : RegOp → List Svc
  | .register s => if m.any (fun o => lower o.name = lower s.name) then m else m ++ [s.clearMemo]
  | .update s => m.filter (fun o => !decide (lower o.name = lower s.name)) ++ [s.clearMemo]
  | .unregister ks => m.filter (fun o => !(ks.contains (lower o.name)))
  | .mutate k mu => m.map (fun o => if lower o.name = k then (o.mutate mu).clearMemo else o)
  | .query _ => m

def RegSpec.run (ops : List RegOp) : List Svc := ops.foldl (RegSpec.step lower) []

/-- keys written to since their last `update`/`unregister` (an attribute write takes effect at the next
`async_update`; until then memoised records may be stale) -/
def dirtyStep (d : List String) : RegOp → List String
  | .register _ => d
  | .update s => d.filter (fun k => !decide (k = lower s.name))
  | .unregister ks => d.filter (fun k => !(ks.contains k))
  | .mutate k _ => k :: d
  | .query _ => d

def dirty (ops : List RegOp) : List String := ops.foldl (dirtyStep lower) []

end
end Zc
