import Zc.Model.Basic
/-! # Model of the TXT side of `ServiceInfo` (`_services/info.py:368-435`) and an independent
RFC 6763 §6 parser (`Spec`).  No Mathlib.

A properties dictionary is an insertion-ordered association list of `(key, value)` with the
`str` keys/values already UTF-8 encoded (`key.encode('utf-8')`, `str(value).encode('utf-8')`;
done by CPython, trusted) and `None` = `none`. -/
namespace Zc.Txt

abbrev Props := List (Bytes × Option Bytes)

/-- `'='` -/
def eqByte : UInt8 := 0x3d

/-- `record = key; if value is not None: record += b'=' + value` (info.py:379-384) -/
def itemOf (e : Bytes × Option Bytes) : Bytes :=
  match e.2 with
  | none => e.1
  | some v => e.1 ++ eqByte :: v

/-- `result = b''.join((result, bytes((len(item),)), item))` for every item (info.py:386-387);
`bytes((n,))` raises `ValueError` unless `0 ≤ n ≤ 255` -/
def encodeItems : List Bytes → Except PyExc Bytes
  | [] => .ok []
  | it :: r =>
    if it.length > 255 then .error .valueError else
    match encodeItems r with
    | .error e => .error e
    | .ok t => .ok (UInt8.ofNat it.length :: it ++ t)

/-- `ServiceInfo._set_properties(ps)` → `self.text` -/
def encode (ps : Props) : Except PyExc Bytes := encodeItems (ps.map itemOf)

/-- `bytes.partition(b'=')`: the part before the first `=`, and the part after it if there is one -/
def partitionEq : Bytes → Bytes × Option Bytes
  | [] => ([], none)
  | b :: r => if b = eqByte then ([], some r) else ((b :: (partitionEq r).1), (partitionEq r).2)

/-- `key_sep_value[2] or None` -/
def libVal : Option Bytes → Option Bytes
  | some (b :: r) => some (b :: r)
  | _ => none

def hasKey (d : Props) (k : Bytes) : Bool := d.any (fun e => e.1 == k)

/-- `if key not in properties: properties[key] = value` -/
def insertNew (d : Props) (k : Bytes) (v : Option Bytes) : Props :=
  if hasKey d k then d else d ++ [(k, v)]

/-- the `while index < end` loop of `_unpack_text_into_properties` (info.py:423-433); slices never raise -/
def decodeLoop : Bytes → Props → Props
  | [], d => d
  | n :: rest, d =>
    let kv := partitionEq (rest.take n.toNat)
    decodeLoop (rest.drop n.toNat) (insertNew d kv.1 (libVal kv.2))
termination_by t => t.length
decreasing_by simp; omega

/-- `ServiceInfo.properties` computed from `self.text` -/
def decodeLib (text : Bytes) : Props := decodeLoop text []

/-! ### the caller's dictionary: `str` and `bytes` keys and values (info.py:368-395)

A `str` is represented by its UTF-8 encoding — what `key.encode('utf-8')` / `str(value).encode('utf-8')` produce
(CPython's encoder is trusted) — but keeps its *type*: whether a `str` was involved decides what `.properties` returns. -/

inductive PyVal where
  | str (utf8 : Bytes)
  | bytes (b : Bytes)
  deriving DecidableEq, Repr

/-- the bytes the loop works with: `key.encode('utf-8')` for a `str`, the object itself for `bytes` -/
def PyVal.enc : PyVal → Bytes
  | .str u => u
  | .bytes b => b

def PyVal.isStr : PyVal → Bool
  | .str _ => true
  | .bytes _ => false

/-- a properties dictionary as given to `ServiceInfo(properties=…)`, in insertion order; `None` = `none` -/
abbrev PyDict := List (PyVal × Option PyVal)

def entryHasStr (e : PyVal × Option PyVal) : Bool :=
  e.1.isStr || (match e.2 with | some v => v.isStr | none => false)

/-- `properties_contain_str` after the loop: set by `isinstance(key, str)` and by `not isinstance(value, bytes)` -/
def containsStr (d : PyDict) : Bool := d.any entryHasStr

/-- the `(key, value)` byte strings of the loop -/
def coerce (d : PyDict) : Props := d.map (fun e => (e.1.enc, e.2.map PyVal.enc))

/-- a decoded dictionary (`Dict[bytes, Optional[bytes]]`) seen as a Python dictionary -/
def asBytesDict (ps : Props) : PyDict := ps.map (fun e => (PyVal.bytes e.1, e.2.map PyVal.bytes))

/-- `ServiceInfo(..., properties=d)`: `.text`, and what `.properties` returns — the caller's own dictionary when no `str`
was involved (`self._properties = properties`, info.py:388-395), the lazily decoded text otherwise -/
def setProperties (d : PyDict) : Except PyExc (Bytes × PyDict) :=
  match encode (coerce d) with
  | .error e => .error e
  | .ok text => .ok (text, if containsStr d then asBytesDict (decodeLib text) else d)

/-- `self._properties = properties` (info.py:388-394): when no `str` was involved `.properties` **is** the caller's
dictionary object (an alias, not a copy).  The model has value semantics, so the alias is this one bit: the harness compares
it with `info.properties is <the dictionary given>`.  What a later mutation of that object does to `.properties` (it then
disagrees with `.text`) is outside the model and outside the property, which speaks of the dictionary *given*. -/
def returnsCallersDict (d : PyDict) : Bool := !containsStr d

/-! ### `str` objects that are not Unicode text

A Python `str` may hold a lone surrogate (U+D800–U+DFFF); it has no UTF-8 form and `key.encode('utf-8')` /
`str(value).encode('utf-8')` raise `UnicodeEncodeError` in the *first* loop of `_set_properties`, before anything is stored
and before the `ValueError` of an oversize item (raised in the second loop) can occur. -/

/-- a key or value as the caller gives it -/
inductive PyObj where
  | val (v : PyVal)
  | surrogateStr
  deriving DecidableEq, Repr

abbrev PyDictRaw := List (PyObj × Option PyObj)

/-- the exceptions of `ServiceInfo(properties=…)` -/
inductive TxtExc where
  | unicodeEncodeError
  | py (e : PyExc)
  deriving DecidableEq, Repr

def TxtExc.name : TxtExc → String
  | .unicodeEncodeError => "UnicodeEncodeError"
  | .py e => e.name

def liftPy {α : Type} : Except PyExc α → Except TxtExc α
  | .ok r => .ok r
  | .error e => .error (.py e)

def PyObj.encodable : PyObj → Bool
  | .val _ => true
  | .surrogateStr => false

def entryEncodable (e : PyObj × Option PyObj) : Bool :=
  e.1.encodable && (match e.2 with | some v => v.encodable | none => true)

/-- every `str` of the dictionary is Unicode text -/
def Encodable (d : PyDictRaw) : Bool := d.all entryEncodable

def PyObj.toVal : PyObj → PyVal
  | .val v => v
  | .surrogateStr => .str []

/-- the dictionary of an `Encodable` raw dictionary -/
def textOf (d : PyDictRaw) : PyDict := d.map (fun e => (e.1.toVal, e.2.map PyObj.toVal))

/-- `ServiceInfo(..., properties=d)` for any `str`/`bytes` dictionary: `UnicodeEncodeError` if some `str` is not text,
otherwise `setProperties` -/
def setPropertiesRaw (d : PyDictRaw) : Except TxtExc (Bytes × PyDict) :=
  if Encodable d then liftPy (setProperties (textOf d)) else .error .unicodeEncodeError

/-- "keys and values as bytes": no `str` anywhere in an observed dictionary -/
def allBytes (d : PyDict) : Bool := !containsStr d

/-- the library "reads an empty value back as no value" -/
def normVal : Option Bytes → Option Bytes := libVal

def normalise (ps : Props) : Props := ps.map (fun e => (e.1, normVal e.2))

/-! ### independent RFC 6763 §6 reader -/
namespace Spec

/-- RFC 1035 §3.3 `<character-string>`s: a length octet followed by that many octets; `none` if truncated -/
def strings : Bytes → Option (List Bytes)
  | [] => some []
  | n :: rest =>
    if rest.length < n.toNat then none else
    match strings (rest.drop n.toNat) with
    | none => none
    | some ss => some (rest.take n.toNat :: ss)
termination_by t => t.length
decreasing_by simp; omega

def splitAtEq : Bytes → Option (Bytes × Bytes)
  | [] => none
  | b :: r => if b = 0x3d then some ([], r) else (splitAtEq r).map (fun p => (b :: p.1, p.2))

/-- §6.4: no `=` → attribute present without value; `key=` → empty value; `=…` (missing key) and the
empty string are silently ignored -/
def attr (s : Bytes) : Option (Bytes × Option Bytes) :=
  match splitAtEq s with
  | none => if s = [] then none else some (s, none)
  | some (k, v) => if k = [] then none else some (k, some v)

def lowerByte (b : UInt8) : UInt8 := if 65 ≤ b.toNat ∧ b.toNat ≤ 90 then b + 32 else b

/-- §6.4: keys are case-insensitive -/
def foldKey (k : Bytes) : Bytes := k.map lowerByte

/-- §6.4: "if a client receives a TXT record containing the same key more than once, then the client
MUST silently ignore all but the first occurrence of that attribute" -/
def firstWins (seen : List Bytes) : Props → Props
  | [] => []
  | e :: r => if foldKey e.1 ∈ seen then firstWins seen r else e :: firstWins (foldKey e.1 :: seen) r

def parse (text : Bytes) : Option Props :=
  (strings text).map (fun ss => firstWins [] (ss.filterMap attr))

end Spec
end Zc.Txt
