import Zc.Model.RegHistory
import Zc.Model.RespSpec
/-! Replies that are computed but not yet transmitted (the last clause of C03 at the wire).

`QueryHandler.handle_assembled_query` hands most multicast answers to `out_queue` / `out_delay_queue`
(20–500 ms aggregation, 1 s flood protection); they leave later, from a timer.  For the clause "after a service is
updated or unregistered replies reflect only the new state" the only thing that matters about the queues is *that*
a reply may still be pending when the registry changes, and what the API calls do to pending replies:
`async_update_service` does nothing to them, `async_unregister_service` drops the withdrawn records
(`async_remove_answers`, the D5 repair).  **The code takes those records from the `ServiceInfo` it is handed, this model
from the registered object** (`HostOp.unregister` carries keys only): the model is the call through the registered object
or an equal copy; a handle whose records differ is finding R3-C03-a (outside this layer, driven on the simulated host).
Timing and grouping of the queues are C12's and C08's subject.  An attribute write followed by
`async_update_service` is expressed as `update` with the new fields here.  This layer is not driven by the
correspondence harness (the simulated-host stream judges the implementation's datagrams with the oracle). -/
namespace Zc

structure RHost where
  reg : Registry := {}
  /-- answer maps returned by `async_response`, queued, not yet sent -/
  pending : List DictRS := []
  deriving Repr

inductive HostOp where
  /-- an API call or an incoming query (whose reply map is queued) -/
  | api (op : RegOp)
  /-- the queue timers fire: every pending map leaves as one datagram (`_add_answers_additionals`) -/
  | transmit

/-- every record a reply map would put on the wire -/
def recordsOf (d : DictRS) : List Rec := d.flatMap (fun p => p.1 :: p.2)

section
variable (lower : String → String) (ettl : Nat)

/-- `MulticastOutgoingQueue.async_remove_answers` on one pending map -/
def purgeMap (W : List Rec) (d : DictRS) : DictRS :=
  d.filterMap (fun p => if W.any (fun w => w.beq lower p.1) then none
                        else some (p.1, p.2.filter (fun a => !(W.any (fun w => w.beq lower a)))))

/-- `async_unregister_service` for the registered object with key `k` -/
def RHost.unregisterOne (h : RHost) (k : String) : RHost :=
  match sget lower k h.reg.services with
  | none => h
  | some old =>
    let reg' := h.reg.step lower ettl (.unregister [k])
    let shared := (dget (old.serverKey lower) reg'.servers).isSome
    let W := [old.ptr, old.srv, old.txt] ++ (if shared then [] else old.an lower)
    { reg := reg', pending := h.pending.map (purgeMap lower W) }

/-- a datagram, tagged with the abstract registry at the instant it is sent -/
abbrev Sent := List Svc × (List Rec × List Rec)

def RHost.step (h : RHost) : HostOp → RHost × List Sent
  | .transmit =>
    ({ h with pending := [] },
     (h.pending.filter (fun d => !d.isEmpty)).map (fun d => (h.reg.services.map Svc.clearMemo, packetize lower d)))
  | .api (.query msgs) =>
    match respond lower ettl h.reg msgs with
    | .ok (some d, r) => ({ reg := r, pending := h.pending ++ [d] }, [])
    | .ok (none, r) => ({ h with reg := r }, [])
    | .error _ => (h, [])
  | .api (.unregister ks) => (ks.foldl (RHost.unregisterOne lower ettl) h, [])
  | .api op => ({ h with reg := h.reg.step lower ettl op }, [])

def RHost.runFrom (h : RHost) : List HostOp → RHost × List Sent
  | [] => (h, [])
  | op :: rest =>
    let r1 := h.step lower ettl op
    let r2 := RHost.runFrom r1.1 rest
    (r2.1, r1.2 ++ r2.2)

def RHost.run (ops : List HostOp) : RHost × List Sent := RHost.runFrom lower ettl {} ops

/-- every record of the datagram is a record of a service registered when it is sent -/
def Sent.current (o : Sent) : Bool :=
  (o.2.1 ++ o.2.2).all (fun r => o.1.any (fun s => (RespSpec.own lower ettl s).contains r))

/-- `r` is a record of a service of the abstract registry `spec` -/
def ownedBy (spec : List Svc) (r : Rec) : Bool := spec.any (fun o => (RespSpec.own lower ettl o).contains r)

/-- **D20's input class, negated**, at `async_update_service(s)`: every pending record *of the registered service that `s`
replaces* is still a record of a registered service after the update (a no-op update, a new port while only the PTR is pending,
…).  Records of other services are not restricted. -/
def updateOk (h : RHost) (s : Svc) : Bool :=
  match sget lower (lower s.name) h.reg.services with
  | none => true
  | some old =>
    let after := RegSpec.step lower (h.reg.services.map Svc.clearMemo) (.update s)
    h.pending.all (fun d => (recordsOf d).all (fun r =>
      !((RespSpec.own lower ettl old.clearMemo).contains r) || ownedBy lower ettl after r))

/-- the records of the withdrawn service that `async_unregister_service` does **not** purge from the queues: the
type-enumeration pointer (D20b) and — when another service stays on the host — its address and NSEC records (D20c) -/
def unpurged (old : Svc) (shared : Bool) : List Rec :=
  RespSpec.enumPtr ettl (lower old.type) :: (if shared then RespSpec.addrsOf old ++ RespSpec.nsecOf old else [])

/-- **D20b / D20c's input class, negated**, at `async_unregister_service` of the service registered under `k`: every record of
that class that is still pending *after the purge* is a record of a service that stays registered (another service of the same
type for the enumeration pointer; another service with the same address and TTL on the host) -/
def unregisterOneOk (h : RHost) (k : String) : Bool :=
  match sget lower k h.reg.services with
  | none => true
  | some old =>
    let h' := h.unregisterOne lower ettl k
    let shared := (dget (old.serverKey lower) h'.reg.servers).isSome
    h'.pending.all (fun d => (recordsOf d).all (fun r =>
      !((unpurged lower ettl old.clearMemo shared).contains r) || ownedBy lower ettl (h'.reg.services.map Svc.clearMemo) r))

def unregisterOk (h : RHost) : List String → Bool
  | [] => true
  | k :: ks => unregisterOneOk lower ettl h k && unregisterOk (h.unregisterOne lower ettl k) ks

/-- the three recorded findings' input classes, negated, per operation (attribute writes come as `update`, as in
`C03_transmitted_current`) -/
def changeOk (h : RHost) : HostOp → Bool
  | .api (.update s) => updateOk lower ettl h s
  | .api (.unregister ks) => unregisterOk lower ettl h ks
  | .api (.mutate _ _) => false
  | _ => true

/-- no operation of the history is in the input class of D20, D20b or D20c -/
def noSupersededReplyQueued (h : RHost) : List HostOp → Bool
  | [] => true
  | op :: rest => changeOk lower ettl h op && noSupersededReplyQueued (h.step lower ettl op).1 rest

end
end Zc
