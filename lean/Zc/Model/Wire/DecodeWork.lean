import Zc.Model.Wire.DecodeLib
/-! The loop counters of `DNSIncoming` that `DecodeLib.St` does not carry (second review of C02, finding 1): how
often the question loop, the record loop and the `while` loop of `_read_bitmap` are entered, how many bitmap bytes
the inner `for` loop scans and how many rdtypes it appends.  Together with `St.names/acts/reads` these are **all**
the loops a datagram can drive in `incoming.py`.

The functions of `DecodeLib` are left untouched (other properties' proofs unfold them); the counters are computed by
*ghost* functions that follow the same control flow and call the model itself for every state they need
(`readName`, `readFixed`, `readRData`, …), so they cannot disagree with the model about where the offset is — only
about which branch is taken, and `Proofs/DecodeWork.lean` proves the bounds by relating each counter to the offset
the model reaches.  Stage C compares every counter with the real code (line events of the loop bodies).
No Mathlib. -/
namespace Zc.Wire.DecodeLib
open Zc Zc.Wire

/-- counters of one `_read_bitmap(end)` call: `while` iterations entered (an iteration that raises `IndexError` on
its two header bytes counts), bitmap bytes scanned by the inner loop (eight bit tests each), rdtypes appended -/
structure BmWork where
  iters : Nat := 0
  bytes : Nat := 0
  types : Nat := 0
  deriving Repr, DecidableEq

/-- `_read_bitmap(end)` entered at `st.off` (`incoming.py:363-379`); same control flow and leaves as `readBitmap` -/
def readBitmapW (buf : Bytes) (end_ : Nat) : (fuel : Nat) → St → BmWork
  | 0, _ => {}
  | fuel+1, st =>
    if Gen.Incoming.bitmap_more st.off end_ then
      match byteAt buf st.off with
      | .error _ => { iters := 1 }
      | .ok window =>
        match byteAt buf (st.off + 1) with
        | .error _ => { iters := 1 }
        | .ok blen =>
          let bm := slice buf (st.off + 2) (Gen.Incoming.bitmap_end (st.off + 2) blen)
          let r := readBitmapW buf end_ fuel { st with off := st.off + Gen.Incoming.bitmap_advance blen }
          { iters := r.iters + 1, bytes := r.bytes + bm.length, types := r.types + (bitmapTypesLib window bm).length }
    else {}

/-- the loop counters of one `DNSIncoming(data)` + `answers()` -/
structure Work where
  /-- iterations of the `for` loop of `_read_questions` entered -/
  questions : Nat := 0
  /-- iterations of the `for` loop of `_read_others` entered -/
  records : Nat := 0
  /-- calls of `_read_bitmap` -/
  bmCalls : Nat := 0
  /-- `while` iterations of `_read_bitmap` entered, over all calls -/
  bmIters : Nat := 0
  /-- bitmap bytes scanned, over all calls -/
  bmBytes : Nat := 0
  /-- rdtypes appended, over all calls -/
  bmTypes : Nat := 0
  deriving Repr, DecidableEq

def Work.add (a b : Work) : Work :=
  ⟨a.questions + b.questions, a.records + b.records, a.bmCalls + b.bmCalls, a.bmIters + b.bmIters,
   a.bmBytes + b.bmBytes, a.bmTypes + b.bmTypes⟩

/-- one `_read_bitmap` call -/
def Work.ofBm (w : BmWork) : Work := { bmCalls := 1, bmIters := w.iters, bmBytes := w.bytes, bmTypes := w.types }

/-- one more iteration of the record loop -/
def Work.rec1 (w : Work) : Work := { w with records := w.records + 1 }

/-- `_read_record` reaches its NSEC branch for type `t`: the six earlier tests of the `if` chain fail -/
def nsecBranch (t : Nat) : Bool :=
  !Gen.Incoming.is_a t && !Gen.Incoming.is_ptr t && !Gen.Incoming.is_txt t && !Gen.Incoming.is_srv t
    && !Gen.Incoming.is_hinfo t && !Gen.Incoming.is_aaaa t && Gen.Incoming.is_nsec t

/-- bitmap work of one `_read_record` call (only the NSEC branch has any, and only when the next-name was read) -/
def rdataWork (cfg : Cfg) (buf : Bytes) (t length : Nat) (st : St) : Work :=
  if nsecBranch t then
    match readName cfg buf st with
    | (_, .error _) => {}
    | (st1, .ok _) => Work.ofBm (readBitmapW buf (Gen.Incoming.nsec_end st.off length) (buf.length + 1) st1)
  else {}

/-- the loop of `_read_others`, following `readRecords` step by step -/
def recordsWork (cfg : Cfg) (buf : Bytes) : (n : Nat) → St → Work
  | 0, _ => {}
  | n+1, st =>
    match readName cfg buf st with
    | (_, .error _) => { records := 1 }
    | (st, .ok _) =>
      let o := st.off
      let st := { st with off := st.off + Gen.Incoming.r_len }
      match readFixed buf o with
      | .error _ => { records := 1 }
      | .ok (t, _, _, length) =>
        let end_ := Gen.Incoming.r_end st.off length
        let w := rdataWork cfg buf t length st
        match readRData cfg buf t length st with
        | (st, .error e) =>
          if caught e then (w.add (recordsWork cfg buf n { st with off := end_ })).rec1 else w.rec1
        | (st, .ok _) => (w.add (recordsWork cfg buf n st)).rec1

/-- the loop of `_read_questions`, following `readQuestions` -/
def questionsWork (cfg : Cfg) (buf : Bytes) : (n : Nat) → St → Nat
  | 0, _ => 0
  | n+1, st =>
    match readName cfg buf st with
    | (_, .error _) => 1
    | (st, .ok _) =>
      let o := st.off
      let st := { st with off := st.off + Gen.Incoming.q_len }
      match readQFixed buf o with
      | .error _ => 1
      | .ok _ => questionsWork cfg buf n st + 1

/-- `_read_others` with the header's counts -/
def othersWork (cfg : Cfg) (buf : Bytes) (h : Hdr) (st : St) : Work :=
  recordsWork cfg buf (Gen.Incoming.r_loop_count (Gen.Incoming.others_count h.nan h.nau h.nad)) st

/-- the loop counters of `DNSIncoming(data)` + `answers()`, following `parseWith` -/
def parseWorkWith (cfg : Cfg) (buf : Bytes) : Work :=
  let hr := readHeader buf {}
  match hr.2.2 with
  | some e => if caught e then othersWork cfg buf hr.2.1 hr.1 else {}
  | none =>
    let n := Gen.Incoming.q_loop_count hr.2.1.nq
    let qr := readQuestions cfg buf n hr.1
    let qw : Work := { questions := questionsWork cfg buf n hr.1 }
    match qr.2.2 with
    | some e => if caught e then qw.add (othersWork cfg buf hr.2.1 qr.1) else qw
    | none => qw.add (othersWork cfg buf hr.2.1 qr.1)

/-- the decoder of the working tree -/
def parseWork (buf : Bytes) : Work := parseWorkWith libCfg buf

def Work.toLine (w : Work) : String :=
  s!"{w.questions} {w.records} {w.bmCalls} {w.bmIters} {w.bmBytes} {w.bmTypes}"

/-! ### the budget predicates evaluated on the implementation's measurements (stage O) -/

/-- the fixed budget of the loops besides the name decoder, for a datagram of `len` bytes: a question takes at
least 5 bytes, a record at least 11, every bitmap call belongs to a record, the bitmap bytes scanned are disjoint
pieces of the datagram and every `while` iteration but the last consumes two more, a byte names at most 8 types -/
def workWithin (len : Nat) (w : Work) : Bool :=
  decide (5 * w.questions ≤ len + 5) && decide (11 * w.records ≤ len + 11) && decide (w.bmCalls ≤ w.records)
    && decide (w.bmBytes + 2 * w.bmIters ≤ len + 2) && decide (w.bmTypes ≤ 8 * w.bmBytes)

/-- **calibrated cost model**: source lines of the `zeroconf` package executed by `DNSIncoming(data)` +
`answers()` (line events of `sys.settrace`, plus one per call), as a linear form in the loop counters.  The
coefficients are four times the per-unit cost measured on the pinned tree (notes/agents/C02.md, "step budget"),
rounded up: an implementation that stays within the form does a bounded number of interpreter steps per loop
iteration; one that adds a loop over data proportional to the datagram inside an iteration does not. -/
def lineCost (names acts reads : Nat) (w : Work) : Nat :=
  400 + 120 * w.questions + 400 * w.records + 120 * names + 120 * acts + 80 * reads
    + 80 * w.bmCalls + 60 * w.bmIters + 80 * w.bmBytes + 12 * w.bmTypes

def linesWithin (steps names acts reads : Nat) (w : Work) : Bool := decide (steps ≤ lineCost names acts reads w)

end Zc.Wire.DecodeLib
