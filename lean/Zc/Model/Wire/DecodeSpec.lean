import Zc.Model.Wire.DecodeLib
import Zc.Model.Wire.Strict
/-! The decidable predicates in which the C02 theorems are stated (and which the driver evaluates on
the *implementation's* observations in stage O).  Numbers here are the ones of the English property
(253 characters, 8966 bytes) or explicit budgets; none comes from `Zc.Gen`. -/
namespace Zc.Wire.DecodeSpec
open Zc Zc.Wire Zc.Wire.DecodeLib

/-- every name that occurs in a piece of rdata -/
def rdataNames : WRData → List WName
  | .ptr t => [t]
  | .srv _ _ _ t => [t]
  | .nsec n _ => [n]
  | _ => []

/-- every name the caller can see on the object: question names, owner names, rdata names -/
def namesOf (p : Parsed) : List WName :=
  p.questions.map (·.name) ++ p.records.flatMap (fun r => r.name :: rdataNames r.rdata)

/-- every returned name is at most 253 characters long (presentation form, trailing dot included) -/
def namesShort (p : Parsed) : Bool := (namesOf p).all (fun n => decide (nameLen n ≤ 253))

/-- the fixed work budget for a datagram of `len` bytes: `_read_name` calls, activations of
`_decode_labels_at_offset`, label reads, nesting depth -/
def withinBudget (len names acts reads depth : Nat) : Bool :=
  decide (names ≤ 3 * len + 2) && decide (acts ≤ 129 * names) && decide (reads ≤ len * acts) && decide (depth ≤ 129)

def runWithinBudget (r : Run) (len : Nat) : Bool :=
  withinBudget len r.st.names r.st.acts r.st.reads r.st.maxDepth

/-- `DNSNsec.__init__` keeps `sorted(rdtypes)` -/
def canonRData : WRData → WRData
  | .nsec n ts => .nsec n (sortTypes ts)
  | r => r

def canonRec (r : WRecord) : WRecord := { r with rdata := canonRData r.rdata }

/-- the records of a strictly decoded message as `answers()` presents them -/
def flat (m : WMsg) : List WRecord := (m.answers ++ m.authorities ++ m.additionals).map canonRec

/-- the object is valid and carries exactly the strict parser's header, questions and records -/
def agrees (p : Parsed) (m : WMsg) : Bool :=
  p.valid && decide (p.hdr.id = m.id) && decide (p.hdr.flags = m.flags)
    && decide (p.hdr.nq = m.questions.length) && decide (p.hdr.nan = m.answers.length)
    && decide (p.hdr.nau = m.authorities.length) && decide (p.hdr.nad = m.additionals.length)
    && decide (p.questions = m.questions) && decide (p.records = flat m)

/-- the record's type is one the library decodes (anything the strict parser keeps opaque is skipped by `_read_record`) -/
def supportedRec (r : WRecord) : Bool := match r.rdata with | .other _ => false | _ => true

/-- the records `answers()` is expected to show for a strictly decoded message that may also carry records of
unsupported types: those are skipped, the others come in packet order -/
def flatSupported (m : WMsg) : List WRecord := ((m.answers ++ m.authorities ++ m.additionals).filter supportedRec).map canonRec

/-- `agrees` for messages that may carry unsupported records: valid, the strict parser's header and questions, and the
strict parser's records of supported types -/
def agreesSupported (p : Parsed) (m : WMsg) : Bool :=
  p.valid && decide (p.hdr.id = m.id) && decide (p.hdr.flags = m.flags)
    && decide (p.hdr.nq = m.questions.length) && decide (p.hdr.nan = m.answers.length)
    && decide (p.hdr.nau = m.authorities.length) && decide (p.hdr.nad = m.additionals.length)
    && decide (p.questions = m.questions) && decide (p.records = flatSupported m)

def msgNames (m : WMsg) : List WName :=
  m.questions.map (·.name) ++ (m.answers ++ m.authorities ++ m.additionals).flatMap (fun r => r.name :: rdataNames r.rdata)

/-- every label's decoded text can be written back into a label (≤ 63 bytes of UTF-8); always true
of labels that are valid UTF-8.  Labels failing this are the ones the D8 repair rejects. -/
def reencodable (m : WMsg) : Bool :=
  (msgNames m).all (fun n => n.all (fun l => decide (Utf8.reencodedLen l ≤ 63)))

end Zc.Wire.DecodeSpec
