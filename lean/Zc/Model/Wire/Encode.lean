import Zc.Model.Wire.Types
import Zc.Gen.Const
import Zc.Gen.Dns
import Zc.Gen.Outgoing
/-! Model of `_protocol/outgoing.py` (`DNSOutgoing.packets()` and everything below it) and of the
record `write` methods of `_dns.py`.  See notes/model-spec.md §1.

The per-packet state is `(body, names, allowLong)`; `size = 12 + body.length` (the header is
inserted last, its length is fixed).  Name-table keys are label lists: the library's keys are the
text of a suffix, which is in bijection with the label list because labels come from `split('.')`.
Offsets in the table are absolute (header included), as in the library. -/
namespace Zc.Wire.Encode
open Zc Zc.Wire Zc.Gen

/-- rdata as handed to the encoder, one constructor per record class -/
inductive ERData where
  | addr (a : Bytes)
  | ptr (target : WName)
  | txt (text : Bytes)
  | srv (priority weight port : Nat) (target : WName)
  | hinfo (cpu os : Bytes)
  | nsec (next : WName) (types : List Nat)
  deriving DecidableEq, Repr, Inhabited

structure EQuestion where
  name : WName
  qtype : Nat
  /-- 15-bit class -/
  qclass : Nat
  unique : Bool
  deriving DecidableEq, Repr, Inhabited

structure ERecord where
  name : WName
  rtype : Nat
  rclass : Nat
  unique : Bool
  ttl : Nat
  created : Ms
  rdata : ERData
  deriving DecidableEq, Repr, Inhabited

structure Msg where
  flags : Nat
  id : Nat
  multicast : Bool
  questions : List EQuestion
  /-- `(record, now)` as stored by `add_answer_at_time` -/
  answers : List (ERecord × Ms)
  authorities : List ERecord
  additionals : List ERecord
  deriving Repr, Inhabited

/-- the names table of one packet: suffix ↦ absolute offset of its first length byte -/
abbrev Names := List (WName × Nat)

/-- `self.names.get(name, 0)`: a stored 0 is indistinguishable from absence -/
def lookupName (names : Names) (n : WName) : Option Nat :=
  match names.find? (fun p => p.1 = n) with
  | some p => if p.2 = 0 then none else some p.2
  | none => none

/-! The writers below are functions of the current absolute `size` and the names table, returning the
bytes they append (the library appends chunks to `self.data` and bumps `self.size`); nothing they do
depends on the bytes already written. -/

/-- `_write_byte`: `BYTE_TABLE[value]` -/
def byteOf (v : Nat) : Except PyExc Bytes :=
  if v < 256 then .ok [v.toUInt8] else .error .indexError

/-- `write_short` -/
def shortOf (v : Nat) : Except PyExc Bytes :=
  if v < 65536 then .ok (be16 v) else .error .structError

/-- `_write_int` -/
def intOf (v : Nat) : Except PyExc Bytes :=
  if v < 4294967296 then .ok (be32 v) else .error .structError

/-- `_write_utf` on an already UTF-8-encoded label -/
def utfOf (l : Label) : Except PyExc Bytes :=
  if Gen.Outgoing.label_too_long l.length then .error .namePartTooLong
  else do
    let b ← byteOf l.length
    pure (b ++ l)

/-- `write_character_string` -/
def charStringOf (s : Bytes) : Except PyExc Bytes :=
  if Gen.Outgoing.charstring_too_long s.length then .error .namePartTooLong
  else do
    let b ← byteOf s.length
    pure (b ++ s)

/-- `_write_link_to_name` -/
def linkOf (idx : Nat) : Except PyExc Bytes := do
  let a ← byteOf (Gen.Outgoing.link_hi idx)
  let b ← byteOf (Gen.Outgoing.link_lo idx)
  pure (a ++ b)

/-- `write_name`, on the label list `name.rstrip-one-dot.split('.')`.  Each suffix is looked up;
the first one found is replaced by a pointer, the others are registered at the offset of their
length byte and written out. -/
def writeName (size : Nat) (names : Names) : WName → Except PyExc (Bytes × Names)
  | [] => do let b ← byteOf 0; pure (b, names)
  | l :: rest =>
    match lookupName names (l :: rest) with
    | some idx => do let b ← linkOf idx; pure (b, names)
    | none => do
      let lb ← utfOf l
      let (rb, names') ← writeName (size + lb.length) ((l :: rest, size) :: names) rest
      pure (lb ++ rb, names')

/-- `_write_record_class` -/
def classField (class_ : Nat) (unique multicast : Bool) : Nat :=
  if Gen.Outgoing.class_has_unique_bit unique multicast then Gen.Outgoing.class_with_unique class_ else class_

/-- a question: name, type, class -/
def encQuestion (multicast : Bool) (size : Nat) (names : Names) (q : EQuestion) : Except PyExc (Bytes × Names) := do
  let (nb, names') ← writeName size names q.name
  let t ← shortOf q.qtype
  let c ← shortOf (classField q.qclass q.unique multicast)
  pure (nb ++ t ++ c, names')

/-- one iteration of the loop in `DNSNsec.write`: `(bitmap, total_octets)` -/
def nsecStep (acc : Except PyExc (List Nat × Nat)) (t : Nat) : Except PyExc (List Nat × Nat) := do
  let (bm, _) ← acc
  if Gen.Outgoing.nsec_type_too_large t then .error .valueError
  else
    let byte := Gen.Outgoing.nsec_byte t
    pure (bm.set byte (bm.getD byte 0 ||| Gen.Outgoing.nsec_mask t), Gen.Outgoing.nsec_total_octets byte)

/-- NSEC bitmap of `DNSNsec.write`: 32 bytes, one bit per rdtype, cut after the last type's byte -/
def nsecBitmap (types : List Nat) : Except PyExc Bytes :=
  match types.foldl nsecStep (.ok (List.replicate 32 0, 0)) with
  | .error e => .error e
  | .ok (bm, total) =>
    if total = 0 then .error .valueError
    else .ok ((bm.take total).map Nat.toUInt8)

/-- `record.write(out)` at absolute offset `size` -/
def encRData (size : Nat) (names : Names) : ERData → Except PyExc (Bytes × Names)
  | .addr a => pure (a, names)
  | .ptr t => writeName size names t
  | .txt t => pure (t, names)
  | .srv p w q t => do
    let pb ← shortOf p
    let wb ← shortOf w
    let qb ← shortOf q
    let (nb, names') ← writeName (size + 6) names t
    pure (pb ++ wb ++ qb ++ nb, names')
  | .hinfo c o => do
    let cb ← charStringOf c
    let ob ← charStringOf o
    pure (cb ++ ob, names)
  | .nsec n ts => do
    let bm ← nsecBitmap ts
    let (nb, names') ← writeName size names n
    let z ← byteOf 0
    let lb ← byteOf bm.length
    pure (nb ++ z ++ lb ++ bm, names')

/-- the TTL field: `record.ttl if now == 0 else record.get_remaining_ttl(now)`, then `int()` -/
def ttlField (r : ERecord) (now : Ms) : Int :=
  Gen.Outgoing.ttl_field r.ttl now (Gen.Dns.get_remaining_ttl r.created r.ttl now)

/-- `_write_record` minus the limit check: name, type, class, ttl, rdlength, rdata.  The library
writes a two-byte placeholder and patches it with the number of bytes written after it. -/
def encRecord (multicast : Bool) (size : Nat) (names : Names) (r : ERecord) (now : Ms) : Except PyExc (Bytes × Names) := do
  let (nb, names1) ← writeName size names r.name
  let t ← shortOf r.rtype
  let c ← shortOf (classField r.rclass r.unique multicast)
  let ttl := ttlField r now
  let tb ← (if ttl < 0 then .error .structError else intOf ttl.toNat)
  let (rd, names2) ← encRData (size + nb.length + 10) names1 r.rdata
  let lb ← shortOf rd.length
  pure (nb ++ t ++ c ++ tb ++ lb ++ rd, names2)

/-- per-packet state (`data`, `names`, `allow_long`); `size = 12 + len(data)` -/
structure St where
  body : Bytes
  names : Names
  allowLong : Bool
  deriving Repr, Inhabited

def St.size (st : St) : Nat := Gen.dnsPacketHeaderLen + st.body.length
def St.fresh : St := ⟨[], [], true⟩

/-- `_check_data_limit_or_rollback` applied to the bytes an entry wants to append -/
def commit (st : St) (bytes : Bytes) (names' : Names) : St × Bool :=
  let limit := Gen.Outgoing.len_limit st.allowLong
  if Gen.Outgoing.fits (st.size + bytes.length) limit then
    ({ body := st.body ++ bytes, names := names', allowLong := false }, true)
  else
    ({ body := st.body, names := names'.filter (fun p => !Gen.Outgoing.rollback_drops p.2 st.size), allowLong := false }, false)

/-- `_write_question` -/
def writeQuestion (multicast : Bool) (st : St) (q : EQuestion) : Except PyExc (St × Bool) := do
  let (b, names') ← encQuestion multicast st.size st.names q
  pure (commit st b names')

/-- `_write_record` -/
def writeRecord (multicast : Bool) (st : St) (r : ERecord) (now : Ms) : Except PyExc (St × Bool) := do
  let (b, names') ← encRecord multicast st.size st.names r now
  pure (commit st b names')

/-- `_write_questions_from_offset`: stop at the first entry that does not fit -/
def writeQuestions (multicast : Bool) : St → List EQuestion → Except PyExc (St × Nat)
  | st, [] => pure (st, 0)
  | st, q :: rest => do
    let (st1, ok) ← writeQuestion multicast st q
    if ok then
      let (st2, n) ← writeQuestions multicast st1 rest
      pure (st2, n + 1)
    else pure (st1, 0)

/-- `_write_answers_from_offset` -/
def writeAnswers (multicast : Bool) : St → List (ERecord × Ms) → Except PyExc (St × Nat)
  | st, [] => pure (st, 0)
  | st, (r, now) :: rest => do
    let (st1, ok) ← writeRecord multicast st r now
    if ok then
      let (st2, n) ← writeAnswers multicast st1 rest
      pure (st2, n + 1)
    else pure (st1, 0)

/-- `_write_records_from_offset` (authorities, additionals: `now = 0`) -/
def writeRecords (multicast : Bool) (st : St) (rs : List ERecord) : Except PyExc (St × Nat) :=
  writeAnswers multicast st (rs.map (fun r => (r, 0)))

structure Offsets where
  q : Nat
  an : Nat
  au : Nat
  ad : Nat
  deriving Repr, DecidableEq

/-- the id field: 0 for multicast messages -/
def hdrId (m : Msg) : Nat := if m.multicast then 0 else m.id

/-- the flags field: TC is or-ed in when more follows and the message is a query -/
def hdrFlags (m : Msg) (more : Bool) : Nat :=
  if Gen.Outgoing.set_tc more (Gen.Outgoing.is_query m.flags) then Gen.Outgoing.flags_with_tc m.flags else m.flags

/-- one iteration of the `while has_more_to_add` loop: the packet, the new offsets, whether
progress was made and whether more remains -/
def onePacket (m : Msg) (o : Offsets) : Except PyExc (Bytes × Offsets × Bool × Bool) := do
  let (s1, qw) ← writeQuestions m.multicast St.fresh (m.questions.drop o.q)
  let (s2, aw) ← writeAnswers m.multicast s1 (m.answers.drop o.an)
  let (s3, auw) ← writeRecords m.multicast s2 (m.authorities.drop o.au)
  let (s4, adw) ← writeRecords m.multicast s3 (m.additionals.drop o.ad)
  let madeProgress := !s4.body.isEmpty
  let o' : Offsets := ⟨o.q + qw, o.an + aw, o.au + auw, o.ad + adw⟩
  let more := Gen.Outgoing.has_more_to_add o'.q o'.an o'.au o'.ad m.questions.length m.answers.length m.authorities.length m.additionals.length
  if hdrId m < 65536 ∧ hdrFlags m more < 65536 then
    pure (be16 (hdrId m) ++ be16 (hdrFlags m more) ++ be16 qw ++ be16 aw ++ be16 auw ++ be16 adw ++ s4.body, o', madeProgress, more)
  else .error .structError

/-- the `while has_more_to_add` loop, with explicit fuel (total number of entries + 1 suffices) -/
def packetsLoop (m : Msg) : Nat → Offsets → Except PyExc (List Bytes)
  | 0, _ => pure []
  | fuel + 1, o => do
    let (pkt, o', progress, more) ← onePacket m o
    if !progress then pure [pkt]
    else if more then do
      let rest ← packetsLoop m fuel o'
      pure (pkt :: rest)
    else pure [pkt]

/-- `DNSOutgoing.packets()` -/
def packets (m : Msg) : Except PyExc (List Bytes) :=
  packetsLoop m (m.questions.length + m.answers.length + m.authorities.length + m.additionals.length + 1) ⟨0, 0, 0, 0⟩

/-- `add_answer_at_time` -/
def addAnswerAtTime (answers : List (ERecord × Ms)) (r : ERecord) (now : Ms) : List (ERecord × Ms) :=
  if Gen.Outgoing.answer_accepted true now (Gen.Dns.is_expired r.created r.ttl now) then answers ++ [(r, now)] else answers

/-! ### what the message looks like on the wire (the specification side of the round trip) -/

def ERData.onWire : ERData → WRData
  | .addr a => .addr a
  | .ptr t => .ptr t
  | .txt t => .txt t
  | .srv p w q t => .srv p w q t
  | .hinfo c o => .hinfo c o
  | .nsec n ts => .nsec n ts

/-- class field: the top bit iff the entry is unique/QU **and** the message is multicast -/
def wireClass (class_ : Nat) (unique multicast : Bool) : Nat :=
  if unique && multicast then class_ + 32768 else class_

def EQuestion.onWire (multicast : Bool) (q : EQuestion) : WQuestion := ⟨q.name, q.qtype, wireClass q.qclass q.unique multicast⟩

/-- TTL as transmitted: the record's TTL, or what remains of it at `now` (whole seconds) -/
def wireTtl (r : ERecord) (now : Ms) : Nat :=
  if now = 0 then r.ttl else if r.created + 1000 * r.ttl - now < 0 then 0 else ((r.created + 1000 * r.ttl - now) / 1000).toNat

def ERecord.onWire (multicast : Bool) (r : ERecord) (now : Ms) : WRecord :=
  ⟨r.name, r.rtype, wireClass r.rclass r.unique multicast, wireTtl r now, r.rdata.onWire⟩

/-! ### line protocol

The parsers take the parser of a name token as a parameter: `Tok.name` reads a label list (`61.62`), the text layer's
`NameText.Tok.nameT` also reads a `str` (`=<hex of its UTF-8>`) and does `write_name`'s strip/split/encode itself. -/
def ERData.parseN (nm : Tok WName) : Tok ERData := do
  let k ← Tok.next
  match k with
  | "a" => do let a ← Tok.bytes; pure (.addr a)
  | "p" => do let t ← nm; pure (.ptr t)
  | "t" => do let t ← Tok.bytes; pure (.txt t)
  | "s" => do let p ← Tok.nat; let w ← Tok.nat; let q ← Tok.nat; let t ← nm; pure (.srv p w q t)
  | "h" => do let c ← Tok.bytes; let o ← Tok.bytes; pure (.hinfo c o)
  | "n" => do let n ← nm; let ts ← Tok.natList; pure (.nsec n ts)
  | _ => failure

def ERData.parse : Tok ERData := ERData.parseN Tok.name

def EQuestion.parseN (nm : Tok WName) : Tok EQuestion := do
  let n ← nm; let t ← Tok.nat; let c ← Tok.nat; let u ← Tok.bool
  pure ⟨n, t, c, u⟩

def EQuestion.parse : Tok EQuestion := EQuestion.parseN Tok.name

/-- `name type class unique ttl created <rdata>` -/
def ERecord.parseN (nm : Tok WName) : Tok ERecord := do
  let n ← nm; let t ← Tok.nat; let c ← Tok.nat; let u ← Tok.bool; let ttl ← Tok.nat; let cr ← Tok.int
  let rd ← ERData.parseN nm
  pure ⟨n, t, c, u, ttl, cr, rd⟩

def ERecord.parse : Tok ERecord := ERecord.parseN Tok.name

/-- `flags id multicast nq q.. na (rec now).. nau rec.. nad rec..` -/
def Msg.parseN (nm : Tok WName) : Tok Msg := do
  let flags ← Tok.nat; let id ← Tok.nat; let mc ← Tok.bool
  let qs ← Tok.list (EQuestion.parseN nm)
  let an ← Tok.list (do let r ← ERecord.parseN nm; let now ← Tok.int; pure (r, now))
  let au ← Tok.list (ERecord.parseN nm)
  let ad ← Tok.list (ERecord.parseN nm)
  pure ⟨flags, id, mc, qs, an, au, ad⟩

def Msg.parse : Tok Msg := Msg.parseN Tok.name

end Zc.Wire.Encode
