import Zc.Model.Basic
import Zc.Model.Utf8
/-! Wire-level message types shared by the encoder model (`Wire.Encode`), the independent
strict RFC 1035 decoder (`Wire.Strict`) and the model of the library's decoder (`Wire.DecodeLib`).

Names on the wire are lists of labels (bytes).  The text layer (`split('.')`, UTF-8) is glue that
the correspondence harness validates: a text name `a.b.c.` is the label list `[a, b, c]`. -/
namespace Zc.Wire

abbrev Label := Bytes
abbrev WName := List Label

/-- rdata as found on the wire, one constructor per record class the library supports -/
inductive WRData where
  | addr (a : Bytes)                                   -- A (4 bytes) / AAAA (16 bytes)
  | ptr (target : WName)                               -- PTR / CNAME
  | txt (text : Bytes)
  | srv (priority weight port : Nat) (target : WName)
  | hinfo (cpu os : Bytes)
  | nsec (next : WName) (types : List Nat)
  | other (raw : Bytes)                                -- unsupported type: opaque
  deriving DecidableEq, Repr, Inhabited

structure WQuestion where
  name : WName
  qtype : Nat
  /-- the 16-bit class field as transmitted (QU bit included) -/
  qclass : Nat
  deriving DecidableEq, Repr, Inhabited

structure WRecord where
  name : WName
  rtype : Nat
  /-- the 16-bit class field as transmitted (cache-flush bit included) -/
  rclass : Nat
  ttl : Nat
  rdata : WRData
  deriving DecidableEq, Repr, Inhabited

structure WMsg where
  id : Nat
  flags : Nat
  questions : List WQuestion
  answers : List WRecord
  authorities : List WRecord
  additionals : List WRecord
  deriving DecidableEq, Repr, Inhabited

/-- octets a name occupies on the wire when written without compression: per label a length byte and the
label's bytes, then the root byte.  RFC 1035 §2.3.4/§3.1: at most 255. -/
def wireLen (n : WName) : Nat := (n.map (fun l => l.length + 1)).sum + 1

/-- length of the presentation form `'.'.join(labels) + '.'` in characters -/
def nameLen (n : WName) : Nat :=
  if n.isEmpty then 1 else (n.map (fun l => Utf8.charCount l + 1)).sum

/-! ### big-endian integers -/
def be16 (n : Nat) : Bytes := [(n / 256).toUInt8, (n % 256).toUInt8]
def be32 (n : Nat) : Bytes := [(n / 16777216).toUInt8, (n / 65536 % 256).toUInt8, (n / 256 % 256).toUInt8, (n % 256).toUInt8]

def u8At (buf : Bytes) (off : Nat) : Option Nat := (buf[off]?).map (·.toNat)
def u16At (buf : Bytes) (off : Nat) : Option Nat := do
  let a ← u8At buf off; let b ← u8At buf (off + 1); pure (a * 256 + b)
def u32At (buf : Bytes) (off : Nat) : Option Nat := do
  let a ← u16At buf off; let b ← u16At buf (off + 2); pure (a * 65536 + b)
/-- exactly `len` bytes at `off`, or none if the buffer is too short -/
def bytesAt (buf : Bytes) (off len : Nat) : Option Bytes :=
  if off + len ≤ buf.length then some ((buf.drop off).take len) else none

/-- rdtypes named by one NSEC bitmap window, in increasing order -/
def bitmapTypes (window : Nat) (bm : Bytes) : List Nat :=
  (List.range bm.length).flatMap (fun i =>
    (List.range 8).filterMap (fun bit =>
      if (bm.getD i 0).toNat / (2 ^ (7 - bit)) % 2 = 1 then some (bit + window * 256 + i * 8) else none))

/-! ### line serialisation (driver protocol) -/
def nameToLine (n : WName) : String :=
  if n.isEmpty then "." else ".".intercalate (n.map hexOfBytes)

def parseName (t : String) : Option WName :=
  if t = "." then some [] else (t.splitOn ".").mapM bytesOfHex

def Tok.name : Tok WName := do let t ← Tok.next; match parseName t with | some n => pure n | none => failure

def WRData.toLine : WRData → String
  | .addr a => s!"a {hexOfBytes a}"
  | .ptr t => s!"p {nameToLine t}"
  | .txt t => s!"t {hexOfBytes t}"
  | .srv p w q t => s!"s {p} {w} {q} {nameToLine t}"
  | .hinfo c o => s!"h {hexOfBytes c} {hexOfBytes o}"
  | .nsec n ts => s!"n {nameToLine n} {natListStr ts}"
  | .other r => s!"o {hexOfBytes r}"

def WRData.parse : Tok WRData := do
  let k ← Tok.next
  match k with
  | "a" => do let a ← Tok.bytes; pure (.addr a)
  | "p" => do let t ← Tok.name; pure (.ptr t)
  | "t" => do let t ← Tok.bytes; pure (.txt t)
  | "s" => do let p ← Tok.nat; let w ← Tok.nat; let q ← Tok.nat; let t ← Tok.name; pure (.srv p w q t)
  | "h" => do let c ← Tok.bytes; let o ← Tok.bytes; pure (.hinfo c o)
  | "n" => do let n ← Tok.name; let ts ← Tok.natList; pure (.nsec n ts)
  | "o" => do let r ← Tok.bytes; pure (.other r)
  | _ => failure

def WQuestion.toLine (q : WQuestion) : String := s!"{nameToLine q.name} {q.qtype} {q.qclass}"
def WRecord.toLine (r : WRecord) : String := s!"{nameToLine r.name} {r.rtype} {r.rclass} {r.ttl} {r.rdata.toLine}"

def WMsg.toLine (m : WMsg) : String :=
  let sec (l : List WRecord) := s!"{l.length}" ++ String.join (l.map (fun r => " " ++ r.toLine))
  s!"{m.id} {m.flags} {m.questions.length}" ++ String.join (m.questions.map (fun q => " " ++ q.toLine))
    ++ " " ++ sec m.answers ++ " " ++ sec m.authorities ++ " " ++ sec m.additionals

end Zc.Wire
