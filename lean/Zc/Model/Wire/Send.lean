import Zc.Model.Wire.Types
import Zc.Gen.Send
/-! Model of the loop in `Zeroconf.async_send` (`_core.py`): the datagrams of `out.packets()` are handed to the
transports one after the other; the first one the size guard refuses is dropped **together with everything behind it**
(`return`, with a warning logged once). -/
namespace Zc.Wire.Send
open Zc Zc.Wire

/-- the datagrams that leave, given the builder's datagrams -/
def asyncSend : List Bytes → List Bytes
  | [] => []
  | p :: rest => if Gen.Send.send_drops p.length then [] else p :: asyncSend rest

/-- the same on the datagram lengths alone (driver command `sendlens`): how many datagrams leave -/
def sentCount : List Nat → Nat
  | [] => 0
  | n :: rest => if Gen.Send.send_drops n then 0 else sentCount rest + 1

end Zc.Wire.Send
