import Zc.Model.Wire.Types
/-! An **independent strict RFC 1035 decoder**, written as a specification (DESIGN §7 C01/C02).

* header counts must match the entries present, no trailing bytes;
* labels are 1..63 bytes; compression pointers only point **backwards**, to an offset
  before the start of the name segment being decoded and not into the 12-byte header;
  at most 128 pointer hops per name;
* a name is at most 253 characters in presentation form (the library's documented limit);
* `rdlength` equals the rdata consumed, per type; unknown types are kept opaque (`.other`).

Nothing here follows the library's control flow: `scan` walks the literal labels of one name
segment, `decFrom` chases the pointers with explicit fuel. -/
namespace Zc.Wire.Strict
open Zc.Wire

inductive Scan where
  | fin (labels : WName) (e : Nat)
  | ptr (labels : WName) (link : Nat) (e : Nat)
  | bad
  deriving Repr, DecidableEq

/-- scan the literal labels of one segment; `l` is `buf.drop off`; `e` is the offset just past
the terminator / pointer -/
def scan : (l : Bytes) → (off : Nat) → (fuel : Nat) → Scan
  | _, _, 0 => .bad
  | [], _, _ => .bad
  | b :: rest, off, fuel+1 =>
    let n := b.toNat
    if n = 0 then .fin [] (off+1)
    else if n < 64 then
      if rest.length < n then .bad
      else match scan (rest.drop n) (off+1+n) fuel with
        | .fin ls e => .fin (rest.take n :: ls) e
        | .ptr ls k e => .ptr (rest.take n :: ls) k e
        | .bad => .bad
    else if n < 192 then .bad
    else match rest with
      | [] => .bad
      | b2 :: _ => .ptr [] ((n - 192) * 256 + b2.toNat) (off+2)

/-- decode from `off` inside a name segment that started at `S`; a pointer must target `k` with
`12 ≤ k < S`.  `fuel` bounds the number of segments (pointer hops + 1). -/
def decFrom (buf : Bytes) : (fuel : Nat) → (S : Nat) → (off : Nat) → Option (WName × Nat)
  | 0, _, _ => none
  | fuel+1, S, off =>
    match scan (buf.drop off) off (buf.length + 1) with
    | .fin ls e => some (ls, e)
    | .ptr ls k e =>
      if 12 ≤ k ∧ k < S then
        match decFrom buf fuel k k with
        | some (rest, _) => some (ls ++ rest, e)
        | none => none
      else none
    | .bad => none

/-- at most 128 pointer hops -/
def maxSegments : Nat := 129

/-- a complete name at `off`: labels, end offset -/
def decName (buf : Bytes) (off : Nat) : Option (WName × Nat) :=
  match decFrom buf maxSegments off off with
  | some (n, e) => if nameLen n ≤ 253 ∧ wireLen n ≤ 255 then some (n, e) else none
  | none => none

def charString (buf : Bytes) (off : Nat) : Option (Bytes × Nat) := do
  let n ← u8At buf off
  let s ← bytesAt buf (off + 1) n
  pure (s, off + 1 + n)

/-- NSEC type bitmap windows filling `[off, end_)` exactly -/
def windows (buf : Bytes) : (fuel : Nat) → (off end_ : Nat) → Option (List Nat)
  | 0, _, _ => none
  | fuel+1, off, end_ =>
    if off = end_ then some []
    else do
      let w ← u8At buf off
      let len ← u8At buf (off + 1)
      if 1 ≤ len ∧ len ≤ 32 ∧ off + 2 + len ≤ end_ then
        let bm ← bytesAt buf (off + 2) len
        let rest ← windows buf fuel (off + 2 + len) end_
        pure (bitmapTypes w bm ++ rest)
      else none

/-- rdata of `rdlen` bytes at `off`, consumed exactly -/
def decRData (buf : Bytes) (rtype off rdlen : Nat) : Option WRData :=
  let end_ := off + rdlen
  if rtype = 1 then (if rdlen = 4 then (bytesAt buf off 4).map .addr else none)
  else if rtype = 28 then (if rdlen = 16 then (bytesAt buf off 16).map .addr else none)
  else if rtype = 12 ∨ rtype = 5 then
    match decName buf off with
    | some (n, e) => if e = end_ then some (.ptr n) else none
    | none => none
  else if rtype = 16 then (bytesAt buf off rdlen).map .txt
  else if rtype = 33 then do
    let p ← u16At buf off
    let w ← u16At buf (off + 2)
    let q ← u16At buf (off + 4)
    match decName buf (off + 6) with
    | some (n, e) => if e = end_ then some (.srv p w q n) else none
    | none => none
  else if rtype = 13 then do
    let (c, o1) ← charString buf off
    let (o, o2) ← charString buf o1
    if o2 = end_ then some (.hinfo c o) else none
  else if rtype = 47 then
    match decName buf off with
    | some (n, e) =>
      if e ≤ end_ then (windows buf (rdlen + 1) e end_).map (.nsec n) else none
    | none => none
  else (bytesAt buf off rdlen).map .other

def decQuestion (buf : Bytes) (off : Nat) : Option (WQuestion × Nat) := do
  let (n, e) ← decName buf off
  let t ← u16At buf e
  let c ← u16At buf (e + 2)
  pure (⟨n, t, c⟩, e + 4)

def decRecord (buf : Bytes) (off : Nat) : Option (WRecord × Nat) := do
  let (n, e) ← decName buf off
  let t ← u16At buf e
  let c ← u16At buf (e + 2)
  let ttl ← u32At buf (e + 4)
  let rdlen ← u16At buf (e + 8)
  if e + 10 + rdlen ≤ buf.length then
    let rd ← decRData buf t (e + 10) rdlen
    pure (⟨n, t, c, ttl, rd⟩, e + 10 + rdlen)
  else none

def decMany {α} (p : Nat → Option (α × Nat)) : Nat → Nat → Option (List α × Nat)
  | 0, off => some ([], off)
  | n+1, off => do
    let (a, o1) ← p off
    let (rest, o2) ← decMany p n o1
    pure (a :: rest, o2)

/-- the whole datagram -/
def decode (pkt : Bytes) : Option WMsg := do
  let id ← u16At pkt 0
  let flags ← u16At pkt 2
  let nq ← u16At pkt 4
  let nan ← u16At pkt 6
  let nau ← u16At pkt 8
  let nad ← u16At pkt 10
  let (qs, o1) ← decMany (decQuestion pkt) nq 12
  let (an, o2) ← decMany (decRecord pkt) nan o1
  let (au, o3) ← decMany (decRecord pkt) nau o2
  let (ad, o4) ← decMany (decRecord pkt) nad o3
  if o4 = pkt.length then some ⟨id, flags, qs, an, au, ad⟩ else none

/-- the message uses only record types the library supports -/
def supportedOnly (m : WMsg) : Bool :=
  (m.answers ++ m.authorities ++ m.additionals).all (fun r => match r.rdata with | .other _ => false | _ => true)

end Zc.Wire.Strict
