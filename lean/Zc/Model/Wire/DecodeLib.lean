import Zc.Gen.Const
import Zc.Gen.Incoming
import Zc.Gen.Dns
import Zc.Model.Wire.Types
/-! Model of `_protocol/incoming.py`: `DNSIncoming.__init__` followed by `answers()` (DESIGN §7 C02,
notes/model-spec.md §2).  **Result-exact**: the `valid` flag, the header fields, the questions, the
records returned by `answers()`, the class of an exception that escapes and where it escapes, plus
three work measures (activations of `_decode_labels_at_offset`, label reads, deepest recursion).

Every numeric test and constant comes from the translated leaves `Zc.Gen.Incoming`.  The two
decoder-level repairs (D2 hop bound, D8 label re-encoding test) are *optional* leaves: on a tree
without them they translate to `false`, so this model follows the source in both states.

Conventions: `self.offset` is `St.off`; `_name_cache` is an association list (latest binding first);
a function that can raise returns `St × Except PyExc α` (the state survives the exception, as the
object's attributes do); Python's recursion limit is the depth budget `Cfg.recLimit`.  Names are
label lists (bytes); the text layer (`decode('utf-8','replace')`, `'.'.join`) only enters through
`Utf8.charCount` / `Utf8.reencodedLen` / `Utf8.isAscii` in the length tests. -/
namespace Zc.Wire.DecodeLib
open Zc Zc.Wire
open Zc.Gen (dnsCompressionHeaderLen dnsCompressionPointerLen decodeExceptions)

/-- the parts of the decoder that differ between the unrepaired and the repaired tree -/
structure Cfg where
  /-- `len(seen_pointers) >= MAX_DNS_LABELS` (D2 repair; constantly `false` when absent) -/
  hopLimit : Nat → Bool
  /-- `not label.isascii() and len(label.encode('utf-8')) > MAX_LABEL_LENGTH` (D8 repair) -/
  labelBad : Bool → Nat → Bool
  /-- nested activations of `_decode_labels_at_offset` the interpreter allows (DESIGN §4.6) -/
  recLimit : Nat

/-- the decoder as the working tree has it -/
def libCfg : Cfg := ⟨Gen.Incoming.hop_limit_reached, Gen.Incoming.label_unencodable, 900⟩

/-- mutable state of the `DNSIncoming` object during parsing, and the work counters -/
structure St where
  /-- `self.offset` -/
  off : Nat := 0
  /-- `self._name_cache` -/
  cache : List (Nat × WName) := []
  /-- calls of `_read_name` -/
  names : Nat := 0
  /-- activations of `_decode_labels_at_offset` -/
  acts : Nat := 0
  /-- labels sliced out of the packet -/
  reads : Nat := 0
  /-- deepest nesting of `_decode_labels_at_offset` -/
  maxDepth : Nat := 0
  deriving Repr, DecidableEq

/-- `view[i]` -/
def byteAt (buf : Bytes) (i : Nat) : Except PyExc Nat :=
  match buf[i]? with
  | some b => .ok b.toNat
  | none => .error .indexError

/-- `data[a:b]` for `0 ≤ a`: never raises, silently short at the end of the packet -/
def slice (buf : Bytes) (a b : Nat) : Bytes := (buf.drop a).take (b - a)

/-- `except DECODE_EXCEPTIONS` catches `e` -/
def caught (e : PyExc) : Bool := decodeExceptions.contains e.name

/-! ### names -/

/-- what the `while` loop of one activation found -/
inductive Lit where
  /-- the terminating zero byte; `e` is the return value `off + 1` -/
  | fin (ls : WName) (e : Nat)
  /-- a pointer byte `b0 ≥ 0xC0` at `off`, after the literal labels `ls` -/
  | ptr (ls : WName) (off : Nat) (b0 : Nat)
  | err (e : PyExc)
  deriving Repr, DecidableEq

/-- `labels.append(label)` in front of what the rest of the loop finds; one more label read -/
def Lit.cons (label : Label) : Lit × Nat → Lit × Nat
  | (.fin ls e, r) => (.fin (label :: ls) e, r + 1)
  | (.ptr ls o b, r) => (.ptr (label :: ls) o b, r + 1)
  | (.err e, r) => (.err e, r + 1)

/-- the literal-label loop of `_decode_labels_at_offset` (`incoming.py:397-411,442`); second
component: number of labels sliced.  `fuel` only makes the recursion structural. -/
def lit (cfg : Cfg) (buf : Bytes) : (fuel : Nat) → (off : Nat) → Lit × Nat
  | 0, _ => (.err .other, 0)
  | fuel+1, off =>
    if Gen.Incoming.in_packet off buf.length then
      match byteAt buf off with
      | .error e => (.err e, 0)
      | .ok length =>
        if Gen.Incoming.is_end length then (.fin [] (off + dnsCompressionHeaderLen), 0)
        else if Gen.Incoming.is_label length then
          let idx := Gen.Incoming.label_idx off
          let label := slice buf idx (Gen.Incoming.label_end idx length)
          if cfg.labelBad (Utf8.isAscii label) (Utf8.reencodedLen label) then (.err .decodeError, 1)
          else Lit.cons label (lit cfg buf fuel (off + Gen.Incoming.label_advance length))
        else if Gen.Incoming.is_unknown length then (.err .decodeError, 0)
        else (.ptr [] off length, 0)
    else (.err .decodeError, 0)

/-- `self._name_cache.get(link)` followed by `if not linked_labels` (an empty list is a miss) -/
def cacheGet (c : List (Nat × WName)) (k : Nat) : Option WName :=
  match c.lookup k with
  | some ls => if ls.isEmpty then none else some ls
  | none => none

/-- `labels.extend(linked_labels)`, the label-count test, `return off + 2` -/
def finish (ls ll : WName) (poff : Nat) (seen : List Nat) (st : St) : St × Except PyExc (WName × Nat × List Nat) :=
  if Gen.Incoming.too_many_labels (ls ++ ll).length then (st, .error .decodeError)
  else (st, .ok (ls ++ ll, poff + dnsCompressionPointerLen, seen))

/-- `_decode_labels_at_offset(off, labels=[], seen_pointers)` at nesting `depth`: the labels, the
return value, and `seen_pointers` afterwards (`incoming.py:394-442`). -/
def decodeAt (cfg : Cfg) (buf : Bytes) : (fuel : Nat) → (off depth : Nat) → (seen : List Nat) → St →
    St × Except PyExc (WName × Nat × List Nat)
  | 0, _, _, _, st => (st, .error .other)
  | fuel+1, off, depth, seen, st =>
    if depth > cfg.recLimit then (st, .error .recursion) else
    let lr := lit cfg buf (buf.length + 1) off
    let st := { st with acts := st.acts + 1, reads := st.reads + lr.2, maxDepth := max st.maxDepth depth }
    match lr.1 with
    | .err e => (st, .error e)
    | .fin ls e => (st, .ok (ls, e, seen))
    | .ptr ls poff b0 =>
      match byteAt buf (poff + 1) with
      | .error e => (st, .error e)
      | .ok b1 =>
        let link := Gen.Incoming.link b0 b1
        if Gen.Incoming.link_beyond link buf.length then (st, .error .decodeError)
        else if Gen.Incoming.link_self link poff then (st, .error .decodeError)
        else if seen.contains link then (st, .error .decodeError)
        else
          match cacheGet st.cache link with
          | some ll => finish ls ll poff seen st
          | none =>
            if cfg.hopLimit seen.length then (st, .error .decodeError)
            else
              match decodeAt cfg buf fuel link (depth + 1) (link :: seen) st with
              | (st', .error e) => (st', .error e)
              | (st', .ok (ll, _, seen')) =>
                finish ls ll poff seen' { st' with cache := (link, ll) :: st'.cache }

/-- recursion fuel for `decodeAt`: never exhausted (pointer targets are distinct and `≤ len`; with
the hop bound the depth is at most 129) -/
def nameFuel (buf : Bytes) : Nat := buf.length + 130

/-- `_read_name` (`incoming.py:380-392`): on success the name and `self.offset` is behind it -/
def readName (cfg : Cfg) (buf : Bytes) (st : St) : St × Except PyExc WName :=
  let original := st.off
  match decodeAt cfg buf (nameFuel buf) original 1 [] { st with names := st.names + 1 } with
  | (st, .error e) => (st, .error e)
  | (st, .ok (labels, e, _)) =>
    let st := { st with off := e, cache := (original, labels) :: st.cache }
    if Gen.Incoming.name_too_long (nameLen labels) then (st, .error .decodeError)
    else (st, .ok labels)

/-! ### header and questions -/

structure Hdr where
  id : Nat := 0
  flags : Nat := 0
  nq : Nat := 0
  nan : Nat := 0
  nau : Nat := 0
  nad : Nat := 0
  deriving Repr, DecidableEq

/-- two bytes combined by a translated leaf -/
def two (buf : Bytes) (i j : Nat) (f : Nat → Nat → Nat) : Except PyExc Nat := do
  let a ← byteAt buf i
  let b ← byteAt buf j
  pure (f a b)

/-- `_read_header` (`incoming.py:225-236`): the fields are assigned one by one, so a short packet
leaves the earlier ones set -/
def readHeader (buf : Bytes) (st : St) : St × Hdr × Option PyExc :=
  let o := st.off
  let st := { st with off := st.off + Gen.Incoming.hdr_len }
  let h : Hdr := {}
  match two buf o (o + 1) Gen.Incoming.hdr_id with
  | .error e => (st, h, some e)
  | .ok v =>
  let h := { h with id := v }
  match two buf (o + 2) (o + 3) Gen.Incoming.hdr_flags with
  | .error e => (st, h, some e)
  | .ok v =>
  let h := { h with flags := v }
  match two buf (o + 4) (o + 5) Gen.Incoming.hdr_nq with
  | .error e => (st, h, some e)
  | .ok v =>
  let h := { h with nq := v }
  match two buf (o + 6) (o + 7) Gen.Incoming.hdr_nan with
  | .error e => (st, h, some e)
  | .ok v =>
  let h := { h with nan := v }
  match two buf (o + 8) (o + 9) Gen.Incoming.hdr_nau with
  | .error e => (st, h, some e)
  | .ok v =>
  let h := { h with nau := v }
  match two buf (o + 10) (o + 11) Gen.Incoming.hdr_nad with
  | .error e => (st, h, some e)
  | .ok v => (st, { h with nad := v }, none)

/-- the four fixed bytes of a question: type and class -/
def readQFixed (buf : Bytes) (o : Nat) : Except PyExc (Nat × Nat) := do
  let t ← two buf o (o + 1) Gen.Incoming.q_type
  let c ← two buf (o + 2) (o + 3) Gen.Incoming.q_class
  pure (t, c)

/-- `_read_questions` (`incoming.py:238-252`): the questions appended before any exception stay -/
def readQuestions (cfg : Cfg) (buf : Bytes) : (n : Nat) → St → St × List WQuestion × Option PyExc
  | 0, st => (st, [], none)
  | n+1, st =>
    match readName cfg buf st with
    | (st, .error e) => (st, [], some e)
    | (st, .ok name) =>
      let o := st.off
      let st := { st with off := st.off + Gen.Incoming.q_len }
      match readQFixed buf o with
      | .error e => (st, [], some e)
      | .ok (t, c) =>
        let r := readQuestions cfg buf n st
        (r.1, ⟨name, t, c⟩ :: r.2.1, r.2.2)

/-! ### records -/

/-- `_read_string(n)` (`incoming.py:262-266`) -/
def readString (buf : Bytes) (n : Nat) (st : St) : St × Bytes :=
  ({ st with off := st.off + n }, slice buf st.off (Gen.Incoming.str_end st.off n))

/-- `_read_character_string` (`incoming.py:254-260`); the text is kept as bytes -/
def readCStr (buf : Bytes) (st : St) : St × Except PyExc Bytes :=
  match byteAt buf st.off with
  | .error e => (st, .error e)
  | .ok length =>
    let st := { st with off := st.off + 1 }
    let info := slice buf st.off (Gen.Incoming.cstr_end st.off length)
    ({ st with off := st.off + length }, .ok info)

/-- the rdtypes named by one window (`incoming.py:373-376`), with the translated bit test and arithmetic -/
def bitmapTypesLib (window : Nat) (bm : Bytes) : List Nat :=
  (List.range bm.length).flatMap (fun i =>
    (List.range 8).filterMap (fun bit =>
      if Gen.Incoming.bitmap_bit_set (bm.getD i 0).toNat bit then some (Gen.Incoming.bitmap_rdtype bit window i) else none))

/-- `_read_bitmap(end)` (`incoming.py:362-378`) -/
def readBitmap (buf : Bytes) (end_ : Nat) : (fuel : Nat) → St → St × Except PyExc (List Nat)
  | 0, st => (st, .error .other)
  | fuel+1, st =>
    if Gen.Incoming.bitmap_more st.off end_ then
      let offset := st.off
      match byteAt buf offset with
      | .error e => (st, .error e)
      | .ok window =>
      match byteAt buf (offset + 1) with
      | .error e => (st, .error e)
      | .ok blen =>
        let bm := slice buf (offset + 2) (Gen.Incoming.bitmap_end (offset + 2) blen)
        match readBitmap buf end_ fuel { st with off := st.off + Gen.Incoming.bitmap_advance blen } with
        | (st, .error e) => (st, .error e)
        | (st, .ok rest) => (st, .ok (bitmapTypesLib window bm ++ rest))
    else (st, .ok [])

/-- `sorted(rdtypes)` in `DNSNsec.__init__` -/
def sortTypes (ts : List Nat) : List Nat := ts.mergeSort (fun a b => decide (a ≤ b))

/-- the three shorts of an SRV record -/
def readSrvFixed (buf : Bytes) (o : Nat) : Except PyExc (Nat × Nat × Nat) := do
  let p ← two buf o (o + 1) Gen.Incoming.srv_priority
  let w ← two buf (o + 2) (o + 3) Gen.Incoming.srv_weight
  let q ← two buf (o + 4) (o + 5) Gen.Incoming.srv_port
  pure (p, w, q)

/-- `_read_record` (`incoming.py:304-360`): `none` for a type the library skips -/
def readRData (cfg : Cfg) (buf : Bytes) (t length : Nat) (st : St) : St × Except PyExc (Option WRData) :=
  if Gen.Incoming.is_a t then
    let r := readString buf Gen.Incoming.a_len st
    (r.1, .ok (some (.addr r.2)))
  else if Gen.Incoming.is_ptr t then
    match readName cfg buf st with
    | (st, .error e) => (st, .error e)
    | (st, .ok n) => (st, .ok (some (.ptr n)))
  else if Gen.Incoming.is_txt t then
    let r := readString buf (Gen.Incoming.txt_len length) st
    (r.1, .ok (some (.txt r.2)))
  else if Gen.Incoming.is_srv t then
    let o := st.off
    let st := { st with off := st.off + Gen.Incoming.srv_len }
    match readSrvFixed buf o with
    | .error e => (st, .error e)
    | .ok (p, w, q) =>
      match readName cfg buf st with
      | (st, .error e) => (st, .error e)
      | (st, .ok n) => (st, .ok (some (.srv p w q n)))
  else if Gen.Incoming.is_hinfo t then
    match readCStr buf st with
    | (st, .error e) => (st, .error e)
    | (st, .ok cpu) =>
      match readCStr buf st with
      | (st, .error e) => (st, .error e)
      | (st, .ok os) => (st, .ok (some (.hinfo cpu os)))
  else if Gen.Incoming.is_aaaa t then
    let r := readString buf Gen.Incoming.aaaa_len st
    (r.1, .ok (some (.addr r.2)))
  else if Gen.Incoming.is_nsec t then
    let nameStart := st.off
    match readName cfg buf st with
    | (st, .error e) => (st, .error e)
    | (st, .ok n) =>
      match readBitmap buf (Gen.Incoming.nsec_end nameStart length) (buf.length + 1) st with
      | (st, .error e) => (st, .error e)
      | (st, .ok ts) => (st, .ok (some (.nsec n (sortTypes ts))))
  else ({ st with off := st.off + Gen.Incoming.skip_unknown length }, .ok none)

/-- the ten fixed bytes of a record -/
def readFixed (buf : Bytes) (o : Nat) : Except PyExc (Nat × Nat × Nat × Nat) := do
  let t ← two buf o (o + 1) Gen.Incoming.r_type
  let c ← two buf (o + 2) (o + 3) Gen.Incoming.r_class
  let b4 ← byteAt buf (o + 4)
  let b5 ← byteAt buf (o + 5)
  let b6 ← byteAt buf (o + 6)
  let b7 ← byteAt buf (o + 7)
  let len ← two buf (o + 8) (o + 9) Gen.Incoming.r_rdlen
  pure (t, c, Gen.Incoming.r_ttl b4 b5 b6 b7, len)

/-- the loop of `_read_others` (`incoming.py:274-302`): records appended before an exception stay -/
def readRecords (cfg : Cfg) (buf : Bytes) : (n : Nat) → St → St × List WRecord × Option PyExc
  | 0, st => (st, [], none)
  | n+1, st =>
    match readName cfg buf st with
    | (st, .error e) => (st, [], some e)
    | (st, .ok domain) =>
      let o := st.off
      let st := { st with off := st.off + Gen.Incoming.r_len }
      match readFixed buf o with
      | .error e => (st, [], some e)
      | .ok (t, c, ttl, length) =>
        let end_ := Gen.Incoming.r_end st.off length
        match readRData cfg buf t length st with
        | (st, .error e) =>
          if caught e then
            -- skip the record: `self.offset = end`
            readRecords cfg buf n { st with off := end_ }
          else (st, [], some e)
        | (st, .ok none) => readRecords cfg buf n st
        | (st, .ok (some rd)) =>
          let r := readRecords cfg buf n st
          (r.1, ⟨domain, t, c, ttl, rd⟩ :: r.2.1, r.2.2)

/-! ### the object -/

/-- what a caller can observe on a `DNSIncoming` object after `answers()` -/
structure Parsed where
  valid : Bool
  hdr : Hdr
  questions : List WQuestion
  /-- `answers()`: all three record sections in packet order, unsupported types skipped -/
  records : List WRecord
  deriving Repr, DecidableEq

/-- `has_qu_question()`: set when a question with the top class bit was appended -/
def Parsed.hasQU (p : Parsed) : Bool := p.questions.any (fun q => Gen.Dns.unique_of q.qclass)

inductive Outcome where
  /-- an exception left `DNSIncoming(data)`: no object exists -/
  | escapedInit (e : PyExc)
  /-- the object was built, an exception left `answers()` -/
  | escapedAnswers (p : Parsed) (e : PyExc)
  | ok (p : Parsed)
  deriving Repr, DecidableEq

structure Run where
  out : Outcome
  /-- final counters -/
  st : St
  deriving Repr, DecidableEq

/-- `_read_others` (`incoming.py:268-302`) -/
def readOthers (cfg : Cfg) (buf : Bytes) (h : Hdr) (st : St) : St × List WRecord × Option PyExc :=
  readRecords cfg buf (Gen.Incoming.r_loop_count (Gen.Incoming.others_count h.nan h.nau h.nad)) st

/-- `_read_others` under a `try … except DECODE_EXCEPTIONS`, then what `answers()` returns.
`inInit`: the `try` is the constructor's (eager path), so an uncaught exception leaves no object;
otherwise it is the one in `answers()`.  `validOk` / `validCaught`: the `valid` flag of the object
when nothing was raised / when the exception was caught. -/
def others (cfg : Cfg) (buf : Bytes) (h : Hdr) (qs : List WQuestion) (st : St)
    (validOk validCaught inInit : Bool) : Run :=
  let r := readOthers cfg buf h st
  match r.2.2 with
  | none => ⟨.ok ⟨validOk, h, qs, r.2.1⟩, r.1⟩
  | some e =>
    if caught e then ⟨.ok ⟨validCaught, h, qs, r.2.1⟩, r.1⟩
    else if inInit then ⟨.escapedInit e, r.1⟩
    else ⟨.escapedAnswers ⟨validCaught, h, qs, r.2.1⟩ e, r.1⟩

/-- `DNSIncoming(data)` then `.answers()` -/
def parseWith (cfg : Cfg) (buf : Bytes) : Run :=
  -- `_initial_parse` under `except DECODE_EXCEPTIONS` (`incoming.py:121-129,173-179`)
  let hr := readHeader buf {}
  match hr.2.2 with
  | some e =>
    -- invalid; `answers()` finds `_did_read_others` false and runs `_read_others` with the counts read so far
    if caught e then others cfg buf hr.2.1 [] hr.1 false false false else ⟨.escapedInit e, hr.1⟩
  | none =>
    let qr := readQuestions cfg buf (Gen.Incoming.q_loop_count hr.2.1.nq) hr.1
    match qr.2.2 with
    | some e =>
      if caught e then others cfg buf hr.2.1 qr.2.1 qr.1 false false false else ⟨.escapedInit e, qr.1⟩
    | none =>
      if Gen.Incoming.eager_others hr.2.1.nq then
        -- `_read_others` inside the constructor's `try`; `answers()` later just returns the list
        others cfg buf hr.2.1 qr.2.1 qr.1 true false true
      else
        -- valid; the records are read lazily by `answers()` under its own `try`
        others cfg buf hr.2.1 qr.2.1 qr.1 true true false

/-- the decoder of the working tree -/
def parse (buf : Bytes) : Run := parseWith libCfg buf

/-- the exception that escaped, if any -/
def Run.escaped (r : Run) : Option PyExc :=
  match r.out with
  | .escapedInit e => some e
  | .escapedAnswers _ e => some e
  | .ok _ => none

/-- the object, if the constructor returned -/
def Run.parsed? (r : Run) : Option Parsed :=
  match r.out with
  | .escapedInit _ => none
  | .escapedAnswers p _ => some p
  | .ok p => some p

/-- `AsyncListener.datagram_received` hands the datagram to the decoder (`_listener.py:92`) -/
def listenerAccepts (buf : Bytes) : Bool := !Gen.Incoming.oversize buf.length

/-! ### line protocol -/

def Hdr.toLine (h : Hdr) : String := s!"{h.id} {h.flags} {h.nq} {h.nan} {h.nau} {h.nad}"

def Parsed.toLine (p : Parsed) : String :=
  s!"{if p.valid then 1 else 0} {if p.hasQU then 1 else 0} {p.hdr.toLine} {p.questions.length}"
    ++ String.join (p.questions.map (fun q => " " ++ q.toLine))
    ++ s!" {p.records.length}" ++ String.join (p.records.map (fun r => " " ++ r.toLine))

def Run.toLine (r : Run) : String :=
  let c := s!"{r.st.names} {r.st.acts} {r.st.reads} {r.st.maxDepth}"
  match r.out with
  | .escapedInit e => s!"init-raised {e.name} {c}"
  | .escapedAnswers p e => s!"answers-raised {e.name} {c} {p.toLine}"
  | .ok p => s!"ok {c} {p.toLine}"

end Zc.Wire.DecodeLib
