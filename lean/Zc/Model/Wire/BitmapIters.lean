import Zc.Model.Wire.DecodeLib
/-! The loop counters of `DNSIncoming._read_bitmap` (`incoming.py:363-379`), which `DecodeLib.St` does not
carry (C02 review F5): how often the `while self.offset < end` body is entered and how many bitmap bytes the
inner `for i, byte in enumerate(self.data[…])` loop scans (each byte costs eight bit tests).  Same control flow
and the same translated leaves as `DecodeLib.readBitmap`.  No Mathlib. -/
namespace Zc.Wire.DecodeLib
open Zc Zc.Wire

/-- `(windows entered, bitmap bytes scanned)` of one `_read_bitmap(end)` call started at `st.off`; an
iteration that raises `IndexError` on its two header bytes counts as entered -/
def readBitmapC (buf : Bytes) (end_ : Nat) : (fuel : Nat) → St → Nat × Nat
  | 0, _ => (0, 0)
  | fuel+1, st =>
    if Gen.Incoming.bitmap_more st.off end_ then
      match byteAt buf st.off with
      | .error _ => (1, 0)
      | .ok _ =>
        match byteAt buf (st.off + 1) with
        | .error _ => (1, 0)
        | .ok blen =>
          let bm := slice buf (st.off + 2) (Gen.Incoming.bitmap_end (st.off + 2) blen)
          let r := readBitmapC buf end_ fuel { st with off := st.off + Gen.Incoming.bitmap_advance blen }
          (r.1 + 1, r.2 + bm.length)
    else (0, 0)

/-- the counters of `_read_bitmap(end)` entered with `self.offset = off` on datagram `buf` -/
def bitmapWork (buf : Bytes) (off end_ : Nat) : Nat × Nat := readBitmapC buf end_ (buf.length + 1) { off := off }

end Zc.Wire.DecodeLib
