import Zc.Model.SurviveComp
import Zc.Model.Reply
import Zc.Model.QueryGen
/-! # C15 ∘ C12/C11 — the routing and the two outgoing queues of the composed downstream

`Zc.Survive.Comp.Rest` left three things uninterpreted.  Two of them are instantiated here from the
reply model of C12/C11 (`Zc.Model.Reply`):

* `route` — `_QueryResponse` (`add_qu_/add_ucast_/add_mcast_question_response` with
  `_has_mcast_within_one_quarter_ttl` / `_has_mcast_record_in_last_second` against the **real cache
  model** `Cache.getUnique`), the loop of `QueryHandler.async_response` over the questions of all
  packets, and `question_history.add_question_at_time` for every QM question (`QueryGen.History`);
* `enqueue` — the two `MulticastOutgoingQueue.async_add` calls of `handle_assembled_query`, with the
  merge rule, for `out_queue` (0 + 500 ms) and `out_delay_queue` (1000 + 200 ms).

The listeners that are neither browsers nor lookups stay uninterpreted (`Base`).

**Records ↔ ids.**  The reply model identifies records by numbers.  Here the numbers are positions in
a table of record objects kept in the state (`RState.recs`): `idOf` is the position of the first
record that *is the same record* (`Rec.beq lower`, C20 identity — what Python's `dict`/`set` of
records use), `intern` appends a record not yet present.  Ids therefore stay meaningful across blocks,
which the queues need (merging into the last group and striking sent answers are keyed by record).
Results are decoded back through the answer map of the block (`decode`): the object returned for an id
is the first object of *that map* with this identity, as Python's sets keep the object first inserted.

**Which answers belong to which question.**  `Rest.route` is handed the answer map of *all* questions,
merged (`Zc.respond`); `_QueryResponse` routes per question (QU or QM).  The attribution of a map entry
to a question is the parameter `attrib` — every theorem holds for every attribution function.
Known-answer suppression has already happened inside `Zc.respond`, so candidates arrive with
`known = []`.

**Inputs of `async_add`** that the `Rest` interface does not pass — the two random draws and the loop
time at which it runs — are the parameter `orc` (any function of state and stamp).  No Mathlib. -/
namespace Zc.Survive.Route
open Zc Zc.Survive Zc.Survive.Comp

/-- the part of the residue this file interprets -/
structure RState where
  /-- `zc.question_history` -/
  history : QueryGen.History := []
  /-- `zc.out_queue` -/
  outQ : Reply.Queue := {}
  /-- `zc.out_delay_queue` -/
  delayQ : Reply.Queue := {}
  /-- the record objects behind the ids used in the queues -/
  recs : List Rec := []

/-- what stays uninterpreted: the other listeners, over their own state -/
structure Base (ρ₀ ω : Type) where
  listeners : ρ₀ → Ms → List (Rec × Option Rec) → Cache → Cache → Bool → Except PyExc (ρ₀ × List ω)

/-- the two draws of `RAND_INT(20, 120)` and the loop time, for a state and a stamp -/
abbrev Oracle := RState → Ms → Int × Int × Int

section
variable (lower : String → String)

/-! ### records ↔ ids -/

/-- position of the first record of the table that is the same record; `tbl.length` if there is none -/
def idOf (tbl : List Rec) (r : Rec) : Nat := tbl.findIdx (fun x => x.beq lower r)

def intern (tbl : List Rec) (r : Rec) : List Rec :=
  if tbl.any (fun x => x.beq lower r) then tbl else tbl ++ [r]

def internAll (tbl : List Rec) (rs : List Rec) : List Rec := rs.foldl (intern lower) tbl

/-- an answer ↦ additionals map over ids (dict insertion: an equal key keeps its position) -/
def encode (tbl : List Rec) (d : DictRS) : Reply.Dict :=
  d.foldl (fun acc p => acc.set (idOf lower tbl p.1) (p.2.map (idOf lower tbl))) []

/-- the record object of the block's answer map that carries this id -/
def recOfId (tbl : List Rec) (dict : DictRS) (i : Nat) : Option Rec :=
  (dictRecords dict).find? (fun r => idOf lower tbl r == i)

def decode (tbl : List Rec) (dict : DictRS) (d : Reply.Dict) : DictRS :=
  d.filterMap (fun e => (recOfId lower tbl dict e.1).map (fun r => (r, e.2.filterMap (recOfId lower tbl dict))))

/-! ### `QueryHandler.async_response`: routing -/

variable (attrib : Question → Rec → Bool)

/-- the strategies of one packet's questions with the entries of the answer map attributed to them -/
def toItems (tbl : List Rec) (dict : DictRS) (k : Survive.Pkt) : List Reply.QItem :=
  k.p.questions.map (fun wq =>
    let q := questionOf wq
    { qu := q.unique
      cands := (dict.filter (fun p => attrib q p.1)).map (fun p =>
        { id := idOf lower tbl p.1, ttl := p.1.ttl, adds := p.2.map (idOf lower tbl), sup := false }) })

/-- a decoded packet as the reply model reads it (suppression is already done: no known answers) -/
def toPkt (tbl : List Rec) (dict : DictRS) (k : Survive.Pkt) : Reply.Pkt :=
  { dataId := 0, now := k.now, id := k.p.hdr.id, flags := k.p.hdr.flags, numAuth := k.p.hdr.nau,
    nq := k.p.questions.length, q0type := (k.p.questions.head?.map (·.qtype)).getD 0,
    items := toItems lower attrib tbl dict k, known := [] }

/-- `self._cache.async_get_unique(record)` for every record of the table: creation time and TTL of the cached copy -/
def seenOf (c : Cache) (tbl : List Rec) : Reply.SeenMap :=
  tbl.zipIdx.filterMap (fun p => (c.getUnique lower p.1).map (fun e => (p.2, { created := e.created, ttl := e.ttl })))

/-- `question_history.add_question_at_time(question, now, known_answers_set)` for every QM question of every packet;
`now` is the last packet's, the known answers those of the packets that are not probes -/
def historyAfter (h : QueryGen.History) (ks : List Survive.Pkt) : QueryGen.History :=
  let now := (ks.getLast?.map (·.now)).getD 0
  let known := (ks.filter (fun k => !(Gen.Reply.in_is_probe k.p.hdr.nau))).flatMap recsOf
  (ks.flatMap (fun k => k.p.questions.map questionOf)).foldl
    (fun h q => if Gen.Reply.route_history q.unique then QueryGen.History.add lower h q now known else h) h

def emptyRouted : Routed := ⟨[], [], [], []⟩

/-- `_QueryResponse` + question history -/
def route (st : RState) (c : Cache) (ks : List Survive.Pkt) (u : Bool) (dict : DictRS) : RState × Routed :=
  let tbl := internAll lower st.recs (dictRecords dict)
  let st' := { st with recs := tbl, history := historyAfter lower st.history ks }
  match Reply.asyncResponse (ks.map (toPkt lower attrib tbl dict)) u (seenOf lower c tbl) with
  | none => (st', emptyRouted)
  | some qa =>
    (st', ⟨decode lower tbl dict qa.ucast, decode lower tbl dict qa.mcastNow,
           decode lower tbl dict qa.mcastAgg, decode lower tbl dict qa.mcastLast⟩)

/-! ### `handle_assembled_query`: the two `async_add` calls -/

variable (orc : Oracle)

def enqueue (st : RState) (t : Ms) (sel : Routed) : RState :=
  let tbl := internAll lower st.recs (dictRecords sel.aggregate ++ dictRecords sel.aggregateLast)
  let o := orc st t
  { st with
    recs := tbl
    outQ := if sel.aggregate.isEmpty then st.outQ
            else st.outQ.add Reply.outQP o.2.2 t o.1 (encode lower tbl sel.aggregate)
    delayQ := if sel.aggregateLast.isEmpty then st.delayQ
              else st.delayQ.add Reply.delayQP o.2.2 t o.2.1 (encode lower tbl sel.aggregateLast) }

/-! ### the instance -/

variable {ρ₀ ω : Type} (B : Base ρ₀ ω)

/-- `Rest` with the routing and the queues interpreted by the reply model -/
def rest : Rest (ρ₀ × RState) ω where
  listeners r now pairs c1 c2 n :=
    match B.listeners r.1 now pairs c1 c2 n with
    | .error e => .error e
    | .ok (r0, o) => .ok ((r0, r.2), o)
  route r c ks u dict :=
    let x := route lower attrib r.2 c ks u dict
    .ok ((r.1, x.1), x.2)
  enqueue r t sel := ((r.1, enqueue lower orc r.2 t sel), [])

end

end Zc.Survive.Route
