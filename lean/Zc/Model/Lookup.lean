import Zc.Model.Dns
import Zc.Gen.Lookup
/-! `_services/info.py`: the service-info lookup (`AsyncServiceInfo.async_request`) as a block machine (C18).

The lookup is the code between two `await`s of `async_request` (`start`, `resume`) plus the listener
callback `async_update_records` (`update`).  Everything the lookup *reads* from the rest of the
instance is an input of the block: the cache (the key objects of the buckets, in dict order), the
question history, the clock, and the random draw.  What it *does* is the output: the query it
transmits, the value it returns, how long it asks to sleep, whether it woke the sleeping task, and
the fields of the info object afterwards.

`lower` is `str.lower` (DESIGN §4.3).  No Mathlib. -/
namespace Zc.Lookup
open Zc

/-- the key objects of the cache, bucket after bucket, each bucket in dict order -/
abbrev Cache := List Rec

/-- `cached_ip_addresses(packed)`: an `IPv4Address` for 4 bytes, an `IPv6Address` for 16, else `None` -/
def addrVersion (a : Bytes) : Option Nat :=
  if a.length = 4 then some 4 else if a.length = 16 then some 6 else none

/-- the fields of a `ServiceInfo` the lookup fills (`info.py:186-200`); addresses are packed bytes
(an address object is determined by them; IPv6 scope ids are not modelled) -/
structure Info where
  name : String
  key : String
  server : Option String
  serverKey : Option String
  port : Option Nat
  weight : Nat
  priority : Nat
  text : Bytes
  v4 : List Bytes
  v6 : List Bytes
  deriving DecidableEq, Repr, Inhabited

/-- `AsyncServiceInfo(type_, name)` -/
def Info.fresh (lower : String → String) (name : String) : Info :=
  { name, key := lower name, server := none, serverKey := none, port := none, weight := 0, priority := 0,
    text := [], v4 := [], v6 := [] }

/-- `_is_complete` (`text` is never `None`: `__init__` and `_set_text` assign bytes) -/
def Info.complete (i : Info) : Bool := Gen.Lookup.is_complete true i.v4.length i.v6.length

def Info.addresses (i : Info) : List Bytes := i.v4 ++ i.v6

/-! ### cache readers (`_cache.py:185-212`) -/

/-- bucket `name.lower()`, then `type_ == entry.type and class_ == entry.class_` -/
def matchDetails (lower : String → String) (name : String) (type class_ : Nat) (r : Rec) : Bool :=
  lower r.name == lower name && type == r.type && class_ == r.class_

def getAll (lower : String → String) (c : Cache) (name : String) (type class_ : Nat) : List Rec :=
  c.filter (matchDetails lower name type class_)

/-- `get_by_details`: the *last* matching key object -/
def getByDetails (lower : String → String) (c : Cache) (name : String) (type class_ : Nat) : Option Rec :=
  (getAll lower c name type class_).getLast?

/-- `get_ip_address_object_from_record` (scope `None`) -/
def addrObj (r : Rec) : Option Bytes :=
  match r.rdata with
  | .addr a _ => if (addrVersion a).isSome then some a else none
  | _ => none

/-- one step of `_get_ip_addresses_from_cache_lifo`; the list is kept newest-first, which is the
final `reverse()` of the appended list -/
def lifoStep (now : Int) (acc : List Bytes) (r : Rec) : List Bytes :=
  if r.isExpired now then acc else
  match addrObj r with
  | some a => if acc.contains a then acc else a :: acc
  | none => acc

/-- `_get_ip_addresses_from_cache_lifo(zc, now, type)` with `server_key = sk` -/
def addrsLifo (lower : String → String) (c : Cache) (sk : Option String) (now : Int) (type : Nat) : List Bytes :=
  match sk with
  | none => []
  | some k => (getAll lower c k type Gen.classIn).foldl (lifoStep now) []

/-! ### `_process_record_threadsafe` (`info.py:485-560`) -/

/-- the address branch: new → front, `true`; known but not first → moved to front, `false` -/
def insertFront (a : Bytes) (l : List Bytes) : List Bytes × Bool :=
  if !l.contains a then (a :: l, true)
  else if l.head? != some a then (a :: l.erase a, false)
  else (l, false)

/-- the assignments of the `DNSService` branch -/
def Info.setSrvHost (i : Info) (server serverKey : String) (priority weight port : Nat) : Info :=
  { i with server := some server, serverKey := some serverKey, port := some port, weight := weight, priority := priority }

/-- `_set_ipv4_addresses_from_cache` then `_set_ipv6_addresses_from_cache` -/
def Info.reloadAddrs (lower : String → String) (c : Cache) (now : Int) (i : Info) : Info :=
  { i with v4 := addrsLifo lower c i.serverKey now Gen.typeA, v6 := addrsLifo lower c i.serverKey now Gen.typeAaaa }

def processRecord (lower : String → String) (c : Cache) (i : Info) (r : Rec) (now : Int) : Info × Bool :=
  if r.isExpired now then (i, false) else
  match r.rdata with
  | .addr a _ =>
    if some (lower r.name) == i.serverKey then
      match addrVersion a with
      | none => (i, false)
      | some v =>
        if v == 4 then ({ i with v4 := (insertFront a i.v4).1 }, (insertFront a i.v4).2)
        else ({ i with v6 := (insertFront a i.v6).1 }, (insertFront a i.v6).2)
    else (i, false)
  | .txt t => if lower r.name != i.key then (i, false) else ({ i with text := t }, true)
  | .srv priority weight port server =>
    if lower r.name != i.key then (i, false)
    else if i.serverKey != some (lower server) then
      ((({ i with name := r.name, key := lower r.name } : Info).setSrvHost server (lower server) priority weight port).reloadAddrs lower c now, true)
    else (({ i with name := r.name, key := lower r.name } : Info).setSrvHost server (lower server) priority weight port, true)
  | _ => (i, false)

/-- `type(record) is DNSAddress` -/
def isAddrRec (r : Rec) : Bool :=
  match r.rdata with
  | .addr .. => true
  | _ => false

/-- the order in which the repaired `async_update_records` (D22) walks the list it is handed: the records
that are not `DNSAddress` objects first, the `DNSAddress` objects last (an SRV that names the host may
follow the host's addresses in the same response, and the cache does not hold them yet) -/
def addrLast (recs : List Rec) : List Rec :=
  recs.filter (fun r => !isAddrRec r) ++ recs.filter isAddrRec

/-- one pass of the loops of `async_update_records`: `updated |= …` -/
def processAll (lower : String → String) (c : Cache) (now : Int) : Info → List Rec → Info × Bool
  | i, [] => (i, false)
  | i, r :: rs =>
    let p := processRecord lower c i r now
    let q := processAll lower c now p.1 rs
    (q.1, p.2 || q.2)

/-- `_get_address_records_from_cache_by_type` -/
def addrRecs (lower : String → String) (c : Cache) (i : Info) (type : Nat) : List Rec :=
  match i.serverKey with
  | none => []
  | some k => getAll lower c k type Gen.classIn

/-- the repaired `_load_from_cache` (D14): `for record in reversed(cache.get_all_by_details(self._name, type_, _CLASS_IN)):
if not record.is_expired(now): … break` — the newest-inserted key object of that name and type that has **not expired** -/
def newestLive (lower : String → String) (c : Cache) (name : String) (type : Nat) (now : Int) : Option Rec :=
  (getAll lower c name type Gen.classIn).reverse.find? (fun r => Gen.Lookup.load_takes (r.isExpired now))

def loadSrv (lower : String → String) (c : Cache) (i : Info) (now : Int) : Info :=
  match newestLive lower c i.name Gen.typeSrv now with
  | some r => (processRecord lower c i r now).1
  | none => i

def loadTxt (lower : String → String) (c : Cache) (i : Info) (now : Int) : Info :=
  match newestLive lower c i.name Gen.typeTxt now with
  | some r => (processRecord lower c i r now).1
  | none => i

def loadAddrs (lower : String → String) (c : Cache) (i : Info) (now : Int) : Info :=
  (processAll lower c now (processAll lower c now i (addrRecs lower c i Gen.typeA)).1
    (addrRecs lower c (processAll lower c now i (addrRecs lower c i Gen.typeA)).1 Gen.typeAaaa)).1

/-- `_load_from_cache` (`info.py:724-752`, with the D14 repair): the newest unexpired SRV, then the newest unexpired TXT, then --
only when the SRV did not change the server key (else they were loaded by the SRV branch) -- every A
and every AAAA of the server -/
def loadInfo (lower : String → String) (c : Cache) (i : Info) (now : Int) : Info :=
  if i.serverKey == (loadTxt lower c (loadSrv lower c i now) now).serverKey then
    loadAddrs lower c (loadTxt lower c (loadSrv lower c i now) now) now
  else loadTxt lower c (loadSrv lower c i now) now

def loadFromCache (lower : String → String) (c : Cache) (i : Info) (now : Int) : Info × Bool :=
  (loadInfo lower c i now, (loadInfo lower c i now).complete)

/-! ### `_generate_request_query` (`info.py:867-918`) and the question history (`_history.py`) -/

structure HistEntry where
  q : Question
  than : Int
  known : List Rec
  deriving Repr, Inhabited

/-- `zc.question_history._history` as an association list (keys distinct) -/
abbrev Hist := List HistEntry

def histSuppresses (lower : String → String) (h : Hist) (q : Question) (now : Int) (known : List Rec) : Bool :=
  match h.find? (fun e => e.q.beq lower q) with
  | none => false
  | some e =>
    if Gen.Lookup.history_too_old now e.than then false
    else if e.known.any (fun r => !known.any (fun k => r.beq lower k)) then false   -- `previous_known_answers - known_answers`
    else true

/-- `{answer for answer in cache.get_all_by_details(name, type_, class_) if not answer.is_stale(now)}` -/
def knownAnswers (lower : String → String) (c : Cache) (now : Int) (name : String) (type : Nat) : List Rec :=
  (getAll lower c name type Gen.classIn).filter (fun r => !r.isStale now)

/-- `_add_question_with_known_answers`: the question added (with its known answers), or nothing -/
def addQuestion (lower : String → String) (c : Cache) (h : Hist) (now : Int) (name : String) (type : Nat)
    (skipIfKnown qu : Bool) : Option (Question × List Rec) :=
  let known := knownAnswers lower c now name type
  if Gen.Lookup.skip_known skipIfKnown known.length then none else
  let q : Question := { name, type, class_ := Gen.classIn, unique := qu }
  if qu then some (q, known)
  else if histSuppresses lower h q now known then none
  else some (q, known)

/-- `self.server or name` -/
def Info.serverOrName (i : Info) : String :=
  match i.server with
  | some s => if s.isEmpty then i.name else s
  | none => i.name

/-- The four questions are of four different types, hence four different history keys: the history
writes of one call never influence the next, so the history is not threaded. -/
def genQuery (lower : String → String) (c : Cache) (h : Hist) (now : Int) (i : Info) (qu : Bool) : List (Question × List Rec) :=
  [addQuestion lower c h now i.name Gen.typeSrv true qu,
   addQuestion lower c h now i.name Gen.typeTxt true qu,
   addQuestion lower c h now i.serverOrName Gen.typeA false qu,
   addQuestion lower c h now i.serverOrName Gen.typeAaaa false qu].filterMap id

/-! ### the request loop (`info.py:795-865`) -/

inductive Phase where
  | idle
  | waiting (wakeAt : Int) (woken : Bool)
  | done (result : Bool)
  deriving DecidableEq, Repr, Inhabited

/-- `DNSQuestionType`: `QU = 1`, `QM = 2`; `None` is 0 -/
def quCode : Nat := 1
def qmCode : Nat := 2

structure Req where
  info : Info
  timeout : Int
  forced : Nat            -- `question_type`: 0 = None, 1 = QU, 2 = QM
  first : Bool := true
  delay : Int := 0
  next : Int := 0
  last : Int := 0
  clock : Int := 0         -- time of the latest block
  phase : Phase := .idle
  deriving Repr, Inhabited

structure Out where
  /-- the question type the query of this block was generated with -/
  asked : Option Nat := none
  /-- the datagram handed to `async_send` -/
  sent : Option (List (Question × List Rec)) := none
  ret : Option Bool := none
  wait : Option Int := none
  woke : Bool := false
  info : Info
  deriving Repr, Inhabited

/-- `randint(*_AVOID_SYNC_DELAY_RANDOM_INTERVAL)` may return `d` -/
def drawOk (d : Int) : Bool :=
  match Gen.avoidSyncDelayRandomInterval with
  | [lo, hi] => decide ((lo : Int) ≤ d) && decide (d ≤ (hi : Int))
  | _ => false

/-- one turn of `while not self._is_complete:` up to the `await` (or a `return`) -/
def iter (lower : String → String) (s : Req) (now : Int) (c : Cache) (h : Hist) (draw : Int) : Req × Out :=
  if s.info.complete then ({ s with clock := now, phase := .done true }, { ret := some true, info := s.info })
  else if Gen.Lookup.deadline_passed s.last now then ({ s with clock := now, phase := .done false }, { ret := some false, info := s.info })
  else if Gen.Lookup.query_due s.next now then
    let t := Gen.Lookup.this_question_type s.forced quCode qmCode s.first
    let qs := genQuery lower c h now s.info (t == quCode)
    let next := Gen.Lookup.next_base now s.delay + draw
    let delay := if Gen.Lookup.delay_bump (t == qmCode) s.delay then (Gen.duplicateQuestionInterval : Int) else s.delay
    let w := Gen.Lookup.wait_for next s.last now
    ({ s with first := false, next := next, delay := delay, clock := now, phase := .waiting (now + w) false },
     { asked := some t, sent := if Gen.Lookup.send_if qs.length then some qs else none, wait := some w, info := s.info })
  else
    let w := Gen.Lookup.wait_for s.next s.last now
    ({ s with clock := now, phase := .waiting (now + w) false }, { wait := some w, info := s.info })

/-- the locals of `async_request` once `last = now + timeout` has been computed -/
def Req.armed (s : Req) (i : Info) (now : Int) : Req :=
  { s with info := i, first := true, delay := (Gen.Lookup.initial_delay : Nat), next := now, last := Gen.Lookup.deadline_of now s.timeout }

inductive Block where
  /-- `await info.async_request(zc, timeout, question_type)` up to its first `await` / `return` -/
  | start (now : Int) (c : Cache) (h : Hist) (draw : Int)
  /-- `async_update_records(zc, now, records)` called by the record manager -/
  | update (now : Int) (recs : List Rec) (c : Cache)
  /-- the task continues after `await self.async_wait(...)` -/
  | resume (now : Int) (c : Cache) (h : Hist) (draw : Int)
  deriving Repr, Inhabited

def Block.now : Block → Int
  | .start n .. => n | .update n .. => n | .resume n .. => n

/-- `none` = the block is not enabled in this state (event-loop axioms, DESIGN §4.7: a timer fires at
its due time, the clock never passes a due timer, draws lie in the requested interval) -/
def step (lower : String → String) (s : Req) : Block → Option (Req × Out)
  | .start now c h draw =>
    if s.phase != .idle || !drawOk draw then none else
    let p := loadFromCache lower c s.info now
    if p.2 then some ({ s with info := p.1, clock := now, phase := .done true }, { ret := some true, info := p.1 })
    else some (iter lower (s.armed p.1 now) now c h draw)
  | .update now recs c =>
    match s.phase with
    | .waiting w woken =>
      if decide (s.clock ≤ now) && decide (now ≤ w) then
        let p := processAll lower c now s.info (addrLast recs)
        some ({ s with info := p.1, clock := now, phase := .waiting w (woken || p.2) }, { woke := p.2 && !woken, info := p.1 })
      else none
    | _ => none
  | .resume now c h draw =>
    match s.phase with
    | .waiting w woken =>
      if decide (s.clock ≤ now) && decide (now ≤ w) && (woken || decide (now = w)) && drawOk draw then some (iter lower s now c h draw)
      else none
    | _ => none

/-- run a block sequence; `none` as soon as a block is not enabled -/
def run (lower : String → String) : Req → List Block → Option (Req × List (Block × Out))
  | s, [] => some (s, [])
  | s, b :: bs =>
    match step lower s b with
    | none => none
    | some (s', o) =>
      match run lower s' bs with
      | none => none
      | some (s'', os) => some (s'', (b, o) :: os)

def Req.init (lower : String → String) (name : String) (timeout : Int) (forced : Nat) : Req :=
  { info := Info.fresh lower name, timeout, forced }

end Zc.Lookup
