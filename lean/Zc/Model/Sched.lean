import Zc.Model.Basic
import Zc.Gen.Const
import Zc.Gen.Dns
import Zc.Gen.Browser
/-! `_services/browser.py` `QueryScheduler` (C10) — the code *after* the D7 repair
(`notes/fixes/D7.diff`: re-arm when an earlier query is scheduled, next wake-up chosen after the
rescue queries were pushed) and the D7c repair (`notes/fixes/D7c.diff`: the per-instance entry is
keyed by `pointer.alias_key`).

Modelling decisions (notes/agents/C10.md):
* time is `Int` ms; `_clock_resolution_millis` (1e-6 ms) is below the model's resolution;
  `ttl_millis * 0.1` is `ttl * 1000 * 100 / 1000` exactly.
* `_query_heap` is a list kept in ascending `when` order (heapq abstracted to "pop a minimum").
* `_next_scheduled_for_alias` is *derived* here: the entry of an alias is the live (not cancelled) heap
  entry with that alias.  `Zc.Sched2` (Model/Sched2.lean) has the dict and the heap as separate state, is what the
  harness runs, and is proved to refine this model (`Sched2.exec2_refines`), so theorems about `exec` transfer.
* `_next_run` is one slot `armed` (kind, due time) + `started` (`_next_run is not None`).
No Mathlib. -/
namespace Zc.Sched
open Zc

/-- `_ScheduledPTRQuery` -/
structure Q where
  alias : String
  name : String
  ttl : Nat
  cancelled : Bool
  expire : Int
  when : Int
  deriving DecidableEq, Repr, Inhabited

inductive Timer where | startup | ready
  deriving DecidableEq, Repr, Inhabited

/-- constructor arguments of the scheduler -/
structure Cfg where
  types : List String
  minDelay : Nat
  /-- forced question type: `some true` = QU, `some false` = QM -/
  qtype : Option Bool
  /-- `first_random_delay_interval` -/
  lo : Nat
  hi : Nat
  deriving Repr, Inhabited

structure S where
  startupSent : Nat := 0
  heap : List Q := []
  started : Bool := false
  armed : Option (Timer × Int) := none
  nextRunMs : Int := 0
  earliest : Int := 0
  deriving Repr, Inhabited

/-- one call of `async_send_ready_queries(first, now, types)`; `qtype` is the `question_type`
handed to `generate_service_query` -/
structure Send where
  t : Int
  first : Bool
  qtype : Option Bool
  types : List String
  deriving DecidableEq, Repr, Inhabited

/-- `heappush` on the ordered-list view -/
def insert (q : Q) : List Q → List Q
  | [] => [q]
  | h :: t => if q.when < h.when then q :: h :: t else h :: insert q t

/-- `self._next_scheduled_for_alias.get(alias)` (derived view) -/
def current (a : String) (heap : List Q) : Option Q :=
  heap.find? (fun q => !q.cancelled && q.alias == a)

/-- `scheduled.cancelled = True` for the entry of `a` -/
def cancelAlias (a : String) (heap : List Q) : List Q :=
  heap.map (fun q => if !q.cancelled && q.alias == a then { q with cancelled := true } else q)

/-- `current.ttl = …; current.expire_time_millis = …` for the entry of `a` -/
def relife (a : String) (ttl : Nat) (expire : Int) (heap : List Q) : List Q :=
  heap.map (fun q => if !q.cancelled && q.alias == a then { q with ttl := ttl, expire := expire } else q)

/-- `_arm_ready_types` -/
def armReady (s : S) (w : Int) : S :=
  { s with nextRunMs := w, armed := some (.ready, w), started := true }

/-- `_rearm_if_earlier` -/
def rearmIfEarlier (s : S) (when : Int) : S :=
  if Gen.Browser.rearm_guard (!s.started) s.startupSent then s
  else if Gen.Browser.rearm_lt (Gen.Browser.rearm_when when s.earliest) s.nextRunMs then
    armReady s (Gen.Browser.rearm_when when s.earliest)
  else s

/-- `_schedule_ptr_query` -/
def schedule (s : S) (q : Q) : S :=
  rearmIfEarlier { s with heap := insert q s.heap } q.when

/-- the `_ScheduledPTRQuery` built by `_schedule_ptr_refresh` -/
def firstQuery (alias name : String) (ttl : Nat) (created : Int) : Q :=
  { alias, name, ttl, cancelled := false,
    expire := Gen.Dns.get_expiration_time created ttl 100,
    when := Gen.Dns.get_expiration_time created ttl Gen.expireRefreshTimePercent }

/-- `reschedule_ptr_first_refresh` -/
def reschedule (c : Cfg) (s : S) (alias name : String) (ttl : Nat) (created : Int) : S :=
  match current alias s.heap with
  | some cur =>
    if Gen.Browser.reschedule_keep c.minDelay (firstQuery alias name ttl created).when cur.when then
      -- the schedule is kept, the entry follows the lifetime of the refreshed record
      { s with heap := relife alias ttl (firstQuery alias name ttl created).expire s.heap }
    else schedule { s with heap := cancelAlias alias s.heap } (firstQuery alias name ttl created)
  | none => schedule s (firstQuery alias name ttl created)

/-- `schedule_rescue_query`: the follow-up query, unless it would not precede the expiry -/
def rescueOf (now : Int) (q : Q) : Option Q :=
  let next := Gen.Browser.rescue_next now
    (Gen.Browser.rescue_ttl_millis q.ttl * Gen.rescueRecordRetryTtlPercentagePerMille / 1000)
  if Gen.Browser.rescue_stop next q.expire then none else some { q with when := next }

/-- the `while self._query_heap` loop of `_process_ready_types`: (due live entries, remaining heap) -/
def popReady (endT : Int) : List Q → List Q × List Q
  | [] => ([], [])
  | q :: rest =>
    if q.cancelled then popReady endT rest
    else if Gen.Browser.ready_not_due q.when endT then ([], q :: rest)
    else ((q :: (popReady endT rest).1), (popReady endT rest).2)

/-- the `question_type` computed in `async_send_ready_queries` -/
def sendQtype (c : Cfg) (first : Bool) : Option Bool :=
  if c.qtype.isNone && first then some true else c.qtype

/-- `_process_startup_queries` -/
def fireStartup (c : Cfg) (s : S) (now : Int) (done : Bool) : S × List Send :=
  if done then ({ s with armed := none }, [])
  else
    let first := Gen.Browser.startup_first s.startupSent
    let out : Send := { t := now, first, qtype := sendQtype c first, types := c.types }
    let n := s.startupSent + 1
    if Gen.Browser.startup_done n then
      let e := Gen.Browser.next_time now c.minDelay
      (armReady { s with startupSent := n, earliest := e } e, [out])
    else
      ({ s with startupSent := n, armed := some (.startup, now + Gen.Browser.startup_backoff_s n * 1000) }, [out])

/-- the wake-up chosen at the end of `_process_ready_types` -/
def nextWhen (c : Cfg) (heap : List Q) (now : Int) : Int :=
  let nt := Gen.Browser.next_time now c.minDelay
  match heap.head? with
  | some h => if Gen.Browser.next_is_scheduled true h.when nt then h.when else nt
  | none => if Gen.Browser.next_is_scheduled false 0 nt then 0 else nt

/-- `_process_ready_types` -/
def fireReady (c : Cfg) (s : S) (now : Int) (done : Bool) : S × List Send :=
  if done then ({ s with armed := none }, [])
  else
    let pr := popReady now s.heap
    let s1 := (pr.1.filterMap (rescueOf now)).foldl schedule { s with heap := pr.2, armed := none }
    let outs : List Send :=
      if pr.1.isEmpty then [] else [{ t := now, first := false, qtype := sendQtype c false, types := pr.1.map (·.name) }]
    (armReady { s1 with earliest := Gen.Browser.next_time now c.minDelay } (nextWhen c s1.heap now), outs)

inductive Op where
  | start (draw : Nat)
  | ptr (alias name : String) (ttl : Nat) (created : Int)
  | cancel (alias : String)
  | fire (done : Bool)
  | stop
  deriving DecidableEq, Repr, Inhabited

/-- one atomic block at time `now`; `none` = the block is not enabled (no such timer due now,
or a random draw outside the interval the code asked for) -/
def step (c : Cfg) (s : S) (now : Int) : Op → Option (S × List Send)
  | .start d =>
    if c.lo ≤ d ∧ d ≤ c.hi then some ({ s with started := true, armed := some (.startup, now + d) }, []) else none
  | .ptr a n ttl cr => some (reschedule c s a n ttl cr, [])
  | .cancel a => some ({ s with heap := cancelAlias a s.heap }, [])
  | .fire done =>
    match s.armed with
    | some (.startup, due) => if due = now then some (fireStartup c s now done) else none
    | some (.ready, due) => if due = now then some (fireReady c s now done) else none
    | none => none
  | .stop => some ({ s with armed := none, started := false, heap := [] }, [])

/-- the event-loop axioms (`WFSched`, DESIGN §4.7): time does not run backwards and never passes a
due timer (a timer block fires at exactly its due time: `step`) -/
def enabledAt (s : S) (clk t : Int) : Bool :=
  decide (clk ≤ t) && (match s.armed with | some (_, due) => decide (t ≤ due) | none => true)

/-- run a trace of timed blocks; `none` = the trace violates the loop axioms -/
def exec (c : Cfg) : S → Int → List (Int × Op) → Option (S × List Send)
  | s, _, [] => some (s, [])
  | s, clk, (t, op) :: es =>
    if enabledAt s clk t then
      match step c s t op with
      | some (s1, o1) =>
        match exec c s1 t es with
        | some (s2, o2) => some (s2, o1 ++ o2)
        | none => none
      | none => none
    else none

/-- the derived `_next_scheduled_for_alias`: live entries -/
def live (heap : List Q) : List Q := heap.filter (fun q => !q.cancelled)

end Zc.Sched
