import Zc.Model.Basic
import Zc.Gen.Const
import Zc.Gen.Dns
import Zc.Gen.Listener
/-! # Listener (`_listener.py`) — the duplicate guard as a state machine over an arbitrary
downstream handler, plus the reply routing of `_QueryResponse` (what a re-processed QU query does).

`AsyncListener.datagram_received` → size guard → `_process_datagram_at_time` → duplicate guard →
parse → **always** remember `(data, now, msg)` → invalid: return → response: record manager →
query: registry empty: return → `handle_query_or_defer`.  Everything behind the listener
(`RecordManager`, `ServiceRegistry`, `QueryHandler`, all timers and API calls) is the abstract
`Handler`; theorems hold for every handler.  No Mathlib (compiled into `zcdriver`). -/
namespace Zc.Listener
open Zc

/-- what the listener looks at in a parsed `DNSIncoming` -/
structure MsgInfo where
  valid : Bool
  isQuery : Bool
  truncated : Bool
  hasQU : Bool
  deriving DecidableEq, Repr, Inhabited

abbrev Addr := String

/-- a parsed packet as kept in `_deferred` / handed to the query handler: `DNSIncoming.data`, `.now` -/
structure Packet where
  data : Bytes
  now : Ms
  deriving DecidableEq, Repr

/-- Everything downstream of the listener, uninterpreted.  `σ` is the rest of the `Zeroconf`
instance (cache, registry, queues, browsers, tasks …), `ω` whatever it emits (datagrams, callbacks,
timer arms), `β` every block that is not a datagram arrival or a TC timer of this listener. -/
structure Handler (σ ω β : Type) where
  /-- `DNSIncoming(data, …)`: total (decode errors give `valid = false`) -/
  parse : Bytes → MsgInfo
  /-- `record_manager.async_updates_from_response(msg)` -/
  onResponse : σ → Packet → σ × List ω
  /-- `registry.has_entries` -/
  hasEntries : σ → Bool
  /-- `query_handler.handle_assembled_query(packets, addr, port, …)` with `packets ≠ []` -/
  onQuery : σ → List Packet → Addr → Nat → σ × List ω
  /-- any other atomic block of the host (timer, API call, task step) -/
  other : σ → β → σ × List ω

/-- an armed `_timers[addr]` handle: due time and the captured `port` -/
structure TcTimer where
  due : Ms
  port : Nat
  deriving DecidableEq, Repr

/-- `AsyncListener` + the downstream state -/
structure State (σ : Type) where
  /-- `self.data` (`None` before the first datagram) -/
  data : Option Bytes
  /-- `self.last_time` -/
  lastTime : Ms
  /-- `self.last_message` -/
  lastMsg : Option MsgInfo
  /-- `self._deferred` (insertion-ordered dict addr → packets) -/
  deferred : List (Addr × List Packet)
  /-- `self._timers` -/
  timers : List (Addr × TcTimer)
  down : σ
  deriving DecidableEq

def State.init {σ} (d : σ) : State σ := ⟨none, 0, none, [], [], d⟩

/-- why a datagram went where it went (the correspondence label) -/
inductive Tag where
  | oversize | duplicate | invalid | response | noEntries
  | responded (nPackets : Nat)
  | deferred (due : Ms)
  | deferredSame
  deriving DecidableEq, Repr

def Tag.toString : Tag → String
  | .oversize => "oversize" | .duplicate => "duplicate" | .invalid => "invalid" | .response => "response"
  | .noEntries => "noentries" | .responded n => s!"responded:{n}" | .deferred d => s!"deferred:{d}"
  | .deferredSame => "deferred-same"

/-! ### association-list helpers (Python dict) -/

def alGet {α} (k : Addr) : List (Addr × α) → Option α
  | [] => none
  | (k', v) :: r => if k' = k then some v else alGet k r

def alErase {α} (k : Addr) (l : List (Addr × α)) : List (Addr × α) := l.filter (fun p => p.1 ≠ k)

/-- `d[k] = v` keeping the position of an existing key -/
def alSet {α} (k : Addr) (v : α) : List (Addr × α) → List (Addr × α)
  | [] => [(k, v)]
  | (k', v') :: r => if k' = k then (k, v) :: r else (k', v') :: alSet k v r

variable {σ ω β : Type}

/-- the duplicate guard of `_process_datagram_at_time` (the generated test) on the listener's fields -/
def guardHit (s : State σ) (data : Bytes) (now : Ms) : Bool :=
  Gen.Listener.dup_guard (s.data == some data) now s.lastTime s.lastMsg.isNone
    ((s.lastMsg.map (·.isQuery)).getD false) ((s.lastMsg.map (·.hasQU)).getD false)

/-- `_respond_query(msg, addr, port, …)`: cancel the address's timer, pop its deferred packets,
append `msg` if given, hand over.  `packets = []` (timer fired with nothing deferred) is
`packets[0]` → `IndexError` inside `handle_assembled_query`. -/
def respond (H : Handler σ ω β) (s : State σ) (msg : Option Packet) (addr : Addr) (port : Nat) :
    Except PyExc (State σ × List ω × Tag) :=
  let packets := (alGet addr s.deferred).getD [] ++ msg.toList
  let s := { s with timers := alErase addr s.timers, deferred := alErase addr s.deferred }
  match packets with
  | [] => .error .indexError
  | _ :: _ =>
    let (d, out) := H.onQuery s.down packets addr port
    .ok ({ s with down := d }, out, .responded packets.length)

/-- `respond` with a message is total -/
def respondMsg (H : Handler σ ω β) (s : State σ) (msg : Packet) (addr : Addr) (port : Nat) :
    State σ × List ω × Tag :=
  let packets := (alGet addr s.deferred).getD [] ++ [msg]
  let s := { s with timers := alErase addr s.timers, deferred := alErase addr s.deferred }
  let (d, out) := H.onQuery s.down packets addr port
  ({ s with down := d }, out, .responded packets.length)

/-- `handle_query_or_defer` -/
def queryOrDefer (H : Handler σ ω β) (s : State σ) (m : MsgInfo) (pkt : Packet) (addr : Addr) (port : Nat)
    (draw : Nat) : State σ × List ω × Tag :=
  if !m.truncated then respondMsg H s pkt addr port
  else
    let cur := (alGet addr s.deferred).getD []
    -- (`setdefault(addr, [])`: when a packet matches, the entry already exists, so nothing changes)
    if cur.any (fun p => Gen.Listener.deferred_same_packet (p.data == pkt.data)) then (s, [], .deferredSame)
    else
      let due := pkt.now + (draw : Int)
      ({ s with deferred := alSet addr (cur ++ [pkt]) s.deferred,
                timers := alErase addr s.timers ++ [(addr, ⟨due, port⟩)] }, [], .deferred due)

/-- the part of `_process_datagram_at_time` behind the guard -/
def process (H : Handler σ ω β) (s : State σ) (data : Bytes) (addr : Addr) (port : Nat) (now : Ms) (draw : Nat) :
    State σ × List ω × Tag :=
  let m := H.parse data
  let s := { s with data := some data, lastTime := now, lastMsg := some m }
  if !m.valid then (s, [], .invalid)
  else if !m.isQuery then
    let (d, out) := H.onResponse s.down ⟨data, now⟩
    ({ s with down := d }, out, .response)
  else if !H.hasEntries s.down then (s, [], .noEntries)
  else queryOrDefer H s m ⟨data, now⟩ addr port draw

/-- `datagram_received` at clock `now`; `draw` is the `randint(*_TC_DELAY_RANDOM_INTERVAL)` result
(consumed only on the deferral path) -/
def recv (H : Handler σ ω β) (s : State σ) (data : Bytes) (addr : Addr) (port : Nat) (now : Ms) (draw : Nat) :
    State σ × List ω × Tag :=
  if Gen.Listener.oversize (data.length : Int) then (s, [], .oversize)
  else if guardHit s data now then (s, [], .duplicate)
  else process H s data addr port now draw

/-- the TC timer of `addr` fires: `_respond_query(None, addr, port, …)` with the captured port -/
def tcFire (H : Handler σ ω β) (s : State σ) (addr : Addr) : Except PyExc (State σ × List ω × Tag) :=
  match alGet addr s.timers with
  | none => .error .keyError   -- not armed: not a block of this machine
  | some t => respond H s none addr t.port

/-- atomic blocks of a host as the listener sees them -/
inductive Block (β : Type) where
  | recv (data : Bytes) (addr : Addr) (port : Nat) (now : Ms) (draw : Nat)
  | tcFire (addr : Addr)
  | other (b : β)

def step (H : Handler σ ω β) (s : State σ) : Block β → Except PyExc (State σ × List ω)
  | .recv data addr port now draw => let r := recv H s data addr port now draw; .ok (r.1, r.2.1)
  | .tcFire addr => (tcFire H s addr).map (fun r => (r.1, r.2.1))
  | .other b => let (d, out) := H.other s.down b; .ok ({ s with down := d }, out)

/-- run a history, concatenating everything emitted -/
def run (H : Handler σ ω β) (s : State σ) : List (Block β) → Except PyExc (State σ × List ω)
  | [] => .ok (s, [])
  | b :: rest => do
    let (s1, o1) ← step H s b
    let (s2, o2) ← run H s1 rest
    pure (s2, o1 ++ o2)

/-- link-layer duplication: every arriving datagram is delivered twice in immediate succession
(same clock reading, same source); timers and other blocks are not duplicated -/
def dupAll : List (Block β) → List (Block β)
  | [] => []
  | .recv d a p n r :: rest => .recv d a p n r :: .recv d a p n r :: dupAll rest
  | b :: rest => b :: dupAll rest

/-- "timer armed ⇒ something deferred for that address" — what keeps `tcFire` from raising -/
def TimerInv (s : State σ) : Prop :=
  ∀ a t, alGet a s.timers = some t → ∃ p ps, alGet a s.deferred = some (p :: ps)

/-! ### histories with QU queries: what "the same up to extra unicast answers" means -/

section
variable {σ ω β : Type} (H : Handler σ ω β)

/-- the property's exception: a query containing a QU question -/
def quQuery (H : Handler σ ω β) (d : Bytes) : Bool := (H.parse d).isQuery && (H.parse d).hasQU

/-- `dup` is `ref` with extra outputs satisfying `ok` interleaved — the shape of "the same, except that a QU query may
be answered by unicast twice" on the level of everything the host emits -/
inductive ExtraOf (ok : ω → Bool) : List ω → List ω → Prop where
  | nil : ExtraOf ok [] []
  | both (x : ω) {r d : List ω} : ExtraOf ok r d → ExtraOf ok (x :: r) (x :: d)
  | extra (x : ω) {r d : List ω} : ok x = true → ExtraOf ok r d → ExtraOf ok r (x :: d)

/-- the second of two back-to-back copies of a QU query leaves the whole state — downstream included — as the first
left it, and emits only outputs that pass `ok` -/
def SecondCopyNeutral (ok : ω → Bool) : Prop :=
  ∀ (s : State σ) (d : Bytes) (a : Addr) (p : Nat) (now : Ms) (r r' : Nat), quQuery H d = true →
    (recv H (recv H s d a p now r).1 d a p now r').1 = (recv H s d a p now r).1 ∧
    ∀ x ∈ (recv H (recv H s d a p now r).1 d a p now r').2.1, ok x = true

/-- the handler-level condition behind it: answering the same single packet again, right after a query that ended
with it, changes nothing downstream and emits only `ok` outputs -/
def QueryRepeatNeutral (ok : ω → Bool) : Prop :=
  ∀ (x : σ) (ps : List Packet) (pk : Packet) (a : Addr) (p : Nat),
    (H.onQuery (H.onQuery x (ps ++ [pk]) a p).1 [pk] a p).1 = (H.onQuery x (ps ++ [pk]) a p).1 ∧
    ∀ y ∈ (H.onQuery (H.onQuery x (ps ++ [pk]) a p).1 [pk] a p).2, ok y = true

/-- the same **at one state and for one arrival** (the form the real handler can meet: the ∀-state form above is false of it —
finding D11 is a state at which it fails): the second of two back-to-back copies of `d`, arriving at `s`, leaves the whole state
as the first left it and emits only `ok` outputs -/
def NeutralAt (ok : ω → Bool) (s : State σ) (d : Bytes) (a : Addr) (p : Nat) (now : Ms) (r : Nat) : Prop :=
  (recv H (recv H s d a p now r).1 d a p now r).1 = (recv H s d a p now r).1 ∧
  ∀ x ∈ (recv H (recv H s d a p now r).1 d a p now r).2.1, ok x = true

/-- **per history**: along the run of `h` from `s`, every arrival that is a QU query is neutral *at the state in which it
arrives* (nothing is asked of arrivals that are not QU queries, of states the history does not visit, or of other packets) -/
def NeutralAlong (ok : ω → Bool) : State σ → List (Block β) → Prop
  | _, [] => True
  | s, .recv d a p n r :: rest =>
    (quQuery H d = true → NeutralAt H ok s d a p n r) ∧ NeutralAlong ok (recv H s d a p n r).1 rest
  | s, .tcFire a :: rest =>
    match step H s (.tcFire a) with
    | .ok (s', _) => NeutralAlong ok s' rest
    | .error _ => True
  | s, .other b :: rest =>
    match step H s (.other b) with
    | .ok (s', _) => NeutralAlong ok s' rest
    | .error _ => True

/-- the handler-level condition at one downstream state: answering the single packet `pk` again, right after the query
`ps ++ [pk]` was answered at `x`, changes nothing downstream and emits only `ok` outputs -/
def QueryRepeatNeutralAt (ok : ω → Bool) (x : σ) (ps : List Packet) (pk : Packet) (a : Addr) (p : Nat) : Prop :=
  (H.onQuery (H.onQuery x (ps ++ [pk]) a p).1 [pk] a p).1 = (H.onQuery x (ps ++ [pk]) a p).1 ∧
  ∀ y ∈ (H.onQuery (H.onQuery x (ps ++ [pk]) a p).1 [pk] a p).2, ok y = true

end

/-! ## Reply routing (`_QueryResponse`, `QueryHandler.async_response`/`handle_assembled_query`)

Abstraction level: the answer sets `_answer_question` produced per strategy are inputs (C03 owns
them); each answer carries what `cache.async_get_unique` returned for it. -/

/-- an answer record with the cache's view of it: `(created, ttl)` of the cached copy, if any -/
structure Ans where
  id : Nat
  cached : Option (Ms × Nat)
  deriving DecidableEq, Repr

/-- one `_AnswerStrategy` after `_answer_question`: the question's QU bit and its answers -/
structure Strat where
  unique : Bool
  answers : List Ans
  deriving Repr

structure QueryIn where
  /-- any packet `is_probe()` -/
  isProbe : Bool
  port : Nat
  /-- `msg.now` of the last packet (`_QueryResponse._now`) -/
  now : Ms
  /-- `len(msgs[0]._questions)` -/
  nQuestions : Nat
  /-- `msgs[0]._questions[0].type` when there is exactly one -/
  firstQType : Nat
  strats : List Strat
  deriving Repr

/-- `QuestionAnswers`: the four sets, as duplicate-free lists of record ids in insertion order -/
structure Routed where
  ucast : List Nat := []
  mcastNow : List Nat := []
  mcastAgg : List Nat := []
  mcastAggLast : List Nat := []
  deriving DecidableEq, Repr

def setAdd (l : List Nat) (x : Nat) : List Nat := if l.contains x then l else l ++ [x]

/-- `_has_mcast_within_one_quarter_ttl` -/
def Ans.recent (a : Ans) (now : Ms) : Bool :=
  Gen.Listener.mcast_within_quarter_ttl a.cached.isNone
    (match a.cached with | some (c, ttl) => Gen.Dns.is_recent c ttl now | none => false)

/-- `_has_mcast_record_in_last_second` -/
def Ans.lastSecond (a : Ans) (now : Ms) : Bool :=
  Gen.Listener.mcast_in_last_second a.cached.isNone now (match a.cached with | some (c, _) => c | none => 0)

/-- `add_qu_question_response`, one record -/
def addQU (q : QueryIn) (r : Routed) (a : Ans) : Routed :=
  let r := if q.isProbe then { r with ucast := setAdd r.ucast a.id } else r
  if !a.recent q.now then { r with mcastNow := setAdd r.mcastNow a.id }
  else if !q.isProbe then { r with ucast := setAdd r.ucast a.id }
  else r

/-- `add_mcast_question_response`, one record -/
def addMcast (q : QueryIn) (r : Routed) (a : Ans) : Routed :=
  if q.isProbe then { r with mcastNow := setAdd r.mcastNow a.id }
  else if a.lastSecond q.now then { r with mcastAggLast := setAdd r.mcastAggLast a.id }
  else if Gen.Listener.single_question q.nQuestions && Gen.Listener.respond_immediate_type q.firstQType then
    { r with mcastNow := setAdd r.mcastNow a.id }
  else { r with mcastAgg := setAdd r.mcastAgg a.id }

/-- the strategy loop of `async_response` -/
def routeStrat (q : QueryIn) (r : Routed) (st : Strat) : Routed :=
  let ucastSource := Gen.Listener.ucast_source q.port
  if !ucastSource && st.unique then st.answers.foldl (addQU q) r
  else
    let r := if ucastSource then st.answers.foldl (fun r a => { r with ucast := setAdd r.ucast a.id }) r else r
    st.answers.foldl (addMcast q) r

def route (q : QueryIn) : Routed := q.strats.foldl (routeStrat q) {}

/-- what `handle_assembled_query` does with the four sets, in its order -/
inductive Emit where
  | unicast (ids : List Nat)
  | multicast (ids : List Nat)
  | queue (ids : List Nat)
  | delayQueue (ids : List Nat)
  deriving DecidableEq, Repr

def Emit.isUnicast : Emit → Bool
  | .unicast _ => true
  | _ => false

def emit (r : Routed) : List Emit :=
  (if r.ucast.isEmpty then [] else [.unicast r.ucast])
  ++ (if r.mcastNow.isEmpty then [] else [.multicast r.mcastNow])
  ++ (if r.mcastAgg.isEmpty then [] else [.queue r.mcastAgg])
  ++ (if r.mcastAggLast.isEmpty then [] else [.delayQueue r.mcastAggLast])

/-- `async_response` returns `None` when no question has a strategy -/
def respondEmits (q : QueryIn) : List Emit := if q.strats.isEmpty then [] else emit (route q)

/-- every answer to every QU question was multicast within a quarter of its TTL -/
def QueryIn.allRecent (q : QueryIn) : Bool := q.strats.all (fun st => st.answers.all (fun a => a.recent q.now))

/-- every question that has answers is a QU question and the query came from the mDNS port -/
def QueryIn.pureQU (q : QueryIn) : Bool := !Gen.Listener.ucast_source q.port && q.strats.all (·.unique)

/-! ## The observation-level predicate of the property (stage O)

`ref` and `dup` are the send logs of the reference run and of the run with every datagram duplicated.
An event of the duplicated run is *allowed extra* when it is a unicast datagram sent to the source of a
duplicated query with a QU question at the instant of that delivery. -/

structure Ev where
  t : Int
  allowedExtra : Bool
  digest : String
  deriving DecidableEq, Repr

/-- `dup` is `ref` with allowed-extra events interleaved -/
def equivModUnicast : List Ev → List Ev → Bool
  | [], [] => true
  | [], d :: ds => d.allowedExtra && equivModUnicast [] ds
  | _ :: _, [] => false
  | r :: rs, d :: ds =>
    if r.t = d.t ∧ r.digest = d.digest then equivModUnicast rs ds
    else d.allowedExtra && equivModUnicast (r :: rs) ds

end Zc.Listener
