import Zc.Model.Sched
/-! `QueryScheduler` with its two containers as the code has them (C10, DESIGN §10):

* `_query_heap`: a list of `_ScheduledPTRQuery` *objects* (identity `id` + fields, the `cancelled` flag included),
  cancelled entries stay in it until they surface; kept in ascending `when` order (heapq abstracted to "pop a minimum",
  CPython's heapq is in the trusted base; which of several *cancelled* entries tied with the entry a pass stops at are
  popped is heapq-layout dependent and is the one thing the harness does not compare, see notes/agents/C10.md)
* `_next_scheduled_for_alias`: an association list alias ↦ object identity.

Every statement of the code that touches either container is transcribed: `dict[alias] = q; heappush`,
`dict.pop(alias, None)` + `scheduled.cancelled = True`, `dict.get` + `current.when_millis`, `current.ttl = …`,
`del dict[alias]` (a missing key is `Err.keyError`, as in Python), the pop loop of `_process_ready_types`.
`Zc.Sched` (one ordered list, the dict a derived view) is the abstraction `abs`; `Proofs/Sched2.lean` proves the
invariant (dict values = live heap members, one per alias) over every block history and that `step2` refines `step`.
No Mathlib. -/
namespace Zc.Sched2
open Zc Zc.Sched

/-- a `_ScheduledPTRQuery` object -/
structure Obj where
  id : Nat
  q : Q
  deriving DecidableEq, Repr, Inhabited

/-- `_next_scheduled_for_alias` -/
abbrev Dict := List (String × Nat)

def dget (a : String) (d : Dict) : Option Nat := (d.find? (fun e => e.1 == a)).map (·.2)
def ddel (a : String) (d : Dict) : Dict := d.filter (fun e => !(e.1 == a))
def dset (a : String) (i : Nat) (d : Dict) : Dict := (a, i) :: ddel a d

structure S2 where
  startupSent : Nat := 0
  heap : List Obj := []
  dict : Dict := []
  nextId : Nat := 0
  started : Bool := false
  armed : Option (Timer × Int) := none
  nextRunMs : Int := 0
  earliest : Int := 0
  deriving Repr, Inhabited

/-- forget identities and the dict -/
def abs (s : S2) : S :=
  { startupSent := s.startupSent, heap := s.heap.map (·.q), started := s.started, armed := s.armed,
    nextRunMs := s.nextRunMs, earliest := s.earliest }

inductive Err where
  /-- the block is not enabled (loop axioms) -/
  | notEnabled
  /-- `del self._next_scheduled_for_alias[alias]` on a missing key -/
  | keyError
  /-- a dict value that is not in the heap (cannot be expressed in Python, where the dict holds the object) -/
  | dangling
  deriving DecidableEq, Repr, Inhabited

/-- `heappush` on the ordered-list view -/
def insert2 (o : Obj) : List Obj → List Obj
  | [] => [o]
  | h :: t => if o.q.when < h.q.when then o :: h :: t else h :: insert2 o t

def getObj (i : Nat) (h : List Obj) : Option Obj := h.find? (fun o => o.id == i)

/-- `obj.cancelled = True` -/
def setCancelled (i : Nat) (h : List Obj) : List Obj :=
  h.map (fun o => if o.id == i then { o with q := { o.q with cancelled := true } } else o)

/-- `obj.ttl = …; obj.expire_time_millis = …` -/
def setLife (i : Nat) (ttl : Nat) (expire : Int) (h : List Obj) : List Obj :=
  h.map (fun o => if o.id == i then { o with q := { o.q with ttl := ttl, expire := expire } } else o)

def armReady2 (s : S2) (w : Int) : S2 :=
  { s with nextRunMs := w, armed := some (.ready, w), started := true }

def rearmIfEarlier2 (s : S2) (when : Int) : S2 :=
  if Gen.Browser.rearm_guard (!s.started) s.startupSent then s
  else if Gen.Browser.rearm_lt (Gen.Browser.rearm_when when s.earliest) s.nextRunMs then
    armReady2 s (Gen.Browser.rearm_when when s.earliest)
  else s

/-- `_schedule_ptr_query`: `dict[alias] = query; heappush(heap, query); _rearm_if_earlier` -/
def schedule2 (s : S2) (q : Q) : S2 :=
  rearmIfEarlier2 { s with heap := insert2 ⟨s.nextId, q⟩ s.heap, dict := dset q.alias s.nextId s.dict,
                           nextId := s.nextId + 1 } q.when

/-- `cancel_ptr_refresh` -/
def cancel2 (s : S2) (a : String) : S2 :=
  match dget a s.dict with
  | none => s
  | some i => { s with dict := ddel a s.dict, heap := setCancelled i s.heap }

/-- `reschedule_ptr_first_refresh` -/
def reschedule2 (c : Cfg) (s : S2) (alias name : String) (ttl : Nat) (created : Int) : Except Err S2 :=
  match dget alias s.dict with
  | some i =>
    match getObj i s.heap with
    | none => .error .dangling
    | some cur =>
      if Gen.Browser.reschedule_keep c.minDelay (firstQuery alias name ttl created).when cur.q.when then
        .ok { s with heap := setLife i ttl (firstQuery alias name ttl created).expire s.heap }
      else
        .ok (schedule2 { s with heap := setCancelled i s.heap, dict := ddel alias s.dict } (firstQuery alias name ttl created))
  | none => .ok (schedule2 s (firstQuery alias name ttl created))

/-- the `while self._query_heap` loop: (popped live objects, remaining heap, dict after the `del`s) -/
def popReady2 (endT : Int) : List Obj → Dict → Except Err (List Obj × List Obj × Dict)
  | [], d => .ok ([], [], d)
  | o :: rest, d =>
    if o.q.cancelled then popReady2 endT rest d
    else if Gen.Browser.ready_not_due o.q.when endT then .ok ([], o :: rest, d)
    else
      match dget o.q.alias d with
      | none => .error .keyError
      | some _ =>
        match popReady2 endT rest (ddel o.q.alias d) with
        | .ok r => .ok (o :: r.1, r.2.1, r.2.2)
        | .error e => .error e

def fireStartup2 (c : Cfg) (s : S2) (now : Int) (done : Bool) : S2 × List Send :=
  if done then ({ s with armed := none }, [])
  else
    let first := Gen.Browser.startup_first s.startupSent
    let out : Send := { t := now, first, qtype := sendQtype c first, types := c.types }
    let n := s.startupSent + 1
    if Gen.Browser.startup_done n then
      let e := Gen.Browser.next_time now c.minDelay
      (armReady2 { s with startupSent := n, earliest := e } e, [out])
    else
      ({ s with startupSent := n, armed := some (.startup, now + Gen.Browser.startup_backoff_s n * 1000) }, [out])

/-- `_process_ready_types` -/
def fireReady2 (c : Cfg) (s : S2) (now : Int) (done : Bool) : Except Err (S2 × List Send) :=
  if done then .ok ({ s with armed := none }, [])
  else
    match popReady2 now s.heap s.dict with
    | .error e => .error e
    | .ok r =>
      let s1 := (r.1.filterMap (fun o => rescueOf now o.q)).foldl schedule2
        { s with heap := r.2.1, dict := r.2.2, armed := none }
      let outs : List Send :=
        if r.1.isEmpty then []
        else [{ t := now, first := false, qtype := sendQtype c false, types := r.1.map (·.q.name) }]
      .ok (armReady2 { s1 with earliest := Gen.Browser.next_time now c.minDelay }
            (nextWhen c (s1.heap.map (·.q)) now), outs)

def step2 (c : Cfg) (s : S2) (now : Int) : Op → Except Err (S2 × List Send)
  | .start d =>
    if c.lo ≤ d ∧ d ≤ c.hi then .ok ({ s with started := true, armed := some (.startup, now + d) }, [])
    else .error .notEnabled
  | .ptr a n ttl cr =>
    match reschedule2 c s a n ttl cr with
    | .ok s1 => .ok (s1, [])
    | .error e => .error e
  | .cancel a => .ok (cancel2 s a, [])
  | .fire done =>
    match s.armed with
    | some (.startup, due) => if due = now then .ok (fireStartup2 c s now done) else .error .notEnabled
    | some (.ready, due) => if due = now then fireReady2 c s now done else .error .notEnabled
    | none => .error .notEnabled
  | .stop => .ok ({ s with armed := none, started := false, heap := [], dict := [] }, [])

def enabledAt2 (s : S2) (clk t : Int) : Bool :=
  decide (clk ≤ t) && (match s.armed with | some (_, due) => decide (t ≤ due) | none => true)

def exec2 (c : Cfg) : S2 → Int → List (Int × Op) → Except Err (S2 × List Send)
  | s, _, [] => .ok (s, [])
  | s, clk, (t, op) :: es =>
    if enabledAt2 s clk t then
      match step2 c s t op with
      | .ok r =>
        match exec2 c r.1 t es with
        | .ok r2 => .ok (r2.1, r.2 ++ r2.2)
        | .error e => .error e
      | .error e => .error e
    else .error .notEnabled

end Zc.Sched2
