import Zc.Model.Wire.DecodeSpec
import Zc.Model.Wire.Encode
import Zc.Model.Listener
import Zc.Gen.Listener
import Zc.Gen.Reply
/-! # C15 — the host as seen by one arriving datagram, with Python's exceptions explicit

`datagram_received` (`_listener.py:86-176`) composed with the real decoder model (`Wire.DecodeLib.parse`,
C02), the duplicate guard (C16's generated leaf), the truncated-query deferral, and
`QueryHandler.handle_assembled_query` (`query_handler.py:401-440`) down to the encoder
(`Wire.Encode.packets`, C01) for the replies sent inside the block.  Every function that can raise
returns `Except PyExc`; nothing is caught between the socket and the event loop, so an `.error`
of `recv` / `tcFire` **is** an exception escaping into the loop.

Uninterpreted (`Down`): the record manager with the listeners it calls (browsers, lookups), the
answer computation of `async_response` (registry, cache, question history) and the two outgoing
queues.  They may raise; C15's theorems name what is assumed of them.

The text layer: a decoded name is `'.'.join(labels) + '.'` with each label decoded
`('utf-8', 'replace')`; the encoder `split('.')`s it again and UTF-8 encodes each piece
(`reencName`).  No Mathlib (compiled into `zcdriver`). -/
namespace Zc.Survive
open Zc Zc.Wire
open Zc.Listener (Addr alGet alErase alSet TcTimer)

/-! ## text layer: what the encoder sees of a decoded name -/

/-- `str.split('.')` on code points -/
def splitDot : List Nat → List (List Nat)
  | [] => [[]]
  | c :: rest =>
    if c = 0x2E then [] :: splitDot rest
    else
      match splitDot rest with
      | [] => [[c]]
      | p :: ps => (c :: p) :: ps

/-- the labels `write_name` writes for one decoded label: decode with 'replace', split at dots, encode -/
def encPieces (l : Label) : List Label := (splitDot (Utf8.decodeReplace l)).map Utf8.encode

/-- the label list `write_name` works on when handed the text of a decoded name (`''.split('.') = ['']`
for the root name) -/
def reencName (n : WName) : WName := if n.isEmpty then [[]] else n.flatMap encPieces

/-- the decoded text of the label fits a label again: at most 63 bytes of UTF-8 -/
def labelOK (l : Label) : Bool := decide (Utf8.reencodedLen l ≤ 63)

def nameOK (n : WName) : Bool := n.all labelOK

/-- every name on the `DNSIncoming` object (questions, owners, PTR/CNAME/SRV targets, NSEC next
names) can be written back -/
def encodable (p : DecodeLib.Parsed) : Bool := (DecodeSpec.namesOf p).all nameOK

/-- `DNSOutgoing.write_name(name)` for a name the decoder returned -/
def writeBack (size : Nat) (names : Encode.Names) (n : WName) : Except PyExc (Bytes × Encode.Names) :=
  Encode.writeName size names (reencName n)

/-- does writing the name back raise `NamePartTooLongException`? (the D8 symptom, evaluated by the driver) -/
def writeBackRaises (n : WName) : Bool :=
  match writeBack 12 [] n with
  | .error .namePartTooLong => true
  | _ => false

/-! ## the host -/

/-- a `DNSIncoming` object as the handlers see it -/
structure Pkt where
  data : Bytes
  now : Ms
  p : DecodeLib.Parsed
  /-- what `msg.answers()` raises, if anything (`none` always: C02) -/
  lazyErr : Option PyExc
  deriving Repr

def Pkt.isQuery (k : Pkt) : Bool := Gen.Listener.is_query k.p.hdr.flags
def Pkt.truncated (k : Pkt) : Bool := Gen.Listener.truncated k.p.hdr.flags
def Pkt.hasQU (k : Pkt) : Bool := k.p.hasQU

/-- the answer sets `async_response` returns, already flattened the way `_add_answers_additionals`
adds them to a `DNSOutgoing`: answers and additionals -/
structure AnswerSet where
  answers : List Encode.ERecord
  additionals : List Encode.ERecord
  deriving Repr, Inhabited

def AnswerSet.isEmpty (a : AnswerSet) : Bool := a.answers.isEmpty

/-- `QuestionAnswers` -/
structure QA where
  ucast : AnswerSet
  mcastNow : AnswerSet
  /-- `mcast_aggregate` / `mcast_aggregate_last_second`: opaque to this model (C12 owns the queues) -/
  aggregate : Bool
  aggregateLast : Bool
  deriving Repr, Inhabited

/-- everything behind the listener that this model does not interpret -/
structure Down (σ ω : Type) where
  /-- `record_manager.async_updates_from_response(msg)` with every listener callback it triggers -/
  ingest : σ → Pkt → Except PyExc (σ × List ω)
  /-- `registry.has_entries` -/
  hasEntries : σ → Bool
  /-- `QueryHandler.async_response(packets, ucast_source)` -/
  answer : σ → List Pkt → Bool → Except PyExc (σ × Option QA)
  /-- `out_queue.async_add` / `out_delay_queue.async_add` -/
  enqueue : σ → Ms → QA → σ × List ω

inductive Out (ω : Type) where
  | unicast (addr : Addr) (port : Nat) (pkts : List Bytes)
  | multicast (pkts : List Bytes)
  | down (o : ω)
  deriving Repr

structure State (σ : Type) where
  /-- `self.data` -/
  data : Option Bytes
  lastTime : Ms
  /-- `self.last_message`: is_query, has_qu_question of it -/
  lastMsg : Option (Bool × Bool)
  deferred : List (Addr × List Pkt)
  timers : List (Addr × TcTimer)
  down : σ

def State.init {σ} (d : σ) : State σ := ⟨none, 0, none, [], [], d⟩

inductive Tag where
  | oversize | duplicate | invalid | response | noEntries
  | responded (n : Nat)
  | deferred (due : Ms)
  | deferredSame
  deriving DecidableEq, Repr

def Tag.toString : Tag → String
  | .oversize => "oversize" | .duplicate => "duplicate" | .invalid => "invalid" | .response => "response"
  | .noEntries => "noentries" | .responded n => s!"responded:{n}" | .deferred d => s!"deferred:{d}"
  | .deferredSame => "deferred-same"

variable {σ ω : Type}

/-- the question section of a legacy-unicast reply: the decoded questions handed back to the encoder
(`answers.py:95-97`, `DNSQuestion.__init__`: class and unique bit split) -/
def echoQuestion (q : WQuestion) : Encode.EQuestion :=
  ⟨reencName q.name, q.qtype, Gen.Dns.class_of q.qclass, Gen.Dns.unique_of q.qclass⟩

/-- `construct_outgoing_unicast_answers(answers, ucast_source, questions, id_)` -/
def unicastMsg (a : AnswerSet) (ucastSource : Bool) (questions : List WQuestion) (id : Nat) : Encode.Msg :=
  { flags := Gen.flagsQrResponseAa, id := id, multicast := false,
    questions := if Gen.Reply.ans_echo_questions ucastSource then questions.map echoQuestion else [],
    answers := a.answers.map (fun r => (r, 0)), authorities := [], additionals := a.additionals }

/-- `construct_outgoing_multicast_answers(answers)` -/
def multicastMsg (a : AnswerSet) : Encode.Msg :=
  { flags := Gen.flagsQrResponseAa, id := 0, multicast := true, questions := [],
    answers := a.answers.map (fun r => (r, 0)), authorities := [], additionals := a.additionals }

/-- `QueryHandler.handle_assembled_query(packets, addr, port, …)`; `zc.async_send` runs
`out.packets()` at once, so an encoder exception leaves this function -/
def handleAssembled (D : Down σ ω) (d : σ) (pkts : List Pkt) (addr : Addr) (port : Nat) :
    Except PyExc (σ × List (Out ω)) :=
  match pkts with
  | [] => .error .indexError          -- `packets[0]`
  | first :: _ =>
    let ucastSource := Gen.Listener.ucast_source port
    match D.answer d pkts ucastSource with
    | .error e => .error e
    | .ok (d1, none) => .ok (d1, [])
    | .ok (d1, some qa) =>
      match (if qa.ucast.isEmpty then Except.ok [] else
              (Encode.packets (unicastMsg qa.ucast ucastSource first.p.questions first.p.hdr.id)).map
                (fun pk => [Out.unicast addr port pk])) with
      | .error e => .error e
      | .ok o1 =>
        match (if qa.mcastNow.isEmpty then Except.ok [] else
                (Encode.packets (multicastMsg qa.mcastNow)).map (fun pk => [Out.multicast (ω := ω) pk])) with
        | .error e => .error e
        | .ok o2 =>
          let r := D.enqueue d1 first.now qa
          .ok (r.1, o1 ++ o2 ++ r.2.map Out.down)

/-- `_respond_query(msg, addr, port, …)` -/
def respond (D : Down σ ω) (s : State σ) (msg : Option Pkt) (addr : Addr) (port : Nat) :
    Except PyExc (State σ × List (Out ω) × Tag) :=
  let packets := (alGet addr s.deferred).getD [] ++ msg.toList
  let s := { s with timers := alErase addr s.timers, deferred := alErase addr s.deferred }
  match handleAssembled D s.down packets addr port with
  | .error e => .error e
  | .ok (d, out) => .ok ({ s with down := d }, out, .responded packets.length)

/-- `handle_query_or_defer` -/
def queryOrDefer (D : Down σ ω) (s : State σ) (k : Pkt) (addr : Addr) (port : Nat) (draw : Nat) :
    Except PyExc (State σ × List (Out ω) × Tag) :=
  if !k.truncated then respond D s (some k) addr port
  else
    let cur := (alGet addr s.deferred).getD []
    if cur.any (fun p => p.data == k.data) then .ok (s, [], .deferredSame)
    else
      let due := k.now + (draw : Int)
      .ok ({ s with deferred := alSet addr (cur ++ [k]) s.deferred,
                    timers := alErase addr s.timers ++ [(addr, ⟨due, port⟩)] }, [], .deferred due)

def guardHit (s : State σ) (data : Bytes) (now : Ms) : Bool :=
  Gen.Listener.dup_guard (s.data == some data) now s.lastTime s.lastMsg.isNone
    ((s.lastMsg.map (·.1)).getD false) ((s.lastMsg.map (·.2)).getD false)

/-- behind the two guards: `DNSIncoming(data)`, remember, dispatch (`_listener.py:141-176`) -/
def process (D : Down σ ω) (s : State σ) (data : Bytes) (addr : Addr) (port : Nat) (now : Ms) (draw : Nat) :
    Except PyExc (State σ × List (Out ω) × Tag) :=
  match (DecodeLib.parse data).out with
  | .escapedInit e => .error e           -- out of the constructor, out of `datagram_received`
  | outc =>
    let k : Pkt := match outc with
      | .escapedAnswers p e => ⟨data, now, p, some e⟩
      | .ok p => ⟨data, now, p, none⟩
      | .escapedInit _ => ⟨data, now, ⟨false, {}, [], []⟩, none⟩
    let s := { s with data := some data, lastTime := now, lastMsg := some (k.isQuery, k.hasQU) }
    if !k.p.valid then .ok (s, [], .invalid)
    else if !k.isQuery then
      match k.lazyErr with
      | some e => .error e               -- `msg.answers()` in `async_updates_from_response`
      | none =>
        match D.ingest s.down k with
        | .error e => .error e
        | .ok (d, out) => .ok ({ s with down := d }, out.map Out.down, .response)
    else if !D.hasEntries s.down then .ok (s, [], .noEntries)
    else queryOrDefer D s k addr port draw

/-- `AsyncListener.datagram_received(data, (addr, port))` at clock `now` -/
def recv (D : Down σ ω) (s : State σ) (data : Bytes) (addr : Addr) (port : Nat) (now : Ms) (draw : Nat) :
    Except PyExc (State σ × List (Out ω) × Tag) :=
  if Gen.Listener.oversize (data.length : Int) then .ok (s, [], .oversize)
  else if guardHit s data now then .ok (s, [], .duplicate)
  else process D s data addr port now draw

/-- the deferred-query timer of `addr` fires -/
def tcFire (D : Down σ ω) (s : State σ) (addr : Addr) : Except PyExc (State σ × List (Out ω) × Tag) :=
  match alGet addr s.timers with
  | none => .error .keyError
  | some t => respond D s none addr t.port

/-- "timer armed ⇒ something deferred for that address": keeps `packets[0]` from raising when the
timer fires -/
def TimerInv (s : State σ) : Prop :=
  ∀ a t, alGet a s.timers = some t → ∃ p ps, alGet a s.deferred = some (p :: ps)

end Zc.Survive
