import Zc.Model.Cache
/-! Callbacks that re-enter the record manager (`RecordManager.async_add_listener(listener, question)` called from inside
`async_update_records` / `async_update_records_complete`).

Since the D23 repair `async_add_listener` with a question purges the expired records before it adds the listener and replays
the cache to it: `cache.async_expire(now)` at its own reading of the clock, then — if anything was purged — a whole nested
`async_updates` round and a nested `async_updates_complete(False)` round over the listeners registered at that moment, then
`listeners.add`, then the replay (`async_update_records` + `async_update_records_complete` of the new listener alone).  Called
from a callback of the first round of `async_updates_from_response` this **changes the cache between the two halves** of the
ingestion: the work lists (`address_adds`, `other_adds`, `removes`) were computed before the round, the cache they are applied to
is the cache as the round left it.  A record the datagram withdraws (a goodbye for something cached) that had expired and was
not yet purged is removed by the callback's purge; before the D24 repair `cache.async_remove_records(removes)` then raised
`KeyError` out of `async_updates_from_response` (adds done, no completion round).  The repair hands `async_remove_records`
only the withdrawn records that are still cached (`Zc.keptRemoves`, generated leaf `removes_keep_test`).

The callbacks are scripts: `react depth phase l` is what listener `l`'s `async_update_records` (phase 1) /
`async_update_records_complete` (phase 2) does when it is entered at nesting depth `depth` (0 = the two rounds of the datagram
itself; d+1 = the rounds of a purge, or the replay, started by a callback of depth d).  In reality the nesting is bounded by the
number of cached records (a nested round needs a non-empty purge); here `fuel` bounds it: callbacks entered beyond it are
entered and do nothing.  The theorems hold for every `fuel`. -/
namespace Zc

/-- `DNSQuestion.answered_by(rec)` -/
def Question.answeredBy (q : Question) (r : Rec) : Bool :=
  decide (q.class_ = r.class_) && (decide (q.type = r.type) || decide (q.type = Gen.typeAny)) && decide (q.name = r.name)

/-- something a callback does -/
inductive CbAct where
  /-- `async_add_listener(l, None)` -/
  | add (l : Nat)
  /-- `async_remove_listener(l)` -/
  | remove (l : Nat)
  /-- `async_add_listener(l, questions)`, the clock reading `t` inside the call -/
  | addQ (l : Nat) (t : Ms) (qs : List Question)
  deriving Repr

/-- what happens while callbacks run, in execution order -/
inductive NestEv where
  /-- a callback is entered: `replay = []` for a round's call, the replayed records for the update call of a replay -/
  | call (depth phase l : Nat) (replay : List Rec)
  /-- listener `lid`'s callback at `depth` starts `async_add_listener(target, questions)`; the clock reads `t` -/
  | addq (depth lid target : Nat) (t : Ms)
  /-- its `cache.async_expire(t)` purged `recs` (non-empty): the two rounds that follow run at `depth` -/
  | purge (depth : Nat) (t : Ms) (recs : List Rec)
  /-- a service handler of browser `bid`, fired at `depth`, creates browser `newBid` (`Zc/Model/BrowserReentrant.lean`) -/
  | made (depth bid newBid : Nat)
  deriving Repr

/-- the facts about the code that the generated leaves supply -/
structure RmCfg where
  /-- `async_updates` iterates over `self.listeners.copy()` -/
  copied1 : Bool
  /-- `async_updates_complete` iterates over `self.listeners.copy()` -/
  copied2 : Bool
  /-- `async_remove_listener` catches the `KeyError` of `set.remove` (D18 repair) -/
  catches : Bool
  /-- `async_add_listener` purges the expired records before it adds the listener (D23 repair) -/
  purgesFirst : Bool
  /-- the test `async_updates_from_response` applies to "is this withdrawn record still cached" before it removes it (D24 repair:
  the identity; without the filter: constantly `true`) -/
  keepTest : Bool → Bool

/-- the code as it is -/
def RmCfg.code : RmCfg :=
  { copied1 := Gen.Cache.updates_iterates_copy, copied2 := Gen.Cache.complete_iterates_copy,
    catches := Gen.Cache.remove_listener_catches_keyerror, purgesFirst := Gen.Cache.add_listener_purges_first,
    keepTest := Gen.Cache.removes_keep_test }

/-- the record manager while callbacks run -/
structure RSt where
  /-- `self.listeners` -/
  live : List Nat
  cache : Cache
  /-- the exception that is propagating, if any -/
  err : Option PyExc := none
  log : List NestEv := []
  /-- the clock readings of the `async_add_listener(l, question)` calls made so far -/
  reads : List Ms := []
  /-- the changes of the listener set made so far, in order (`addQ l` counts as `add l`) -/
  trace : List ListenerAct := []

section
variable (lower : String → String) (cfg : RmCfg) (order : List Nat → List Nat) (react : Nat → Nat → Nat → List CbAct)

/-- `RecordManager._async_update_matching_records`: the records replayed to a new listener -/
def replayRecs (c : Cache) (now : Ms) (qs : List Question) : List Rec :=
  qs.flatMap (fun q => (c.asyncEntriesWithName lower q.name).filter (fun r => !(r.isExpired now) && q.answeredBy r))

/-- `self.listeners.add(l)` / `self.listeners.remove(l)` inside `async_add_listener` / `async_remove_listener` -/
def RSt.lsAct (st : RSt) (a : ListenerAct) : RSt :=
  match applyAct cfg.catches st.live a with
  | .ok ls => { st with live := ls, trace := st.trace ++ [a] }
  | .error e => { st with err := some e }

/-- sequencing: nothing more runs once an exception is propagating -/
def RSt.andThen (st : RSt) (f : RSt → RSt) : RSt :=
  match st.err with
  | some _ => st
  | none => f st

/-- one round — `async_updates` (phase 1) or `async_updates_complete` (phase 2) — at nesting depth `depth`; `body` runs one
callback.  Returns the state and the listeners whose callback was entered, each with the cache it found. -/
def roundR (body : Nat → Nat → Nat → RSt → RSt) (depth phase : Nat) (st : RSt) : RSt × List (Nat × Cache) :=
  let snap := order st.live
  let copied := if phase = 1 then cfg.copied1 else cfg.copied2
  let r := snap.foldl (fun (acc : RSt × List (Nat × Cache)) l =>
    match acc.1.err with
    | some _ => acc
    | none =>
      if !copied && acc.1.live.length != snap.length then ({ acc.1 with err := some .other }, acc.2)
      else (body depth phase l { acc.1 with log := acc.1.log ++ [NestEv.call depth phase l []] }, acc.2 ++ [(l, acc.1.cache)])) (st, [])
  if !copied && r.1.err.isNone && r.1.live.length != snap.length then ({ r.1 with err := some .other }, r.2) else r

/-- `if expired: self.async_updates(now, [(r, r) …]); self.async_updates_complete(False)`: the purge's own two rounds, at `depth` -/
def purgeRounds (body : Nat → Nat → Nat → RSt → RSt) (depth : Nat) (t : Ms) (expired : List Rec) (st : RSt) : RSt :=
  if expired.isEmpty then st
  else
    ((roundR cfg order body depth 1 { st with log := st.log ++ [NestEv.purge depth t expired] }).1).andThen
      (fun r1 => (roundR cfg order body depth 2 r1).1)

/-- `_async_update_matching_records(listener, questions, now)`: the replay to the new listener `l`, its callbacks at `depth` -/
def replayTo (body : Nat → Nat → Nat → RSt → RSt) (depth l : Nat) (t : Ms) (qs : List Question) (st : RSt) : RSt :=
  let recs := replayRecs lower st.cache (Gen.Cache.add_listener_replay_now t) qs
  if recs.isEmpty then st
  else
    (body depth 1 l { st with log := st.log ++ [NestEv.call depth 1 l recs] }).andThen
      (fun r1 => body depth 2 l { r1 with log := r1.log ++ [NestEv.call depth 2 l []] })

/-- `async_add_listener(l, questions)` called by listener `lid`'s callback running at `depth`, the clock reading `t` -/
def addWithQuestion (body : Nat → Nat → Nat → RSt → RSt) (depth lid l : Nat) (t : Ms) (qs : List Question) (st : RSt) : RSt :=
  let st := { st with log := st.log ++ [NestEv.addq depth lid l t], reads := st.reads ++ [t] }
  let purged : Except PyExc (Cache × List Rec) :=
    if cfg.purgesFirst then expire (Cache.ops lower) st.cache (Gen.Cache.add_listener_purge_expire_now t) else .ok (st.cache, [])
  match purged with
  | .error e => { st with err := some e }
  | .ok out =>
    (purgeRounds cfg order body (depth + 1) t out.2 { st with cache := out.1 }).andThen
      (fun st2 => replayTo lower body (depth + 1) l t qs (st2.lsAct cfg (.add l)))

/-- one action of the callback of listener `lid` running at `depth`; `body` runs a callback one level down -/
def doAct (body : Nat → Nat → Nat → RSt → RSt) (depth lid : Nat) (st : RSt) : CbAct → RSt
  | .add l => st.lsAct cfg (.add l)
  | .remove l => st.lsAct cfg (.remove l)
  | .addQ l t qs => addWithQuestion lower cfg order body depth lid l t qs st

/-- the body of a callback: its actions in order, up to the first that raises -/
def cbBody : Nat → Nat → Nat → Nat → RSt → RSt
  | 0, _, _, _, st => st
  | fuel + 1, depth, phase, l, st =>
    (react depth phase l).foldl (fun st a => st.andThen (fun st => doAct lower cfg order (cbBody fuel) depth l st a)) st

/-- what one datagram does when the callbacks may re-enter the record manager -/
structure DeliveryR where
  /-- the work lists and the cache when the first round starts -/
  pre : IngestAcc Cache
  /-- round 1 (`async_updates`): final state and who was called with which cache; `none`: the datagram has no updates -/
  r1 : Option (RSt × List (Nat × Cache))
  /-- the cache after the adds and removes, and `new`; `none`: not reached, or `async_remove_records` raised -/
  fin : Option (Cache × Bool)
  /-- round 2 (`async_updates_complete`) -/
  r2 : Option (RSt × List (Nat × Cache))
  /-- the cache when `async_updates_from_response` returns or raises -/
  cache : Cache
  listeners : List Nat
  /-- the exception that propagated out of `async_updates_from_response`, if any -/
  err : Option PyExc

/-- `async_updates_from_response` with re-entrant callbacks.  If `async_remove_records` raises (only possible without the
`keptRemoves` filter), the adds are done; which of the withdrawn records were already removed depends on the iteration order of a
Python set: the model keeps the cache as it was after the adds. -/
def deliverRWith (fuel : Nat) (c : Cache) (ls : List Nat) (now : Ms) (recs : List Rec) : DeliveryR :=
  let a := ingestPre lower (Cache.ops lower) c now recs
  let afterAdds (c1 : Cache) : Cache := (addAll (Cache.ops lower) (addAll (Cache.ops lower) c1 a.addrAdds).1 a.otherAdds).1
  if a.updates.isEmpty then
    match ingestFinishWith (Cache.ops lower) cfg.keepTest a.cache a with
    | .error e => { pre := a, r1 := none, fin := none, r2 := none, cache := afterAdds a.cache, listeners := ls, err := some e }
    | .ok f => { pre := a, r1 := none, fin := some f, r2 := none, cache := f.1, listeners := ls, err := none }
  else
    let r1 := roundR cfg order (cbBody lower cfg order react fuel) 0 1 { live := ls, cache := a.cache }
    match r1.1.err with
    | some e => { pre := a, r1 := some r1, fin := none, r2 := none, cache := r1.1.cache, listeners := r1.1.live, err := some e }
    | none =>
      match ingestFinishWith (Cache.ops lower) cfg.keepTest r1.1.cache a with
      | .error e => { pre := a, r1 := some r1, fin := none, r2 := none, cache := afterAdds r1.1.cache, listeners := r1.1.live, err := some e }
      | .ok f =>
        let r2 := roundR cfg order (cbBody lower cfg order react fuel) 0 2 { live := r1.1.live, cache := f.1 }
        { pre := a, r1 := some r1, fin := some f, r2 := some r2, cache := r2.1.cache, listeners := r2.1.live, err := r2.1.err }

/-- the code as it is -/
def deliverR (fuel : Nat) (c : Cache) (ls : List Nat) (now : Ms) (recs : List Rec) : DeliveryR :=
  deliverRWith lower RmCfg.code order react fuel c ls now recs

end
end Zc
