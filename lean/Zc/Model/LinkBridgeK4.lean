import Zc.Model.LinkBridge
import Zc.Model.Reply
import Zc.Model.Responder
/-! # From the responder models to the link (K4): runs of the C11/C12 reply model with the D5 purge, and their projection

K4 ("a question for the type of a registered service, not listing it, is answered") is about three models at once:

* **C11/C12** — `Zc.Reply.Host`: the listener's duplicate guard, the routing of `_QueryResponse`, the two
  `MulticastOutgoingQueue`s with their timers.  Its records are numbers (`RecId`), the candidates of every question are inputs.
* **C03** — `Zc.respond`: which records answer a question (`strategiesFor`, `Strategy.answer`), with which additionals.
* **C08** — the D5 repair: `async_unregister_service` strikes the withdrawn records from both queues
  (`MulticastOutgoingQueue.async_remove_answers`).  The reply model has no such block; a run of a real host in which a service is
  withdrawn while answers are queued is *not* a run of `Zc.Reply.Host`.  `KEv.purge` adds that block.

This file defines the extended run (`kstep`, `krun`), the ids of record objects (`idOf`, positions in a table, as in
`Zc.Survive.Route`), the candidates C03 hands to the reply model (`itemsOfQuestions`) and the packet behind a reply datagram
(`OutOfPkt`), whose link items are `Bridge.itemsOf` — the projection already used for the C08/C09 machine.  No Mathlib. -/
namespace Zc.Bridge
open Zc Zc.Reply

/-! ### the D5 purge on the reply model's queues -/

/-- `pending.answers = {answer: additionals - remove for answer, additionals in pending.answers.items() if answer not in remove}`:
the reply model's own `Dict.withdraw` (`Model/Reply.lean`, the filter is the translated leaf `q_remove_keep`) -/
def purgeDict (W : List RecId) (d : Dict) : Dict := d.withdraw W

/-- `MulticastOutgoingQueue.async_remove_answers(records)`: groups, their windows and the armed timer stay — the reply model's
`Queue.removeRecords` (C12 proves its window / on-wire theorems over runs that contain it, `QEv.remove` / `Ev.qremove`) -/
def purgeQ (W : List RecId) (q : Queue) : Queue := q.removeRecords W

/-- `async_unregister_service` / `async_unregister_all_services` call it on `out_queue` and `out_delay_queue` -/
def purgeH (W : List RecId) (h : Host) : Host := { h with outQ := purgeQ W h.outQ, delayQ := purgeQ W h.delayQ }

/-- a block of the responder: a block of the reply model, or the purge of the records `W` at loop time `t` -/
inductive KEv where
  | blk (e : Ev)
  | purge (t : Int) (W : List RecId)
  deriving Repr

def KEv.time : KEv → Int
  | .blk e => e.time
  | .purge t _ => t

/-- one block.  A reply-model block is accepted exactly when `Host.step` accepts it — which checks the event-loop facts `LoopAx`
(`Reply.LoopAx.of_step`); the purge is an API block: it runs at any instant at which no timer is overdue. -/
def kstep (h : Host) : KEv → Except String StepOut
  | .blk (.qremove ..) => .error "a purge is the block KEv.purge"   -- (the reply model's own per-queue withdrawal block, C12; here both queues at once)
  | .blk e => h.step e
  | .purge t W => if h.notOverdue t then .ok { host := purgeH W h } else .error "clock-passed-a-due-timer"

/-- a whole history: per block the state it started from and what it did -/
def krun : Host → Int → List KEv → Except String (Host × Int × List (Host × KEv × StepOut))
  | h, c, [] => .ok (h, c, [])
  | h, c, k :: ks =>
    if k.time < c then .error "time-went-backwards" else
    match kstep h k with
    | .error m => .error m
    | .ok r =>
      match krun r.host k.time ks with
      | .error m => .error m
      | .ok (h', c', tl) => .ok (h', c', (h, k, r) :: tl)

/-- an accepted history (the relational form of `krun … = .ok …`) -/
inductive KRun : Host → Int → List KEv → Host → Int → List (Host × KEv × StepOut) → Prop
  | nil (h : Host) (c : Int) : KRun h c [] h c []
  | cons {h : Host} {c : Int} {k : KEv} {ks : List KEv} {r : StepOut} {h' : Host} {c' : Int} {tr : List (Host × KEv × StepOut)} :
      c ≤ k.time → kstep h k = .ok r → KRun r.host k.time ks h' c' tr → KRun h c (k :: ks) h' c' ((h, k, r) :: tr)

/-! ### record objects and their ids -/

section
variable (lower : String → String)

/-- position of the first record of the table that is the same record (C20 identity); `tbl.length` if there is none -/
def idOf (tbl : List Rec) (r : Rec) : Nat := tbl.findIdx (fun x => x.beq lower r)

/-- the record is in the table (up to identity) -/
def inTbl (tbl : List Rec) (r : Rec) : Bool := tbl.any (fun x => x.beq lower r)

/-- an answer ↦ additionals map of C03 as the candidates of one strategy: known-answer suppression has already happened inside
`Strategy.answer`, so nothing is left to suppress (`sup := false`) -/
def candsOf (tbl : List Rec) (d : DictRS) : List Cand :=
  d.map (fun p => { id := idOf lower tbl p.1, ttl := p.1.ttl, adds := p.2.map (idOf lower tbl), sup := false })

/-- `_get_answer_strategies(question)` and `_answer_question(…)` for every question of a packet, in order: one `QItem` per
strategy, with the question's QU bit (the registry look-ups can raise `KeyError`; they cannot under C03's `IndexInv`) -/
def itemsOfQuestions (ettl : Nat) (tbl : List Rec) (reg : Registry) (known : List Rec) : List Question → Except PyExc (List QItem)
  | [] => .ok []
  | q :: qs =>
    match strategiesFor lower reg q with
    | .error e => .error e
    | .ok sts =>
      match itemsOfQuestions ettl tbl reg known qs with
      | .error e => .error e
      | .ok rest => .ok (sts.map (fun st => { qu := q.unique, cands := candsOf lower tbl (st.answer lower ettl known) }) ++ rest)

/-- the datagram `o` of the reply model carries the records of `pk`: same ids, in order, answers and additionals -/
def OutOfPkt (tbl : List Rec) (o : Out) (pk : Register.Pkt) : Prop :=
  match o with
  | .mcast a d => pk.answers.map (idOf lower tbl) = a ∧ pk.additionals.map (idOf lower tbl) = d
  | .ucast _ _ _ _ a d => pk.answers.map (idOf lower tbl) = a ∧ pk.additionals.map (idOf lower tbl) = d

end

/-- destination of a reply datagram on the link: the multicast group, or the host behind the querier's address -/
def dstOfOut (hostOf : Nat → Nat) : Out → Option Nat
  | .mcast _ _ => none
  | .ucast addr _ _ _ _ _ => some (hostOf addr)

end Zc.Bridge
