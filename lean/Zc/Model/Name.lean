import Zc.Model.Basic
import Zc.Gen.Const
import Zc.Gen.Name
/-! # Model of `_utils/name.py: service_type_name` and of the `ServiceInfo` constructor's
name/type test (`_services/info.py:183-184`).  No Mathlib.

A Python `str` is a `List Char` (a sequence of Unicode scalar values).  Lone surrogates, which a
Python `str` can also hold, are outside the model: the code's `try: … .encode('utf-8') except
UnicodeEncodeError: raise BadTypeInNameException` (name.py:155-158, repair b0b9659) therefore has no
counterpart here (`checkInst` cannot fail to encode); that branch is exercised only by the harness's
surrogate streams (stage O).

Flags of `re.compile` are folded by the translator into the pattern text as Python's inline group
`(?i…)`, which `parsePat` rejects (fail closed): the interpreter below is for flag-free patterns only.

The four compiled regular expressions of `const.py` are *interpreted*: the translator
copies the pattern texts into `Zc.Gen.*Pattern`, `parsePat` reads the small subset they
are written in (`^`? `[class]` `+`? (`$` | `\Z`)?), and `reSearch` is Python's
`Pattern.search` for that subset (no flags): `$` matches at the end **or before a
final newline**, `\Z` only at the end. -/
namespace Zc.Name

abbrev Str := List Char

/-! ### the regular-expression subset -/

inductive EndAnchor where
  | none | dollar | absZ
  deriving DecidableEq, Repr

structure Pat where
  anchorStart : Bool
  /-- inclusive code-point ranges of the character class -/
  ranges : List (Nat × Nat)
  plus : Bool
  endA : EndAnchor
  deriving DecidableEq, Repr

def hexVal? (c : Char) : Option Nat :=
  let n := c.toNat
  if 48 ≤ n ∧ n ≤ 57 then some (n - 48)
  else if 97 ≤ n ∧ n ≤ 102 then some (n - 87)
  else if 65 ≤ n ∧ n ≤ 70 then some (n - 55)
  else none

def isAlnum (c : Char) : Bool :=
  let n := c.toNat
  (48 ≤ n ∧ n ≤ 57) ∨ (65 ≤ n ∧ n ≤ 90) ∨ (97 ≤ n ∧ n ≤ 122)

/-- one class member: `\xHH`, an escaped punctuation character, or a plain character -/
def parseAtom : List Char → Option (Nat × List Char)
  | '\\' :: 'x' :: a :: b :: rest =>
    match hexVal? a, hexVal? b with
    | some x, some y => some (x * 16 + y, rest)
    | _, _ => none
  | '\\' :: c :: rest => if isAlnum c then none else some (c.toNat, rest)
  | ['\\'] => none
  | ']' :: _ => none
  | '[' :: _ => none
  | '^' :: _ => none
  | c :: rest => some (c.toNat, rest)
  | [] => none

/-- class members up to the closing `]` -/
def parseClass : Nat → List Char → Option (List (Nat × Nat) × List Char)
  | 0, _ => none
  | _ + 1, ']' :: rest => some ([], rest)
  | fuel + 1, cs =>
    match parseAtom cs with
    | none => none
    | some (lo, '-' :: ']' :: rest) => some ([(lo, lo), (45, 45)], rest)
    | some (lo, '-' :: rest) =>
      (match parseAtom rest with
       | none => none
       | some (hi, rest') =>
         if lo ≤ hi then (parseClass fuel rest').map (fun (rs, r) => ((lo, hi) :: rs, r)) else none)
    | some (lo, rest) => (parseClass fuel rest).map (fun (rs, r) => ((lo, lo) :: rs, r))

def parseEnd : List Char → Option EndAnchor
  | [] => some .none
  | ['$'] => some .dollar
  | ['\\', 'Z'] => some .absZ
  | _ => none

def parsePat (p : List Char) : Option Pat :=
  let (anch, p) := match p with
    | '^' :: r => (true, r)
    | _ => (false, p)
  match p with
  | '[' :: r =>
    (match parseClass (r.length + 1) r with
     | some (rs, '+' :: tl) => (parseEnd tl).map (fun e => ⟨anch, rs, true, e⟩)
     | some (rs, tl) => (parseEnd tl).map (fun e => ⟨anch, rs, false, e⟩)
     | none => none)
  | _ => none

def inRanges (rs : List (Nat × Nat)) (c : Char) : Bool :=
  rs.any (fun r => r.1 ≤ c.toNat && c.toNat ≤ r.2)

/-- does the end anchor hold with `rest` still unread? -/
def endOk : EndAnchor → List Char → Bool
  | .none, _ => true
  | .dollar, r => r == [] || r == ['\n']
  | .absZ, r => r == []

/-- `[class]+<end>` at the head of the input (backtracking over the repetition count) -/
def matchPlus (rs : List (Nat × Nat)) (e : EndAnchor) : List Char → Bool
  | [] => false
  | c :: r => inRanges rs c && (endOk e r || matchPlus rs e r)

def matchAt (p : Pat) : List Char → Bool
  | [] => false
  | c :: r => if p.plus then matchPlus p.ranges p.endA (c :: r) else inRanges p.ranges c && endOk p.endA r

def searchFrom (p : Pat) : List Char → Bool
  | [] => false
  | c :: r => matchAt p (c :: r) || searchFrom p r

/-- `Pattern.search(s) is not None` -/
def reSearch (p : Pat) (s : Str) : Bool :=
  if p.anchorStart then matchAt p s else searchFrom p s

/-- `re.compile(pattern).search(s)`; a pattern outside the subset is an error of the model
(fails closed: the correspondence run disagrees) -/
def reSearchS (pattern : String) (s : Str) : Except PyExc Bool :=
  match parsePat pattern.toList with
  | some p => .ok (reSearch p s)
  | none => .error .other

/-! ### string helpers -/

/-- `s.split('.')` -/
def splitDot : Str → List Str
  | [] => [[]]
  | c :: r =>
    if c = '.' then [] :: splitDot r
    else match splitDot r with
      | [] => [[c]]
      | l :: ls => (c :: l) :: ls

/-- `'.'.join(ls)` -/
def joinDot : List Str → Str
  | [] => []
  | [l] => l
  | l :: l' :: ls => l ++ '.' :: joinDot (l' :: ls)

/-- `len(s.encode('utf-8'))` -/
def utf8Len : Str → Nat
  | [] => 0
  | c :: r => (if c.toNat < 0x80 then 1 else if c.toNat < 0x800 then 2 else if c.toNat < 0x10000 then 3 else 4) + utf8Len r

/-- `'--' in s` -/
def hasDoubleHyphen : Str → Bool
  | a :: b :: r => (a == '-' && b == '-') || hasDoubleHyphen (b :: r)
  | _ => false

def subLabel : Str := ['_', 's', 'u', 'b']

/-! ### `service_type_name` -/

/-- name.py:109-139 (with the D9 repair at :114): the tests on the popped service label -/
def checkService (strict : Bool) (sn : Str) : Except PyExc Unit :=
  match sn with
  | [] => .error .indexError                                          -- service_name[0]
  | c0 :: test =>
    if c0 ≠ '_' then .error .badType else
    if Gen.Name.svc_empty test.length then .error .badType else
    if Gen.Name.svc_too_long strict test.length then .error .badType else
    if hasDoubleHyphen test then .error .badType else
    match test.head?, test.getLast? with
    | some a, some b =>                                               -- test[0], test[-1]
      if a = '-' ∨ b = '-' then .error .badType else
      match reSearchS Gen.hasAToZPattern test with
      | .error e => .error e
      | .ok false => .error .badType
      | .ok true =>
        match reSearchS (if strict then Gen.hasOnlyAToZNumHyphenPattern else Gen.hasOnlyAToZNumHyphenUnderscorePattern) test with
        | .error e => .error e
        | .ok false => .error .badType
        | .ok true => .ok ()
    | _, _ => .error .indexError

/-- name.py:143-146: `if remaining and remaining[-1] == '_sub': remaining.pop(); …` -/
def popSub (remaining : List Str) : Except PyExc (List Str) :=
  if remaining.getLast? = some subLabel then
    let r := remaining.dropLast
    if r.length = 0 ∨ (r.headD []).length = 0 then .error .badType else .ok r
  else .ok remaining

/-- name.py:152-159: the tests on the (joined) instance label -/
def checkInst (i : Str) : Except PyExc Unit :=
  if Gen.Name.inst_too_long (utf8Len i) then .error .badType else
  match reSearchS Gen.hasAsciiControlCharsPattern i with
  | .error e => .error e
  | .ok true => .error .badType
  | .ok false => .ok ()

/-- name.py:143-161: `_sub` handling, joining, and the instance-label tests -/
def finish (remaining : List Str) (result : Str) : Except PyExc Str :=
  match popSub remaining with
  | .error e => .error e
  | .ok r =>
    let r := if r.length > 1 then [joinDot r] else r
    match r with
    | [] => .ok result
    | i :: _ =>
      match checkInst i with
      | .error e => .error e
      | .ok () => .ok result

/-- name.py:101-139 -/
def withService (strict : Bool) (remaining : List Str) (trailer : Str) : Except PyExc Str :=
  match remaining.getLast? with
  | none => .error .indexError                                        -- remaining.pop()
  | some sn =>
    let remaining := remaining.dropLast
    if sn = [] then .error .badType else
    if remaining.length = 1 ∧ (remaining.headD []).length = 0 then .error .badType else
    match checkService strict sn with
    | .error e => .error e
    | .ok () => finish remaining (sn ++ trailer)

def tcpT : Str := Gen.tcpProtocolLocalTrailer.toList
def udpT : Str := Gen.nontcpProtocolLocalTrailer.toList
def localT : Str := Gen.localTrailer.toList

/-- `service_type_name(type_, strict=strict)` -/
def serviceTypeName (s : Str) (strict : Bool) : Except PyExc Str :=
  if Gen.Name.name_too_long s.length then .error .badType else
  if tcpT <:+ s ∨ udpT <:+ s then
    withService strict (splitDot (s.take (s.length - tcpT.length))) (s.drop (s.length - tcpT.length))
  else if strict then .error .badType
  else if localT <:+ s then
    finish (splitDot (s.take (s.length - localT.length))) (s.drop (s.length - (localT.length - 1)))
  else .error .badType

/-- `ServiceInfo.__init__` (info.py:183-184): `if not type_.endswith(service_type_name(name, strict=False)): raise BadTypeInNameException` -/
def ctorCheck (type_ name : Str) : Except PyExc Unit :=
  match serviceTypeName name false with
  | .error e => .error e
  | .ok t => if t <:+ type_ then .ok () else .error .badType

end Zc.Name
