import Zc.Model.BrowserCb
import Zc.Model.Reentrant
/-! `_ServiceBrowserBase.async_update_records_complete` when a handler re-enters the record manager (D24b).

```python
for pending in self._pending_handlers.items():
    self._fire_service_state_changed_event(pending)
self._pending_handlers.clear()
```
A handler (`add_service`, …) may start another browser: `async_add_listener(browser, questions)` purges the expired records and —
if there are any — runs `async_updates` + `async_updates_complete(False)` over every listener, **this browser included**, before it
returns.  The nested `async_update_records_complete` of this browser iterates the same dict (every pending change is fired again,
the one being delivered included), clears it, and the outer loop's next step raises `RuntimeError: dictionary changed size during
iteration` out of `async_updates_from_response`.  Repair (D24b): detach the pending changes before firing them
(`pending_handlers = self._pending_handlers; self._pending_handlers = {}`): a nested notification works on the fresh dict.

`completeLoop` is that loop, generic in the state `σ` the handlers run on (`get`/`set` read and replace this browser's
`_pending_handlers` inside it); `detach` is the generated leaf `complete_detaches_pending`.  `Zc.HostR` below is the executable
composite — record manager, browsers with handler plans, nested rounds — that the correspondence driver runs. -/
namespace Zc

abbrev PendingCh := List ((String × String) × Change)

/-- iterating the live dict: CPython checks the size at every step of the iteration (also at the step that would end it) -/
def completeLive {σ : Type} (get : σ → PendingCh) (set : σ → PendingCh → σ) (fire : σ → ((String × String) × Change) → σ × Option PyExc)
    (n : Nat) : Nat → Nat → σ → σ × Option PyExc
  | 0, _, s => (s, none)
  | fuel + 1, i, s =>
    if (get s).length != n then (s, some .other)        -- RuntimeError: dictionary changed size during iteration
    else
      match (get s)[i]? with
      | none => (set s [], none)                        -- the loop is over; `self._pending_handlers.clear()`
      | some ev =>
        match fire s ev with
        | (s', some e) => (s', some e)
        | (s', none) => completeLive get set fire n fuel (i + 1) s'

/-- `async_update_records_complete`; `fire s ev` delivers one pending change (the handlers run, possibly re-entering the record
manager) and returns the state afterwards and the exception that propagates, if any -/
def completeLoop {σ : Type} (detach : Bool) (get : σ → PendingCh) (set : σ → PendingCh → σ)
    (fire : σ → ((String × String) × Change) → σ × Option PyExc) (s : σ) : σ × Option PyExc :=
  if detach then
    (get s).foldl (fun (acc : σ × Option PyExc) ev =>
      match acc.2 with
      | some _ => acc
      | none => fire acc.1 ev) (set s [], none)
  else completeLive get set fire (get s).length ((get s).length + 1) 0 s

/-- the code as it is (generated leaves `complete_takes_pending`, `complete_iterates_live`): are the pending changes detached
(`pending_handlers = self._pending_handlers; self._pending_handlers = {}`) before they are fired?  True since the D24b repair. -/
def Browser.detachesCode : Bool := Gen.Cache.complete_takes_pending true && !Gen.Cache.complete_iterates_live

/-! ### the composite the driver runs: record manager + browsers whose handlers create browsers -/

/-- what a browser's service listener does when it is told `change` for the instance `name`: it creates browser `newBid` on `types`
(once) -/
structure Plan where
  bid : Nat
  change : Change
  name : String
  newBid : Nat
  types : List String
  deriving Repr

/-- is this the plan of browser `bid`'s listener for `change` of the instance `name` (compared case-insensitively)? -/
def Plan.matches (lower : String → String) (p : Plan) (bid : Nat) (change : Change) (name : String) : Bool :=
  p.bid == bid && p.change == change && lower p.name == lower name

def Plan.same (q p : Plan) : Bool :=
  q.bid == p.bid && q.change == p.change && q.name == p.name && q.newBid == p.newBid

structure HostR where
  cache : Cache
  /-- recording listeners (they do not react in these histories) -/
  listeners : List Nat
  browsers : List (Nat × Browser)
  plans : List Plan
  /-- the service callbacks fired, in order -/
  cbs : List (Nat × Callback) := []
  err : Option PyExc := none
  log : List NestEv := []
  /-- the clock: `none` = frozen at the op's instant; `some k` = the next reading is `k` ms after it (the harness lets the clock tick per
  reading during the periodic purge) -/
  tick : Option Nat := none

section
variable (lower : String → String) (possible : String → List String) (detach : Bool)

/-- ascending order (insertion sort: structurally recursive, so that closed instances reduce) -/
def insertId (x : Nat) : List Nat → List Nat
  | [] => [x]
  | y :: t => if x ≤ y then x :: y :: t else y :: insertId x t

def sortIds (l : List Nat) : List Nat := l.foldr insertId []

/-- `current_time_millis()` during an op that started at `now0` -/
def HostR.reading (S : HostR) (now0 : Ms) : Ms :=
  match S.tick with
  | some k => now0 + k
  | none => now0

def HostR.getPending (S : HostR) (bid : Nat) : PendingCh :=
  match S.browsers.find? (fun ib => ib.1 = bid) with
  | some ib => ib.2.pending
  | none => []

def HostR.setPending (S : HostR) (bid : Nat) (p : PendingCh) : HostR :=
  { S with browsers := S.browsers.map (fun ib => if ib.1 = bid then (ib.1, { ib.2 with pending := p }) else ib) }

/-- `async_updates(now, us)` at nesting depth `depth`: recording listeners (ascending ids), then browsers — their
`async_update_records` only fills `_pending_handlers` -/
def updateAllR (depth : Nat) (now : Ms) (us : List (Rec × Option Rec)) (S : HostR) : HostR :=
  { S with
    log := S.log ++ (sortIds S.listeners).map (fun l => NestEv.call depth 1 l []),
    browsers := S.browsers.map (fun ib => (ib.1, Browser.updateRecords lower possible S.cache now ib.2 us)) }

mutual
/-- `async_add_listener(browser, questions)` for a new browser `nb`; its purge's rounds and its replay run at `depth` -/
def createR : Nat → Nat → Ms → Nat → List String → HostR → HostR
  | 0, _, _, _, _, S => S
  | fuel + 1, depth, now0, nb, types, S =>
    -- `now = current_time_millis()`: one reading for the purge, its notifications and the replay
    let now : Ms := S.reading now0
    let S : HostR := { S with tick := S.tick.map (· + 1) }
    match (if Gen.Cache.add_listener_purges_first then expire (Cache.ops lower) S.cache (Gen.Cache.add_listener_purge_expire_now now)
           else .ok (S.cache, [])) with
    | .error e => { S with err := some e }
    | .ok out =>
      let S : HostR := { S with cache := out.1 }
      let S : HostR :=
        if out.2.isEmpty then S
        else
          let S1 := updateAllR lower possible depth (Gen.Cache.add_listener_purge_updates_now now) (out.2.map (fun r => (r, some r)))
            { S with log := S.log ++ [NestEv.purge depth now out.2] }
          completeAllR fuel depth now0 S1
      match S.err with
      | some _ => S
      | none =>
        let us := Browser.replayList lower S.cache (Gen.Cache.add_listener_replay_now now) types
        let b : Browser := { types := types }
        if us.isEmpty then { S with browsers := S.browsers ++ [(nb, b)] }
        else
          let b1 := Browser.updateRecords lower possible S.cache (Gen.Cache.add_listener_replay_now now) b us
          completeOneR fuel depth now0 nb { S with browsers := S.browsers ++ [(nb, b1)] }

/-- deliver one pending change of browser `bid`: the callback, then the handler's plan -/
def fireR : Nat → Nat → Ms → Nat → HostR → ((String × String) × Change) → HostR × Option PyExc
  | 0, _, _, _, S, _ => (S, S.err)
  | fuel + 1, depth, now, bid, S, ev =>
    let S : HostR := { S with cbs := S.cbs ++ [(bid, { change := ev.2, type := ev.1.2, name := ev.1.1 })] }
    match S.plans.find? (fun p => p.matches lower bid ev.2 ev.1.1) with
    | none => (S, none)
    | some p =>
      let S : HostR := { S with plans := S.plans.filter (fun q => !(q.same p)), log := S.log ++ [NestEv.made depth bid p.newBid] }
      let S' := createR fuel (depth + 1) now p.newBid p.types S
      (S', S'.err)

/-- `async_update_records_complete` of browser `bid` -/
def completeOneR : Nat → Nat → Ms → Nat → HostR → HostR
  | 0, _, _, _, S => S
  | fuel + 1, depth, now, bid, S =>
    let r := completeLoop detach (fun S => S.getPending bid) (fun S p => S.setPending bid p) (fireR fuel depth now bid) S
    match r.2 with
    | some e => { r.1 with err := some e }
    | none => r.1

/-- `async_updates_complete(…)` at `depth`: over a copy of the listener set -/
def completeAllR : Nat → Nat → Ms → HostR → HostR
  | 0, _, _, S => S
  | fuel + 1, depth, now, S =>
    let S : HostR := { S with log := S.log ++ (sortIds S.listeners).map (fun l => NestEv.call depth 2 l []) }
    (sortIds (S.browsers.map Prod.fst)).foldl (fun S bid =>
      match S.err with
      | some _ => S
      | none => completeOneR fuel depth now bid S) S
end

end
end Zc
