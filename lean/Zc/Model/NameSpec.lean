import Zc.Model.Name
/-! # The documented grammar of mDNS-SD names (RFC 6763 §4.1, §7; RFC 6335 §5.1), written
independently of the validator: as the set of strings that *are* of one of the documented forms

    <service> . <_tcp|_udp> . local.
    <Instance> . <service> . <_tcp|_udp> . local.
    <sub> . _sub . <service> . <_tcp|_udp> . local.

plus, in non-strict mode, the same prefixes in front of a bare `.local.`.  Nothing here
splits, pops or scans: the forms are concatenations, the rules are predicates on their parts. -/
namespace Zc.Name.Spec

/-- `A`–`Z`, `a`–`z` -/
def isLetter (c : Char) : Prop := (65 ≤ c.toNat ∧ c.toNat ≤ 90) ∨ (97 ≤ c.toNat ∧ c.toNat ≤ 122)
/-- `0`–`9` -/
def isDigit (c : Char) : Prop := 48 ≤ c.toNat ∧ c.toNat ≤ 57
/-- letters, digits, hyphens; non-strict mode additionally allows underscores -/
def svcChar (strict : Bool) (c : Char) : Prop := isLetter c ∨ isDigit c ∨ c = '-' ∨ (strict = false ∧ c = '_')
/-- ASCII control characters: 0x00–0x1F and 0x7F -/
def isCtrl (c : Char) : Prop := c.toNat ≤ 0x1f ∨ c.toNat = 0x7f

instance : DecidablePred isLetter := fun c => by unfold isLetter; infer_instance
instance : DecidablePred isDigit := fun c => by unfold isDigit; infer_instance
instance : DecidablePred isCtrl := fun c => by unfold isCtrl; infer_instance
instance (strict : Bool) : DecidablePred (svcChar strict) := fun c => by unfold svcChar; infer_instance

/-- the service name after its mandatory underscore (RFC 6335 §5.1): only letters, digits and hyphens,
no leading, trailing or double hyphen, at least one letter, at most 15 characters; non-strict mode
allows underscores and longer names -/
structure SvcBody (strict : Bool) (b : Str) : Prop where
  nonempty : b ≠ []
  chars : ∀ c ∈ b, svcChar strict c
  noLeadingHyphen : b.head? ≠ some '-'
  noTrailingHyphen : b.getLast? ≠ some '-'
  noDoubleHyphen : ¬ ['-', '-'] <:+: b
  hasLetter : ∃ c ∈ b, isLetter c
  short : strict = true → b.length ≤ 15

/-- the service label: an underscore followed by the service name -/
def SvcLabel (strict : Bool) (l : Str) : Prop := ∃ b, l = '_' :: b ∧ SvcBody strict b

/-- number of bytes of the UTF-8 encoding -/
def utf8Bytes (s : Str) : Nat := (s.map Char.utf8Size).sum

/-- an instance name or subtype: at most 63 bytes, no ASCII control characters; anything else
(dots, spaces, non-ASCII text) is allowed -/
def InstOk (i : Str) : Prop := utf8Bytes i ≤ 63 ∧ ∀ c ∈ i, ¬ isCtrl c

def subLabel : Str := "_sub".toList
def subSuffix : Str := "._sub".toList

/-- what may stand in front of the service label: `<Instance>` or `<sub>._sub` -/
inductive PrefixOk : Str → Prop
  /-- an instance name that is not itself of the `…._sub` shape -/
  | inst {i : Str} : InstOk i → i ≠ subLabel → ¬ subSuffix <:+ i → PrefixOk i
  /-- a subtype: non-empty, not starting with a dot -/
  | subtype {sub : Str} : sub ≠ [] → sub.head? ≠ some '.' → InstOk sub → PrefixOk (sub ++ subSuffix)

def protoTrailers : List Str := ["._tcp.local.".toList, "._udp.local.".toList]
def localTrailer : Str := ".local.".toList
def localType : Str := "local.".toList

/-- `Valid strict s t`: `s` is a name of one of the documented forms and `t` is its service type -/
inductive Valid (strict : Bool) : Str → Str → Prop
  | service {svc tr : Str} : tr ∈ protoTrailers → SvcLabel strict svc → Valid strict (svc ++ tr) (svc ++ tr)
  | prefixed {p svc tr : Str} : tr ∈ protoTrailers → SvcLabel strict svc → p ≠ [] → PrefixOk p →
      Valid strict (p ++ '.' :: (svc ++ tr)) (svc ++ tr)
  /-- non-strict only: a bare `.local.` suffix (no protocol label in front of it) -/
  | bareLocal {p : Str} : strict = false → (∀ tr ∈ protoTrailers, ¬ tr <:+ p ++ localTrailer) → PrefixOk p →
      Valid strict (p ++ localTrailer) localType

/-- the validator's contract: the whole name is at most 256 characters and of a documented form -/
def Accepts (strict : Bool) (s t : Str) : Prop := s.length ≤ 256 ∧ Valid strict s t

end Zc.Name.Spec
