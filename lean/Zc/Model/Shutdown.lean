import Zc.Model.Basic
import Zc.Gen.Const
import Zc.Gen.Shutdown
/-! # Shutdown (`asyncio.py:223-231`, `_core.py:608-665`, `_engine.py:122-153`, `browser.py:369-375,438,465,719-726`)

The host as a block machine over the flags that decide whether anything can leave it: `done`, transports
closed, which timers are armed, which tasks are pending — and **any number of `async_close()` / `close()`
calls in progress at once**, each with its own program counter, interleaved at block boundaries.
What a block *would* emit is part of the block (an arbitrary input: the theorems quantify over it);
whether it *does* is decided by the generated gates (`Gen.Shutdown.*`).  The places where the close path
can raise are explicit outcomes (`Out.raised`): `NotRunningException` out of `async_wait_for_start`
(an API call on a done instance; and — only if `async_close` did not suppress it, which since fix 25230c1 it does —
a close that was waiting for start-up while another close finished) and
`CancelledError` (the task awaiting `async_close` is cancelled at one of its suspension points).
No Mathlib (compiled into `zcdriver`). -/
namespace Zc.Shutdown
open Zc

/-- exceptions that reach the *caller* of a close / API call -/
inductive Exc where
  | notRunning | cancelled
  deriving DecidableEq, Repr

/-- what can leave the host -/
inductive Out where
  | send        -- any datagram handed to a transport
  | goodbye     -- the unregister-all datagram (TTL 0 for every registered service)
  | callback    -- ServiceListener / browser handler / lookup listener invoked
  | raised (e : Exc)   -- an exception delivered to the caller of `async_close` / an API call (not to the loop)
  | loopError          -- an exception escaping a timer / task callback into the event loop's exception handler
  deriving DecidableEq, Repr

/-- something observable on the network or by a listener (an exception handed back to a caller is not) -/
def Out.isEmission : Out → Bool
  | .send | .goodbye | .callback => true
  | .raised _ | .loopError => false

structure Browser where
  /-- in `AsyncZeroconf.async_browsers` (so `async_close` cancels it) -/
  tracked : Bool
  /-- `_async_cancel` ran -/
  cancelled : Bool
  /-- `query_scheduler._next_run` armed -/
  timer : Bool
  /-- registered with the record manager -/
  listening : Bool
  deriving DecidableEq, Repr

/-- program counter of one `async_close()` / `close()` call -/
inductive CStage where
  /-- (async) suspended in `wait_for(async_wait_for_start(), 1)`: the instance had not started yet -/
  | waitingStart
  /-- browsers cancelled, registry emptied, first goodbye out, `left` goodbye sends to go -/
  | unregistering (left : Nat)
  /-- (sync `close()`) `_close()` ran in the caller's thread, `engine.close()` not yet on the loop -/
  | doneSet
  /-- `_async_shutdown` done, suspended in `sleep(0)` -/
  | shutdown
  /-- returned normally -/
  | returned
  /-- raised to its caller (`NotRunningException`, `CancelledError`) -/
  | aborted
  deriving DecidableEq, Repr

structure Close where
  /-- `Zeroconf.close()` from another thread (true) or `AsyncZeroconf.async_close()` (false) -/
  sync : Bool
  stage : CStage
  deriving DecidableEq, Repr

def Close.isReturned (c : Close) : Bool := match c.stage with | .returned => true | _ => false

structure Host where
  /-- `Zeroconf.done` -/
  done : Bool
  /-- `engine.running_event.is_set()` -/
  running : Bool
  transportsClosed : Bool
  /-- `engine._cleanup_timer` armed -/
  cleanupArmed : Bool
  /-- number of services in the registry -/
  registry : Nat
  browsers : List Browser
  /-- answer groups waiting in the two aggregation queues (their timer is armed iff > 0) -/
  outq : Nat
  /-- the listener's armed deferred-TC timers (`_timers`), each with the number of packets deferred for its address
  (`len(_deferred[addr])`).  The timer callback does `packets[0]`: a `0` here is an `IndexError` waiting to happen. -/
  tcs : List Nat
  /-- lookups (`async_request`) in progress -/
  lookups : Nat
  /-- `async_check_service` tasks in progress -/
  probing : Nat
  /-- `_async_broadcast_service` tasks in progress -/
  announcing : Nat
  /-- every close call made so far, in call order (entries are never removed, so indices are stable) -/
  closes : List Close
  deriving DecidableEq, Repr

/-- API calls that need a running instance -/
inductive Api where
  | register | lookup
  deriving DecidableEq, Repr

/-- atomic blocks.  Numeric/boolean arguments say what the block would emit / do if nothing gated it. -/
inductive Block where
  /-- datagram arrives: immediate answers, answer groups queued, record updates; `defer`: it is a truncated query
  that is parked — for the address of timer `deferAt` if that exists (one more packet, timer re-armed), else for a new
  address (new timer) -/
  | recv (sends queued : Nat) (defer updates : Bool) (deferAt : Nat := 0)
  /-- aggregation-queue timer; `ready`: a group is due and is sent -/
  | outqFire (ready : Bool)
  /-- deferred-TC timer `i` fires: `_respond_query(None, addr, …)` pops the deferred packets and answers the assembled
  query — `packets[0]` raises `IndexError` into the loop if nothing is deferred for the address -/
  | tcFire (sends queued : Nat) (i : Nat := 0)
  /-- `protocol.connection_lost(None)`, scheduled by `transport.close()` -/
  | connectionLost
  /-- scheduler timer of browser `i`: `queries` datagrams -/
  | schedFire (i : Nat) (queries : Nat)
  /-- periodic cache cleanup; `expired`: some record expired (listeners are told) -/
  | cleanupFire (expired : Bool)
  /-- `async_check_service` resumes: one probe; `last`: registry add + announce task spawned -/
  | probeStep (last : Bool)
  /-- `_async_broadcast_service` resumes: one announcement / goodbye of a single service -/
  | announceStep (last : Bool)
  /-- `async_request` resumes -/
  | lookupStep (sends : Nat) (finished : Bool)
  /-- the engine finishes starting: endpoints created, `running_event.set()` -/
  | startUp
  /-- `async_register_service` / `async_request` called: `async_wait_for_start` first -/
  | apiCall (k : Api)
  /-- a browser is created (`AsyncServiceBrowser(...)` / `async_add_service_listener`): it registers as a listener and the
  cached records of its types are replayed to it (`replay` callbacks) — there is no `done` test on this path -/
  | apiBrowse (tracked : Bool) (replay : Nat)
  /-- a new close call.  async: wait for start if needed, cancel tracked browsers; both:
  `generate_unregister_all_services` + first goodbye -/
  | closeCall (sync : Bool)
  /-- close `i`, suspended waiting for start-up, resumes (`timedOut`: by its own 1 s timeout) -/
  | closeWake (i : Nat) (timedOut : Bool)
  /-- close `i`, 125 ms later: the next goodbye -/
  | closeGoodbye (i : Nat)
  /-- (sync close `i`) `_close()` in the caller's thread: `done := true` -/
  | closeMarkDone (i : Nat)
  /-- close `i`: async — `_close` (done := true) and `_async_shutdown`; sync — `_async_shutdown` -/
  | closeShutdown (i : Nat)
  /-- close `i` after `sleep(0)`: cleanup timer cancelled, waiters notified; the call returns -/
  | closeFinish (i : Nat)
  /-- the task awaiting async close `i` is cancelled at the suspension point it is parked at -/
  | closeAbort (i : Nat)
  deriving DecidableEq, Repr

/-- `async_send`: nothing leaves once `done` -/
def gated (h : Host) (outs : List Out) : List Out := if Gen.Shutdown.send_blocked h.done then [] else outs

/-- record updates reach every listening browser and every lookup in progress -/
def notify (h : Host) (updates : Bool) : List Out :=
  if updates then (h.browsers.filter (·.listening)).map (fun _ => Out.callback) ++ List.replicate h.lookups Out.callback else []

def cancelTracked (bs : List Browser) : List Browser :=
  bs.map (fun b => if b.tracked then { b with cancelled := true, timer := false, listening := false } else b)

def setTimer (bs : List Browser) (i : Nat) (v : Bool) : List Browser :=
  bs.mapIdx (fun j b => if j = i then { b with timer := v } else b)

/-- park one more truncated query: for timer `i` if armed, else under a new timer -/
def deferOne (tcs : List Nat) (i : Nat) : List Nat :=
  if i < tcs.length then tcs.modify i (· + 1) else tcs ++ [1]

/-- `engine._async_close` after `sleep(0)`: `self._cleanup_timer.cancel()` (translated: the call is there) -/
def cleanupAfterClose (armed : Bool) : Bool := if Gen.Shutdown.engine_close_cancels_cleanup then false else armed

/-- `_async_shutdown`: every transport gets `close()` (translated: the call is there, and it is not `abort()`) -/
def transportsAfterShutdown (closed : Bool) : Bool :=
  if Gen.Shutdown.shutdown_closes_transports && !Gen.Shutdown.shutdown_aborts_transports then true else closed

/-- `AsyncListener.connection_lost`: does nothing (translated: empty body); anything else is modelled as the worst
case for the timers — the deferred packets are dropped, the timers stay -/
def tcsAfterConnectionLost (tcs : List Nat) : List Nat :=
  if Gen.Shutdown.connection_lost_is_noop then tcs else tcs.map (fun _ => 0)

/-- number of goodbye transmissions of `async_unregister_all_services` after the first -/
def moreGoodbyes : Nat := Gen.registerBroadcasts - 1

def Host.setStage (h : Host) (i : Nat) (sync : Bool) (st : CStage) : Host :=
  { h with closes := h.closes.set i ⟨sync, st⟩ }

/-- the part of a close between "the instance is running (or we stopped waiting)" and the first suspension
of `async_unregister_all_services`: cancel tracked browsers (async only), empty the registry into one
goodbye datagram, transmit it (through the gate) -/
def closeBody (h : Host) (sync : Bool) : Host × List Out × CStage :=
  ({ h with browsers := if sync then h.browsers else cancelTracked h.browsers, registry := 0 },
   if h.registry = 0 then [] else gated h [.goodbye],
   .unregistering (if h.registry = 0 then 0 else moreGoodbyes))

/-- does a close that was parked in `wait_for(async_wait_for_start(), 1)` and is woken by the start-up event hand
`NotRunningException` to its caller?  `async_wait_for_start` raises it when the event is no longer set or the
instance is done (another close got there first); `async_close` lets it escape unless its `contextlib.suppress(...)`
lists it.  (Before fix 25230c1 — finding D17 — it did not: `wakeRaises false …`.) -/
def wakeRaises (suppressed running done : Bool) : Bool :=
  Gen.Shutdown.wait_for_start_raises_after running done && !suppressed

/-- `none`: the block is not enabled in this state (it cannot occur) -/
def step (h : Host) : Block → Option (Host × List Out)
  | .recv sends queued defer updates deferAt =>
    -- a closed transport delivers nothing
    if h.transportsClosed then none
    else some ({ h with outq := h.outq + queued, tcs := if defer then deferOne h.tcs deferAt else h.tcs },
               gated h (List.replicate sends .send) ++ notify h updates)
  | .outqFire ready =>
    if h.outq = 0 then none
    else some ({ h with outq := if ready then h.outq - 1 else h.outq }, gated h (if ready then [.send] else []))
  | .tcFire sends queued i =>
    match h.tcs[i]? with
    | none => none   -- not armed
    | some 0 => some ({ h with tcs := h.tcs.eraseIdx i }, [.loopError])   -- `packets[0]` on an empty list
    | some (_ + 1) => some ({ h with tcs := h.tcs.eraseIdx i, outq := h.outq + queued }, gated h (List.replicate sends .send))
  | .connectionLost =>
    if !h.transportsClosed then none else some ({ h with tcs := tcsAfterConnectionLost h.tcs }, [])
  | .schedFire i queries =>
    match h.browsers[i]? with
    | none => none
    | some b =>
      if !b.timer then none
      -- the safety test at the top of both scheduler passes: return without re-arming
      else if Gen.Shutdown.startup_pass_blocked h.done || Gen.Shutdown.ready_pass_blocked h.done then
        some ({ h with browsers := setTimer h.browsers i false }, [])
      else some (h, gated h (List.replicate queries .send))
  | .cleanupFire expired =>
    if !h.cleanupArmed then none else some (h, notify h expired)
  | .probeStep last =>
    if h.probing = 0 then none
    else some (if last then { h with probing := h.probing - 1, registry := h.registry + 1, announcing := h.announcing + 1 } else h,
               gated h [.send])
  | .announceStep last =>
    if h.announcing = 0 then none
    else some (if last then { h with announcing := h.announcing - 1 } else h, gated h [.send])
  | .lookupStep sends finished =>
    if h.lookups = 0 then none
    else some (if finished then { h with lookups := h.lookups - 1 } else h, gated h (List.replicate sends .send))
  | .startUp =>
    -- (start-up completing *after* a shutdown would open sockets on a done instance: see notes, not modelled)
    if h.running || h.done || h.transportsClosed then none else some ({ h with running := true }, [])
  | .apiCall k =>
    if Gen.Shutdown.wait_for_start_raises h.done then some (h, [.raised .notRunning])
    else if !h.running then none   -- would wait for start-up first: not modelled
    else match k with
      | .register => some ({ h with probing := h.probing + 1 }, [])
      | .lookup => some ({ h with lookups := h.lookups + 1 }, [])
  | .apiBrowse tracked replay =>
    some ({ h with browsers := h.browsers ++ [⟨tracked, false, !h.done && h.running, true⟩] }, List.replicate replay .callback)
  | .closeCall sync =>
    if !sync && Gen.Shutdown.close_waits_for_start h.done && !h.running then
      some ({ h with closes := h.closes ++ [⟨sync, .waitingStart⟩] }, [])
    else
      let r := closeBody h sync
      some ({ r.1 with closes := h.closes ++ [⟨sync, r.2.2⟩] }, r.2.1)
  | .closeWake i timedOut =>
    match h.closes[i]? with
    | some ⟨false, .waitingStart⟩ =>
      if timedOut then
        let r := closeBody h false
        some (r.1.setStage i false r.2.2, r.2.1)
      else if !h.running && !h.done then none   -- the event it waits for has not been set
      else if wakeRaises Gen.Shutdown.close_wait_suppresses_not_running h.running h.done then
        some (h.setStage i false .aborted, [.raised .notRunning])
      else
        let r := closeBody h false
        some (r.1.setStage i false r.2.2, r.2.1)
    | _ => none
  | .closeGoodbye i =>
    match h.closes[i]? with
    | some ⟨sync, .unregistering (k + 1)⟩ => some (h.setStage i sync (.unregistering k), gated h [.goodbye])
    | _ => none
  | .closeMarkDone i =>
    match h.closes[i]? with
    | some ⟨true, .unregistering 0⟩ => some ({ h.setStage i true .doneSet with done := true }, [])
    | _ => none
  | .closeShutdown i =>
    match h.closes[i]? with
    | some ⟨false, .unregistering 0⟩ =>
      some ({ h.setStage i false .shutdown with
               done := true, running := false, transportsClosed := transportsAfterShutdown h.transportsClosed }, [])
    | some ⟨true, .doneSet⟩ =>
      some ({ h.setStage i true .shutdown with running := false, transportsClosed := transportsAfterShutdown h.transportsClosed }, [])
    | _ => none
  | .closeFinish i =>
    match h.closes[i]? with
    | some ⟨sync, .shutdown⟩ => some ({ h.setStage i sync .returned with cleanupArmed := cleanupAfterClose h.cleanupArmed }, [])
    | _ => none
  | .closeAbort i =>
    match h.closes[i]? with
    | some ⟨false, .waitingStart⟩ | some ⟨false, .unregistering _⟩ | some ⟨false, .shutdown⟩ =>
      some (h.setStage i false .aborted, [.raised .cancelled])
    | _ => none

def run (h : Host) : List Block → Option (Host × List Out)
  | [] => some (h, [])
  | b :: rest => do
    let (h1, o1) ← step h b
    let (h2, o2) ← run h1 rest
    pure (h2, o1 ++ o2)

/-- some `close()` / `async_close()` call has returned, and the instance is shut -/
def Closed (h : Host) : Prop :=
  h.done = true ∧ h.transportsClosed = true ∧ h.cleanupArmed = false ∧ h.closes.any Close.isReturned = true

instance (h : Host) : Decidable (Closed h) := by unfold Closed; infer_instance

/-- the flags agree with the program counters of the closes in progress: a close that got as far as the
shutdown has set `done` and closed the transports; one that returned has also cancelled the cleanup timer -/
def WF (h : Host) : Prop :=
  ∀ c ∈ h.closes,
    (c.stage = .doneSet → h.done = true) ∧
    (c.stage = .shutdown → h.done = true ∧ h.transportsClosed = true) ∧
    (c.stage = .returned → h.done = true ∧ h.transportsClosed = true ∧ h.cleanupArmed = false)

/-- every armed deferred-TC timer has something to answer — the flag-machine form of C16's `TimerInv`
("a TC timer is armed only for an address that has a deferred packet", `C16_timer_invariant`) -/
def TcInv (h : Host) : Prop := ∀ n ∈ h.tcs, 0 < n

instance (h : Host) : Decidable (TcInv h) := by unfold TcInv; infer_instance

def isLoopError : Out → Bool
  | .loopError => true
  | _ => false

/-- creating a browser is an API call that calls back by itself (cache replay), closed or not -/
def Block.isBrowse : Block → Bool
  | .apiBrowse _ _ => true
  | _ => false

def isGoodbye : Out → Bool
  | .goodbye => true
  | _ => false

def count (o : Out → Bool) (l : List Out) : Nat := (l.filter o).length

/-- no registration completes (`probeStep true`: registry add + first announcement) — the complement of finding D15 -/
def Block.noCompletion : Block → Bool
  | .probeStep true => false
  | _ => true

/-- blocks that may be interleaved with close `0` without disturbing its three goodbyes: anything — further
close calls and their goodbyes included — except a completing registration, close `0`'s own blocks, and another
close reaching the point where it sets `done` -/
def Block.mid : Block → Bool
  | .probeStep true => false
  | .closeShutdown _ | .closeMarkDone _ => false
  | .closeWake i _ | .closeGoodbye i | .closeFinish i | .closeAbort i => i != 0
  | _ => true

/-- interleavable around close `0`'s goodbyes: `mid`, and not a goodbye of any close -/
def Block.mid3 (b : Block) : Bool := b.mid && (match b with | .closeGoodbye _ => false | _ => true)

/-- the close call a block is a step of -/
def Block.closeIndex : Block → Option Nat
  | .closeWake i _ | .closeGoodbye i | .closeMarkDone i | .closeShutdown i | .closeFinish i | .closeAbort i => some i
  | _ => none

/-- progress measure of one close call -/
def Close.rank (c : Close) : Nat :=
  match c.stage with
  | .waitingStart => 10
  | .unregistering n => n + 4
  | .doneSet => 3
  | .shutdown => 2
  | .returned | .aborted => 0

/-- the block a close call performs next (a parked call is woken at the latest by its own timeout).  `none`: the call
has ended — or the combination cannot arise (a sync close never parks, an async one never is in `doneSet`). -/
def Close.next (c : Close) (k : Nat) : Option Block :=
  match c.sync, c.stage with
  | false, .waitingStart => some (.closeWake k true)
  | _, .unregistering (_ + 1) => some (.closeGoodbye k)
  | true, .unregistering 0 => some (.closeMarkDone k)
  | false, .unregistering 0 => some (.closeShutdown k)
  | true, .doneSet => some (.closeShutdown k)
  | _, .shutdown => some (.closeFinish k)
  | _, _ => none

/-! ### the acceptors used by the correspondence harness -/

inductive Kind where
  | recv | outq | tc | sched | cleanup | task
  deriving DecidableEq, Repr

def hostOfFlags (done tclosed cleanup afterClose : Bool) (ncb : Nat) : Host :=
  { done := done, running := !tclosed, transportsClosed := tclosed, cleanupArmed := cleanup, registry := 1,
    browsers := ⟨false, false, true, true⟩ :: List.replicate (ncb - 1) ⟨false, false, false, true⟩,
    outq := 1, tcs := [1], lookups := 0, probing := 1, announcing := 1,
    closes := if afterClose then [⟨false, .returned⟩] else [] }

def isSendOut : Out → Bool
  | .send | .goodbye => true
  | _ => false

def isCallbackOut : Out → Bool
  | .callback => true
  | _ => false

/-- one observed non-close block: the flags were read from the real objects when it started; the observed
emission is the block's intent; the model must enable the block and emit no less than was observed -/
def accepts (k : Kind) (done tclosed rxClosed cleanup afterClose : Bool) (nsend ncb : Nat) (tcDeferred : Nat := 1) : String :=
  -- a host may have several transports (dedicated listen socket + respond socket): `tclosed` = all of them closed (what
  -- `Closed` needs), `rxClosed` = the one this datagram would arrive on; an arrival is judged against the latter
  -- `tcDeferred`: the smallest number of deferred packets over the listener's armed TC timers, read from the real object
  -- when the block started: with 0 the model's timer block raises into the loop, and the block is rejected
  let h := { hostOfFlags done (match k with | .recv => rxClosed | _ => tclosed) cleanup afterClose ncb with tcs := [tcDeferred] }
  let b : Block := match k with
    | .recv => .recv nsend 0 false (ncb > 0) 0
    | .outq => .outqFire (nsend > 0)
    | .tc => .tcFire nsend 0 0
    | .sched => .schedFire 0 nsend
    | .cleanup => .cleanupFire (ncb > 0)
    | .task => .lookupStep nsend false
  match step (match k with | .task => { h with lookups := 1 } | _ => h) b with
  | none => "reject:not-enabled"
  | some (_, out) =>
    let ms := count isSendOut out
    let mc := count isCallbackOut out
    let sendOk := match k with
      | .outq => (nsend = 0) || ms > 0
      | _ => ms = nsend
    let cbOk := match k with
      | .recv | .cleanup => mc = ncb
      | _ => ncb = 0 || !afterClose   -- API-driven callbacks (browser start-up replay) only before close returns
    if out.contains .loopError then "reject:timer-without-packet"
    else if !sendOk then "reject:model-silent-but-sent" else if !cbOk then "reject:model-silent-but-called-back" else "ok"

structure Flags where
  done : Bool
  tclosed : Bool
  cleanup : Bool
  deriving DecidableEq, Repr

def Host.flags (h : Host) : Flags := ⟨h.done, h.transportsClosed, h.cleanupArmed⟩

/-- one real step of one close call, as the harness saw it: the model blocks it amounts to (decided from
which functions ran inside the step), the registry size `generate_unregister_all_services` found (when it ran),
how many goodbye datagrams were transmitted, whether the call raised, and the real flags after the step -/
structure CloseStepObs where
  blocks : List Block
  reg : Option Nat
  goodbyes : Nat
  raised : Option Exc
  after : Flags
  deriving Repr

/-- replay the interleaved steps of all close calls through `run`: every block must be enabled, transmit
exactly the goodbyes the implementation transmitted, raise exactly when it raised, and leave the same flags -/
def replayCloses (h : Host) : List CloseStepObs → List String
  | [] => []
  | ob :: rest =>
    let h0 := match ob.reg with | some n => { h with registry := n } | none => h
    match run h0 ob.blocks with
    | none => "reject:not-enabled" :: replayCloses h rest
    | some (h1, out) =>
      let raisedNow := out.filterMap (fun o => match o with | .raised e => some e | _ => none)
      let verdict :=
        if count isGoodbye out != ob.goodbyes then "reject:goodbyes"
        else if raisedNow != ob.raised.toList then "reject:raise"
        else if h1.flags != ob.after then "reject:flags"
        else "ok"
      verdict :: replayCloses h1 rest

end Zc.Shutdown
