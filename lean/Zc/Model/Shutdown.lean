import Zc.Model.Basic
import Zc.Gen.Const
import Zc.Gen.Shutdown
/-! # Shutdown (`asyncio.py:223-231`, `_core.py:287-296,640-690`, `_engine.py:122-156`, `browser.py:369-375,438,465,719-726,798-811`)

The host as a block machine over the flags that decide whether anything can leave it: `done`, transports
closed, which timers are armed, which tasks are pending, whether the instance owns a loop thread and whether
that loop still runs — and **any number of `async_close()` / `close()` calls in progress at once**, each with
its own program counter, interleaved at block boundaries.
What a block *would* emit is part of the block (an arbitrary input: the theorems quantify over it);
whether it *does* is decided by the generated gates (`Gen.Shutdown.*`).  What each step of the close path
cancels, closes, joins or forgets is read off the source by statement-level leaves and **used** here, so the
executable model follows the tree and the `GenFacts.Shutdown.*_holds` lemmas are what the proofs need.
The places where the close path can raise are explicit outcomes (`Out.raised`):
`NotRunningException` out of `async_wait_for_start` (an API call on a done instance; and — only if
`async_close` did not suppress it, which since fix 25230c1 it does — a close that was waiting for start-up
while another close finished); `CancelledError` (the task awaiting `async_close` is cancelled at one of its
suspension points); `RuntimeError` out of `Thread.join()` when sync `close()` runs on the callback thread of a
browser it has to join (finding D30); `concurrent.futures.TimeoutError` out of `shutdown_loop` on a loop that
another sync `close()` has just stopped (finding D34).
No Mathlib (compiled into `zcdriver`). -/
namespace Zc.Shutdown
open Zc

/-- exceptions that reach the *caller* of a close / API call -/
inductive Exc where
  | notRunning | cancelled
  /-- `RuntimeError("cannot join current thread")` out of `ServiceBrowser.cancel()` (D30) -/
  | runtimeError
  /-- `concurrent.futures.TimeoutError` out of `shutdown_loop()` (`_utils/asyncio.py:121-131`) on a stopped loop (D34) -/
  | timeout
  /-- `EventLoopBlocked` out of `run_coro_with_timeout` (`_utils/asyncio.py:100-118`): a sync close is waiting for a coroutine it
  handed to the loop (`async_unregister_all_services`, `AsyncEngine._async_close`) and the loop has been stopped under it by
  another close's `_shutdown_threads()` — the common form of finding D34 -/
  | loopBlocked
  deriving DecidableEq, Repr

/-- what can leave the host -/
inductive Out where
  | send        -- any datagram handed to a transport
  | goodbye     -- the unregister-all datagram (TTL 0 for every registered service)
  | callback    -- ServiceListener / browser handler / lookup listener invoked
  | raised (e : Exc)   -- an exception delivered to the caller of `async_close` / `close` / an API call (not to the loop)
  | loopError          -- an exception escaping a timer / task callback into the event loop's exception handler
  deriving DecidableEq, Repr

/-- something observable on the network or by a listener (an exception handed back to a caller is not) -/
def Out.isEmission : Out → Bool
  | .send | .goodbye | .callback => true
  | .raised _ | .loopError => false

structure Browser where
  /-- in `AsyncZeroconf.async_browsers` (so `async_close` cancels it) -/
  tracked : Bool
  /-- `_async_cancel` ran -/
  cancelled : Bool
  /-- `query_scheduler._next_run` armed -/
  timer : Bool
  /-- registered with the record manager -/
  listening : Bool
  /-- the thread-based `ServiceBrowser`: state changes are put into a queue on the loop and delivered to the listener by
  the browser's own thread -/
  threaded : Bool := false
  /-- in `Zeroconf.browsers` (made by `Zeroconf.add_service_listener`; always thread-based): `Zeroconf._close()` cancels
  **and joins** it -/
  zcTracked : Bool := false
  /-- state changes sitting in the queue of a thread-based browser, not yet delivered -/
  queued : Nat := 0
  deriving DecidableEq, Repr

/-- program counter of one `async_close()` / `close()` call -/
inductive CStage where
  /-- (async) suspended in `wait_for(async_wait_for_start(), 1)`: the instance had not started yet -/
  | waitingStart
  /-- browsers cancelled, registry emptied, first goodbye out, `left` goodbye sends to go -/
  | unregistering (left : Nat)
  /-- (sync `close()`) `_close()` ran in the caller's thread, `engine.close()` not yet entered -/
  | doneSet
  /-- (sync) `engine.close()` found the loop running and handed `_async_close()` to it (`run_coro_with_timeout`); the coroutine has
  not run yet, the caller's thread is blocked on its result -/
  | submitted
  /-- `_async_shutdown` done on the loop, suspended in `sleep(0)` -/
  | shutdown
  /-- (sync) `engine.close()` has returned, `_shutdown_threads()` not yet entered -/
  | engineClosed
  /-- (sync) `_shutdown_threads()` has found a loop thread and is about to stop the loop and join it -/
  | stopping
  /-- returned normally -/
  | returned
  /-- raised to its caller (`NotRunningException`, `CancelledError`, `RuntimeError`, `TimeoutError`) -/
  | aborted
  deriving DecidableEq, Repr

structure Close where
  /-- `Zeroconf.close()` from another thread (true) or `AsyncZeroconf.async_close()` (false) -/
  sync : Bool
  stage : CStage
  deriving DecidableEq, Repr

def Close.isReturned (c : Close) : Bool := match c.stage with | .returned => true | _ => false

def Close.isStopping (c : Close) : Bool := match c.stage with | .stopping => true | _ => false

/-- a sync close whose thread is blocked in `run_coro_with_timeout` on a coroutine running (or yet to run) on the loop: the goodbyes
after the first, `_async_close()` -/
def Close.waitsOnLoop (c : Close) : Bool :=
  c.sync && (match c.stage with | .unregistering (_ + 1) | .submitted | .shutdown => true | _ => false)

/-- a task suspended in `wait_for_future_set_or_timeout` (`Zeroconf.async_wait` between two probes, `ServiceInfo.async_wait` of a
lookup): a future in the instance's set and a `call_later` handle that resolves it at the deadline -/
inductive Wait where
  /-- future unresolved, handle armed -/
  | pending
  /-- a notification (`async_notify_all`) has resolved the future and emptied the set; the task has not been resumed yet, so the
  handle is **still armed** -/
  | notified
  /-- the handle has fired and resolved the future; the task has not been resumed yet, so the future is **still in the set** -/
  | timedOut
  deriving DecidableEq, Repr

structure Host where
  /-- `Zeroconf.done` -/
  done : Bool
  /-- `engine.running_event.is_set()` -/
  running : Bool
  transportsClosed : Bool
  /-- `engine._cleanup_timer` armed -/
  cleanupArmed : Bool
  /-- number of services in the registry -/
  registry : Nat
  browsers : List Browser
  /-- answer groups waiting in the two aggregation queues (their timer is armed iff > 0) -/
  outq : Nat
  /-- the listener's armed deferred-TC timers (`_timers`), each with the number of packets deferred for its address
  (`len(_deferred[addr])`).  The timer callback does `packets[0]`: a `0` here is an `IndexError` waiting to happen. -/
  tcs : List Nat
  /-- lookups (`async_request`) in progress -/
  lookups : Nat
  /-- `async_check_service` tasks in progress -/
  probing : Nat
  /-- `_async_broadcast_service` tasks in progress -/
  announcing : Nat
  /-- every close call made so far, in call order (entries are never removed, so indices are stable) -/
  closes : List Close
  /-- `Zeroconf._loop_thread is not None`: the instance was created without a running loop and runs its own in a thread -/
  loopThread : Bool := false
  /-- `self.loop.is_running()` -/
  loopRunning : Bool := true
  /-- tasks suspended in `wait_for_future_set_or_timeout` -/
  waits : List Wait := []
  /-- `AsyncEngine._async_setup` has not finished: the endpoints are still being created (`running` is false, no transport exists) -/
  startPending : Bool := false
  /-- sockets opened by a start-up that completed **after** the instance was shut down: open, receiving, and closed by nobody
  (finding R3-C17-a) -/
  lateSockets : Bool := false
  deriving DecidableEq, Repr

/-- API calls that need a running instance -/
inductive Api where
  | register | lookup
  deriving DecidableEq, Repr

/-- atomic blocks.  Numeric/boolean arguments say what the block would emit / do if nothing gated it. -/
inductive Block where
  /-- datagram arrives: immediate answers, answer groups queued, record updates; `defer`: it is a truncated query
  that is parked — for the address of timer `deferAt` if that exists (one more packet, timer re-armed), else for a new
  address (new timer); `answersAt = some i`: it is an untruncated query from the address of timer `i`: `_respond_query`
  cancels that timer, pops the packets deferred for the address and answers them together with this one -/
  | recv (sends queued : Nat) (defer updates : Bool) (deferAt : Nat := 0) (answersAt : Option Nat := none)
  /-- aggregation-queue timer; `ready`: a group is due and is sent -/
  | outqFire (ready : Bool)
  /-- deferred-TC timer `i` fires: `_respond_query(None, addr, …)` pops the deferred packets and answers the assembled
  query — `packets[0]` raises `IndexError` into the loop if nothing is deferred for the address -/
  | tcFire (sends queued : Nat) (i : Nat := 0)
  /-- `protocol.connection_lost(None)`, scheduled by `transport.close()` -/
  | connectionLost
  /-- scheduler timer of browser `i`: `queries` datagrams -/
  | schedFire (i : Nat) (queries : Nat)
  /-- periodic cache cleanup; `expired`: some record expired (listeners are told) -/
  | cleanupFire (expired : Bool)
  /-- `async_check_service` resumes: one probe; `last`: registry add + announce task spawned -/
  | probeStep (last : Bool)
  /-- `_async_broadcast_service` resumes: one announcement / goodbye of a single service -/
  | announceStep (last : Bool)
  /-- `async_request` resumes -/
  | lookupStep (sends : Nat) (finished : Bool)
  /-- the engine finishes starting: endpoints created, `running_event.set()` -/
  | startUp
  /-- `async_register_service` / `async_request` called: `async_wait_for_start` first -/
  | apiCall (k : Api)
  /-- a browser is created (`AsyncServiceBrowser(...)` / `async_add_service_listener` / `ServiceBrowser(...)` /
  `add_service_listener`): it registers as a listener and the cached records of its types are replayed to it (`replay`
  callbacks; for a thread-based browser they go into its queue) — there is no `done` test on this path -/
  | apiBrowse (tracked : Bool) (replay : Nat) (threaded : Bool := false) (zcTracked : Bool := false)
  /-- the thread of thread-based browser `i` takes one state change off its queue and calls the listener -/
  | browserThread (i : Nat)
  /-- a new close call.  async: wait for start if needed, cancel tracked browsers; both:
  `generate_unregister_all_services` + first goodbye (sync: only while the loop runs) -/
  | closeCall (sync : Bool)
  /-- close `i`, suspended waiting for start-up, resumes (`timedOut`: by its own 1 s timeout) -/
  | closeWake (i : Nat) (timedOut : Bool)
  /-- close `i`, 125 ms later: the next goodbye -/
  | closeGoodbye (i : Nat)
  /-- (sync close `i`) `_close()` in the caller's thread: cancel and join the browsers in `Zeroconf.browsers`,
  `done := true`.  `caller = some j`: the calling thread is the callback thread of browser `j` (the listener called
  `close()`); `none`: any other non-loop thread -/
  | closeMarkDone (i : Nat) (caller : Option Nat := none)
  /-- close `i`: async — `Zeroconf._async_close` up to the `sleep(0)` of `engine._async_close`: `_close()` and
  `_async_shutdown()`; sync — `engine.close()` entered from the caller's thread: nothing if the loop does not run,
  otherwise `_async_close()` is submitted to the loop and this block is its first step, `_async_shutdown()` -/
  | closeShutdown (i : Nat)
  /-- close `i` after `sleep(0)`: cleanup timer cancelled, waiters notified; an async call returns, a sync call is back
  from `engine.close()` -/
  | closeFinish (i : Nat)
  /-- (sync close `i`) `_shutdown_threads()`, first half: `notify_all()`; no loop thread → the call returns -/
  | closeThreadsCheck (i : Nat)
  /-- (sync close `i`) `_shutdown_threads()`, second half: `shutdown_loop(loop)` (raises `TimeoutError` when the loop
  no longer runs), join the thread, forget it; the call returns -/
  | closeThreadsStop (i : Nat)
  /-- the task awaiting async close `i` is cancelled at the suspension point it is parked at -/
  | closeAbort (i : Nat)
  /-- (sync close `i`) the safeguard timeout of `run_coro_with_timeout` expires: the coroutine the caller waits for sits on a loop
  that no longer runs — `EventLoopBlocked` out of `close()` -/
  | closeBlocked (i : Nat)
  /-- a task (a probing registration, a lookup) starts to wait: future into the set, timeout handle armed -/
  | waitStart
  /-- `async_notify_all()`: every future in the set is resolved, the set emptied — from a record update, and as the **last step of
  every close** (`_shutdown_threads()` → `notify_all()` → `call_soon_threadsafe`), i.e. one loop iteration *after* the close returned -/
  | notifyAll
  /-- the timeout handle of wait `i` fires -/
  | waitFire (i : Nat)
  /-- the task of wait `i` is resumed (its future is resolved): it cancels the handle and takes the future out of the set -/
  | waitResume (i : Nat)
  deriving DecidableEq, Repr

/-- `async_send`: nothing leaves once `done` -/
def gated (h : Host) (outs : List Out) : List Out := if Gen.Shutdown.send_blocked h.done then [] else outs

/-- record updates reach every listening browser and every lookup in progress; loop-based browsers call their listener
in the block … -/
def notify (h : Host) (updates : Bool) : List Out :=
  if updates then (h.browsers.filter (fun b => b.listening && !b.threaded)).map (fun _ => Out.callback) ++ List.replicate h.lookups Out.callback else []

/-- … thread-based ones get the state change into their queue -/
def enqueue (bs : List Browser) (updates : Bool) : List Browser :=
  if updates then bs.map (fun b => if b.listening && b.threaded then { b with queued := b.queued + 1 } else b) else bs

/-- `_ServiceBrowserBase._async_cancel` on one browser: `done`, `query_scheduler.stop()` (which cancels `_next_run`),
`zc.async_remove_listener(self)` — each statement a translated leaf -/
def asyncCancel (b : Browser) : Browser :=
  { b with cancelled := true,
           timer := if Gen.Shutdown.browser_cancel_stops_scheduler && Gen.Shutdown.scheduler_stop_cancels_timer then false else b.timer,
           listening := if Gen.Shutdown.browser_cancel_removes_listener then false else b.listening }

/-- `async_remove_all_service_listeners` of `AsyncZeroconf.async_close` (translated: the call is there) -/
def cancelTracked (bs : List Browser) : List Browser :=
  if Gen.Shutdown.close_cancels_tracked_browsers then bs.map (fun b => if b.tracked then asyncCancel b else b) else bs

def setTimer (bs : List Browser) (i : Nat) (v : Bool) : List Browser :=
  bs.mapIdx (fun j b => if j = i then { b with timer := v } else b)

/-- does `ServiceBrowser.cancel()` wait for the thread (sentinel put into the queue, `join()`)? -/
def cancelJoins : Bool := Gen.Shutdown.thread_cancel_signals && Gen.Shutdown.thread_cancel_joins

/-- `Zeroconf.remove_service_listener` on one browser of `Zeroconf.browsers`, called from a thread that is not the
browser's own: `cancel()` = sentinel + `_async_cancel` on the loop + `join()` — the thread delivers what was queued
before the sentinel and ends — then `del self.browsers[listener]` -/
def syncCancel (b : Browser) : Browser :=
  { (if Gen.Shutdown.thread_cancel_schedules_async_cancel then asyncCancel b else b) with
      queued := if cancelJoins then 0 else b.queued,
      zcTracked := if Gen.Shutdown.remove_listener_forgets then false else b.zcTracked }

/-- what cancelling the browsers of `Zeroconf.browsers` lets out: the joined thread's remaining callbacks; and, for a
browser whose `_async_cancel` already ran (only possible after D30 left it in `Zeroconf.browsers`), the failing
`assert self._query_sender_task is not None` of the second `_async_cancel`, inside the loop -/
def syncCancelOuts (bs : List Browser) : List Out :=
  bs.flatMap (fun b => if b.zcTracked then (if b.cancelled then [Out.loopError] else List.replicate (if cancelJoins then b.queued else 0) Out.callback) else [])

/-- is the calling thread the callback thread of a browser that `_close()` will try to join? (D30) -/
def selfJoin (h : Host) (caller : Option Nat) : Bool :=
  match caller with
  | none => false
  | some j => match h.browsers[j]? with
    | some b => b.zcTracked && b.threaded && !b.cancelled && cancelJoins && !Gen.Shutdown.thread_cancel_guards_self_join
    | none => false

/-- `Zeroconf._close()`: `if self.done: return`; `remove_all_service_listeners()`; `self.done = True` -/
def zcClose (h : Host) : Host × List Out :=
  if Gen.Shutdown.close_skipped h.done then (h, [])
  else if Gen.Shutdown.close_removes_service_listeners && Gen.Shutdown.remove_listener_cancels then
    ({ h with browsers := h.browsers.map (fun b => if b.zcTracked then syncCancel b else b),
              done := Gen.Shutdown.close_sets_done || h.done }, syncCancelOuts h.browsers)
  else ({ h with done := Gen.Shutdown.close_sets_done || h.done }, [])

/-- park one more truncated query: for timer `i` if armed, else under a new timer -/
def deferOne (tcs : List Nat) (i : Nat) : List Nat :=
  if i < tcs.length then tcs.modify i (· + 1) else tcs ++ [1]

/-- `engine._async_close` after `sleep(0)`: `self._cleanup_timer.cancel()` (translated: the call is there) -/
def cleanupAfterClose (armed : Bool) : Bool := if Gen.Shutdown.engine_close_cancels_cleanup then false else armed

/-- `_async_shutdown`: every transport gets `close()` (translated: the call is there, and it is not `abort()`) -/
def transportsAfterShutdown (closed : Bool) : Bool :=
  if Gen.Shutdown.engine_async_close_shuts_down && Gen.Shutdown.shutdown_closes_transports && !Gen.Shutdown.shutdown_aborts_transports then true else closed

/-- `_async_shutdown`: `running_event.clear()` -/
def runningAfterShutdown (running : Bool) : Bool :=
  if Gen.Shutdown.engine_async_close_shuts_down && Gen.Shutdown.engine_shutdown_clears_running then false else running

/-- `AsyncListener.connection_lost`: does nothing (translated: empty body); anything else is modelled as the worst
case for the timers — the deferred packets are dropped, the timers stay -/
def tcsAfterConnectionLost (tcs : List Nat) : List Nat :=
  if Gen.Shutdown.connection_lost_is_noop then tcs else tcs.map (fun _ => 0)

/-- number of goodbye transmissions of `async_unregister_all_services` after the first -/
def moreGoodbyes : Nat := Gen.registerBroadcasts - 1

def Host.setStage (h : Host) (i : Nat) (sync : Bool) (st : CStage) : Host :=
  { h with closes := h.closes.set i ⟨sync, st⟩ }

/-- the part of a close between "the instance is running (or we stopped waiting)" and the first suspension
of `async_unregister_all_services`: cancel tracked browsers (async only), empty the registry into one
goodbye datagram, transmit it (through the gate) -/
def closeBody (h : Host) (sync : Bool) : Host × List Out × CStage :=
  ({ h with browsers := if sync then h.browsers else cancelTracked h.browsers, registry := 0 },
   if h.registry = 0 then [] else gated h [.goodbye],
   .unregistering (if h.registry = 0 then 0 else moreGoodbyes))

/-- the order of the four steps of `Zeroconf.close()` in the source is the order of the stages here
(`unregister_all_services()`, `_close()`, `engine.close()`, `_shutdown_threads()`); a tree that calls them in another
order is not what `closeCall true` … `closeThreadsStop` describe, and the model then refuses sync closes -/
def syncOrderOk : Bool :=
  Gen.Shutdown.sync_close_unregisters_before_done && Gen.Shutdown.sync_close_done_before_engine_close
    && Gen.Shutdown.sync_close_engine_close_before_threads && Gen.Shutdown.async_close_sets_done_first

/-- does sync `close()` from a non-loop thread send the goodbyes?  only while the loop runs (and the caller is not on
the instance's own loop: `sync_close_skips_goodbyes false`) -/
def syncUnregisters (loopRunning : Bool) : Bool :=
  Gen.Shutdown.sync_close_unregisters_if_loop_running loopRunning && !Gen.Shutdown.sync_close_skips_goodbyes false

/-- does a close that was parked in `wait_for(async_wait_for_start(), 1)` and is woken by the start-up event hand
`NotRunningException` to its caller?  `async_wait_for_start` raises it when the event is no longer set or the
instance is done (another close got there first); `async_close` lets it escape unless its `contextlib.suppress(...)`
lists it.  (Before fix 25230c1 — finding D17 — it did not: `wakeRaises false …`.) -/
def wakeRaises (suppressed running done : Bool) : Bool :=
  Gen.Shutdown.wait_for_start_raises_after running done && !suppressed

/-- does resolving go through the done-guard `_set_future_none_if_not_done` (`if not fut.done(): fut.set_result(None)`)?
`Future.set_result` on a finished future raises `InvalidStateError` — out of a timer / `call_soon` callback, i.e. into the loop -/
def timerOnFinished : List Out :=
  if Gen.Shutdown.waiter_timer_guarded && !Gen.Shutdown.waiter_guard_sets true then [] else [.loopError]

def notifyOnFinished : List Out :=
  if Gen.Shutdown.resolve_all_guarded && !Gen.Shutdown.waiter_guard_sets true then [] else [.loopError]

/-- `none`: the block is not enabled in this state (it cannot occur) -/
def step (h : Host) : Block → Option (Host × List Out)
  | .recv sends queued defer updates deferAt answersAt =>
    -- a closed transport delivers nothing (sockets opened after the shutdown do)
    if h.transportsClosed && !h.lateSockets then none
    else some ({ h with outq := h.outq + queued,
                        tcs := match answersAt with
                          | some i => h.tcs.eraseIdx i
                          | none => if defer then deferOne h.tcs deferAt else h.tcs,
                        browsers := enqueue h.browsers updates },
               gated h (List.replicate sends .send) ++ notify h updates)
  | .outqFire ready =>
    if h.outq = 0 then none
    else some ({ h with outq := if ready then h.outq - 1 else h.outq }, gated h (if ready then [.send] else []))
  | .tcFire sends queued i =>
    match h.tcs[i]? with
    | none => none   -- not armed
    | some 0 => some ({ h with tcs := h.tcs.eraseIdx i }, [.loopError])   -- `packets[0]` on an empty list
    | some (_ + 1) => some ({ h with tcs := h.tcs.eraseIdx i, outq := h.outq + queued }, gated h (List.replicate sends .send))
  | .connectionLost =>
    if !h.transportsClosed then none else some ({ h with tcs := tcsAfterConnectionLost h.tcs }, [])
  | .schedFire i queries =>
    match h.browsers[i]? with
    | none => none
    | some b =>
      if !b.timer then none
      -- the safety test at the top of both scheduler passes: return without re-arming
      else if Gen.Shutdown.startup_pass_blocked h.done || Gen.Shutdown.ready_pass_blocked h.done then
        some ({ h with browsers := setTimer h.browsers i false }, [])
      else some (h, gated h (List.replicate queries .send))
  | .cleanupFire expired =>
    if !h.cleanupArmed then none else some ({ h with browsers := enqueue h.browsers expired }, notify h expired)
  | .probeStep last =>
    if h.probing = 0 then none
    else some (if last then { h with probing := h.probing - 1, registry := h.registry + 1, announcing := h.announcing + 1 } else h,
               gated h [.send])
  | .announceStep last =>
    if h.announcing = 0 then none
    else some (if last then { h with announcing := h.announcing - 1 } else h, gated h [.send])
  | .lookupStep sends finished =>
    if h.lookups = 0 then none
    else some (if finished then { h with lookups := h.lookups - 1 } else h, gated h (List.replicate sends .send))
  | .startUp =>
    if h.startPending then
      -- the instance was closed while its endpoints were being created -- sync `close()` does not wait for start-up at all,
      -- `async_close()` for 1 s --: `_async_setup` goes on, opens the sockets and sets `running_event` unless it looks at `done`
      -- (translated, optional: the repair of finding R3-C17-a)
      if h.done then
        if Gen.Shutdown.startup_closes_when_done h.done then some ({ h with startPending := false }, [])
        else some ({ h with startPending := false, running := true, lateSockets := true }, [])
      else if h.transportsClosed then none
      else some ({ h with startPending := false, running := true }, [])
    else if h.running || h.done || h.transportsClosed then none else some ({ h with running := true }, [])
  | .apiCall k =>
    if Gen.Shutdown.wait_for_start_raises h.done then some (h, [.raised .notRunning])
    else if !h.running then none   -- would wait for start-up first: not modelled
    else match k with
      | .register => some ({ h with probing := h.probing + 1 }, [])
      | .lookup => some ({ h with lookups := h.lookups + 1 }, [])
  | .apiBrowse tracked replay threaded zcTracked =>
    -- the scheduler starts at once only on a started instance (`Zeroconf.started`, translated)
    -- (`Zeroconf.browsers` holds thread-based browsers only, `AsyncZeroconf.async_browsers` loop-based ones only)
    some ({ h with browsers := h.browsers ++ [⟨tracked && !zcTracked, false, Gen.Shutdown.started h.done true h.running, true,
                                               threaded || zcTracked, zcTracked, if threaded || zcTracked then replay else 0⟩] },
          if threaded || zcTracked then [] else List.replicate replay .callback)
  | .browserThread i =>
    match h.browsers[i]? with
    | none => none
    | some b =>
      if !b.threaded || b.queued = 0 then none
      -- `ServiceBrowser.run`: `if event is None: return` — the translated test says whether it also looks at a `done` flag
      else if Gen.Shutdown.thread_run_stops false h.done b.cancelled then
        some ({ h with browsers := h.browsers.set i { b with queued := 0 } }, [])
      else some ({ h with browsers := h.browsers.set i { b with queued := b.queued - 1 } }, [.callback])
  | .closeCall sync =>
    -- `AsyncZeroconf` over an instance that runs its own loop thread: `async_close` would have to be awaited on a foreign
    -- loop (unsupported use); a tree whose sync `close()` calls its steps in another order is not modelled
    if (!sync && h.loopThread) || (sync && !syncOrderOk) then none
    else if !sync && Gen.Shutdown.close_waits_for_start h.done && !h.running then
      some ({ h with closes := h.closes ++ [⟨sync, .waitingStart⟩] }, [])
    else if sync && !syncUnregisters h.loopRunning then
      -- the loop no longer runs (an earlier close stopped it): no goodbyes, the registry is left as it is
      some ({ h with closes := h.closes ++ [⟨sync, .unregistering 0⟩] }, [])
    else
      let r := closeBody h sync
      some ({ r.1 with closes := h.closes ++ [⟨sync, r.2.2⟩] }, r.2.1)
  | .closeWake i timedOut =>
    match h.closes[i]? with
    | some ⟨false, .waitingStart⟩ =>
      if timedOut then
        let r := closeBody h false
        some (r.1.setStage i false r.2.2, r.2.1)
      else if !h.running && !h.done then none   -- the event it waits for has not been set
      else if wakeRaises Gen.Shutdown.close_wait_suppresses_not_running h.running h.done then
        some (h.setStage i false .aborted, [.raised .notRunning])
      else
        let r := closeBody h false
        some (r.1.setStage i false r.2.2, r.2.1)
    | _ => none
  | .closeGoodbye i =>
    match h.closes[i]? with
    | some ⟨sync, .unregistering (k + 1)⟩ =>
      -- (a sync close's goodbyes are a coroutine on the loop: it makes no step once the loop has been stopped)
      if sync && !h.loopRunning then none
      else some (h.setStage i sync (.unregistering k), gated h [.goodbye])
    | _ => none
  | .closeMarkDone i caller =>
    match h.closes[i]? with
    | some ⟨true, .unregistering 0⟩ =>
      if !Gen.Shutdown.close_skipped h.done && selfJoin h caller then
        -- D30: `remove_all_service_listeners()` reaches the browser whose thread we are on: sentinel queued, `_async_cancel`
        -- scheduled (it runs on the loop), `join()` raises; `del self.browsers[...]` and `self.done = True` are not reached
        some ({ h.setStage i true .aborted with
                  browsers := h.browsers.mapIdx (fun j b => if some j = caller then asyncCancel b else b) }, [.raised .runtimeError])
      else
        let r := zcClose h
        some (r.1.setStage i true .doneSet, r.2)
    | _ => none
  | .closeShutdown i =>
    match h.closes[i]? with
    | some ⟨false, .unregistering 0⟩ =>
      let r := zcClose h
      some ({ r.1.setStage i false .shutdown with
               running := runningAfterShutdown h.running, transportsClosed := transportsAfterShutdown h.transportsClosed }, r.2)
    | some ⟨true, .doneSet⟩ =>
      -- `AsyncEngine.close()`, the caller being on a non-loop thread (`engine_close_on_own_loop false`)
      if Gen.Shutdown.engine_close_on_own_loop false then
        some ({ h.setStage i true .engineClosed with
                 running := runningAfterShutdown h.running, transportsClosed := transportsAfterShutdown h.transportsClosed }, [])
      else if Gen.Shutdown.engine_close_skipped h.loopRunning then some (h.setStage i true .engineClosed, [])
      -- `loop.is_running()` was true: `_async_close()` is handed to the loop and the caller blocks on it
      else if Gen.Shutdown.engine_close_awaits_async_close then some (h.setStage i true .submitted, [])
      -- anything else it may start on the loop is not waited for: nothing is known to be closed or cancelled when `close()` goes on
      else some (h.setStage i true .engineClosed, [])
    | some ⟨true, .submitted⟩ =>
      -- the first step of `_async_close()` on the loop: `_async_shutdown()` — if the loop still runs
      if !h.loopRunning then none
      else some ({ h.setStage i true .shutdown with
                    running := runningAfterShutdown h.running, transportsClosed := transportsAfterShutdown h.transportsClosed }, [])
    | _ => none
  | .closeFinish i =>
    match h.closes[i]? with
    | some ⟨false, .shutdown⟩ => some ({ h.setStage i false .returned with cleanupArmed := cleanupAfterClose h.cleanupArmed }, [])
    | some ⟨true, .shutdown⟩ =>
      if !h.loopRunning then none
      else some ({ h.setStage i true .engineClosed with cleanupArmed := cleanupAfterClose h.cleanupArmed }, [])
    | _ => none
  | .closeThreadsCheck i =>
    match h.closes[i]? with
    | some ⟨true, .engineClosed⟩ =>
      some (h.setStage i true (if Gen.Shutdown.shutdown_threads_skipped h.loopThread then .returned else .stopping), [])
    | _ => none
  | .closeThreadsStop i =>
    match h.closes[i]? with
    | some ⟨true, .stopping⟩ =>
      -- `shutdown_loop`: `run_coroutine_threadsafe(...).result(timeout)` on a loop that no longer runs never completes
      if !h.loopRunning then some (h.setStage i true .aborted, [.raised .timeout])
      else some ({ h.setStage i true .returned with
                    loopRunning := if Gen.Shutdown.shutdown_threads_stops_loop then false else h.loopRunning,
                    loopThread := if Gen.Shutdown.shutdown_threads_forgets_thread then false else h.loopThread }, [])
    | _ => none
  | .closeAbort i =>
    match h.closes[i]? with
    | some ⟨false, .waitingStart⟩ | some ⟨false, .unregistering _⟩ | some ⟨false, .shutdown⟩ =>
      some (h.setStage i false .aborted, [.raised .cancelled])
    | _ => none
  | .closeBlocked i =>
    match h.closes[i]? with
    | some c => if c.waitsOnLoop && !h.loopRunning then some (h.setStage i true .aborted, [.raised .loopBlocked]) else none
    | none => none
  | .waitStart => some ({ h with waits := h.waits ++ [.pending] }, [])
  | .notifyAll =>
    -- pending futures are resolved; a future its own handle has already resolved is still in the set: the guard must leave it alone
    some ({ h with waits := h.waits.map (fun w => match w with | .pending => .notified | w => w) },
          if h.waits.contains .timedOut then notifyOnFinished else [])
  | .waitFire i =>
    match h.waits[i]? with
    | some .pending => some ({ h with waits := h.waits.set i .timedOut }, [])
    -- the notification got there first and the task has not been resumed yet: the handle fires on a finished future
    | some .notified => some ({ h with waits := h.waits.eraseIdx i }, timerOnFinished)
    | _ => none
  | .waitResume i =>
    match h.waits[i]? with
    -- (`finally: handle.cancel()`, translated: were the call missing, the handle of a notified wait would stay armed)
    | some .notified => some ({ h with waits := if Gen.Shutdown.waiter_cancels_handle then h.waits.eraseIdx i else h.waits }, [])
    | some .timedOut => some ({ h with waits := h.waits.eraseIdx i }, [])
    | _ => none

def run (h : Host) : List Block → Option (Host × List Out)
  | [] => some (h, [])
  | b :: rest => do
    let (h1, o1) ← step h b
    let (h2, o2) ← run h1 rest
    pure (h2, o1 ++ o2)

/-- some `close()` / `async_close()` call has returned, and the instance is shut -/
def Closed (h : Host) : Prop :=
  h.done = true ∧ h.transportsClosed = true ∧ h.cleanupArmed = false ∧ h.closes.any Close.isReturned = true

instance (h : Host) : Decidable (Closed h) := by unfold Closed; infer_instance

/-- the instance is shut: `done`, every transport closed, the cleanup timer cancelled -/
def Shut (h : Host) : Prop := h.done = true ∧ h.transportsClosed = true ∧ h.cleanupArmed = false

instance (h : Host) : Decidable (Shut h) := by unfold Shut; infer_instance

/-- the flags agree with the program counters of the closes in progress: a close that got as far as the
shutdown has set `done` and closed the transports; one that is back from the engine's close (sync: `engineClosed`,
`stopping`) or has returned has also cancelled the cleanup timer; and **a loop that no longer runs was stopped by a
close that had shut the instance** -/
def WF (h : Host) : Prop :=
  (∀ c ∈ h.closes,
    (c.stage = .doneSet ∨ c.stage = .submitted → h.done = true) ∧
    (c.stage = .shutdown → h.done = true ∧ h.transportsClosed = true) ∧
    (c.stage = .engineClosed ∨ c.stage = .stopping ∨ c.stage = .returned → Shut h)) ∧
  (h.loopRunning = false → Shut h)

/-- every armed deferred-TC timer has something to answer — the flag-machine form of C16's `TimerInv`
("a TC timer is armed only for an address that has a deferred packet", `C16_timer_invariant`) -/
def TcInv (h : Host) : Prop := ∀ n ∈ h.tcs, 0 < n

instance (h : Host) : Decidable (TcInv h) := by unfold TcInv; infer_instance

/-- no browser of `Zeroconf.browsers` has been through `_async_cancel` yet — what keeps `_close()` from running
`_async_cancel` twice (its `assert` would fail inside the loop).  Broken only by the aborted `_close()` of finding D30. -/
def ZcInv (h : Host) : Prop := ∀ b ∈ h.browsers, b.zcTracked = true → b.cancelled = false ∧ b.tracked = false

instance (h : Host) : Decidable (ZcInv h) := by unfold ZcInv; infer_instance

/-- a loop thread that has not been forgotten is still running its loop, and at most one sync close is about to stop it —
what keeps `shutdown_loop` from timing out.  Broken only by overlapping sync closes (finding D34). -/
def LoopInv' (loopThread loopRunning : Bool) (closes : List Close) : Prop :=
  (loopThread = true → loopRunning = true) ∧
  (∀ (i : Nat) (c : Close), closes[i]? = some c → c.waitsOnLoop = true → loopRunning = true) ∧
  (∀ (i : Nat) (c : Close), closes[i]? = some c → c.stage = .stopping → loopRunning = true) ∧
  (∀ (i j : Nat) (ci cj : Close), closes[i]? = some ci → closes[j]? = some cj → ci.stage = .stopping → cj.stage = .stopping → i = j)

def LoopInv (h : Host) : Prop := LoopInv' h.loopThread h.loopRunning h.closes

/-- the D34 class: a sync close enters `_shutdown_threads()` while another one is between its `if not self._loop_thread`
test and `shutdown_loop()` -/
def Block.overlapsStop (h : Host) : Block → Bool
  | .closeThreadsCheck _ => h.closes.any Close.isStopping
  -- … or stops the loop while another sync close is blocked on a coroutine it handed to that loop (its goodbyes, `_async_close()`):
  -- the form of D34 seen in practice (`EventLoopBlocked`)
  | .closeThreadsStop _ => h.closes.any Close.waitsOnLoop
  | _ => false

/-- the D30 class: `_close()` runs on the callback thread of a live browser of `Zeroconf.browsers` -/
def Block.selfJoins (h : Host) : Block → Bool
  | .closeMarkDone _ c => !Gen.Shutdown.close_skipped h.done && selfJoin h c
  | _ => false

/-- start-up had completed (or will notice the close): no socket is or will be opened behind the shutdown — the complement of
finding R3-C17-a's class "closed while the endpoints were still being created" -/
def NoLateStart (h : Host) : Prop := h.startPending = false ∧ h.lateSockets = false

instance (h : Host) : Decidable (NoLateStart h) := by unfold NoLateStart; infer_instance

/-- nothing is waiting in the queue of a thread-based browser -/
def QueuesEmpty (h : Host) : Prop := ∀ b ∈ h.browsers, b.threaded = true → b.queued = 0

instance (h : Host) : Decidable (QueuesEmpty h) := by unfold QueuesEmpty; infer_instance

def isLoopError : Out → Bool
  | .loopError => true
  | _ => false

/-- creating a browser is an API call that calls back by itself (cache replay), closed or not -/
def Block.isBrowse : Block → Bool
  | .apiBrowse _ _ _ _ => true
  | _ => false

def isGoodbye : Out → Bool
  | .goodbye => true
  | _ => false

def count (o : Out → Bool) (l : List Out) : Nat := (l.filter o).length

/-- no registration completes (`probeStep true`: registry add + first announcement) — the complement of finding D15 -/
def Block.noCompletion : Block → Bool
  | .probeStep true => false
  | _ => true

/-- blocks that may be interleaved with close `0` without disturbing its three goodbyes: anything — further
close calls and their goodbyes included — except a completing registration, close `0`'s own blocks, and another
close reaching the point where it sets `done` -/
def Block.mid : Block → Bool
  | .probeStep true => false
  | .closeShutdown _ | .closeMarkDone _ _ => false
  | .closeThreadsStop _ => false   -- (another close stopping the loop: a sync close `0` would never get its goodbyes out — D34)
  | .closeWake i _ | .closeGoodbye i | .closeFinish i | .closeAbort i | .closeThreadsCheck i | .closeBlocked i => i != 0
  | _ => true

/-- interleavable around close `0`'s goodbyes: `mid`, and not a goodbye of any close -/
def Block.mid3 (b : Block) : Bool := b.mid && (match b with | .closeGoodbye _ => false | _ => true)

/-- the close call a block is a step of -/
def Block.closeIndex : Block → Option Nat
  | .closeWake i _ | .closeGoodbye i | .closeMarkDone i _ | .closeShutdown i | .closeFinish i | .closeAbort i
  | .closeThreadsCheck i | .closeThreadsStop i | .closeBlocked i => some i
  | _ => none

/-- progress measure of one close call -/
def Close.rank (c : Close) : Nat :=
  match c.stage with
  | .waitingStart => 13
  | .unregistering n => n + 7
  | .doneSet => 6
  | .submitted => 5
  | .shutdown => 4
  | .engineClosed => 3
  | .stopping => 2
  | .returned | .aborted => 0

/-- the block a close call performs next (a parked call is woken at the latest by its own timeout; a sync call is
taken to come from a thread that is no browser's).  `none`: the call has ended — or the combination cannot arise (a
sync close never parks, an async one never is in `doneSet` / `engineClosed` / `stopping`). -/
def Close.next (c : Close) (k : Nat) (loopRunning : Bool := true) : Option Block :=
  if c.waitsOnLoop && !loopRunning then some (.closeBlocked k) else
  match c.sync, c.stage with
  | false, .waitingStart => some (.closeWake k true)
  | _, .unregistering (_ + 1) => some (.closeGoodbye k)
  | true, .unregistering 0 => some (.closeMarkDone k none)
  | false, .unregistering 0 => some (.closeShutdown k)
  | true, .doneSet => some (.closeShutdown k)
  | true, .submitted => some (.closeShutdown k)
  | _, .shutdown => some (.closeFinish k)
  | true, .engineClosed => some (.closeThreadsCheck k)
  | true, .stopping => some (.closeThreadsStop k)
  | _, _ => none

/-! ### the acceptors used by the correspondence harness -/

inductive Kind where
  | recv | outq | tc | sched | cleanup | task
  deriving DecidableEq, Repr

def hostOfFlags (done tclosed cleanup afterClose : Bool) (ncb : Nat) : Host :=
  { done := done, running := !tclosed, transportsClosed := tclosed, cleanupArmed := cleanup, registry := 1,
    browsers := { tracked := false, cancelled := false, timer := true, listening := true } ::
      List.replicate (ncb - 1) { tracked := false, cancelled := false, timer := false, listening := true },
    outq := 1, tcs := [1], lookups := 0, probing := 1, announcing := 1,
    closes := if afterClose then [⟨false, .returned⟩] else [] }

def isSendOut : Out → Bool
  | .send | .goodbye => true
  | _ => false

def isCallbackOut : Out → Bool
  | .callback => true
  | _ => false

/-- one observed non-close block: the flags were read from the real objects when it started; the observed
emission is the block's intent; the model must enable the block and emit no less than was observed -/
def accepts (k : Kind) (done tclosed rxClosed cleanup afterClose : Bool) (nsend ncb : Nat) (tcDeferred : Nat := 1) : String :=
  -- a host may have several transports (dedicated listen socket + respond socket): `tclosed` = all of them closed (what
  -- `Closed` needs), `rxClosed` = the one this datagram would arrive on; an arrival is judged against the latter
  -- `tcDeferred`: the smallest number of deferred packets over the listener's armed TC timers, read from the real object
  -- when the block started: with 0 the model's timer block raises into the loop, and the block is rejected
  let h := { hostOfFlags done (match k with | .recv => rxClosed | _ => tclosed) cleanup afterClose ncb with tcs := [tcDeferred] }
  let b : Block := match k with
    | .recv => .recv nsend 0 false (ncb > 0) 0
    | .outq => .outqFire (nsend > 0)
    | .tc => .tcFire nsend 0 0
    | .sched => .schedFire 0 nsend
    | .cleanup => .cleanupFire (ncb > 0)
    | .task => .lookupStep nsend false
  match step (match k with | .task => { h with lookups := 1 } | _ => h) b with
  | none => "reject:not-enabled"
  | some (_, out) =>
    let ms := count isSendOut out
    let mc := count isCallbackOut out
    let sendOk := match k with
      | .outq => (nsend = 0) || ms > 0
      | _ => ms = nsend
    let cbOk := match k with
      | .recv | .cleanup => mc = ncb
      | _ => ncb = 0 || !afterClose   -- API-driven callbacks (browser start-up replay) only before close returns
    if out.contains .loopError then "reject:timer-without-packet"
    else if !sendOk then "reject:model-silent-but-sent" else if !cbOk then "reject:model-silent-but-called-back" else "ok"

/-! ### the TC timers threaded through a real history

`accepts` judges a block from the flags read off the real objects when it started; the list `tcs` — the listener's armed
deferral timers with the number of packets each has to answer, the state `TcInv` and "no timer left behind raises" are about — is
**threaded**: the harness reads `[len(_deferred[a]) for a in _timers]` off the real listeners before every block and before the
next one, and the model's `step` must be able to take the one to the other (some choice of the block's free arguments). -/

def sortNat (l : List Nat) : List Nat := l.mergeSort (· ≤ ·)

/-- the model blocks an observed block of this kind may be, given the timers before it -/
def tcCandidates (k : Kind) (before : List Nat) : List Block :=
  match k with
  | .recv =>
    [.recv 0 0 false false 0 none] ++ (List.range (before.length + 1)).map (fun i => Block.recv 0 0 true false i none)
      ++ (List.range before.length).map (fun i => Block.recv 0 0 false false 0 (some i))
  | .tc => (List.range before.length).map (fun i => Block.tcFire 0 0 i)
  | .outq => [.outqFire false]
  | .sched => [.schedFire 0 0]
  | .cleanup => [.cleanupFire false]
  | .task => [.lookupStep 0 false]

/-- does the model explain how the armed TC timers changed over one observed block?  (multisets: the order of a dict of
addresses is not compared) -/
def explainsTcs (k : Kind) (done : Bool) (before after : List Nat) : String :=
  let h : Host := { hostOfFlags done false true false 1 with tcs := before, lookups := 1 }
  if (tcCandidates k before).any (fun b =>
      match step h b with
      | some (h', out) => sortNat h'.tcs == sortNat after && !out.contains .loopError
      | none => false)
  then "ok" else "reject:tcs"

structure Flags where
  done : Bool
  tclosed : Bool
  cleanup : Bool
  deriving DecidableEq, Repr

def Host.flags (h : Host) : Flags := ⟨h.done, h.transportsClosed, h.cleanupArmed⟩

/-- one real step of one close call, as the harness saw it: the model blocks it amounts to (decided from
which functions ran inside the step), the registry size `generate_unregister_all_services` found (when it ran),
how many goodbye datagrams were transmitted, whether the call raised, and the real flags after the step -/
structure CloseStepObs where
  blocks : List Block
  reg : Option Nat
  goodbyes : Nat
  raised : Option Exc
  after : Flags
  deriving Repr

/-- replay the interleaved steps of all close calls through `run`: every block must be enabled, transmit
exactly the goodbyes the implementation transmitted, raise exactly when it raised, and leave the same flags -/
def replayCloses (h : Host) : List CloseStepObs → List String
  | [] => []
  | ob :: rest =>
    let h0 := match ob.reg with | some n => { h with registry := n } | none => h
    match run h0 ob.blocks with
    | none => "reject:not-enabled" :: replayCloses h rest
    | some (h1, out) =>
      let raisedNow := out.filterMap (fun o => match o with | .raised e => some e | _ => none)
      let verdict :=
        if count isGoodbye out != ob.goodbyes then "reject:goodbyes"
        else if raisedNow != ob.raised.toList then "reject:raise"
        else if h1.flags != ob.after then "reject:flags"
        else "ok"
      verdict :: replayCloses h1 rest

/-! ### sync closes on real threads (`harness/c17_threads.py`)

What the harness reads off the real objects around **each of the four calls** `Zeroconf.close()` makes
(`unregister_all_services`, `_close`, `engine.close`, `_shutdown_threads` — wrapped at class level): the state before,
what was transmitted / called back / raised inside, the state after.  The model blocks the call amounts to are
determined by the call; the model must enable them, raise exactly when the implementation raised and leave exactly
the observed state. -/

/-- what is read off a real instance -/
structure SyncSnap where
  done : Bool
  tclosed : Bool
  cleanup : Bool
  loopThread : Bool
  loopRunning : Bool
  registry : Nat
  /-- `len(Zeroconf.browsers)` -/
  zcBrowsers : Nat
  /-- how many of them have been through `_async_cancel` (`browser.done`) -/
  zcCancelled : Nat
  deriving DecidableEq, Repr

def Host.syncSnap (h : Host) : SyncSnap :=
  ⟨h.done, h.transportsClosed, h.cleanupArmed, h.loopThread, h.loopRunning, h.registry,
   (h.browsers.filter (·.zcTracked)).length, (h.browsers.filter (fun b => b.zcTracked && b.cancelled)).length⟩

/-- a host with exactly the observed state: the thread-based browsers of `Zeroconf.browsers`, the cancelled ones first -/
def hostOfSnap (s : SyncSnap) (closes : List Close) : Host :=
  { done := s.done, running := !s.tclosed, transportsClosed := s.tclosed, cleanupArmed := s.cleanup, registry := s.registry,
    browsers := List.replicate s.zcCancelled { tracked := false, cancelled := true, timer := false, listening := false,
                                               threaded := true, zcTracked := true, queued := 0 } ++
      List.replicate (s.zcBrowsers - s.zcCancelled) { tracked := false, cancelled := false, timer := true, listening := true,
                                                      threaded := true, zcTracked := true, queued := 0 },
    outq := 0, tcs := [], lookups := 0, probing := 0, announcing := 0, closes := closes,
    loopThread := s.loopThread, loopRunning := s.loopRunning }

/-- the four calls of `Zeroconf.close()` -/
inductive SyncCall where
  | unregister | markDone (caller : Option Nat) | engineClose | threads
  deriving DecidableEq, Repr

/-- the stage a sync close is in when it enters the call, and the model blocks the call amounts to when it runs to its end -/
def SyncCall.entry (before : SyncSnap) : SyncCall → CStage × List Block
  | .unregister => (.aborted, [.closeCall true] ++ (if syncUnregisters before.loopRunning && before.registry != 0 then [.closeGoodbye 0, .closeGoodbye 0] else []))
  | .markDone c => (.unregistering 0, [.closeMarkDone 0 c])
  | .engineClose => (.doneSet, [.closeShutdown 0] ++
      (if !Gen.Shutdown.engine_close_skipped before.loopRunning && Gen.Shutdown.engine_close_awaits_async_close then [.closeShutdown 0, .closeFinish 0] else []))
  | .threads => (.engineClosed, [.closeThreadsCheck 0] ++ (if Gen.Shutdown.shutdown_threads_skipped before.loopThread then [] else [.closeThreadsStop 0]))

/-- judge one observed call: `goodbyes` datagrams with TTL-0 records transmitted inside it, `raised` what it raised -/
def acceptSyncCall (call : SyncCall) (before after : SyncSnap) (goodbyes : Nat) (raised : Option Exc) : String :=
  let (st, blocks) := call.entry before
  let h0 := hostOfSnap before (match call with | .unregister => [] | _ => [⟨true, st⟩])
  match run h0 blocks with
  | none => "reject:not-enabled"
  | some (h1, out) =>
    let raisedNow := out.filterMap (fun o => match o with | .raised e => some e | _ => none)
    if raisedNow != raised.toList then "reject:raise"
    else if count isGoodbye out != goodbyes then "reject:goodbyes"
    else if h1.syncSnap != after then
      let m := h1.syncSnap
      s!"reject:state:model:done={m.done},tclosed={m.tclosed},cleanup={m.cleanup},loopThread={m.loopThread},loopRunning={m.loopRunning},registry={m.registry},zcBrowsers={m.zcBrowsers},zcCancelled={m.zcCancelled}"
    else "ok"

end Zc.Shutdown
