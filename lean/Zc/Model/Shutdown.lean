import Zc.Model.Basic
import Zc.Gen.Const
import Zc.Gen.Shutdown
/-! # Shutdown (`asyncio.py:223-231`, `_core.py:608-665`, `_engine.py:122-140`, `browser.py:369-375,438,465,719-726`)

The host as a block machine over the flags that decide whether anything can leave it: `done`, transports
closed, which timers are armed, which tasks are pending.  What a block *would* emit is part of the block
(an arbitrary input: the theorems quantify over it); whether it *does* is decided by the generated gates
(`Gen.Shutdown.*`).  No Mathlib (compiled into `zcdriver`). -/
namespace Zc.Shutdown
open Zc

/-- what can leave the host -/
inductive Out where
  | send        -- any datagram handed to a transport
  | goodbye     -- the unregister-all datagram (TTL 0 for every registered service)
  | callback    -- ServiceListener / browser handler / lookup listener invoked
  deriving DecidableEq, Repr

structure Browser where
  /-- in `AsyncZeroconf.async_browsers` (so `async_close` cancels it) -/
  tracked : Bool
  /-- `_async_cancel` ran -/
  cancelled : Bool
  /-- `query_scheduler._next_run` armed -/
  timer : Bool
  /-- registered with the record manager -/
  listening : Bool
  deriving DecidableEq, Repr

/-- progress of `AsyncZeroconf.async_close` -/
inductive Stage where
  | idle                          -- not running
  | unregistering (left : Nat)    -- browsers cancelled, first goodbye out, `left` goodbye sends to go
  | shutdown                      -- `_close` + `_async_shutdown` done, suspended in `sleep(0)`
  | closed                        -- returned
  deriving DecidableEq, Repr

structure Host where
  /-- `Zeroconf.done` -/
  done : Bool
  /-- `engine.running_event.is_set()` -/
  running : Bool
  transportsClosed : Bool
  /-- `engine._cleanup_timer` armed -/
  cleanupArmed : Bool
  /-- number of services in the registry -/
  registry : Nat
  browsers : List Browser
  /-- answer groups waiting in the two aggregation queues (their timer is armed iff > 0) -/
  outq : Nat
  /-- armed deferred-TC timers -/
  tc : Nat
  /-- lookups (`async_request`) in progress -/
  lookups : Nat
  /-- `async_check_service` tasks in progress -/
  probing : Nat
  /-- `_async_broadcast_service` tasks in progress -/
  announcing : Nat
  stage : Stage
  deriving DecidableEq, Repr

/-- atomic blocks.  Numeric/boolean arguments say what the block would emit / do if nothing gated it. -/
inductive Block where
  /-- datagram arrives: immediate answers, answer groups queued, a TC deferral, record updates -/
  | recv (sends queued : Nat) (defer updates : Bool)
  /-- aggregation-queue timer; `ready`: a group is due and is sent -/
  | outqFire (ready : Bool)
  /-- deferred-TC timer: assembled query answered -/
  | tcFire (sends queued : Nat)
  /-- scheduler timer of browser `i`: `queries` datagrams -/
  | schedFire (i : Nat) (queries : Nat)
  /-- periodic cache cleanup; `expired`: some record expired (listeners are told) -/
  | cleanupFire (expired : Bool)
  /-- `async_check_service` resumes: one probe; `last`: registry add + announce task spawned -/
  | probeStep (last : Bool)
  /-- `_async_broadcast_service` resumes: one announcement / goodbye of a single service -/
  | announceStep (last : Bool)
  /-- `async_request` resumes -/
  | lookupStep (sends : Nat) (finished : Bool)
  /-- `async_close` entered: wait for start, cancel tracked browsers, `generate_unregister_all_services`, first goodbye -/
  | closeCall
  /-- 125 ms later: the next goodbye -/
  | closeGoodbye
  /-- `_close` (done := true) and `_async_shutdown` (running cleared, transports closed) -/
  | closeShutdown
  /-- after `sleep(0)`: cleanup timer cancelled, waiters notified; `async_close` returns -/
  | closeFinish
  deriving DecidableEq, Repr

def Block.isClose : Block → Bool
  | .closeCall | .closeGoodbye | .closeShutdown | .closeFinish => true
  | _ => false

/-- `async_send`: nothing leaves once `done` -/
def gated (h : Host) (outs : List Out) : List Out := if Gen.Shutdown.send_blocked h.done then [] else outs

/-- record updates reach every listening browser and every lookup in progress -/
def notify (h : Host) (updates : Bool) : List Out :=
  if updates then (h.browsers.filter (·.listening)).map (fun _ => Out.callback) ++ List.replicate h.lookups Out.callback else []

def cancelTracked (bs : List Browser) : List Browser :=
  bs.map (fun b => if b.tracked then { b with cancelled := true, timer := false, listening := false } else b)

def setTimer (bs : List Browser) (i : Nat) (v : Bool) : List Browser :=
  bs.mapIdx (fun j b => if j = i then { b with timer := v } else b)

/-- number of goodbye transmissions of `async_unregister_all_services` after the first -/
def moreGoodbyes : Nat := Gen.registerBroadcasts - 1

/-- `none`: the block is not enabled in this state (it cannot occur) -/
def step (h : Host) : Block → Option (Host × List Out)
  | .recv sends queued defer updates =>
    -- a closed transport delivers nothing
    if h.transportsClosed then none
    else some ({ h with outq := h.outq + queued, tc := h.tc + (if defer then 1 else 0) },
               gated h (List.replicate sends .send) ++ notify h updates)
  | .outqFire ready =>
    if h.outq = 0 then none
    else some ({ h with outq := if ready then h.outq - 1 else h.outq }, gated h (if ready then [.send] else []))
  | .tcFire sends queued =>
    if h.tc = 0 then none
    else some ({ h with tc := h.tc - 1, outq := h.outq + queued }, gated h (List.replicate sends .send))
  | .schedFire i queries =>
    match h.browsers[i]? with
    | none => none
    | some b =>
      if !b.timer then none
      -- the safety test at the top of both scheduler passes: return without re-arming
      else if Gen.Shutdown.startup_pass_blocked h.done || Gen.Shutdown.ready_pass_blocked h.done then
        some ({ h with browsers := setTimer h.browsers i false }, [])
      else some (h, gated h (List.replicate queries .send))
  | .cleanupFire expired =>
    if !h.cleanupArmed then none else some (h, notify h expired)
  | .probeStep last =>
    if h.probing = 0 then none
    else some (if last then { h with probing := h.probing - 1, registry := h.registry + 1, announcing := h.announcing + 1 } else h,
               gated h [.send])
  | .announceStep last =>
    if h.announcing = 0 then none
    else some (if last then { h with announcing := h.announcing - 1 } else h, gated h [.send])
  | .lookupStep sends finished =>
    if h.lookups = 0 then none
    else some (if finished then { h with lookups := h.lookups - 1 } else h, gated h (List.replicate sends .send))
  | .closeCall =>
    match h.stage with
    | .idle | .closed =>
      -- tracked browsers cancelled; registry emptied into one goodbye datagram (if any service)
      let h1 := { h with browsers := cancelTracked h.browsers, registry := 0 }
      let out := if h.registry = 0 then [] else gated h [.goodbye]
      some ({ h1 with stage := match h.stage with
                | .closed => .closed
                | _ => .unregistering (if h.registry = 0 then 0 else moreGoodbyes) }, out)
    | _ => none   -- (a second concurrent close is a different machine; not modelled)
  | .closeGoodbye =>
    match h.stage with
    | .unregistering (k + 1) => some ({ h with stage := .unregistering k }, gated h [.goodbye])
    | .closed => some (h, gated h [.goodbye])
    | _ => none
  | .closeShutdown =>
    match h.stage with
    | .unregistering 0 =>
      some ({ h with done := true, running := false, transportsClosed := true, stage := .shutdown }, [])
    | .closed => some ({ h with running := false, transportsClosed := true }, [])
    | _ => none
  | .closeFinish =>
    match h.stage with
    | .shutdown => some ({ h with cleanupArmed := false, stage := .closed }, [])
    | .closed => some ({ h with cleanupArmed := false }, [])
    | _ => none

def run (h : Host) : List Block → Option (Host × List Out)
  | [] => some (h, [])
  | b :: rest => do
    let (h1, o1) ← step h b
    let (h2, o2) ← run h1 rest
    pure (h2, o1 ++ o2)

/-- `async_close` has returned -/
def Closed (h : Host) : Prop :=
  h.done = true ∧ h.transportsClosed = true ∧ h.cleanupArmed = false ∧ h.stage = .closed

instance (h : Host) : Decidable (Closed h) := by unfold Closed; infer_instance

/-- blocks that may be interleaved with a running close: everything except the close's own blocks and the
completion of a registration (`probeStep true`: registry add + first announcement) -/
def Block.mid : Block → Bool
  | .closeCall | .closeGoodbye | .closeShutdown | .closeFinish => false
  | .probeStep true => false
  | _ => true

def isGoodbye : Out → Bool
  | .goodbye => true
  | _ => false

/-! ### the acceptor used by the correspondence harness

The harness reads `(done, transports closed, cleanup armed)` from the real objects at the start of every
block and reports what the block emitted.  `accepts` replays the block through `step` on a host with
those flags and everything else in flight, with the observed emission as the block's intent: the model
must allow the block and must emit no less than was observed. -/

inductive Kind where
  | recv | outq | tc | sched | cleanup | task | close
  deriving DecidableEq, Repr

def hostOfFlags (done tclosed cleanup afterClose : Bool) (ncb : Nat) : Host :=
  { done := done, running := !tclosed, transportsClosed := tclosed, cleanupArmed := cleanup, registry := 1,
    browsers := ⟨false, false, true, true⟩ :: List.replicate (ncb - 1) ⟨false, false, false, true⟩,
    outq := 1, tc := 1, lookups := 0, probing := 1, announcing := 1,
    stage := if afterClose then .closed else .idle }

def count (o : Out → Bool) (l : List Out) : Nat := (l.filter o).length

def isSendOut : Out → Bool
  | .send | .goodbye => true
  | .callback => false

def accepts (k : Kind) (done tclosed rxClosed cleanup afterClose : Bool) (nsend ncb : Nat) : String :=
  -- a host may have several transports (dedicated listen socket + respond socket): `tclosed` = all of them closed (what
  -- `Closed` needs), `rxClosed` = the one this datagram would arrive on; an arrival is judged against the latter
  let h := hostOfFlags done (match k with | .recv => rxClosed | _ => tclosed) cleanup afterClose ncb
  let b : Block := match k with
    | .recv => .recv nsend 0 false (ncb > 0)
    | .outq => .outqFire (nsend > 0)
    | .tc => .tcFire nsend 0
    | .sched => .schedFire 0 nsend
    | .cleanup => .cleanupFire (ncb > 0)
    | .task => .lookupStep nsend false
    | .close => .closeGoodbye
  -- generic task / close blocks may send several datagrams: only "some vs none" is compared for them
  match step (match k with | .task => { h with lookups := 1 } | .close => { h with stage := if afterClose then .closed else .unregistering 1 } | _ => h) b with
  | none => "reject:not-enabled"
  | some (_, out) =>
    let ms := count isSendOut out
    let mc := count (fun o => !isSendOut o) out
    let sendOk := match k with
      | .close | .outq => (nsend = 0) || ms > 0
      | _ => ms = nsend
    let cbOk := match k with
      | .recv | .cleanup => mc = ncb
      | _ => ncb = 0 || !afterClose   -- API-driven callbacks (browser start-up replay) only before close returns
    if !sendOk then "reject:model-silent-but-sent" else if !cbOk then "reject:model-silent-but-called-back" else "ok"

end Zc.Shutdown
