import Zc.Model.SurviveRoute
/-! # C15 ∘ C03 ∘ C12/C11 — routing per question

`Survive.Route.rest` interprets `Rest.route`, which is handed the answer map of all questions *merged*; which entry belongs
to which question was a parameter there (`attrib`).  `_QueryResponse`, however, routes **per strategy** — each
`_AnswerStrategy` carries its question, and the question's QU bit decides between `add_qu_question_response` and
`add_ucast_/add_mcast_question_response`.  C03's model knows this: `strategiesFor reg q` are the strategies of question `q`
and `Strategy.answer` what each of them answers.  This file threads that through: a downstream `downQ` that differs from
`Survive.Comp.down` only in its `answer`, which

1. calls `Zc.respond` exactly as before (memo fills, the merged map — used for the table of record objects and for decoding),
2. recomputes, per packet and per question, the strategies and their answer maps (`perPacket`: the same `strategiesFor` /
   `Strategy.answer` calls `Zc.respond` makes, with the same union of known answers), and
3. hands them, strategy by strategy with the question's QU bit, to the reply model's `asyncResponse`.

`Rest`, `RouteOK` and everything else of `SurviveComp` are untouched; listeners, `enqueue` and `ingest` are those of
`Survive.Route.rest`.  No Mathlib. -/
namespace Zc.Survive.RouteQ
open Zc Zc.Survive Zc.Survive.Comp Zc.Survive.Route

section
variable (lower : String → String) (ettl : Nat)

/-- one strategy of one question: the question's QU bit and what `_answer_question` yields for it -/
abbrev StratAns := Bool × DictRS

/-- `_get_answer_strategies(question)` and `_answer_question(…)` for every question of one packet, in order;
the registry lookups can raise `KeyError` (they cannot under C03's `IndexInv`) -/
def perQuestions (reg : Registry) (known : List Rec) : List Question → Except PyExc (List StratAns)
  | [] => .ok []
  | q :: qs =>
    match strategiesFor lower reg q with
    | .error e => .error e
    | .ok sts =>
      match perQuestions reg known qs with
      | .error e => .error e
      | .ok rest => .ok (sts.map (fun st => (q.unique, st.answer lower ettl known)) ++ rest)

def perPacket (reg : Registry) (known : List Rec) : List Survive.Pkt → Except PyExc (List (List StratAns))
  | [] => .ok []
  | k :: ks =>
    match perQuestions lower ettl reg known (msgOf k).questions with
    | .error e => .error e
    | .ok a =>
      match perPacket reg known ks with
      | .error e => .error e
      | .ok rest => .ok (a :: rest)

/-- the strategies of a packet as the reply model reads them: ids from the table, no known answers left to apply -/
def toItemsQ (tbl : List Rec) (sas : List StratAns) : List Reply.QItem :=
  sas.map (fun sa =>
    { qu := sa.1
      cands := sa.2.map (fun p => { id := idOf lower tbl p.1, ttl := p.1.ttl, adds := p.2.map (idOf lower tbl), sup := false }) })

def toPktQ (tbl : List Rec) (k : Survive.Pkt) (sas : List StratAns) : Reply.Pkt :=
  { dataId := 0, now := k.now, id := k.p.hdr.id, flags := k.p.hdr.flags, numAuth := k.p.hdr.nau,
    nq := k.p.questions.length, q0type := (k.p.questions.head?.map (·.qtype)).getD 0,
    items := toItemsQ lower tbl sas, known := [] }

def stratRecords (items : List (List StratAns)) : List Rec := items.flatMap (fun l => l.flatMap (fun sa => dictRecords sa.2))

/-- `_QueryResponse` + question history, strategy by strategy -/
def routeQ (st : RState) (c : Cache) (ks : List Survive.Pkt) (u : Bool) (dict : DictRS) (items : List (List StratAns)) :
    RState × Routed :=
  let tbl := internAll lower st.recs (dictRecords dict ++ stratRecords items)
  let st' := { st with recs := tbl, history := historyAfter lower st.history ks }
  match Reply.asyncResponse (List.zipWith (toPktQ lower tbl) ks items) u (seenOf lower c tbl) with
  | none => (st', emptyRouted)
  | some qa =>
    (st', ⟨decode lower tbl dict qa.ucast, decode lower tbl dict qa.mcastNow,
           decode lower tbl dict qa.mcastAgg, decode lower tbl dict qa.mcastLast⟩)

variable (possible : String → List String) (orc : Oracle) {ρ₀ ω : Type} (B : Base ρ₀ ω)

/-- `QueryHandler.async_response(packets, ucast_source)` with the routing done per strategy -/
def answerQ (d : CState (ρ₀ × RState)) (ks : List Survive.Pkt) (u : Bool) :
    Except PyExc (CState (ρ₀ × RState) × Option Survive.QA) :=
  match Zc.respond lower ettl d.reg (ks.map msgOf) with
  | .error e => .error e
  | .ok (none, reg') => .ok ({ d with reg := reg', pending := none }, none)
  | .ok (some dict, reg') =>
    match perPacket lower ettl d.reg (knownOf (ks.map msgOf)) ks with
    | .error e => .error e
    | .ok items =>
      let x := routeQ lower d.rest.2 d.cache ks u dict items
      .ok ({ d with reg := reg', rest := (d.rest.1, x.1), pending := some x.2 },
           some ⟨setOf lower x.2.ucast, setOf lower x.2.mcastNow, !x.2.aggregate.isEmpty, !x.2.aggregateLast.isEmpty⟩)

/-- the composed downstream with per-question routing; everything but `answer` is `Survive.Comp.down` over `Survive.Route.rest` -/
def downQ : Down (CState (ρ₀ × RState)) (COut ω) :=
  { Comp.down lower possible ettl (Route.rest lower (fun _ _ => true) orc B) with answer := answerQ lower ettl }

end

end Zc.Survive.RouteQ
