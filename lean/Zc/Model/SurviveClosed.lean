import Zc.Model.SurviveApi
import Zc.Model.SurviveRouteQ
/-! # C15 — the closed composite: every block of a running instance, and the loop's clock

`HBlock` lists every kind of atomic block the event loop runs on a started instance that has not been closed (C17 owns the
close): datagram arrival, deferred-query timer, a browser's query timer, a lookup's query transmission, a queue flush, and the
blocks of `Model/SurviveApi` (registration API, browser / lookup start and stop, periodic purge, listener and future bookkeeping).
`hstep` runs one block on the host `Zc.Survive.State` over the fully interpreted composite state; nothing is left uninterpreted
but the application's listener code `U` (and the parameters every theorem quantifies over: case folding `lower`, `possible`,
`attrib`, `orc`, `upd`, bucket size estimate `sz`).

The timer blocks are run **unguarded**: `Model/SurviveTimers.timerStep` mapped a clock reading earlier than a cached record's
creation to a no-op; here the clock discipline is a property of the history (`Mono`: the event loop's clock never runs
backwards — the `monotone` clause of C12's `LoopAx`), and "no cached record was created after the current clock reading"
(`ClockInv`) is an invariant of such histories instead of an enabledness test.  No Mathlib. -/
namespace Zc.Survive.Closed
open Zc Zc.Wire Zc.Survive Zc.Survive.Comp Zc.Survive.Route Zc.Survive.User Zc.Survive.Api
open Zc.Listener (Addr)

inductive HBlock (υ : Type) where
  | recv (data : Bytes) (addr : Addr) (port : Nat) (now : Ms) (draw : Nat)
  | tcFire (addr : Addr)
  | browserFire (i : Nat) (done : Bool) (now : Ms)
  | lookupQuery (j : Nat) (now : Ms) (qu : Bool)
  | flush (delay : Bool) (now : Ms)
  | api (b : ApiBlock υ)

/-- the clock reading a block makes (`current_time_millis()` / `loop.time()`), if it makes one -/
def HBlock.time {υ : Type} : HBlock υ → Option Ms
  | .recv _ _ _ now _ => some now
  | .tcFire _ => none
  | .browserFire _ _ now => some now
  | .lookupQuery _ now _ => some now
  | .flush _ now => some now
  | .api (.browserStart _ now) => some now
  | .api (.schedStart _ _ now) => some now
  | .api (.lookupStart _ now) => some now
  | .api (.purge now) => some now
  | .api _ => none

/-- **the loop's clock never runs backwards**: every reading is at least the previous one -/
def Mono {υ : Type} : Ms → List (HBlock υ) → Prop
  | _, [] => True
  | c, b :: rest =>
    match b.time with
    | some t => c ≤ t ∧ Mono t rest
    | none => Mono c rest

/-- the last clock reading of a history that started at `c` -/
def lastTime {υ : Type} : Ms → List (HBlock υ) → Ms
  | c, [] => c
  | c, b :: rest => lastTime (b.time.getD c) rest

section
variable (lower : String → String) (possible : String → List String) (ettl : Nat)
variable (attrib : Question → Rec → Bool) (orc : Route.Oracle) (sz : QueryGen.QOut → Nat)
variable {υ ω : Type} (U : UserL υ ω) (upd : Ms → List (Rec × Option Rec) → Nat → Bool)

/-- the downstream of the listener with every component interpreted -/
def down : Down (CS υ) (COut ω) := Comp.down lower possible ettl (Route.rest lower attrib orc (userBase U upd))

def lift (s : State (CS υ)) (r : Except PyExc (CS υ × List (List Bytes))) : Except PyExc (State (CS υ) × List (Out (COut ω))) :=
  match r with
  | .error e => .error e
  | .ok (d, pks) => .ok ({ s with down := d }, pks.map (fun pk => Out.down (COut.sent pk)))

/-- the same with `_QueryResponse` routing **per strategy of each question** (`Model/SurviveRouteQ`): everything but `answer` is `down` -/
def downQ : Down (CS υ) (COut ω) := RouteQ.downQ lower ettl possible orc (userBase U upd)

/-- one block of the closed composite over the listener's downstream `D` (`down` or `downQ`); `.error` is an exception reaching the
event loop (or, for `tcFire` of an address without an armed timer, the marker `KeyError` of a block the loop cannot run) -/
def hstepD (D : Down (CS υ) (COut ω)) (s : State (CS υ)) : HBlock υ → Except PyExc (State (CS υ) × List (Out (COut ω)))
  | .recv data addr port now draw => (recv D s data addr port now draw).map (fun r => (r.1, r.2.1))
  | .tcFire addr => (tcFire D s addr).map (fun r => (r.1, r.2.1))
  | .browserFire i done now => lift s (browserFire lower sz s.down i done now)
  | .lookupQuery j now qu => lift s (lookupQuery lower s.down j now qu)
  | .flush delay now => lift s (flushStep lower s.down delay now)
  | .api b =>
    match apiStep lower possible U upd s.down b with
    | .error e => .error e
    | .ok (d, o) => .ok ({ s with down := d }, o.map Out.down)

def hrunD (D : Down (CS υ) (COut ω)) : State (CS υ) → List (HBlock υ) → Except PyExc (State (CS υ) × List (Out (COut ω)))
  | s, [] => .ok (s, [])
  | s, b :: rest =>
    match hstepD lower possible sz U upd D s b with
    | .error e => .error e
    | .ok (s1, o1) =>
      match hrunD D s1 rest with
      | .error e => .error e
      | .ok (s2, o2) => .ok (s2, o1 ++ o2)

/-- over the downstream with the merged routing (`attrib` a parameter) -/
abbrev hstep (s : State (CS υ)) (b : HBlock υ) := hstepD lower possible sz U upd (down lower possible ettl attrib orc U upd) s b
abbrev hrun (s : State (CS υ)) (bs : List (HBlock υ)) := hrunD lower possible sz U upd (down lower possible ettl attrib orc U upd) s bs

end

end Zc.Survive.Closed
