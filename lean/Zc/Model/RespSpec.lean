import Zc.Model.Registry
/-! The sentence of property C03 as executable predicates (no `Gen` constant is used here: the numbers are
the DNS type/class codes the English names denote — PTR 12, A 1, AAAA 28, SRV 33, TXT 16, NSEC 47, ANY 255,
class IN 1 — and the enumeration name of RFC 6763 §9).

These are the functions the theorems of `Props/C03.lean` conclude with **and** the functions the driver
evaluates on the implementation's observations (stage O). -/
namespace Zc.RespSpec
open Zc

def enumName : String := "_services._dns-sd._udp.local."

/-! the records a registered service owns, built from its *fields* (never from a memo) -/
def ptrOf (s : Svc) : Rec := ⟨s.type, 12, 1, false, s.otherTtl, 0, .ptr s.name⟩
def srvOf (s : Svc) : Rec := ⟨s.name, 33, 1, true, s.hostTtl, 0, .srv s.priority s.weight s.port s.server⟩
def txtOf (s : Svc) : Rec := ⟨s.name, 16, 1, true, s.otherTtl, 0, .txt s.text⟩
def addrsOf (s : Svc) : List Rec :=
  s.v4.map (fun a => ⟨s.server, 1, 1, true, s.hostTtl, 0, .addr a none⟩)
  ++ s.v6.map (fun a => ⟨s.server, 28, 1, true, s.hostTtl, 0, .addr a none⟩)
/-- the address types the service has no address of -/
def missing (s : Svc) : List Nat := (if s.v4.isEmpty then [1] else []) ++ (if s.v6.isEmpty then [28] else [])
def nsecOf (s : Svc) : List Rec :=
  if (missing s).isEmpty then [] else [⟨s.name, 47, 1, true, s.hostTtl, 0, .nsec s.name (missing s)⟩]
/-- the type-enumeration pointer for a (lower-cased) type; it has no service TTL, `ettl` is the responder's
default for shared records -/
def enumPtr (ettl : Nat) (t : String) : Rec := ⟨enumName, 12, 1, false, ettl, 0, .ptr t⟩

section
variable (lower : String → String) (ettl : Nat)

/-- the records of service `s` that answer question `q` (names matched case-insensitively):
PTR for the type (or subtype) name and for the enumeration name, SRV/TXT for the instance name,
A/AAAA for the host name, NSEC when the asked address type does not exist.  The enumeration meta-query is a
*PTR* question (RFC 6763 §9) and takes precedence over a type that happens to be spelled like it;
`ANY` on a host name is outside the claim and yields nothing. -/
def candidates (s : Svc) (q : Question) : List Rec :=
  let n := lower q.name
  if q.type = 12 ∧ n = enumName then [enumPtr ettl (lower s.type)]
  else
    (if (q.type = 12 ∨ q.type = 255) ∧ n = lower s.type then [ptrOf s] else [])
    ++ (if (q.type = 1 ∨ q.type = 28) ∧ n = lower s.server then
          (addrsOf s).filter (fun a => a.type = q.type) ++ (if q.type ∈ missing s then nsecOf s else [])
        else [])
    ++ (if (q.type = 33 ∨ q.type = 255) ∧ n = lower s.name then [srvOf s] else [])
    ++ (if (q.type = 16 ∨ q.type = 255) ∧ n = lower s.name then [txtOf s] else [])

/-- the records of `s` that *may* be offered for `q` (soundness side).  The property exempts `ANY` questions on host names from
the completeness claim only: a responder that answers `ANY <host>` with the host's address records offers records of a
registered service that answer the question, so they are allowed here (the code as shipped offers nothing for such a question). -/
def candidatesS (s : Svc) (q : Question) : List Rec :=
  candidates lower ettl s q
  ++ (if q.type = 255 ∧ lower q.name = lower s.server then addrsOf s else [])

/-- every record `s` can ever be asked for -/
def own (s : Svc) : List Rec := [enumPtr ettl (lower s.type), ptrOf s, srvOf s, txtOf s] ++ addrsOf s ++ nsecOf s

/-- what may accompany an answer of `s`: its own SRV, TXT, address and NSEC records -/
def extras (s : Svc) : List Rec := [srvOf s, txtOf s] ++ addrsOf s ++ nsecOf s

/-- the querier lists `r` (same identity) with more than half of `r`'s TTL — some listing does -/
def supAny (known : List Rec) (r : Rec) : Bool :=
  known.any (fun k => k.beq lower r && decide (r.ttl < 2 * k.ttl))

/-- … and every listing of `r` does (the two coincide for a known-answer list that does not contradict itself) -/
def supAll (known : List Rec) (r : Rec) : Bool :=
  known.any (fun k => k.beq lower r) && known.all (fun k => !(k.beq lower r) || decide (r.ttl < 2 * k.ttl))

def isNsec (r : Rec) : Bool := r.rdata.kind = .nsec

/-- `a` is offered legitimately: it is a record of a registered service that answers one of the questions
(exactly — owner spelling, class, cache-flush bit, TTL and rdata as configured; for the type-enumeration pointer the
rdata is the lower-cased type and the TTL the responder's `ettl`, neither is configured), and the querier does not
already hold it with more than half of its TTL (NSEC answers are outside that clause).  `known` is the querier's list
as it is on the wire (no scope ids, see `Model/RespScope.lean`). -/
def soundAnswer (svcs : List Svc) (qs : List Question) (known : List Rec) (a : Rec) : Bool :=
  qs.any (fun q => svcs.any (fun s => (candidatesS lower ettl s q).contains a))
  && (isNsec a || !(supAll lower known a))

/-- some registered service on `s`'s host has an address of type `t` -/
def hostHasType (svcs : List Svc) (s : Svc) (t : Nat) : Bool :=
  svcs.any (fun o => decide (lower o.server = lower s.server) && (addrsOf o).any (fun a => a.type == t))

/-- per service (what the implementation does): every record that answers a question and that the querier does not hold
is offered (up to identity) — in particular the NSEC of *every* service of the asked host that lacks the asked type, even
when another service of that host has it -/
def completePerService (svcs : List Svc) (qs : List Question) (known : List Rec) (offered : List Rec) : Bool :=
  qs.all (fun q => svcs.all (fun s => (candidates lower ettl s q).all (fun r =>
    (!(isNsec r) && supAny lower known r) || offered.any (fun a => a.beq lower r))))

/-- the property's completeness: every record that answers a question and that the querier does not hold is offered (up to
identity); an NSEC is *owed* only when no registered service of the asked host has an address of the asked type
("NSEC when the asked address type does not exist", reading 9 — the per-service NSEC is allowed by `soundAnswer`, not demanded) -/
def complete (svcs : List Svc) (qs : List Question) (known : List Rec) (offered : List Rec) : Bool :=
  qs.all (fun q => svcs.all (fun s => (candidates lower ettl s q).all (fun r =>
    ((isNsec r && hostHasType lower svcs s q.type) || (!(isNsec r) && supAny lower known r))
    || offered.any (fun a => a.beq lower r))))

/-- additionals of one answer: all from one service that owns the answer, and only its SRV/TXT/address/NSEC -/
def additionalsOk (svcs : List Svc) (p : Rec × List Rec) : Bool :=
  p.2.isEmpty || svcs.any (fun s => (own lower ettl s).any (fun o => o.beq lower p.1) && p.2.all (fun x => (extras s).contains x))

/-- no two records of the list are the same record -/
def distinctIds : List Rec → Bool
  | [] => true
  | x :: r => !(r.any (fun y => y.beq lower x)) && distinctIds r

/-- additional section of a packet: nothing repeats an answer, nothing appears twice -/
def noRepeat (answers adds : List Rec) : Bool :=
  adds.all (fun x => !(answers.any (fun a => a.beq lower x))) && distinctIds lower adds

/-- no type is enumerated without a registered service of that type (D3) -/
def enumBacked (svcs : List Svc) (types : List String) : Bool :=
  types.all (fun t => svcs.any (fun s => lower s.type = t))

end
end Zc.RespSpec
