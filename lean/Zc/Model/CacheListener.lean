import Zc.Model.Cache
import Zc.Model.CacheSpec
import Zc.Gen.Listener
/-! The listener of one socket in front of the record manager, for **response** datagrams:
`AsyncListener._process_datagram_at_time` (`_listener.py`) — the duplicate-packet guard, then `DNSIncoming(data, …, now)`
(records stamped with the arrival time `now` that `datagram_received` read from the clock), then
`RecordManager.async_updates_from_response(msg)`.

C16 owns the guard (`Model/Listener.lean`, over an arbitrary downstream handler and with queries); this file composes its
generated test `Gen.Listener.dup_guard` with C05/C06's `ingest`, because two things the cache properties rest on are decided
here, in front of the record manager: *which* datagrams are ingested at all (`self.last_time` is the time of the last
**processed** datagram: a suppressed copy does not restart the interval, so a byte-identical re-announcement 1 s or more after the
last processed copy is ingested) and *with which instant* (`msg.now` = the arrival time of this datagram, a fresh decode per
datagram).  Seeded defects C05-w4-seed1 and C06-w4-seed1 change exactly these two. -/
namespace Zc

/-- the listener's memory and the cache behind it.  `data` stands for `self.data` (equal numbers ⇔ equal bytes), `lastTime` for
`self.last_time`; `self.last_message` is a response whenever `data` is set (the histories here have responses only) -/
structure WireState where
  cache : Cache := {}
  data : Option Nat := none
  lastTime : Ms := 0
  deriving Inhabited

/-- the duplicate guard, for a listener whose last message (if any) was a response -/
def WireState.suppresses (s : WireState) (payload : Nat) (now : Ms) : Bool :=
  Gen.Listener.dup_guard (s.data == some payload) now s.lastTime s.data.isNone false false

/-- one response datagram with bytes `payload`, decoding to `recs`, arriving at `now`: dropped by the guard (nothing changes, not
even `last_time`), or remembered and ingested with the arrival time.  The second component is what the record manager did
(`none` = not called). -/
def wireStep (lower : String → String) (s : WireState) (payload : Nat) (now : Ms) (recs : List Rec) :
    Except PyExc (WireState × Option (IngestOut Cache)) :=
  if s.suppresses payload now then .ok (s, none)
  else do
    let out ← ingest lower (Cache.ops lower) s.cache now recs
    pure ({ cache := out.cache, data := some payload, lastTime := now }, some out)

/-- what arrives on the socket / what the engine's timer does -/
inductive WireEvent where
  | datagram (now : Ms) (payload : Nat) (recs : List Rec)
  | purge (now : Ms)
  deriving Repr, Inhabited

/-- one event (an exception would leave the state as it was; it never happens: `C06_wire_step`) -/
def wireStepEvent (lower : String → String) (s : WireState) : WireEvent → WireState
  | .datagram now payload recs => match wireStep lower s payload now recs with | .ok o => o.1 | .error _ => s
  | .purge now => match expire (Cache.ops lower) s.cache now with | .ok o => { s with cache := o.1 } | .error _ => s

def wireRun (lower : String → String) (evs : List WireEvent) : WireState := evs.foldl (wireStepEvent lower) {}

/-- the datagrams of a wire history that get past the guard, as the record-manager history (`Event`) they amount to -/
def wireProcessed (lower : String → String) : WireState → List WireEvent → List Event
  | _, [] => []
  | s, .purge now :: t => .purge now :: wireProcessed lower (wireStepEvent lower s (.purge now)) t
  | s, .datagram now payload recs :: t =>
    if s.suppresses payload now then wireProcessed lower s t
    else .datagram now recs :: wireProcessed lower (wireStepEvent lower s (.datagram now payload recs)) t

end Zc
