import Zc.Model.BrowserCb
/-! # C15 — the browsers' handlers are application code too

C04's `Browser.complete` returns the callbacks a browser fires as *data* (`COut.callback` in the composite): it models
`_ServiceBrowserBase.async_update_records_complete` **for handlers that return**.  The code is

```python
for pending in self._pending_handlers.items():
    self._fire_service_state_changed_event(pending)      # Signal.fire: `for h in list(self._handlers): h(**kwargs)`, no try
self._pending_handlers.clear()
```

so an exception out of a handler left the method before `clear()`: the event stayed in `_pending_handlers` and was fired again with
every later update (finding F-U2).  Repaired in /repo aa04e95 (D24b): the dict is detached before the loop.  `completeE` is the
repaired method, `completeBeforeD24b` the old one, both with the handlers as a parameter that may raise.  No Mathlib. -/
namespace Zc.Survive.Handlers
open Zc

/-- the handlers registered on one browser's `Signal` (a `ServiceListener` or callables), as one function of the event -/
abbrev Handler := Callback → Except PyExc Unit

def cbOf (kv : (String × String) × Change) : Callback := { change := kv.2, type := kv.1.2, name := kv.1.1 }

/-- the `for pending in self._pending_handlers.items()` loop: stops at the first handler exception -/
def fireAll (h : Handler) : List ((String × String) × Change) → Except PyExc (List Callback)
  | [] => .ok []
  | kv :: rest =>
    match h (cbOf kv) with
    | .error e => .error e
    | .ok () =>
      match fireAll h rest with
      | .error e => .error e
      | .ok cbs => .ok (cbOf kv :: cbs)

/-- `async_update_records_complete` as the code is since the D24b repair (aa04e95): `pending_handlers = self._pending_handlers;
self._pending_handlers = {}` **before** the loop, so the browser's dict is empty whatever the handlers do; the second component is
what the call returns or raises -/
def completeE (h : Handler) (b : Browser) : Browser × Except PyExc (List Callback) :=
  ({ b with pending := [] }, fireAll h b.pending)

/-- the method before that repair: `_pending_handlers.clear()` only after every handler returned — an exception left the dict as it was -/
def completeBeforeD24b (h : Handler) (b : Browser) : Browser × Except PyExc (List Callback) :=
  match fireAll h b.pending with
  | .error e => (b, .error e)
  | .ok cbs => ({ b with pending := [] }, .ok cbs)

end Zc.Survive.Handlers
