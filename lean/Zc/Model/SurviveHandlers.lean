import Zc.Model.BrowserCb
/-! # C15 — the browsers' handlers are application code too

C04's `Browser.complete` returns the callbacks a browser fires as *data* (`COut.callback` in the composite): it models
`_ServiceBrowserBase.async_update_records_complete` **for handlers that return**.  The code is

```python
for pending in self._pending_handlers.items():
    self._fire_service_state_changed_event(pending)      # Signal.fire: `for h in list(self._handlers): h(**kwargs)`, no try
self._pending_handlers.clear()
```

so an exception out of a handler leaves the method before `clear()`: the event stays in `_pending_handlers`.  `completeE` is that
code with the handlers as a parameter that may raise.  No Mathlib. -/
namespace Zc.Survive.Handlers
open Zc

/-- the handlers registered on one browser's `Signal` (a `ServiceListener` or callables), as one function of the event -/
abbrev Handler := Callback → Except PyExc Unit

def cbOf (kv : (String × String) × Change) : Callback := { change := kv.2, type := kv.1.2, name := kv.1.1 }

/-- the `for pending in self._pending_handlers.items()` loop: stops at the first handler exception -/
def fireAll (h : Handler) : List ((String × String) × Change) → Except PyExc (List Callback)
  | [] => .ok []
  | kv :: rest =>
    match h (cbOf kv) with
    | .error e => .error e
    | .ok () =>
      match fireAll h rest with
      | .error e => .error e
      | .ok cbs => .ok (cbOf kv :: cbs)

/-- `async_update_records_complete` as the code is: `_pending_handlers` is cleared only when every handler returned -/
def completeE (h : Handler) (b : Browser) : Except PyExc (Browser × List Callback) :=
  match fireAll h b.pending with
  | .error e => .error e
  | .ok cbs => .ok ({ b with pending := [] }, cbs)

end Zc.Survive.Handlers
