import Zc.Model.Dns
import Zc.Gen.History
import Zc.Gen.LookupLoop
import Zc.Gen.QueryTtl
import Zc.Gen.Outgoing
/-! C13 — known answers and duplicate-question suppression.

* `QuestionHistory` (`_history.py`)
* `generate_service_query` and the bucket grouping (`_services/browser.py:197-279`)
* `ServiceInfo._add_question_with_known_answers` / `_generate_request_query` and the request loop of
  `async_request` (`_services/info.py:804-894`)
* the responder's recording of QM questions (`_handlers/query_handler.py:331-337`)

The cache is seen through `get_all_by_details` only: a list of cached records, filtered by
(lower-cased name, type, class).  Sets of records are lists compared with the records' own equality
(`Rec.beq lower`, C20).  No Mathlib. -/
namespace Zc.QueryGen
open Zc

variable (lower : String → String)

/-! ### question history -/

/-- one value of `QuestionHistory._history`: question ↦ (time, known answers) -/
structure HEntry where
  q : Question
  time : Int
  known : List Rec
  deriving Repr, Inhabited

abbrev History := List HEntry

/-- `self._history.get(question)` (questions are keyed by lower-cased name, type, class: C20) -/
def History.get (h : History) (q : Question) : Option HEntry := h.find? (fun e => e.q.beq lower q)

/-- `add_question_at_time`: `self._history[question] = (now, known_answers)` -/
def History.add (h : History) (q : Question) (now : Int) (known : List Rec) : History :=
  { q, time := now, known } :: h.filter (fun e => !(e.q.beq lower q))

/-- `previous_known_answers - known_answers` is empty -/
def subsetOf (prev known : List Rec) : Bool := prev.all (fun r => known.any (fun k => r.beq lower k))

/-- `QuestionHistory.suppresses` -/
def History.suppresses (h : History) (q : Question) (now : Int) (known : List Rec) : Bool :=
  match h.get lower q with
  | none => false
  | some e =>
    if Gen.History.too_old now e.time then false
    else if !(subsetOf lower e.known known) then false
    else true

/-- `QuestionHistory.async_expire` -/
def History.expire (h : History) (now : Int) : History := h.filter (fun e => !(Gen.History.expire_old now e.time))

/-- what `AsyncEngine._async_cache_cleanup` does to the history every 10 s: `question_history.async_expire(now)` -/
def History.cleanupTick (h : History) (now : Int) : History := h.expire (Gen.History.cleanup_expire_time now)

/-! ### known answers -/

/-- `cache.get_all_by_details(name, type, class)` over the list of cached records -/
def matching (cache : List Rec) (name : String) (type cls : Nat) : List Rec :=
  cache.filter (fun r => lower r.name == lower name && r.type == type && r.class_ == cls)

/-- `{record for record in cache.get_all_by_details(...) if not record.is_stale(now)}` -/
def knownAnswers (cache : List Rec) (name : String) (type cls : Nat) (now : Int) : List Rec :=
  (matching lower cache name type cls).filter (fun r => !(r.isStale now))

/-- what `add_answer_at_time(record, t)` + `_write_ttl` put on the wire for a known answer handed over with time `t`:
nothing when the record is refused (`t ≠ 0` and expired at `t`), else the record with the TTL field `_write_ttl` writes
(the record's own TTL when `t = 0`, the remaining TTL at `t` otherwise) — both decisions are translated leaves -/
def wireAnswerAt (t : Int) (r : Rec) : Option (Rec × Nat) :=
  if Gen.Outgoing.answer_accepted true t (r.isExpired t) then
    some (r, (Gen.Outgoing.ttl_field r.ttl t (r.remainingTtl t)).toNat)
  else none

/-- the wire form at the true time `now ≠ 0` (specification) -/
def wireAnswer (now : Int) (r : Rec) : Option (Rec × Nat) :=
  if r.isExpired now then none else some (r, r.remainingTtl now)

/-- the time a browser query hands to `add_answer_at_time`: `generate_service_query` → `_group_ptr_queries_with_known_answers`
→ `_DNSPointerOutgoingBucket(now_millis, …)` → `self.now_millis` → `add_answer_at_time(answer, self.now_millis)` -/
def browserAnswerTime (now : Int) : Int :=
  Gen.QueryTtl.bucket_answer_time (Gen.QueryTtl.bucket_now_field (Gen.QueryTtl.bucket_ctor_time (Gen.QueryTtl.group_call_time now)))

/-- the time a lookup hands to `add_answer_at_time` -/
def lookupAnswerTime (now : Int) : Int := Gen.QueryTtl.lookup_answer_time now

/-- one question as handed to `DNSOutgoing`: the question, its known answers (what the history remembers), and what the
encoder puts on the wire for them (record, TTL field) -/
structure QOut where
  q : Question
  known : List Rec
  wire : List (Rec × Nat)
  deriving Repr, Inhabited

/-! ### `generate_service_query` -/

/-- `qu_question = not multicast if question_type is None else question_type is QU_QUESTION` -/
def quOf (multicast : Bool) (qtype : Option Bool) : Bool :=
  match qtype with
  | none => !multicast
  | some b => b

/-- the body of the `for type_ in types_` loop -/
def askType (cache : List Rec) (h : History) (now : Int) (qu : Bool) (ty : String) : Option QOut × History :=
  let q : Question := { name := ty, type := Gen.typePtr, class_ := Gen.classIn, unique := qu }
  let known := knownAnswers lower cache ty Gen.typePtr Gen.classIn now
  if !qu && h.suppresses lower q now known then (none, h)
  else (some { q, known, wire := known.filterMap (wireAnswerAt (browserAnswerTime now)) }, if !qu then h.add lower q now known else h)

def serviceQuery (cache : List Rec) (now : Int) (qu : Bool) : List String → History → List QOut × History
  | [], h => ([], h)
  | ty :: rest, h =>
    match askType lower cache h now qu ty with
    | (none, h1) => serviceQuery cache now qu rest h1
    | (some o, h1) => (o :: (serviceQuery cache now qu rest h1).1, (serviceQuery cache now qu rest h1).2)

/-- `questions_with_known_answers[question] = known_answers` (`browser.py:275`): the questions are collected in a dict keyed by
`DNSQuestion` (C20: lower-cased name, type, class).  A second question of the same key — the type set holds two spellings of one
type — replaces the value and keeps the first key object. -/
def dictPut (d : List QOut) (o : QOut) : List QOut :=
  if d.any (fun x => x.q.beq lower o.q) then
    d.map (fun x => if x.q.beq lower o.q then { x with known := o.known, wire := o.wire } else x)
  else d ++ [o]

/-- `generate_service_query` up to the grouping: the per-type loop (`serviceQuery`), its questions collected in the dict.
Under QM a second spelling is already suppressed by the first's history entry; under QU both pass the loop and the dict merges
them into one question.  (`serviceQuery` itself — one entry per loop turn — is what C15's totality argument runs over: a superset.) -/
def serviceQuestions (cache : List Rec) (now : Int) (qu : Bool) (types : List String) (h : History) : List QOut × History :=
  ((serviceQuery lower cache now qu types h).1.foldl (dictPut lower) [], (serviceQuery lower cache now qu types h).2)

/-! ### bucket grouping (`_group_ptr_queries_with_known_answers`), sizes given -/

/-- a bucket: accumulated size estimate and the questions put into it (in insertion order) -/
structure Bucket where
  bytes : Nat
  items : List (Nat × QOut)
  deriving Repr, Inhabited

/-- first bucket with room, else a new one -/
def place (maxSize : Nat) (item : Nat × QOut) : List Bucket → List Bucket
  | [] => [{ bytes := item.1, items := [item] }]
  | b :: rest =>
    if b.bytes + item.1 ≤ maxSize then { bytes := b.bytes + item.1, items := b.items ++ [item] } :: rest
    else b :: place maxSize item rest

/-- the questions arrive sorted by decreasing size estimate -/
def group (maxSize : Nat) (items : List (Nat × QOut)) : List Bucket :=
  items.foldl (fun bs it => place maxSize it bs) []

def maxBucketSize : Nat := Gen.maxMsgTypical - Gen.dnsPacketHeaderLen

/-! ### the responder hears a question (`async_response`) -/

/-- `QueryHandler.async_response`: only questions the host has an answer strategy for (`canAnswer`: it is authoritative for
them) reach the loop that records; there a QM question is recorded with the known answers of the whole (possibly multi-packet)
query — before and independently of `_answer_question`.  Not modelled: `known` is the union over the non-probe packets. -/
def responderHears (canAnswer : Bool) (h : History) (q : Question) (now : Int) (known : List Rec) : History :=
  if canAnswer && !q.unique then h.add lower q now known else h

/-- one packet of a (possibly multi-packet, TC) query as `async_response` sees it: whether it is a probe (`msg.is_probe()`: it
carries authority records), its questions — each with whether the host has an answer strategy for it (`_get_answer_strategies`
is non-empty: the registry's business, C03) — and every record `msg.answers()` yields (answer, authority and additional sections) -/
structure HeardPacket where
  probe : Bool
  questions : List (Question × Bool)
  records : List Rec
  deriving Repr, Inhabited

/-- `DNSRRSet(answers).lookup_set()`: the records as a set (first occurrence kept) -/
def dedupRecs : List Rec → List Rec
  | [] => []
  | r :: rs => r :: (dedupRecs rs).filter (fun x => !(r.beq lower x))

/-- `answers.extend(msg.answers())` for every packet that is **not a probe** (`query_handler.py:321-325`): a probe's authority
records are what the prober proposes, not what it knows -/
def heardKnown (pkts : List HeardPacket) : List Rec :=
  dedupRecs lower ((pkts.filter (fun p => !p.probe)).flatMap (·.records))

/-- `async_response` as far as the question history goes, for a whole assembled query: every question of every packet the host
has a strategy for is recorded — **that question**, not the message's first — if it is QM, with the union of the known answers
of the non-probe packets, at `now` (`msgs[-1].now`: the arrival time of the last packet).  With no strategy at all the function
returns early; the fold then changes nothing either. -/
def hearQuery (h : History) (pkts : List HeardPacket) (now : Int) : History :=
  (pkts.flatMap (·.questions)).foldl (fun h qc => responderHears lower qc.2 h qc.1 now (heardKnown lower pkts)) h

/-! ### service-info lookup: `_add_question_with_known_answers`, `_generate_request_query` -/

def addQuestion (cache : List Rec) (h : History) (now : Int) (qu : Bool) (name : String) (type cls : Nat)
    (skipIfKnown : Bool) : Option QOut × History :=
  let known := knownAnswers lower cache name type cls now
  if skipIfKnown && !known.isEmpty then (none, h)
  else
    let q : Question := { name, type, class_ := cls, unique := qu }
    if qu then (some { q, known, wire := known.filterMap (wireAnswerAt (lookupAnswerTime now)) }, h)
    else if h.suppresses lower q now known then (none, h)
    else (some { q, known, wire := known.filterMap (wireAnswerAt (lookupAnswerTime now)) }, h.add lower q now known)

/-- `_generate_request_query`: SRV, TXT (skipped when known), A, AAAA of `server or name` -/
def requestQuery (cache : List Rec) (h : History) (now : Int) (qu : Bool) (name server : String) : List QOut × History :=
  let r1 := addQuestion lower cache h now qu name Gen.typeSrv Gen.classIn true
  let r2 := addQuestion lower cache r1.2 now qu name Gen.typeTxt Gen.classIn true
  let r3 := addQuestion lower cache r2.2 now qu server Gen.typeA Gen.classIn false
  let r4 := addQuestion lower cache r3.2 now qu server Gen.typeAaaa Gen.classIn false
  ([r1.1, r2.1, r3.1, r4.1].filterMap id, r4.2)

/-! ### the request loop of `async_request` (one iteration per wake-up) -/

structure Loop where
  first : Bool
  delay : Int
  next : Int
  last : Int
  deriving DecidableEq, Repr, Inhabited

/-- state at the top of the loop: `first_request = True; delay = _LISTENER_TIME; next_ = now; last = now + timeout` -/
def Loop.init (now timeout : Int) : Loop :=
  { first := true, delay := Gen.listenerTime, next := now, last := Gen.LookupLoop.last_time now timeout }

inductive Iter where
  /-- `last <= now`: give up -/
  | timeout
  /-- a request was generated: its question type (`true` = QU); whether it is transmitted depends on `out.questions` -/
  | ask (qu : Bool)
  /-- nothing to do before `next_` -/
  | wait
  deriving DecidableEq, Repr, Inhabited

/-- `this_question_type = question_type or QU_QUESTION if first_request else QM_QUESTION`
(`forced`: `some true` = QU, `some false` = QM) -/
def iterQu (forced : Option Bool) (first : Bool) : Bool :=
  if first then forced.getD true else false

/-- one pass through the `while not self._is_complete` body at time `now` with jitter draw `draw` -/
def Loop.iter (l : Loop) (forced : Option Bool) (now : Int) (draw : Nat) : Iter × Loop :=
  if Gen.LookupLoop.timed_out l.last now then (.timeout, l)
  else if Gen.LookupLoop.query_due l.next now then
    let qu := iterQu forced l.first
    (.ask qu, { l with first := false,
                       next := Gen.LookupLoop.next_base now l.delay + draw,
                       delay := if Gen.LookupLoop.delay_bump (!qu) l.delay then Gen.duplicateQuestionInterval else l.delay })
  else (.wait, l)

/-- the loop then sleeps until `min(next_, last)` -/
def Loop.wake (l : Loop) : Int := min l.next l.last

/-- run the loop on its own wake-ups (no record arrives): the times and kinds of the requests generated -/
def Loop.run (forced : Option Bool) : Nat → Loop → Int → List Nat → List (Int × Bool)
  | 0, _, _, _ => []
  | _, _, _, [] => []
  | fuel + 1, l, now, d :: ds =>
    match l.iter forced now d with
    | (.timeout, _) => []
    | (.ask qu, l1) => (now, qu) :: Loop.run forced fuel l1 l1.wake ds
    | (.wait, l1) => Loop.run forced fuel l1 l1.wake (d :: ds)

end Zc.QueryGen
