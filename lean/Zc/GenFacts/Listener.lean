import Zc.Gen.Listener
import Zc.Gen.Dns
/-! Facts about the generated listener/routing leaves that the C16 proofs use (DESIGN §2.2).
If the source changes so that one of these fails, the proof obligation is broken at the named lemma. -/
namespace Zc.GenFacts.Listener
open Zc.Gen.Listener

/-- the duplicate guard is exactly: same bytes, strictly inside the 1000 ms window, a previous message
exists, and that message is not a *query* with a QU question (fix D11c: before it, any message with a QU
question -- responses included -- was exempt) -/
theorem dup_guard_iff (same : Bool) (now last : Int) (none q qu : Bool) :
    dup_guard same now last none q qu = true ↔
      (same = true ∧ now - 1000 < last ∧ none = false ∧ ¬(q = true ∧ qu = true)) := by
  simp [dup_guard]
  grind

theorem oversize_iff (n : Int) : oversize n = true ↔ n > 8966 := by
  simp [oversize]

/-- "multicast within a quarter of the TTL" needs a cached copy that is recent -/
theorem within_quarter_iff (none recent : Bool) :
    mcast_within_quarter_ttl none recent = true ↔ (none = false ∧ recent = true) := by
  simp [mcast_within_quarter_ttl]

/-- a query from port 5353 is not a unicast-source (legacy) query -/
theorem ucast_source_mdns : ucast_source 5353 = false := by
  simp [ucast_source]

theorem ucast_source_iff (p : Nat) : ucast_source p = true ↔ p ≠ 5353 := by
  simp [ucast_source]

/-- recent = created + ttl/4 (in ms: 250·ttl) is still in the future -/
theorem is_recent_iff (created ttl now : Int) :
    Zc.Gen.Dns.is_recent created ttl now = true ↔ now < created + 250 * ttl := by
  simp [Zc.Gen.Dns.is_recent]

/-- the scan of the packets already deferred for an address compares the **bytes** of the two datagrams -/
theorem deferred_same_packet_iff (b : Bool) : deferred_same_packet b = b := by
  simp [deferred_same_packet]

end Zc.GenFacts.Listener
