import Zc.Gen.Const
import Zc.Gen.Dns
import Zc.Gen.Browser
/-! Facts about the generated `QueryScheduler` leaves and constants that the C10 proofs rely on
(DESIGN §2.2).  Each is the weakest statement needed; proofs elsewhere never unfold `Gen.*`. -/
namespace Zc.GenFacts.Browser
open Zc.Gen

theorem startupQueries_eq : startupQueries = 4 := rfl
theorem firstInterval_eq : firstQueryDelayRandomInterval = [20, 120] := rfl
theorem refreshPercent_eq : expireRefreshTimePercent = 75 := rfl
theorem rescuePerMille_eq : rescueRecordRetryTtlPercentagePerMille = 100 := rfl

theorem expiration_time (c t p : Int) : Dns.get_expiration_time c t p = c + p * t * 10 := by
  simp [Dns.get_expiration_time]

/-- the cache's expiry test (`DNSRecord.is_expired`, the test C05's purge and the browser's `Removed` use): the full TTL has elapsed -/
theorem is_expired_iff (c t n : Int) : Dns.is_expired c t n = true ↔ c + 1000 * t ≤ n := by
  simp [Dns.is_expired]

theorem reschedule_keep_iff (m r w : Int) :
    Browser.reschedule_keep m r w = true ↔ (-m ≤ r - w ∧ r - w ≤ m) := by
  simp [Browser.reschedule_keep]

theorem rescue_ttl_millis_eq (t : Int) : Browser.rescue_ttl_millis t = t * 1000 := by
  simp [Browser.rescue_ttl_millis]

theorem rescue_next_eq (n a : Int) : Browser.rescue_next n a = n + a := by
  simp [Browser.rescue_next]

theorem rescue_stop_iff (n e : Int) : Browser.rescue_stop n e = true ↔ e ≤ n := by
  simp [Browser.rescue_stop]

theorem startup_first_iff (n : Int) : Browser.startup_first n = true ↔ n = 0 := by
  simp [Browser.startup_first]

theorem startup_done_iff (n : Int) : Browser.startup_done n = true ↔ 4 ≤ n := by
  simp [Browser.startup_done]

theorem startup_backoff_eq (n : Int) : Browser.startup_backoff_s n = n * n := by
  simp [Browser.startup_backoff_s, Int.pow_succ]

theorem ready_not_due_iff (w e : Int) : Browser.ready_not_due w e = true ↔ e < w := by
  simp [Browser.ready_not_due]

theorem next_time_eq (n m : Int) : Browser.next_time n m = n + m := by
  simp [Browser.next_time]

theorem next_is_scheduled_iff (h : Bool) (w t : Int) :
    Browser.next_is_scheduled h w t = true ↔ (h = true ∧ t < w) := by
  simp [Browser.next_is_scheduled]

theorem rearm_guard_eq (noNext : Bool) (sent : Nat) :
    Browser.rearm_guard noNext (sent : Int) = (noNext || decide (sent < startupQueries)) := by
  cases noNext
  · simp only [Browser.rearm_guard, Bool.false_or]
    have h4 : startupQueries = 4 := rfl
    by_cases h : sent < startupQueries
    · have h' : (sent : Int) < 4 := by omega
      rw [decide_eq_true h, decide_eq_true h']
    · have h' : ¬ (sent : Int) < 4 := by omega
      rw [decide_eq_false h, decide_eq_false h']
  · simp [Browser.rearm_guard]

theorem rearm_when_eq (w e : Int) : Browser.rearm_when w e = max w e := rfl

theorem rearm_lt_eq (a b : Int) : Browser.rearm_lt a b = decide (a < b) := rfl

end Zc.GenFacts.Browser
