import Zc.GenFn.Dns
/-! # the time / suppression methods of `DNSRecord` as translated statement by statement  =  what the models use

`Zc.GenFn.Dns` is regenerated from the bodies of `DNSRecord.get_expiration_time`, `get_remaining_ttl`, `is_expired`,
`is_stale`, `is_recent`, `_suppressed_by_answer`, `suppressed_by` on every run.  The models use `Rec.isExpired` & co.
(`Model/Dns.lean`), which are built from the *leaf* translations `Gen.Dns.*` of the same expressions; here the whole
function bodies (local variables, the loop of `suppressed_by`) are shown to compute the same.  No invariant is needed. -/
namespace Zc.GenFacts.FnDns
open Zc Zc.Py Zc.GenFn.Dns

variable (lower : String → String)

/-- `is_expired` -/
theorem is_expired_eq (r : Rec) (now : Int) : DNSRecord.is_expired r now = r.isExpired now := by
  simp [DNSRecord.is_expired, Rec.isExpired, Gen.Dns.is_expired, Id.run, pure]

/-- `is_stale` -/
theorem is_stale_eq (r : Rec) (now : Int) : DNSRecord.is_stale r now = r.isStale now := by
  simp [DNSRecord.is_stale, Rec.isStale, Gen.Dns.is_stale, Id.run, pure]

/-- `is_recent` -/
theorem is_recent_eq (r : Rec) (now : Int) : DNSRecord.is_recent r now = r.isRecent now := by
  simp [DNSRecord.is_recent, Rec.isRecent, Gen.Dns.is_recent, Id.run, pure]

/-- `get_expiration_time` -/
theorem get_expiration_time_eq (r : Rec) (pct : Nat) : DNSRecord.get_expiration_time r pct = r.expirationTime pct := by
  simp [DNSRecord.get_expiration_time, Rec.expirationTime, Gen.Dns.get_expiration_time, Id.run, pure]

/-- `get_remaining_ttl`, as the leaf translation has it -/
theorem get_remaining_ttl_leaf (r : Rec) (now : Int) :
    DNSRecord.get_remaining_ttl r now = Gen.Dns.get_remaining_ttl r.created r.ttl now := by
  simp [DNSRecord.get_remaining_ttl, Gen.Dns.get_remaining_ttl, Id.run, pure]

/-- `get_remaining_ttl` (floor of the float the code returns: what `_write_ttl`'s `int()` keeps) -/
theorem get_remaining_ttl_eq (r : Rec) (now : Int) : (DNSRecord.get_remaining_ttl r now).toNat = r.remainingTtl now := by
  rw [get_remaining_ttl_leaf]; rfl

/-- `get_remaining_ttl` against its docstring ("the remaining TTL in seconds", never negative) — stated independently of the leaf
translation, so that a change of the body (e.g. dropping the clamp at 0) breaks *this* lemma -/
theorem get_remaining_ttl_spec (r : Rec) (now : Int) :
    DNSRecord.get_remaining_ttl r now =
      if (r.created : Int) + 1000 * (r.ttl : Int) - now < 0 then 0 else ((r.created : Int) + 1000 * (r.ttl : Int) - now) / 1000 := by
  have hd : DNSRecord.get_remaining_ttl r now =
      Int.fdiv (if decide ((r.created : Int) + 1000 * (r.ttl : Int) - now < 0 * 1000) = true then 0 * 1000
        else ((r.created : Int) + 1000 * (r.ttl : Int) - now) * 1) 1000 := rfl
  rw [hd]
  obtain ⟨x, hx⟩ : ∃ x : Int, x = (r.created : Int) + 1000 * (r.ttl : Int) - now := ⟨_, rfl⟩
  rw [← hx]
  by_cases h : x < 0
  · have h' : x < 0 * 1000 := by omega
    simp [h]
  · have h' : ¬ x < 0 * 1000 := by omega
    simp only [h, h', decide_false, Bool.false_eq_true, if_false, Int.mul_one]
    exact Int.fdiv_eq_ediv_of_nonneg _ (by omega)

/-- `_suppressed_by_answer` -/
theorem suppressed_by_answer_eq (a b : Rec) : DNSRecord.suppressed_by_answer lower a b = a.suppressedByAnswer lower b := by
  simp [DNSRecord.suppressed_by_answer, Rec.suppressedByAnswer, Gen.Dns.suppressed_by_answer_ttl, Id.run, pure]

/-- `suppressed_by`: some answer of the message suppresses the record -/
theorem suppressed_by_eq (r : Rec) (answers : List Rec) :
    DNSRecord.suppressed_by lower r answers = answers.any (fun o => r.suppressedByAnswer lower o) := by
  unfold DNSRecord.suppressed_by
  simp only [Id.run, bind, pure]
  rw [forIn_id_first _ _ _ (fun o => DNSRecord.suppressed_by_answer lower r o) (fun _ => (some true, ())) (by intro x; rfl)]
  simp only [pure, suppressed_by_answer_eq]
  cases h : List.find? (fun o => r.suppressedByAnswer lower o) answers with
  | none =>
    rw [List.find?_eq_none] at h
    symm
    simp only [List.any_eq_false]
    exact fun x hx => h x hx
  | some o =>
    symm
    simp only [List.any_eq_true]
    exact ⟨o, List.mem_of_find?_eq_some h, List.find?_some h⟩

end Zc.GenFacts.FnDns
