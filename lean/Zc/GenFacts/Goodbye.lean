import Zc.Gen.Register
import Zc.Gen.Const
/-! What the proofs of C08 need from the generated leaves of `_core.py`.  The first three facts hold only of the
*repaired* tree (D5, D6): on the unrepaired tree the translator emits `false` for them and this file stops building. -/
namespace Zc.GenFacts.Goodbye
open Zc.Gen Zc.Gen.Register

/-- D6: an announcement task (no TTL override) stops as soon as its info is no longer the registered one -/
theorem announce_stops_eq (ttlNone notRegistered : Bool) : announce_stops ttlNone notRegistered = (ttlNone && notRegistered) := by
  simp [announce_stops]

/-- D5: `async_unregister_service` drops the withdrawn records from both queues -/
theorem unregister_purges : unregister_purges_queues = true := by
  simp [unregister_purges_queues]

/-- D5: so does `generate_unregister_all_services` -/
theorem unregister_all_purges : unregister_all_purges_queues = true := by
  simp [unregister_all_purges_queues]

/-- the registry removes by name, never by object identity: `async_remove` and `_remove` contain no `is` test between objects -/
theorem remove_by_key : registry_remove_by_identity = false ∧ registry_remove_inner_by_identity = false := by
  simp [registry_remove_by_identity, registry_remove_inner_by_identity]

/-- D19: the synchronous wrappers wait for the broadcast task they start -/
theorem sync_wrappers_await : sync_unregister_awaits_goodbyes = true ∧ sync_register_awaits_announcements = true ∧
    sync_update_awaits_announcements = true := by
  simp [sync_unregister_awaits_goodbyes, sync_register_awaits_announcements, sync_update_awaits_announcements]

/-- "or its instance is closed": `AsyncZeroconf.async_close` and `Zeroconf.close()` call (async_)unregister_all_services, and do so
before `_close` / `_async_close` sets `done` -/
theorem close_says_goodbye_first : async_close_unregisters_all = true ∧ async_close_goodbyes_before_done = true ∧
    sync_close_unregisters_all = true ∧ sync_close_goodbyes_before_done = true := by
  simp [async_close_unregisters_all, async_close_goodbyes_before_done, sync_close_unregisters_all, sync_close_goodbyes_before_done]

/-- D27: `async_unregister_service` builds the goodbye packet itself, when it is called; the task re-sends that packet and no longer
reads the `ServiceInfo` object -/
theorem unregister_builds_goodbye : unregister_builds_goodbye_at_call = true := by
  simp [unregister_builds_goodbye_at_call]

/-- D28 and its order: `async_update_service` / `async_register_service` encode the records once (raising to the caller) *before* the info
reaches the registry -/
theorem refused_before_registry : update_encodes_before_registry = true ∧ register_encodes_before_registry = true := by
  simp [update_encodes_before_registry, register_encodes_before_registry]

/-- leaving `async with AsyncZeroconf()` / `with Zeroconf()` goes through the public close calls (which say goodbye first), and
`async_unregister_service` defaults a missing `server` before it reads `server_key` -/
theorem context_exit_closes : aexit_calls_async_close = true ∧ exit_calls_close = true ∧ unregister_sets_server = true := by
  simp [aexit_calls_async_close, exit_calls_close, unregister_sets_server]

/-- `async_send` sends nothing once `done` -/
theorem send_is_noop_eq (d : Bool) : send_is_noop d = d := by simp [send_is_noop]

/-- addresses are withdrawn iff no other registered service uses the host -/
theorem goodbye_addresses_eq (shared : Bool) : goodbye_addresses shared = !shared := by simp [goodbye_addresses]

/-- goodbyes are 125 ms apart -/
theorem unregisterTime_eq : unregisterTime = 125 := by decide

/-- **the loops that send goodbyes** (since D27: `_async_send_repeatedly` for `async_unregister_service`, the loop of
`async_unregister_all_services` for a close / unregister-all): same range, same "sleep before every transmission but the first", same
interval as the parameters the model's goodbye task and close sequence are written with (`broadcast_count` — the range of
`_async_broadcast_service` — and `unregisterTime`).  So the 3 and the 125 of the goodbye theorems are read off the code that sends goodbyes. -/
theorem goodbye_loops :
    goodbye_count = broadcast_count ∧ goodbye_all_count = broadcast_count ∧
    (∀ i, goodbye_sleeps i = broadcast_sleeps i) ∧ (∀ i, goodbye_all_sleeps i = broadcast_sleeps i) ∧
    goodbye_interval = unregisterTime ∧ goodbye_all_interval = unregisterTime := by
  refine ⟨by simp [goodbye_count, broadcast_count], by simp [goodbye_all_count, broadcast_count], ?_, ?_, by decide, by decide⟩
  · intro i; simp [goodbye_sleeps, broadcast_sleeps]
  · intro i; simp [goodbye_all_sleeps, broadcast_sleeps]

/-- three goodbyes, 125 ms apart, in both loops -/
theorem goodbye_loops_eq : goodbye_count = 3 ∧ goodbye_all_count = 3 ∧ goodbye_interval = 125 ∧ goodbye_all_interval = 125 := by
  refine ⟨by simp [goodbye_count], by simp [goodbye_all_count], by decide, by decide⟩

end Zc.GenFacts.Goodbye
