import Zc.GenFacts.FnSched
import Zc.Proofs.Sched2
/-! # whole runs of the query scheduler (`exec2`, C10), stepped through the *generated* `QueryScheduler`

`Zc.Sched2.exec2 c m clk evs` runs timed blocks (`start`, a pointer record seen, a pointer record gone, a timer firing, `stop`) on the
two-container model under the event-loop axioms.  `execG` runs the same blocks on the generated object: each block is one translated
method (`start`, `reschedule_ptr_first_refresh`, `cancel_ptr_refresh`, `_process_startup_queries` / `_process_ready_types` — which of the
two is decided by the timer the effects of the earlier calls left armed —, `stop`).  `exec_source`: along every accepted run the
generated scheduler never raises, represents the model's state (`RunInv`) and makes, send for send, the model's
`async_send_ready_queries` calls (same instant, same `first` flag, same question type, the same set of types). -/
namespace Zc.GenFacts.FnSchedRun
open Zc Zc.Py Zc.Sched Zc.Sched2 Zc.GenFn.Sched Zc.GenFacts.FnSched

set_option linter.unusedSimpArgs false

variable (lower : String → String)

/-- a pointer record with the given alias, name, TTL and creation time -/
def ptrOf (a n : String) (ttl : Nat) (cr : Int) : Rec :=
  { name := n, type := 12, class_ := 1, unique := false, ttl := ttl, created := cr, rdata := .ptr a }

/-- the translated call a block makes; `armed`: the timer the earlier calls left armed (decides which callback a `fire` runs) -/
def stepG (s : QueryScheduler) (armed : Option (Timer × Int)) (t : Int) : Op → Except PyExc (QueryScheduler × List SEffect)
  | .start d => .ok (s.start () (fun _ _ => (d : Int)))
  | .ptr a n ttl cr => QueryScheduler.reschedule_ptr_first_refresh lower s (ptrOf a n ttl cr)
  | .cancel a => (QueryScheduler.cancel_ptr_refresh lower s (ptrOf a "" 0 0)).map (fun s' => (s', []))
  | .fire done =>
    match armed with
    | some (.startup, _) => s.process_startup_queries done t
    | some (.ready, _) => s.process_ready_types done t
    | none => .error .other
  | .stop => s.stop

def isFire : Op → Bool
  | .fire _ => true
  | _ => false

/-- the generated scheduler over a trace of timed blocks: the `async_send_ready_queries` calls it makes -/
def execG (c : Cfg) : QueryScheduler → Option (Timer × Int) → List (Int × Op) → Except PyExc (QueryScheduler × List Send)
  | s, _, [] => .ok (s, [])
  | s, armed, (t, op) :: es =>
    match stepG lower s armed t op with
    | .error e => .error e
    | .ok (s1, eff) =>
      match execG c s1 (armedAfter t (if isFire op then none else armed) eff) es with
      | .error e => .error e
      | .ok (s2, outs) => .ok (s2, sendsOf c eff ++ outs)

/-- the aliases the blocks name are lower-case already (the model's blocks carry the lower-cased `alias_key`) -/
def aliasOk : Op → Prop
  | .ptr a _ _ _ => lower a = a
  | .cancel a => lower a = a
  | _ => True

/-- one `async_send_ready_queries` call of the code against one of the model: the same set of types -/
def SendEq (g m : Send) : Prop :=
  g.t = m.t ∧ g.first = m.first ∧ g.qtype = m.qtype ∧ (g.types = m.types ∨ g.types = PySet.ofList strEq m.types)

/-- what a run carries from block to block -/
structure RunInv (c : Cfg) (s : QueryScheduler) (m : S2) : Prop where
  rel : Rel c s m
  ok : StoreOk s
  inv2 : Inv2 m
  loopOk : s.next_run.isSome → s.loop.isSome
  armedStarted : m.armed.isSome → m.started = true

/-! ### model facts: `started` and `armed` -/

theorem started_rearm (m : S2) (w : Int) : (rearmIfEarlier2 m w).started = m.started := by
  unfold rearmIfEarlier2
  split
  · rfl
  · next hg =>
    have hst : m.started = true := by
      cases hms : m.started with
      | true => rfl
      | false => exact absurd (by simp [Gen.Browser.rearm_guard, hms]) hg
    split
    · simp only [armReady2, hst]
    · rfl

theorem armed_rearm (m : S2) (w : Int) (h : m.armed.isSome → m.started = true) :
    (rearmIfEarlier2 m w).armed.isSome → (rearmIfEarlier2 m w).started = true := by
  intro ha
  rw [started_rearm]
  unfold rearmIfEarlier2 at ha
  split at ha
  · exact h ha
  · next hg =>
    cases hms : m.started with
    | true => rfl
    | false => exact absurd (by simp [Gen.Browser.rearm_guard, hms]) hg

theorem started_schedule2 (m : S2) (q : Q) : (schedule2 m q).started = m.started := by
  unfold schedule2
  rw [started_rearm]

theorem armed_schedule2 (m : S2) (q : Q) (h : m.armed.isSome → m.started = true) :
    (schedule2 m q).armed.isSome → (schedule2 m q).started = true := by
  unfold schedule2
  exact armed_rearm _ _ h

theorem facts_reschedule2 (c : Cfg) (m m' : S2) (a n : String) (ttl : Nat) (cr : Int) (h : m.armed.isSome → m.started = true)
    (hr : reschedule2 c m a n ttl cr = .ok m') : m'.started = m.started ∧ (m'.armed.isSome → m'.started = true) := by
  unfold reschedule2 at hr
  split at hr
  · split at hr
    · cases hr
    · split at hr
      · cases hr; exact ⟨rfl, h⟩
      · cases hr
        exact ⟨started_schedule2 _ _, armed_schedule2 _ _ h⟩
  · cases hr
    exact ⟨started_schedule2 _ _, armed_schedule2 _ _ h⟩

theorem facts_cancel2 (m : S2) (a : String) : (cancel2 m a).started = m.started ∧ (cancel2 m a).armed = m.armed := by
  unfold cancel2
  split <;> exact ⟨rfl, rfl⟩

theorem inv2_step2 (c : Cfg) {m m1 : S2} {o : List Send} (h : Inv2 m) (t : Int) (op : Op) (hs : step2 c m t op = .ok (m1, o)) : Inv2 m1 := by
  have hr := step2_refines c h t op
  cases hx : step c (abs m) t op with
  | none => rw [hr.1 hx] at hs; cases hs
  | some r =>
    obtain ⟨s2', g1, _, g3⟩ := hr.2 r.1 r.2 hx
    rw [g1] at hs
    cases hs
    exact g3

/-! ### one block -/

/-- send for send -/
def SendsEq : List Send → List Send → Prop
  | [], [] => True
  | g :: gs, m :: ms => SendEq g m ∧ SendsEq gs ms
  | _, _ => False

theorem sendEq_refl (l : List Send) : SendsEq l l := by
  induction l with
  | nil => trivial
  | cons x t ih => exact ⟨⟨rfl, rfl, rfl, Or.inl rfl⟩, ih⟩

theorem sendEq_map (l : List Send) : SendsEq (l.map (fun sd => { sd with types := PySet.ofList strEq sd.types })) l := by
  induction l with
  | nil => trivial
  | cons x t ih => exact ⟨⟨rfl, rfl, rfl, Or.inr rfl⟩, ih⟩

theorem sendEq_append {a b a' b' : List Send} (h1 : SendsEq a a') (h2 : SendsEq b b') : SendsEq (a ++ b) (a' ++ b') := by
  induction a generalizing a' with
  | nil =>
    cases a' with
    | nil => exact h2
    | cons x t => cases h1
  | cons x t ih =>
    cases a' with
    | nil => cases h1
    | cons y u => exact ⟨h1.1, ih h1.2⟩

/-- the dict's ids are heap members: the model's invariant, read through `Rel` -/
theorem dict_in_heap {c : Cfg} {s : QueryScheduler} {m : S2} (h : Rel c s m) (hi : Inv2 m) (a : String) (i : Nat)
    (hg : PyDict.get? strEq s.next_scheduled_for_alias a = some i) : i ∈ s.query_heap := by
  rw [h.dict a] at hg
  obtain ⟨o, ho, hid, _, _⟩ := hi.a a i hg
  rw [h.heap, List.mem_map] at ho
  obtain ⟨j, hj, rfl⟩ := ho
  simp only [objOf] at hid
  rw [← hid]
  exact hj

theorem step_start {c : Cfg} {s : QueryScheduler} {m : S2} (hI : RunInv c s m) (t : Int) (d : Nat) {m1 : S2} {o : List Send}
    (hs : step2 c m t (.start d) = .ok (m1, o)) :
    ∃ s1 eff, stepG lower s m.armed t (.start d) = .ok (s1, eff) ∧ RunInv c s1 m1
      ∧ armedAfter t m.armed eff = m1.armed ∧ SendsEq (sendsOf c eff) o := by
  simp only [step2] at hs
  split at hs
  · simp only [Except.ok.injEq, Prod.mk.injEq] at hs
    obtain ⟨rfl, rfl⟩ := hs
    obtain ⟨h1, h2, h3⟩ := start_eq hI.rel (fun _ _ => (d : Int)) t
    refine ⟨_, _, rfl, ⟨h1, ?_, hI.inv2, fun _ => h3, fun _ => rfl⟩, h2, ?_⟩
    · simp only [QueryScheduler.start, Id.run, pure, bind]
      exact ⟨hI.ok.fresh, hI.ok.heapIds, hI.ok.heapStored, hI.ok.dictWF⟩
    · simp only [QueryScheduler.start, Id.run, pure, bind, sendsOf]
      exact trivial
  · cases hs

theorem step_stop {c : Cfg} {s : QueryScheduler} {m : S2} (hI : RunInv c s m) (t : Int) {m1 : S2} {o : List Send}
    (hs : step2 c m t .stop = .ok (m1, o)) :
    ∃ s1 eff, stepG lower s m.armed t .stop = .ok (s1, eff) ∧ RunInv c s1 m1
      ∧ armedAfter t m.armed eff = m1.armed ∧ SendsEq (sendsOf c eff) o := by
  simp only [step2, Except.ok.injEq, Prod.mk.injEq] at hs
  obtain ⟨rfl, rfl⟩ := hs
  have h := hI.rel
  simp only [stepG]
  unfold QueryScheduler.stop
  cases hn : s.next_run with
  | none =>
    have hst : m.started = false := by rw [h.started, hn]; rfl
    have harm : m.armed = none := by
      cases ha : m.armed with
      | none => rfl
      | some x => have := hI.armedStarted (by rw [ha]; rfl); rw [hst] at this; cases this
    refine ⟨_, _, by simp [hn, bind, Except.bind, pure, Except.pure]; exact ⟨rfl, rfl⟩, ⟨?_, ?_, hd_nil _, ?_, ?_⟩, ?_, ?_⟩
    · exact ⟨h.sent, rfl, fun _ => rfl, h.nextId, by simp [hn], h.nextRun, h.earliest, h.minDelay, h.types, h.interval, h.resolution⟩
    · exact ⟨hI.ok.fresh, (fun _ hi => by cases hi), (fun _ hi => by cases hi), PyDict.WF_nil⟩
    · intro hx; simp [hn] at hx
    · intro hx; cases hx
    · simp [armedAfter, harm]
    · simp [sendsOf, SendsEq]
  | some u =>
    refine ⟨_, _, by simp [hn, pyUnwrap, bind, Except.bind, pure, Except.pure]; exact ⟨rfl, rfl⟩, ⟨?_, ?_, hd_nil _, ?_, ?_⟩, ?_, ?_⟩
    · exact ⟨h.sent, rfl, fun _ => rfl, h.nextId, rfl, h.nextRun, h.earliest, h.minDelay, h.types, h.interval, h.resolution⟩
    · exact ⟨hI.ok.fresh, (fun _ hi => by cases hi), (fun _ hi => by cases hi), PyDict.WF_nil⟩
    · intro hx; cases hx
    · intro hx; cases hx
    · simp [armedAfter]
    · simp [sendsOf, SendsEq]

theorem next_run_of_started {c : Cfg} {s s' : QueryScheduler} {m m' : S2} (h : Rel c s m) (h' : Rel c s' m')
    (hst : m'.started = m.started) : s'.next_run.isSome = s.next_run.isSome := by
  rw [← h.started, ← h'.started, hst]

theorem step_ptr {c : Cfg} {s : QueryScheduler} {m : S2} (hI : RunInv c s m) (t : Int) (a n : String) (ttl : Nat) (cr : Int)
    (hal : lower a = a) {m1 : S2} {o : List Send} (hs : step2 c m t (.ptr a n ttl cr) = .ok (m1, o)) :
    ∃ s1 eff, stepG lower s m.armed t (.ptr a n ttl cr) = .ok (s1, eff) ∧ RunInv c s1 m1
      ∧ armedAfter t m.armed eff = m1.armed ∧ SendsEq (sendsOf c eff) o := by
  have hinv2 := inv2_step2 c hI.inv2 t _ hs
  have ha : Rec.attrAliasKey lower (ptrOf a n ttl cr) = .ok a := by
    show Except.ok (lower a) = Except.ok a
    rw [hal]
  obtain ⟨s', eff, m', h1, h2, h3, h4, h5, h6, h7⟩ :=
    reschedule_ptr_first_refresh_eq lower hI.rel hI.ok hI.loopOk (ptrOf a n ttl cr) a ha t
      (fun i hg => dict_in_heap hI.rel hI.inv2 a i hg)
  have h2' : reschedule2 c m a n ttl cr = .ok m' := h2
  simp only [step2, h2', Except.ok.injEq, Prod.mk.injEq] at hs
  obtain ⟨rfl, rfl⟩ := hs
  obtain ⟨f1, f2⟩ := facts_reschedule2 c m m' a n ttl cr hI.armedStarted h2'
  refine ⟨s', eff, h1, ⟨h3, h4, hinv2, ?_, f2⟩, h6, by rw [h7]; trivial⟩
  intro hn
  rw [h5]
  exact hI.loopOk (by rw [← next_run_of_started hI.rel h3 f1]; exact hn)

theorem step_cancel {c : Cfg} {s : QueryScheduler} {m : S2} (hI : RunInv c s m) (t : Int) (a : String)
    (hal : lower a = a) {m1 : S2} {o : List Send} (hs : step2 c m t (.cancel a) = .ok (m1, o)) :
    ∃ s1 eff, stepG lower s m.armed t (.cancel a) = .ok (s1, eff) ∧ RunInv c s1 m1
      ∧ armedAfter t m.armed eff = m1.armed ∧ SendsEq (sendsOf c eff) o := by
  have hinv2 := inv2_step2 c hI.inv2 t _ hs
  have ha : Rec.attrAliasKey lower (ptrOf a "" 0 0) = .ok a := by
    show Except.ok (lower a) = Except.ok a
    rw [hal]
  obtain ⟨s', h1, h3, h4, h5⟩ := cancel_ptr_refresh_eq lower hI.rel hI.ok (ptrOf a "" 0 0) a ha
  simp only [step2, Except.ok.injEq, Prod.mk.injEq] at hs
  obtain ⟨rfl, rfl⟩ := hs
  obtain ⟨f1, f2⟩ := facts_cancel2 m a
  refine ⟨s', [], by simp only [stepG, h1, Except.map], ⟨h3, h4, hinv2, ?_, ?_⟩, by simp [armedAfter, f2], trivial⟩
  · intro hn
    rw [h5]
    exact hI.loopOk (by rw [← next_run_of_started hI.rel h3 f1]; exact hn)
  · rw [f1, f2]; exact hI.armedStarted

theorem startup_frame (s : QueryScheduler) (hl : s.loop.isSome) (done : Bool) (now : Int) {s' : QueryScheduler} {eff : List SEffect}
    (h : s.process_startup_queries done now = .ok (s', eff)) :
    s'.store = s.store ∧ s'.query_heap = s.query_heap ∧ s'.next_scheduled_for_alias = s.next_scheduled_for_alias := by
  rw [process_startup_queries_closed s hl] at h
  split at h
  · cases h; exact ⟨rfl, rfl, rfl⟩
  · split at h <;> (cases h; exact ⟨rfl, rfl, rfl⟩)

theorem started_fireStartup2 (c : Cfg) (m : S2) (now : Int) (done : Bool) (h : m.started = true) :
    (fireStartup2 c m now done).1.started = true := by
  unfold fireStartup2
  split
  · exact h
  · simp only
    split
    · rfl
    · exact h

theorem started_fireReady2 (c : Cfg) (m m' : S2) (now : Int) (outs : List Send) (h : fireReady2 c m now false = .ok (m', outs)) :
    m'.started = true := by
  unfold fireReady2 at h
  simp only [Bool.false_eq_true, if_false] at h
  split at h
  · cases h
  · cases h; rfl

theorem step_fire {c : Cfg} {s : QueryScheduler} {m : S2} (hI : RunInv c s m) (t : Int) (done : Bool) {m1 : S2} {o : List Send}
    (hs : step2 c m t (.fire done) = .ok (m1, o)) :
    ∃ s1 eff, stepG lower s m.armed t (.fire done) = .ok (s1, eff) ∧ RunInv c s1 m1
      ∧ armedAfter t none eff = m1.armed ∧ SendsEq (sendsOf c eff) o := by
  have hinv2 := inv2_step2 c hI.inv2 t _ hs
  simp only [step2] at hs
  cases harm : m.armed with
  | none => rw [harm] at hs; cases hs
  | some tm =>
    obtain ⟨k, due⟩ := tm
    have hstarted : m.started = true := hI.armedStarted (by rw [harm]; rfl)
    have hst : s.next_run.isSome := by rw [← hI.rel.started]; exact hstarted
    have hl := hI.loopOk hst
    rw [harm] at hs
    cases k with
    | startup =>
      simp only at hs
      split at hs
      · simp only [Except.ok.injEq] at hs
        obtain ⟨s', eff, h1, h2, h3, h4, h5⟩ := process_startup_queries_eq hI.rel hl hst done t
        obtain ⟨q1, q2, q3⟩ := startup_frame s hl done t h1
        have hm1 : (fireStartup2 c m t done).1 = m1 := congrArg Prod.fst hs
        have ho : (fireStartup2 c m t done).2 = o := congrArg Prod.snd hs
        rw [hm1] at h2 h4
        rw [ho] at h5
        refine ⟨s', eff, by simp only [stepG, h1], ⟨?_, ?_, hinv2, fun _ => by rw [h3]; exact hl, fun _ => ?_⟩, h4, by rw [h5]; exact sendEq_refl o⟩
        · exact ⟨h2.sent, h2.heap, h2.dict, h2.nextId, h2.started, h2.nextRun, h2.earliest, h2.minDelay, h2.types, h2.interval, h2.resolution⟩
        · exact ⟨by rw [q1]; exact hI.ok.fresh, by rw [q2, q1]; exact hI.ok.heapIds, by rw [q2, q1]; exact hI.ok.heapStored,
            by rw [q3]; exact hI.ok.dictWF⟩
        · rw [← hm1]; exact started_fireStartup2 c m t done hstarted
      · cases hs
    | ready =>
      simp only at hs
      split at hs
      · cases done with
        | true =>
          have hs' : fireReady2 c m t true = .ok ({ m with armed := none }, []) := rfl
          rw [hs'] at hs
          simp only [Except.ok.injEq, Prod.mk.injEq] at hs
          obtain ⟨rfl, rfl⟩ := hs
          have h := hI.rel
          refine ⟨s, [], by simp only [stepG, process_ready_types_done], ⟨?_, hI.ok, hinv2, hI.loopOk, fun hx => by cases hx⟩, rfl, trivial⟩
          exact ⟨h.sent, h.heap, h.dict, h.nextId, h.started, h.nextRun, h.earliest, h.minDelay, h.types, h.interval, h.resolution⟩
        | false =>
          have hs0 := hs
          unfold fireReady2 at hs
          simp only [Bool.false_eq_true, if_false] at hs
          cases hp : popReady2 t m.heap m.dict with
          | error e => rw [hp] at hs; cases hs
          | ok r =>
            obtain ⟨s', eff, m', outs, g1, g2, g3, g4, g5, g6, g7⟩ := process_ready_types_eq hI.rel hI.ok hl t t r hp
            rw [g2] at hs0
            simp only [Except.ok.injEq, Prod.mk.injEq] at hs0
            obtain ⟨rfl, rfl⟩ := hs0
            refine ⟨s', eff, by simp only [stepG, g1], ⟨g3, g4, hinv2, fun _ => by rw [g5]; exact hl,
              fun _ => started_fireReady2 c m m' t outs g2⟩, g6, by rw [g7]; exact sendEq_map outs⟩
      · cases hs

/-- **One block of an accepted run, in the translated code** -/
theorem step_source {c : Cfg} {s : QueryScheduler} {m : S2} (hI : RunInv c s m) (t : Int) (op : Op) (hal : aliasOk lower op)
    {m1 : S2} {o : List Send} (hs : step2 c m t op = .ok (m1, o)) :
    ∃ s1 eff, stepG lower s m.armed t op = .ok (s1, eff) ∧ RunInv c s1 m1
      ∧ armedAfter t (if isFire op then none else m.armed) eff = m1.armed ∧ SendsEq (sendsOf c eff) o := by
  cases op with
  | start d => exact step_start lower hI t d hs
  | ptr a n ttl cr => exact step_ptr lower hI t a n ttl cr hal hs
  | cancel a => exact step_cancel lower hI t a hal hs
  | fire done => exact step_fire lower hI t done hs
  | stop => exact step_stop lower hI t hs

/-- **Along every accepted run** (`exec2 … = .ok`) the generated scheduler, driven block by block through the translated methods,
never raises, keeps representing the model's state, and makes send for send the model's `async_send_ready_queries` calls -/
theorem exec_source {c : Cfg} (evs : List (Int × Op)) : ∀ {s : QueryScheduler} {m : S2} (clk : Int), RunInv c s m →
    (∀ e ∈ evs, aliasOk lower e.2) → ∀ {m' : S2} {outs : List Send}, exec2 c m clk evs = .ok (m', outs) →
    ∃ s' outsG, execG lower c s m.armed evs = .ok (s', outsG) ∧ RunInv c s' m' ∧ SendsEq outsG outs := by
  induction evs with
  | nil =>
    intro s m clk hI _ m' outs hex
    simp only [exec2, Except.ok.injEq, Prod.mk.injEq] at hex
    obtain ⟨rfl, rfl⟩ := hex
    exact ⟨s, [], rfl, hI, trivial⟩
  | cons e es ih =>
    intro s m clk hI hal m' outs hex
    obtain ⟨t, op⟩ := e
    unfold exec2 at hex
    split at hex
    · cases hstep : step2 c m t op with
      | error x => rw [hstep] at hex; cases hex
      | ok r =>
        rw [hstep] at hex
        simp only at hex
        cases hrest : exec2 c r.1 t es with
        | error x => rw [hrest] at hex; cases hex
        | ok r2 =>
          rw [hrest] at hex
          simp only [Except.ok.injEq, Prod.mk.injEq] at hex
          obtain ⟨rfl, rfl⟩ := hex
          obtain ⟨s1, eff, g1, g2, g3, g4⟩ := step_source lower hI t op (hal (t, op) List.mem_cons_self) (m1 := r.1) (o := r.2) hstep
          obtain ⟨s', outsG, k1, k2, k3⟩ := ih t g2 (fun e he => hal e (List.mem_cons_of_mem _ he)) hrest
          refine ⟨s', sendsOf c eff ++ outsG, ?_, k2, sendEq_append g4 k3⟩
          simp only [execG, g1, g3, k1]
    · cases hex

end Zc.GenFacts.FnSchedRun
