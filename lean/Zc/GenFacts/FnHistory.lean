import Zc.GenFn.History
import Zc.GenFacts.FnBase
import Zc.Proofs.QueryGen
/-! # `_history.py` as translated statement by statement  =  the hand-written `History` model (C13)

`Zc.GenFn.History` is regenerated from the body of every method of `QuestionHistory` on each run
(`tools/gen_fn.py`).  Here: the hand model `Zc.QueryGen.History` (a list of entries, newest first) computes what
the generated functions compute on the Python dict.

* `suppresses_eq`: the generated `suppresses` **is** the model's, on the entry list read off the dict (no invariant).
* `async_expire_eq`: under the dict invariant (`PyDict.WF`: no two equal keys) the generated two-loop purge never
  raises `KeyError` and leaves exactly the model's filtered list.
* `add_question_at_time` overwrites in place (the dict keeps the old key object and position) while the model
  conses the new entry in front: the two agree as *maps*, which is all any reader observes — `Sim`, preserved by
  every method (`sim_add`, `sim_expire`, `sim_clear`), so the equation composes along histories (`run_sim`). -/
namespace Zc.GenFacts.FnHistory
open Zc Zc.Py Zc.QueryGen Zc.GenFn.History Zc.GenFacts.FnBase

variable (lower : String → String)

/-- the model's entry list read off the dict -/
def absH (s : QuestionHistory) : History := s.history.map (fun e => { q := e.1, time := e.2.1, known := e.2.2 })

/-- the dict invariant of the generated object -/
def WFH (s : QuestionHistory) : Prop := PyDict.WF (Question.beq lower) s.history

example : WFH lower QuestionHistory.init := PyDict.WF_nil
example : WFH lower (QuestionHistory.add_question_at_time lower QuestionHistory.init
    { name := "_http._tcp.local.", type := 12, class_ := 1, unique := false } 5 []) := by
  simp [WFH, QuestionHistory.add_question_at_time, QuestionHistory.init, PyDict.empty, PyDict.WF, Id.run, pure]

theorem get?_eq_get (d : PyDict Question (Int × PySet Rec)) (q : Question) :
    PyDict.get? (Question.beq lower) d q = (History.get lower (absH ⟨d⟩) q).map (fun e => (e.time, e.known)) := by
  induction d with
  | nil => rfl
  | cons x r ih =>
    obtain ⟨k, t, kn⟩ := x
    simp only [absH, List.map_cons, History.get, List.find?_cons, PyDict.get?_cons] at ih ⊢
    cases h : Question.beq lower k q
    · simpa using ih
    · simp

/-- `previous_known_answers - known_answers` is empty iff every previous answer is among the known ones -/
theorem diff_isEmpty (prev known : List Rec) :
    PySet.isEmpty (PySet.diff (Rec.beq lower) prev known) = subsetOf lower prev known := by
  unfold PySet.isEmpty PySet.diff subsetOf PySet.contains
  induction prev with
  | nil => rfl
  | cons x r ih =>
    rw [List.filter_cons, List.all_cons]
    have hc : (known.any fun y => Rec.beq lower y x) = (known.any fun k => Rec.beq lower x k) := by
      congr 1; funext y
      cases h1 : Rec.beq lower y x <;> cases h2 : Rec.beq lower x y <;> simp
      · have := (rec_keyEq lower).symm x y h2; simp [h1] at this
      · have := (rec_keyEq lower).symm y x h1; simp [h2] at this
    rw [hc]
    cases h : known.any fun k => Rec.beq lower x k
    · simp
    · simpa using ih

/-- **`suppresses`**: the generated function is the model's, on the entries of the dict -/
theorem suppresses_eq (s : QuestionHistory) (q : Question) (now : Int) (known : List Rec) :
    s.suppresses lower q now known = (absH s).suppresses lower q now known := by
  unfold QuestionHistory.suppresses History.suppresses
  simp only [Id.run, pure]
  have h := get?_eq_get lower s.history q
  cases hg : History.get lower (absH s) q with
  | none =>
    have : History.get lower (absH { history := s.history }) q = none := hg
    rw [this] at h
    simp [h]
  | some e =>
    have : History.get lower (absH { history := s.history }) q = some e := hg
    rw [this] at h
    simp only [h, Option.map_some, Gen.History.too_old, diff_isEmpty]
    rfl

/-- **`async_expire`**: under the dict invariant the generated purge returns (no `KeyError`) and keeps exactly the entries the
model keeps, in order -/
theorem async_expire_eq (s : QuestionHistory) (now : Int) (hwf : WFH lower s) :
    QuestionHistory.async_expire lower s now = .ok ⟨s.history.filter (fun e => !decide (now - e.2.1 > 999))⟩ := by
  unfold QuestionHistory.async_expire
  simp only [PyDict.items]
  -- first loop: `removes` collects, in order, the keys of the entries older than 999 ms
  rw [forIn_ok_yield _ _ _ (fun acc x => if decide (now - x.2.1 > 999) then acc ++ [x.1] else acc)
        (by intro x b; by_cases h : now - x.2.1 > 999 <;> simp [h] <;> rfl)]
  rw [foldl_collect]
  simp only [bind, Except.bind, List.nil_append]
  -- second loop: one `del` per collected key
  rw [forIn_except_yield _ _ _ (fun (s : QuestionHistory) q => (PyDict.delItem (Question.beq lower) s.history q).map QuestionHistory.mk)
        (by intro x b; cases h : PyDict.delItem (Question.beq lower) b.history x <;> simp [Except.map, pure, Except.pure])]
  have h2 := foldlM_delItem_filter (eq := Question.beq lower) (question_keyEq lower).refl QuestionHistory.mk QuestionHistory.history
    (fun _ => rfl) (fun e => decide (now - e.2.1 > 999)) s.history [] hwf
  simp only [List.nil_append] at h2
  rw [show s = QuestionHistory.mk s.history from rfl, h2]
  rfl

theorem absH_expire (s : QuestionHistory) (now : Int) :
    absH ⟨s.history.filter (fun e => !decide (now - e.2.1 > 999))⟩ = (absH s).expire now := by
  simp only [absH, History.expire, List.filter_map]
  rfl

/-- the purge in the model's terms -/
theorem async_expire_abs (s : QuestionHistory) (now : Int) (hwf : WFH lower s) :
    (QuestionHistory.async_expire lower s now).map absH = .ok ((absH s).expire now) := by
  rw [async_expire_eq lower s now hwf, ← absH_expire]; rfl

theorem wf_expire (s : QuestionHistory) (now : Int) (hwf : WFH lower s) :
    WFH lower ⟨s.history.filter (fun e => !decide (now - e.2.1 > 999))⟩ :=
  PyDict.WF.sublist hwf List.filter_sublist

theorem wf_add (s : QuestionHistory) (q : Question) (now : Int) (known : List Rec) (hwf : WFH lower s) :
    WFH lower (s.add_question_at_time lower q now known) := by
  simp only [QuestionHistory.add_question_at_time, Id.run, pure]
  exact PyDict.WF_set hwf _ _

theorem wf_clear (s : QuestionHistory) : WFH lower s.clear := PyDict.WF_nil

/-! ### the model is the generated code up to the order of the entries -/

/-- the dict is a dict, the model list has one entry per question, and both map every question to the same
`(time, known answers)` -/
def Sim (s : QuestionHistory) (h : History) : Prop :=
  WFH lower s ∧ History.Keyed lower h ∧
    ∀ q, PyDict.get? (Question.beq lower) s.history q = (h.get lower q).map (fun e => (e.time, e.known))

theorem sim_init : Sim lower QuestionHistory.init [] := ⟨PyDict.WF_nil, List.Pairwise.nil, fun _ => rfl⟩

theorem keyed_absH (s : QuestionHistory) (hwf : WFH lower s) : History.Keyed lower (absH s) := by
  unfold History.Keyed absH
  rw [List.pairwise_map]
  exact hwf

/-- every dict is simulated by its own entry list -/
theorem sim_absH (s : QuestionHistory) (hwf : WFH lower s) : Sim lower s (absH s) :=
  ⟨hwf, keyed_absH lower s hwf, fun q => get?_eq_get lower s.history q⟩

/-- lookup in the model after `add` -/
theorem get_add' (h : History) (q0 : Question) (now : Int) (known : List Rec) (q : Question) :
    (h.add lower q0 now known).get lower q =
      if q0.beq lower q then some { q := q0, time := now, known } else h.get lower q := by
  unfold History.add History.get
  rw [List.find?_cons]
  cases h0 : Question.beq lower q0 q
  · simp only [Bool.false_eq_true, if_false]
    induction h with
    | nil => rfl
    | cons x r ih =>
      rw [List.filter_cons, List.find?_cons]
      cases h1 : Question.beq lower x.q q0
      · simp only [Bool.not_false, if_true, List.find?_cons]
        cases h2 : Question.beq lower x.q q <;> simp [ih]
      · simp only [Bool.not_true, Bool.false_eq_true, if_false]
        have h2 : Question.beq lower x.q q = false := by
          rw [PyDict.eq_congr_left (question_keyEq lower) h1 q]; exact h0
        simp [h2, ih]
  · simp

theorem suppresses_of_get (h h' : History) (q : Question) (now : Int) (known : List Rec)
    (hg : (h.get lower q).map (fun e => (e.time, e.known)) = (h'.get lower q).map (fun e => (e.time, e.known))) :
    h.suppresses lower q now known = h'.suppresses lower q now known := by
  unfold History.suppresses
  cases h1 : h.get lower q <;> cases h2 : h'.get lower q <;> simp [h1, h2] at hg ⊢
  obtain ⟨ht, hk⟩ := hg
  rw [ht, hk]

/-- **readers agree**: what the generated `suppresses` answers on the dict is what the model answers -/
theorem sim_suppresses {s : QuestionHistory} {h : History} (hs : Sim lower s h) (q : Question) (now : Int) (known : List Rec) :
    s.suppresses lower q now known = h.suppresses lower q now known := by
  rw [suppresses_eq]
  apply suppresses_of_get
  rw [← get?_eq_get lower s.history q]
  exact hs.2.2 q

theorem sim_add {s : QuestionHistory} {h : History} (hs : Sim lower s h) (q0 : Question) (now : Int) (known : List Rec) :
    Sim lower (s.add_question_at_time lower q0 now known) (h.add lower q0 now known) := by
  refine ⟨wf_add lower s q0 now known hs.1, keyed_add lower hs.2.1 q0 now known, fun q => ?_⟩
  simp only [QuestionHistory.add_question_at_time, Id.run, pure]
  rw [PyDict.get?_set (question_keyEq lower), get_add', hs.2.2 q]
  cases Question.beq lower q0 q <;> simp

/-- lookup in a keyed list after filtering on the value -/
theorem get_expire {h : History} (hk : History.Keyed lower h) (t : Int) (q : Question) :
    (h.expire t).get lower q = (h.get lower q).filter (fun e => !(Gen.History.expire_old t e.time)) := by
  induction h with
  | nil => rfl
  | cons x r ih =>
    have hkr : History.Keyed lower r := (List.pairwise_cons.1 hk).2
    unfold History.expire History.get at ih ⊢
    rw [List.filter_cons, List.find?_cons]
    cases hx : Question.beq lower x.q q
    · cases ho : Gen.History.expire_old t x.time
      · simp only [Bool.not_false, if_true, List.find?_cons, hx]
        exact ih hkr
      · simp only [Bool.not_true, Bool.false_eq_true, if_false]
        exact ih hkr
    · cases ho : Gen.History.expire_old t x.time
      · simp [hx, Option.filter, ho]
      · simp only [Bool.not_true, Bool.false_eq_true, if_false, Option.filter, ho]
        have := get_none_of_keyed lower hk hx (List.filter (fun e => !Gen.History.expire_old t e.time) r)
          (fun e he => (List.mem_filter.1 he).1)
        simpa [History.get] using this

theorem sim_expire {s : QuestionHistory} {h : History} (hs : Sim lower s h) (now : Int) :
    ∃ s', QuestionHistory.async_expire lower s now = .ok s' ∧ Sim lower s' (h.expire now) := by
  refine ⟨_, async_expire_eq lower s now hs.1, wf_expire lower s now hs.1, keyed_expire lower hs.2.1 now, fun q => ?_⟩
  have h1 := get?_eq_get lower (s.history.filter (fun e => !decide (now - e.2.1 > 999))) q
  rw [absH_expire, get_expire lower (keyed_absH lower s hs.1)] at h1
  rw [h1, get_expire lower hs.2.1]
  have h2 := hs.2.2 q
  rw [get?_eq_get] at h2
  cases h3 : History.get lower (absH s) q <;> cases h4 : History.get lower h q <;>
    simp only [h3, h4, Option.map_none, Option.map_some, Option.some.injEq, Prod.mk.injEq, reduceCtorEq] at h2 ⊢
  obtain ⟨ht, hkn⟩ := h2
  simp only [Option.filter, ht]
  split <;> simp [ht, hkn]

theorem sim_clear (s : QuestionHistory) : Sim lower s.clear [] := ⟨PyDict.WF_nil, List.Pairwise.nil, fun _ => rfl⟩

/-! ### along histories -/

/-- the methods that change a `QuestionHistory` -/
inductive HOp where
  | add (q : Question) (now : Int) (known : List Rec)
  | expire (now : Int)
  | clear

/-- the generated code, call after call -/
def runGen : List HOp → QuestionHistory → Except PyExc QuestionHistory
  | [], s => .ok s
  | .add q now known :: ops, s => runGen ops (s.add_question_at_time lower q now known)
  | .expire now :: ops, s => (QuestionHistory.async_expire lower s now).bind (runGen ops)
  | .clear :: ops, s => runGen ops s.clear

/-- the hand model, call after call -/
def runModel : List HOp → History → History
  | [], h => h
  | .add q now known :: ops, h => runModel ops (h.add lower q now known)
  | .expire now :: ops, h => runModel ops (h.expire now)
  | .clear :: ops, _ => runModel ops []

/-- **every history of calls**: the generated code never raises, and the model's list simulates the resulting dict — hence
(`sim_suppresses`) every suppression decision the model takes is the one the translated source takes -/
theorem run_sim (ops : List HOp) {s : QuestionHistory} {h : History} (hs : Sim lower s h) :
    ∃ s', runGen lower ops s = .ok s' ∧ Sim lower s' (runModel lower ops h) := by
  induction ops generalizing s h with
  | nil => exact ⟨s, rfl, hs⟩
  | cons op ops ih =>
    cases op with
    | add q now known => exact ih (sim_add lower hs q now known)
    | expire now =>
      obtain ⟨s1, h1, hs1⟩ := sim_expire lower hs now
      obtain ⟨s2, h2, hs2⟩ := ih hs1
      exact ⟨s2, by simp [runGen, h1, Except.bind, h2], hs2⟩
    | clear => exact ih (sim_clear lower s)

end Zc.GenFacts.FnHistory
