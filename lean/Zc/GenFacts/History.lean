import Zc.Gen.Const
import Zc.Gen.Dns
import Zc.Gen.History
import Zc.Gen.LookupLoop
import Zc.Gen.QueryTtl
import Zc.Gen.Outgoing
/-! Facts about generated leaves/constants used by the C13 proofs (DESIGN §2.2). -/
namespace Zc.GenFacts.History
open Zc.Gen

theorem too_old_iff (now than : Int) : History.too_old now than = true ↔ 999 < now - than := by
  simp [History.too_old]

theorem expire_old_iff (now than : Int) : History.expire_old now than = true ↔ 999 < now - than := by
  simp [History.expire_old]

theorem is_stale_iff (c t n : Int) : Dns.is_stale c t n = true ↔ c + 500 * t ≤ n := by
  simp [Dns.is_stale]

theorem is_expired_iff (c t n : Int) : Dns.is_expired c t n = true ↔ c + 1000 * t ≤ n := by
  simp [Dns.is_expired]

theorem remaining_ttl_eq (c t n : Int) (h : n < c + 1000 * t) : Dns.get_remaining_ttl c t n = (c + 1000 * t - n) / 1000 := by
  have h0 : ¬ (c + 1000 * t - n < 0) := by omega
  simp [Dns.get_remaining_ttl, h0, Int.fdiv_eq_ediv_of_nonneg]

theorem timed_out_iff (last now : Int) : LookupLoop.timed_out last now = true ↔ last ≤ now := by
  simp [LookupLoop.timed_out]

theorem query_due_iff (next now : Int) : LookupLoop.query_due next now = true ↔ next ≤ now := by
  simp [LookupLoop.query_due]

theorem next_base_eq (now delay : Int) : LookupLoop.next_base now delay = now + delay := by
  simp [LookupLoop.next_base]

theorem delay_bump_iff (qm : Bool) (delay : Int) : LookupLoop.delay_bump qm delay = true ↔ (qm = true ∧ delay < 999) := by
  simp [LookupLoop.delay_bump]

/-- the time handed to `add_answer_at_time` by a lookup is the query time -/
theorem lookup_answer_time_eq (now : Int) : QueryTtl.lookup_answer_time now = now := rfl

/-- the time handed to `add_answer_at_time` by a browser query is the query time (four hops) -/
theorem browser_answer_time_eq (now : Int) :
    QueryTtl.bucket_answer_time (QueryTtl.bucket_now_field (QueryTtl.bucket_ctor_time (QueryTtl.group_call_time now))) = now := rfl

/-- a present record is accepted as an answer at a non-zero time iff it is not expired then -/
theorem answer_accepted_iff (t : Int) (ht : t ≠ 0) (expired : Bool) :
    Outgoing.answer_accepted true t expired = !expired := by
  simp [Outgoing.answer_accepted, ht]

/-- at a non-zero time the TTL field is the remaining TTL -/
theorem ttl_field_nonzero (ttl t rem : Int) (ht : t ≠ 0) : Outgoing.ttl_field ttl t rem = rem := by
  simp [Outgoing.ttl_field, ht]

/-- the clean-up tick expires the history at the current time -/
theorem cleanup_expire_time_eq (now : Int) : History.cleanup_expire_time now = now := rfl

theorem listenerTime_eq : listenerTime = 200 := rfl
theorem duplicateQuestionInterval_eq : duplicateQuestionInterval = 999 := rfl
theorem avoidSync_eq : avoidSyncDelayRandomInterval = [20, 120] := rfl

end Zc.GenFacts.History
