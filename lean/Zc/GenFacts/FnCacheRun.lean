import Zc.GenFacts.FnCache
/-! # the record manager over the *generated* cache operations  =  the record manager over the model's (C05/C06)

`Zc.ingest` / `Zc.expire` (`RecordManager.async_updates_from_response`, `DNSCache.async_expire` as the model writes them) use the cache
only through the six operations of `CacheOps`.  `OpsSim`: one set of operations simulates another through an abstraction function, under
an invariant every mutator preserves.  `ingest_sim` / `expire_sim`: then the two runs agree.  `genOps`: `CacheOps` over the generated
`DNSCache`, with `add`, `remove`, `getUnique`, `allRecs` the **translated** functions; `resetTtl` and `markFlush` mutate record objects
that live in both indexes (outside the translated subset): they are parameters, and "they act on the abstraction as the model's do and
keep `CInv`" is the residual hypothesis `ResidualOk`. -/
namespace Zc.GenFacts.FnCacheRun
open Zc Zc.Py Zc.GenFn.Cache Zc.GenFacts.FnCache

variable (lower : String → String)

/-- `o1` on `σ` simulates `o2` on `τ` through `abs`, under `Inv` -/
structure OpsSim {σ τ : Type} (abs : σ → τ) (Inv : σ → Prop) (o1 : CacheOps σ) (o2 : CacheOps τ) : Prop where
  getUnique : ∀ s r, Inv s → o1.getUnique s r = o2.getUnique (abs s) r
  resetTtl : ∀ s r, Inv s → abs (o1.resetTtl s r) = o2.resetTtl (abs s) r ∧ Inv (o1.resetTtl s r)
  markFlush : ∀ s u a n, Inv s → abs (o1.markFlush s u a n) = o2.markFlush (abs s) u a n ∧ Inv (o1.markFlush s u a n)
  add : ∀ s r, Inv s → abs (o1.add s r).1 = (o2.add (abs s) r).1 ∧ (o1.add s r).2 = (o2.add (abs s) r).2 ∧ Inv (o1.add s r).1
  remove : ∀ s r, Inv s → (o1.remove s r).map abs = o2.remove (abs s) r ∧ ∀ s', o1.remove s r = .ok s' → Inv s'
  allRecs : ∀ s, Inv s → o1.allRecs s = o2.allRecs (abs s)

section Sim
variable {σ τ : Type} {abs : σ → τ} {Inv : σ → Prop} {o1 : CacheOps σ} {o2 : CacheOps τ} (hs : OpsSim abs Inv o1 o2)
include hs

def accMap (abs : σ → τ) (a : IngestAcc σ) : IngestAcc τ :=
  { cache := abs a.cache, updates := a.updates, addrAdds := a.addrAdds, otherAdds := a.otherAdds, removes := a.removes,
    uniqueTypes := a.uniqueTypes }

omit hs in
theorem accMap_cache (a : IngestAcc σ) : (accMap abs a).cache = abs a.cache := rfl

theorem ingestStep_sim (now : Ms) (a : IngestAcc σ) (r0 : Rec) (hi : Inv a.cache) :
    accMap abs (ingestStep lower o1 now a r0) = ingestStep lower o2 now (accMap abs a) r0
    ∧ Inv (ingestStep lower o1 now a r0).cache := by
  unfold ingestStep
  simp only [accMap_cache, ← hs.getUnique a.cache _ hi]
  cases o1.getUnique a.cache (floorPtr r0) <;> cases (floorPtr r0).isExpired now
  · simp only
    split
    · exact ⟨by first | rfl | trivial, hi⟩
    · exact ⟨by first | rfl | trivial, hi⟩
  · exact ⟨by first | rfl | trivial, hi⟩
  · obtain ⟨h1, h2⟩ := hs.resetTtl a.cache (floorPtr r0) hi
    refine ⟨?_, h2⟩
    simp only [accMap, h1]
  · exact ⟨by first | rfl | trivial, hi⟩

theorem ingestFold_sim (now : Ms) (rs : List Rec) (a : IngestAcc σ) (hi : Inv a.cache) :
    accMap abs (rs.foldl (ingestStep lower o1 now) a) = rs.foldl (ingestStep lower o2 now) (accMap abs a)
    ∧ Inv (rs.foldl (ingestStep lower o1 now) a).cache := by
  induction rs generalizing a with
  | nil => exact ⟨rfl, hi⟩
  | cons r t ih =>
    obtain ⟨h1, h2⟩ := ingestStep_sim lower hs now a r hi
    rw [List.foldl_cons, List.foldl_cons, ← h1]
    exact ih _ h2

theorem ingestPre_sim (c : σ) (now : Ms) (recs : List Rec) (hi : Inv c) :
    accMap abs (ingestPre lower o1 c now recs) = ingestPre lower o2 (abs c) now recs ∧ Inv (ingestPre lower o1 c now recs).cache := by
  unfold ingestPre
  obtain ⟨h1, h2⟩ := ingestFold_sim lower hs now (stamp now recs) { cache := c } hi
  have h1' : accMap abs (List.foldl (ingestStep lower o1 now) { cache := c } (stamp now recs))
      = List.foldl (ingestStep lower o2 now) { cache := abs c } (stamp now recs) := h1
  simp only [← h1']
  generalize List.foldl (ingestStep lower o1 now) { cache := c } (stamp now recs) = a at h2 ⊢
  by_cases he : a.uniqueTypes.isEmpty = true
  · simp only [accMap, he, if_true]
    exact ⟨trivial, h2⟩
  · obtain ⟨g1, g2⟩ := hs.markFlush a.cache a.uniqueTypes ((stamp now recs).map floorPtr) now h2
    simp only [accMap, he, Bool.false_eq_true, if_false, g1]
    exact ⟨trivial, g2⟩

theorem addAll_sim (c : σ) (rs : List Rec) (hi : Inv c) :
    abs (addAll o1 c rs).1 = (addAll o2 (abs c) rs).1 ∧ (addAll o1 c rs).2 = (addAll o2 (abs c) rs).2 ∧ Inv (addAll o1 c rs).1 := by
  unfold addAll
  have key : ∀ (acc : σ × Bool), Inv acc.1 →
      abs (rs.foldl (fun (acc : σ × Bool) r => ((o1.add acc.1 r).1, acc.2 || (o1.add acc.1 r).2)) acc).1
        = (rs.foldl (fun (acc : τ × Bool) r => ((o2.add acc.1 r).1, acc.2 || (o2.add acc.1 r).2)) (abs acc.1, acc.2)).1
      ∧ (rs.foldl (fun (acc : σ × Bool) r => ((o1.add acc.1 r).1, acc.2 || (o1.add acc.1 r).2)) acc).2
        = (rs.foldl (fun (acc : τ × Bool) r => ((o2.add acc.1 r).1, acc.2 || (o2.add acc.1 r).2)) (abs acc.1, acc.2)).2
      ∧ Inv (rs.foldl (fun (acc : σ × Bool) r => ((o1.add acc.1 r).1, acc.2 || (o1.add acc.1 r).2)) acc).1 := by
    induction rs with
    | nil => intro acc h; exact ⟨rfl, rfl, h⟩
    | cons r t ih =>
      intro acc h
      obtain ⟨a1, a2, a3⟩ := hs.add acc.1 r h
      simp only [List.foldl_cons]
      rw [← a1, ← a2]
      exact ih ((o1.add acc.1 r).1, acc.2 || (o1.add acc.1 r).2) a3
  exact key (c, false) hi

theorem removeAll_sim (c : σ) (rs : List Rec) (hi : Inv c) :
    (removeAll o1 c rs).map abs = removeAll o2 (abs c) rs ∧ ∀ c', removeAll o1 c rs = .ok c' → Inv c' := by
  unfold removeAll
  induction rs generalizing c with
  | nil => exact ⟨rfl, fun c' h => by cases h; exact hi⟩
  | cons r t ih =>
    obtain ⟨h1, h2⟩ := hs.remove c r hi
    rw [List.foldlM_cons, List.foldlM_cons, ← h1]
    cases hr : o1.remove c r with
    | error e => exact ⟨rfl, fun c' h => by cases h⟩
    | ok c1 =>
      obtain ⟨g1, g2⟩ := ih c1 (h2 c1 hr)
      exact ⟨g1, g2⟩

def outMap (abs : σ → τ) (o : IngestOut σ) : IngestOut τ :=
  { cache := abs o.cache, call1 := o.call1.map (fun p => (p.1, abs p.2)), call2 := o.call2.map abs, notify := o.notify }

/-- **the record manager's work on one datagram** agrees through the simulation -/
theorem ingest_sim (c : σ) (now : Ms) (recs : List Rec) (hi : Inv c) :
    (ingest lower o1 c now recs).map (outMap abs) = ingest lower o2 (abs c) now recs := by
  obtain ⟨p1, p2⟩ := ingestPre_sim lower hs c now recs hi
  unfold ingest
  rw [← p1]
  generalize ingestPre lower o1 c now recs = a at p2 ⊢
  obtain ⟨b1, b2, b3⟩ := addAll_sim hs a.cache a.addrAdds p2
  obtain ⟨c1, c2, c3⟩ := addAll_sim hs (addAll o1 a.cache a.addrAdds).1 a.otherAdds b3
  have hk : keptRemoves o1 (addAll o1 (addAll o1 a.cache a.addrAdds).1 a.otherAdds).1 a.removes
      = keptRemoves o2 (abs (addAll o1 (addAll o1 a.cache a.addrAdds).1 a.otherAdds).1) a.removes := by
    unfold keptRemoves keptRemovesWith
    congr 1
    funext r
    rw [hs.getUnique _ r c3]
  obtain ⟨d1, _⟩ := removeAll_sim hs (addAll o1 (addAll o1 a.cache a.addrAdds).1 a.otherAdds).1
    (keptRemoves o1 (addAll o1 (addAll o1 a.cache a.addrAdds).1 a.otherAdds).1 a.removes) c3
  have hl : (livePairs o1 a.cache a.updates) = livePairs o2 (abs a.cache) a.updates := by
    unfold livePairs
    congr 1
    funext u
    rw [hs.getUnique _ _ p2]
  simp only [accMap, bind, Except.bind, pure, Except.pure]
  rw [← b1, ← c1, ← hk, ← d1, ← hl, ← b2, ← c2]
  cases removeAll o1 (addAll o1 (addAll o1 a.cache a.addrAdds).1 a.otherAdds).1
      (keptRemoves o1 (addAll o1 (addAll o1 a.cache a.addrAdds).1 a.otherAdds).1 a.removes) with
  | error e => rfl
  | ok c4 =>
    simp only [Except.map, outMap]
    by_cases he : a.updates.isEmpty = true <;> simp [he]

/-- **the purge** agrees through the simulation -/
theorem expire_sim (c : σ) (now : Ms) (hi : Inv c) :
    (expire o1 c now).map (fun p => (abs p.1, p.2)) = expire o2 (abs c) now := by
  unfold expire
  rw [← hs.allRecs c hi]
  obtain ⟨d1, _⟩ := removeAll_sim hs c ((o1.allRecs c).filter (fun r => r.isExpired now)) hi
  simp only [bind, Except.bind, pure, Except.pure]
  rw [← d1]
  cases removeAll o1 c ((o1.allRecs c).filter (fun r => r.isExpired now)) <;> rfl

end Sim

/-! ### the instance: the generated `DNSCache` -/

/-- `CacheOps` over the generated cache: `getUnique`, `add`, `remove`, `allRecs` are the translated `async_get_unique`, `_async_add`,
`_async_remove` and the iteration of `async_expire`; `resetTtl` / `markFlush` are parameters (not in the translated subset) -/
def genOps (resetTtlG : DNSCache → Rec → DNSCache) (markFlushG : DNSCache → List (String × Nat × Nat) → List Rec → Ms → DNSCache) :
    CacheOps DNSCache where
  getUnique s r := s.async_get_unique lower r
  resetTtl := resetTtlG
  markFlush := markFlushG
  add s r := match DNSCache.async_add lower s r with
    | .ok p => (p.2, p.1)
    | .error _ => (s, false)
  remove s r := DNSCache.async_remove lower s r
  allRecs s := (PyDict.values s.cache).flatMap PyDict.keys

/-- the residual hypothesis: the two untranslated mutators act on the abstraction as the model's do, and keep the invariant -/
structure ResidualOk (resetTtlG : DNSCache → Rec → DNSCache)
    (markFlushG : DNSCache → List (String × Nat × Nat) → List Rec → Ms → DNSCache) : Prop where
  resetTtl : ∀ s r, CInv lower s → absC (resetTtlG s r) = Cache.resetTtl lower (absC s) r ∧ CInv lower (resetTtlG s r)
  markFlush : ∀ s u a n, CInv lower s → absC (markFlushG s u a n) = Cache.markFlush lower (absC s) u a n ∧ CInv lower (markFlushG s u a n)

theorem genOps_sim {resetTtlG : DNSCache → Rec → DNSCache}
    {markFlushG : DNSCache → List (String × Nat × Nat) → List Rec → Ms → DNSCache} (hres : ResidualOk lower resetTtlG markFlushG) :
    OpsSim absC (CInv lower) (genOps lower resetTtlG markFlushG) (Cache.ops lower) where
  getUnique s r h := async_get_unique_eq lower s r h
  resetTtl s r h := hres.resetTtl s r h
  markFlush s u a n h := hres.markFlush s u a n h
  add s r h := by
    have he := async_add_eq lower s r h
    have hinv := @async_add_inv lower s
    simp only [genOps, Cache.ops]
    cases hr : DNSCache.async_add lower s r with
    | error e => rw [hr] at he; cases he
    | ok p =>
      rw [hr] at he
      simp only [Except.map, Except.ok.injEq] at he
      exact ⟨congrArg Prod.fst he, congrArg Prod.snd he, hinv (s' := p.2) (r := r) (b := p.1) h hr⟩
  remove s r h := ⟨async_remove_eq lower s r h, fun s' he => async_remove_inv lower h he⟩
  allRecs s h := by
    simp only [genOps, Cache.ops, Cache.allRecs, absC, allRecs_abs]

/-- **`async_updates_from_response` over the translated cache operations is the model's `ingest`** (on any generated cache satisfying
the representation invariant, for every datagram): same cache afterwards, same two observation points for the listeners, same
`new` flag — and the same exception, if any -/
theorem ingest_gen {resetTtlG : DNSCache → Rec → DNSCache}
    {markFlushG : DNSCache → List (String × Nat × Nat) → List Rec → Ms → DNSCache} (hres : ResidualOk lower resetTtlG markFlushG)
    (s : DNSCache) (h : CInv lower s) (now : Ms) (recs : List Rec) :
    (ingest lower (genOps lower resetTtlG markFlushG) s now recs).map (outMap absC) = ingest lower (Cache.ops lower) (absC s) now recs :=
  ingest_sim lower (genOps_sim lower hres) s now recs h

/-- **the purge over the translated operations is the model's `expire`** -/
theorem expire_gen {resetTtlG : DNSCache → Rec → DNSCache}
    {markFlushG : DNSCache → List (String × Nat × Nat) → List Rec → Ms → DNSCache} (hres : ResidualOk lower resetTtlG markFlushG)
    (s : DNSCache) (h : CInv lower s) (now : Ms) :
    (expire (genOps lower resetTtlG markFlushG) s now).map (fun p => (absC p.1, p.2)) = expire (Cache.ops lower) (absC s) now :=
  expire_sim (genOps_sim lower hres) s now h

end Zc.GenFacts.FnCacheRun
