import Zc.GenFacts.FnCache
import Zc.Proofs.CacheIndex
import Zc.Model.CacheSpec
/-! # the record manager over the *generated* cache operations  =  the record manager over the model's (C05/C06)

`Zc.ingest` / `Zc.expire` (`RecordManager.async_updates_from_response`, `DNSCache.async_expire` as the model writes them) use the cache
only through the six operations of `CacheOps`.  `OpsSim`: one set of operations simulates another through an abstraction function, under
an invariant every mutator preserves.  `ingest_sim` / `expire_sim`: then the two runs agree.  `genOps`: `CacheOps` over the generated
`DNSCache`, with `add`, `remove`, `getUnique`, `allRecs` the **translated** functions; `resetTtl` and `markFlush` mutate record objects
that live in both indexes (outside the translated subset): they are parameters, and "they act on the abstraction as the model's do and
keep `CInv`" is the residual hypothesis `ResidualOk`. -/
namespace Zc.GenFacts.FnCacheRun
open Zc Zc.Py Zc.GenFn.Cache Zc.GenFacts.FnCache

variable (lower : String → String)

/-- `o1` on `σ` simulates `o2` on `τ` through `abs`, under `Inv` -/
structure OpsSim {σ τ : Type} (abs : σ → τ) (Inv : σ → Prop) (o1 : CacheOps σ) (o2 : CacheOps τ) : Prop where
  getUnique : ∀ s r, Inv s → o1.getUnique s r = o2.getUnique (abs s) r
  resetTtl : ∀ s r, Inv s → abs (o1.resetTtl s r) = o2.resetTtl (abs s) r ∧ Inv (o1.resetTtl s r)
  markFlush : ∀ s u a n, Inv s → abs (o1.markFlush s u a n) = o2.markFlush (abs s) u a n ∧ Inv (o1.markFlush s u a n)
  add : ∀ s r, Inv s → abs (o1.add s r).1 = (o2.add (abs s) r).1 ∧ (o1.add s r).2 = (o2.add (abs s) r).2 ∧ Inv (o1.add s r).1
  remove : ∀ s r, Inv s → (o1.remove s r).map abs = o2.remove (abs s) r ∧ ∀ s', o1.remove s r = .ok s' → Inv s'
  allRecs : ∀ s, Inv s → o1.allRecs s = o2.allRecs (abs s)

section Sim
variable {σ τ : Type} {abs : σ → τ} {Inv : σ → Prop} {o1 : CacheOps σ} {o2 : CacheOps τ} (hs : OpsSim abs Inv o1 o2)
include hs

def accMap (abs : σ → τ) (a : IngestAcc σ) : IngestAcc τ :=
  { cache := abs a.cache, updates := a.updates, addrAdds := a.addrAdds, otherAdds := a.otherAdds, removes := a.removes,
    uniqueTypes := a.uniqueTypes }

omit hs in
theorem accMap_cache (a : IngestAcc σ) : (accMap abs a).cache = abs a.cache := rfl

theorem ingestStep_sim (now : Ms) (a : IngestAcc σ) (r0 : Rec) (hi : Inv a.cache) :
    accMap abs (ingestStep lower o1 now a r0) = ingestStep lower o2 now (accMap abs a) r0
    ∧ Inv (ingestStep lower o1 now a r0).cache := by
  unfold ingestStep
  simp only [accMap_cache, ← hs.getUnique a.cache _ hi]
  cases o1.getUnique a.cache (floorPtr r0) <;> cases (floorPtr r0).isExpired now
  · simp only
    split
    · exact ⟨by first | rfl | trivial, hi⟩
    · exact ⟨by first | rfl | trivial, hi⟩
  · exact ⟨by first | rfl | trivial, hi⟩
  · obtain ⟨h1, h2⟩ := hs.resetTtl a.cache (floorPtr r0) hi
    refine ⟨?_, h2⟩
    simp only [accMap, h1]
  · exact ⟨by first | rfl | trivial, hi⟩

theorem ingestFold_sim (now : Ms) (rs : List Rec) (a : IngestAcc σ) (hi : Inv a.cache) :
    accMap abs (rs.foldl (ingestStep lower o1 now) a) = rs.foldl (ingestStep lower o2 now) (accMap abs a)
    ∧ Inv (rs.foldl (ingestStep lower o1 now) a).cache := by
  induction rs generalizing a with
  | nil => exact ⟨rfl, hi⟩
  | cons r t ih =>
    obtain ⟨h1, h2⟩ := ingestStep_sim lower hs now a r hi
    rw [List.foldl_cons, List.foldl_cons, ← h1]
    exact ih _ h2

theorem ingestPre_sim (c : σ) (now : Ms) (recs : List Rec) (hi : Inv c) :
    accMap abs (ingestPre lower o1 c now recs) = ingestPre lower o2 (abs c) now recs ∧ Inv (ingestPre lower o1 c now recs).cache := by
  unfold ingestPre
  obtain ⟨h1, h2⟩ := ingestFold_sim lower hs now (stamp now recs) { cache := c } hi
  have h1' : accMap abs (List.foldl (ingestStep lower o1 now) { cache := c } (stamp now recs))
      = List.foldl (ingestStep lower o2 now) { cache := abs c } (stamp now recs) := h1
  simp only [← h1']
  generalize List.foldl (ingestStep lower o1 now) { cache := c } (stamp now recs) = a at h2 ⊢
  by_cases he : a.uniqueTypes.isEmpty = true
  · simp only [accMap, he, if_true]
    exact ⟨trivial, h2⟩
  · obtain ⟨g1, g2⟩ := hs.markFlush a.cache a.uniqueTypes ((stamp now recs).map floorPtr) now h2
    simp only [accMap, he, Bool.false_eq_true, if_false, g1]
    exact ⟨trivial, g2⟩

theorem addAll_sim (c : σ) (rs : List Rec) (hi : Inv c) :
    abs (addAll o1 c rs).1 = (addAll o2 (abs c) rs).1 ∧ (addAll o1 c rs).2 = (addAll o2 (abs c) rs).2 ∧ Inv (addAll o1 c rs).1 := by
  unfold addAll
  have key : ∀ (acc : σ × Bool), Inv acc.1 →
      abs (rs.foldl (fun (acc : σ × Bool) r => ((o1.add acc.1 r).1, acc.2 || (o1.add acc.1 r).2)) acc).1
        = (rs.foldl (fun (acc : τ × Bool) r => ((o2.add acc.1 r).1, acc.2 || (o2.add acc.1 r).2)) (abs acc.1, acc.2)).1
      ∧ (rs.foldl (fun (acc : σ × Bool) r => ((o1.add acc.1 r).1, acc.2 || (o1.add acc.1 r).2)) acc).2
        = (rs.foldl (fun (acc : τ × Bool) r => ((o2.add acc.1 r).1, acc.2 || (o2.add acc.1 r).2)) (abs acc.1, acc.2)).2
      ∧ Inv (rs.foldl (fun (acc : σ × Bool) r => ((o1.add acc.1 r).1, acc.2 || (o1.add acc.1 r).2)) acc).1 := by
    induction rs with
    | nil => intro acc h; exact ⟨rfl, rfl, h⟩
    | cons r t ih =>
      intro acc h
      obtain ⟨a1, a2, a3⟩ := hs.add acc.1 r h
      simp only [List.foldl_cons]
      rw [← a1, ← a2]
      exact ih ((o1.add acc.1 r).1, acc.2 || (o1.add acc.1 r).2) a3
  exact key (c, false) hi

theorem removeAll_sim (c : σ) (rs : List Rec) (hi : Inv c) :
    (removeAll o1 c rs).map abs = removeAll o2 (abs c) rs ∧ ∀ c', removeAll o1 c rs = .ok c' → Inv c' := by
  unfold removeAll
  induction rs generalizing c with
  | nil => exact ⟨rfl, fun c' h => by cases h; exact hi⟩
  | cons r t ih =>
    obtain ⟨h1, h2⟩ := hs.remove c r hi
    rw [List.foldlM_cons, List.foldlM_cons, ← h1]
    cases hr : o1.remove c r with
    | error e => exact ⟨rfl, fun c' h => by cases h⟩
    | ok c1 =>
      obtain ⟨g1, g2⟩ := ih c1 (h2 c1 hr)
      exact ⟨g1, g2⟩

def outMap (abs : σ → τ) (o : IngestOut σ) : IngestOut τ :=
  { cache := abs o.cache, call1 := o.call1.map (fun p => (p.1, abs p.2)), call2 := o.call2.map abs, notify := o.notify }

/-- **the record manager's work on one datagram** agrees through the simulation -/
theorem ingest_sim (c : σ) (now : Ms) (recs : List Rec) (hi : Inv c) :
    (ingest lower o1 c now recs).map (outMap abs) = ingest lower o2 (abs c) now recs := by
  obtain ⟨p1, p2⟩ := ingestPre_sim lower hs c now recs hi
  unfold ingest
  rw [← p1]
  generalize ingestPre lower o1 c now recs = a at p2 ⊢
  obtain ⟨b1, b2, b3⟩ := addAll_sim hs a.cache a.addrAdds p2
  obtain ⟨c1, c2, c3⟩ := addAll_sim hs (addAll o1 a.cache a.addrAdds).1 a.otherAdds b3
  have hk : keptRemoves o1 (addAll o1 (addAll o1 a.cache a.addrAdds).1 a.otherAdds).1 a.removes
      = keptRemoves o2 (abs (addAll o1 (addAll o1 a.cache a.addrAdds).1 a.otherAdds).1) a.removes := by
    unfold keptRemoves keptRemovesWith
    congr 1
    funext r
    rw [hs.getUnique _ r c3]
  obtain ⟨d1, _⟩ := removeAll_sim hs (addAll o1 (addAll o1 a.cache a.addrAdds).1 a.otherAdds).1
    (keptRemoves o1 (addAll o1 (addAll o1 a.cache a.addrAdds).1 a.otherAdds).1 a.removes) c3
  have hl : (livePairs o1 a.cache a.updates) = livePairs o2 (abs a.cache) a.updates := by
    unfold livePairs
    congr 1
    funext u
    rw [hs.getUnique _ _ p2]
  simp only [accMap, bind, Except.bind, pure, Except.pure]
  rw [← b1, ← c1, ← hk, ← d1, ← hl, ← b2, ← c2]
  cases removeAll o1 (addAll o1 (addAll o1 a.cache a.addrAdds).1 a.otherAdds).1
      (keptRemoves o1 (addAll o1 (addAll o1 a.cache a.addrAdds).1 a.otherAdds).1 a.removes) with
  | error e => rfl
  | ok c4 =>
    simp only [Except.map, outMap]
    by_cases he : a.updates.isEmpty = true <;> simp [he]

/-- **the purge** agrees through the simulation -/
theorem expire_sim (c : σ) (now : Ms) (hi : Inv c) :
    (expire o1 c now).map (fun p => (abs p.1, p.2)) = expire o2 (abs c) now := by
  unfold expire
  rw [← hs.allRecs c hi]
  obtain ⟨d1, _⟩ := removeAll_sim hs c ((o1.allRecs c).filter (fun r => r.isExpired now)) hi
  simp only [bind, Except.bind, pure, Except.pure]
  rw [← d1]
  cases removeAll o1 c ((o1.allRecs c).filter (fun r => r.isExpired now)) <;> rfl

theorem ingest_inv (c : σ) (now : Ms) (recs : List Rec) (hi : Inv c) (out : IngestOut σ) (ho : ingest lower o1 c now recs = .ok out) :
    Inv out.cache := by
  obtain ⟨_, p2⟩ := ingestPre_sim lower hs c now recs hi
  unfold ingest at ho
  generalize ingestPre lower o1 c now recs = a at p2 ho
  obtain ⟨_, _, b3⟩ := addAll_sim hs a.cache a.addrAdds p2
  obtain ⟨_, _, c3⟩ := addAll_sim hs (addAll o1 a.cache a.addrAdds).1 a.otherAdds b3
  obtain ⟨_, d2⟩ := removeAll_sim hs (addAll o1 (addAll o1 a.cache a.addrAdds).1 a.otherAdds).1
    (keptRemoves o1 (addAll o1 (addAll o1 a.cache a.addrAdds).1 a.otherAdds).1 a.removes) c3
  simp only [bind, Except.bind, pure, Except.pure] at ho
  cases hr : removeAll o1 (addAll o1 (addAll o1 a.cache a.addrAdds).1 a.otherAdds).1
      (keptRemoves o1 (addAll o1 (addAll o1 a.cache a.addrAdds).1 a.otherAdds).1 a.removes) with
  | error e => rw [hr] at ho; cases ho
  | ok c4 =>
    rw [hr] at ho
    cases ho
    exact d2 c4 hr

theorem expire_inv (c : σ) (now : Ms) (hi : Inv c) (o : σ × List Rec) (ho : expire o1 c now = .ok o) : Inv o.1 := by
  obtain ⟨_, d2⟩ := removeAll_sim hs c ((o1.allRecs c).filter (fun r => r.isExpired now)) hi
  unfold expire at ho
  simp only [bind, Except.bind, pure, Except.pure] at ho
  cases hr : removeAll o1 c ((o1.allRecs c).filter (fun r => r.isExpired now)) with
  | error e => rw [hr] at ho; cases ho
  | ok c' =>
    rw [hr] at ho
    cases ho
    exact d2 c' hr

theorem stepEvent_sim (c : σ) (e : Event) (hi : Inv c) :
    abs (stepEvent lower o1 c e) = stepEvent lower o2 (abs c) e ∧ Inv (stepEvent lower o1 c e) := by
  cases e with
  | datagram now recs =>
    have h1 := ingest_sim lower hs c now recs hi
    have h2 := ingest_inv lower hs c now recs hi
    simp only [stepEvent]
    rw [← h1]
    cases hr : ingest lower o1 c now recs with
    | error e => exact ⟨rfl, hi⟩
    | ok out => exact ⟨rfl, h2 out hr⟩
  | purge now =>
    have h1 := expire_sim hs c now hi
    have h2 := expire_inv hs c now hi
    simp only [stepEvent]
    rw [← h1]
    cases hr : expire o1 c now with
    | error e => exact ⟨rfl, hi⟩
    | ok o => exact ⟨rfl, h2 o hr⟩

/-- **along every history of datagrams and purges** the two runs agree through the abstraction, and the invariant holds -/
theorem runEvents_sim (c : σ) (evs : List Event) (hi : Inv c) :
    abs (runEvents lower o1 c evs) = runEvents lower o2 (abs c) evs ∧ Inv (runEvents lower o1 c evs) := by
  unfold runEvents
  induction evs generalizing c with
  | nil => exact ⟨rfl, hi⟩
  | cons e t ih =>
    obtain ⟨h1, h2⟩ := stepEvent_sim lower hs c e hi
    rw [List.foldl_cons, List.foldl_cons, ← h1]
    exact ih _ h2

end Sim

/-! ### the instance: the generated `DNSCache` -/

/-- `CacheOps` over the generated cache: `getUnique`, `add`, `remove`, `allRecs` are the translated `async_get_unique`, `_async_add`,
`_async_remove` and the iteration of `async_expire`; `resetTtl` / `markFlush` are parameters (not in the translated subset) -/
def genOps (resetTtlG : DNSCache → Rec → DNSCache) (markFlushG : DNSCache → List (String × Nat × Nat) → List Rec → Ms → DNSCache) :
    CacheOps DNSCache where
  getUnique s r := s.async_get_unique lower r
  resetTtl := resetTtlG
  markFlush := markFlushG
  add s r := match DNSCache.async_add lower s r with
    | .ok p => (p.2, p.1)
    | .error _ => (s, false)
  remove s r := DNSCache.async_remove lower s r
  allRecs s := (PyDict.values s.cache).flatMap PyDict.keys

/-- the residual hypothesis: the two untranslated mutators act on the abstraction as the model's do, and keep the invariant -/
structure ResidualOk (resetTtlG : DNSCache → Rec → DNSCache)
    (markFlushG : DNSCache → List (String × Nat × Nat) → List Rec → Ms → DNSCache) : Prop where
  resetTtl : ∀ s r, CInv lower s → absC (resetTtlG s r) = Cache.resetTtl lower (absC s) r ∧ CInv lower (resetTtlG s r)
  markFlush : ∀ s u a n, CInv lower s → absC (markFlushG s u a n) = Cache.markFlush lower (absC s) u a n ∧ CInv lower (markFlushG s u a n)

theorem genOps_sim {resetTtlG : DNSCache → Rec → DNSCache}
    {markFlushG : DNSCache → List (String × Nat × Nat) → List Rec → Ms → DNSCache} (hres : ResidualOk lower resetTtlG markFlushG) :
    OpsSim absC (CInv lower) (genOps lower resetTtlG markFlushG) (Cache.ops lower) where
  getUnique s r h := async_get_unique_eq lower s r h
  resetTtl s r h := hres.resetTtl s r h
  markFlush s u a n h := hres.markFlush s u a n h
  add s r h := by
    have he := async_add_eq lower s r h
    have hinv := @async_add_inv lower s
    simp only [genOps, Cache.ops]
    cases hr : DNSCache.async_add lower s r with
    | error e => rw [hr] at he; cases he
    | ok p =>
      rw [hr] at he
      simp only [Except.map, Except.ok.injEq] at he
      exact ⟨congrArg Prod.fst he, congrArg Prod.snd he, hinv (s' := p.2) (r := r) (b := p.1) h hr⟩
  remove s r h := ⟨async_remove_eq lower s r h, fun s' he => async_remove_inv lower h he⟩
  allRecs s h := by
    simp only [genOps, Cache.ops, Cache.allRecs, absC, allRecs_abs]

/-! ### the two in-place mutators on the generated representation

`reset_ttl` and `async_mark_unique_records_older_than_1s_to_expire` change `created` / `ttl` of cached record *objects*; the same object
is key and value of its store and sits in both indexes.  Hand-modelled here as a map over every stored record (key and value alike);
they never change a record's identity, so `CInv` survives and the abstraction sees the model's `mapRecs`. -/

def mapStore (f : Rec → Rec) (st : Store) : Store := st.map (fun p => (f p.1, f p.2))
def mapIdx (f : Rec → Rec) (d : Idx) : Idx := d.map (fun p => (p.1, mapStore f p.2))
def mapRecsG (f : Rec → Rec) (s : DNSCache) : DNSCache := { cache := mapIdx f s.cache, service_cache := mapIdx f s.service_cache }

theorem absIdx_map (f : Rec → Rec) (d : Idx) : absIdx (mapIdx f d) = Index.mapRecs f (absIdx d) := by
  simp only [absIdx, mapIdx, Index.mapRecs, List.map_map, mapStore, PyDict.keys]
  apply List.map_congr_left
  intro p _
  simp [Function.comp, List.map_map]

theorem absC_map (f : Rec → Rec) (s : DNSCache) : absC (mapRecsG f s) = Cache.mapRecs f (absC s) := by
  simp only [absC, mapRecsG, Cache.mapRecs, absIdx_map]

theorem beq_map {f : Rec → Rec} (hf : ∀ e, (f e).ident lower = e.ident lower) (a b : Rec) :
    Rec.beq lower (f a) (f b) = Rec.beq lower a b := by
  apply Bool.eq_iff_iff.2
  rw [beq_iff_ident, beq_iff_ident, hf, hf]

theorem idxOk_map {f : Rec → Rec} (hf : ∀ e, (f e).ident lower = e.ident lower) {d : Idx} (h : IdxOk lower d) : IdxOk lower (mapIdx f d) := by
  refine ⟨?_, ?_⟩
  · have := h.wf
    unfold PyDict.WF mapIdx at *
    rw [List.pairwise_map]
    exact this
  · intro p hp
    simp only [mapIdx, List.mem_map] at hp
    obtain ⟨q, hq, rfl⟩ := hp
    have hs := h.st q hq
    refine ⟨?_, ?_⟩
    · have := hs.wf
      unfold PyDict.WF mapStore at *
      rw [List.pairwise_map]
      exact this.imp (fun {a b} hab => by simpa [beq_map lower hf] using hab)
    · intro x hx
      simp only [mapStore, List.mem_map] at hx
      obtain ⟨y, hy, rfl⟩ := hx
      simp only [hs.kv y hy]

theorem cinv_map {f : Rec → Rec} (hf : ∀ e, (f e).ident lower = e.ident lower) {s : DNSCache} (h : CInv lower s) : CInv lower (mapRecsG f s) :=
  ⟨idxOk_map lower hf h.c, idxOk_map lower hf h.s⟩

/-- `maybe_entry.reset_ttl(record)` on the generated representation -/
def resetTtlG (s : DNSCache) (r : Rec) : DNSCache := mapRecsG (fun e => if e.beq lower r then e.setLife r.created r.ttl else e) s

/-- `async_mark_unique_records_older_than_1s_to_expire` on the generated representation -/
def markFlushG (s : DNSCache) (uts : List (String × Nat × Nat)) (answers : List Rec) (now : Ms) : DNSCache :=
  mapRecsG (fun e => if Cache.flushHit lower uts answers now e then e.setLife now 1 else e) s

/-- the residual hypothesis holds of the hand-modelled mutators -/
theorem residual_ok : ResidualOk lower (resetTtlG lower) (markFlushG lower) where
  resetTtl s r h := ⟨by simp only [resetTtlG, absC_map, Cache.resetTtl],
    cinv_map lower (fun e => by split <;> rfl) h⟩
  markFlush s u a n h := ⟨by simp only [markFlushG, absC_map, Cache.markFlush],
    cinv_map lower (fun e => by split <;> rfl) h⟩

/-- the record manager's cache operations with the translated functions (and the two hand-modelled in-place mutators) -/
def srcOps : CacheOps DNSCache := genOps lower (resetTtlG lower) (markFlushG lower)

/-- the generated cache after a history of datagrams and purges, stepped by the translated operations -/
def srcCacheAfter (evs : List Event) : DNSCache := runEvents lower (srcOps lower) DNSCache.init evs

/-- **Along every history, the generated cache is the model's cache** (through `absC`), and satisfies the representation invariant -/
theorem srcCacheAfter_abs (evs : List Event) :
    absC (srcCacheAfter lower evs) = runEvents lower (Cache.ops lower) {} evs ∧ CInv lower (srcCacheAfter lower evs) := by
  have h := runEvents_sim lower (genOps_sim lower (residual_ok lower)) DNSCache.init evs (cinv_init lower)
  exact ⟨h.1, h.2⟩

/-- **`async_updates_from_response` over the translated cache operations is the model's `ingest`** (on any generated cache satisfying
the representation invariant, for every datagram): same cache afterwards, same two observation points for the listeners, same
`new` flag — and the same exception, if any -/
theorem ingest_gen {resetTtlG : DNSCache → Rec → DNSCache}
    {markFlushG : DNSCache → List (String × Nat × Nat) → List Rec → Ms → DNSCache} (hres : ResidualOk lower resetTtlG markFlushG)
    (s : DNSCache) (h : CInv lower s) (now : Ms) (recs : List Rec) :
    (ingest lower (genOps lower resetTtlG markFlushG) s now recs).map (outMap absC) = ingest lower (Cache.ops lower) (absC s) now recs :=
  ingest_sim lower (genOps_sim lower hres) s now recs h

/-- **the purge over the translated operations is the model's `expire`** -/
theorem expire_gen {resetTtlG : DNSCache → Rec → DNSCache}
    {markFlushG : DNSCache → List (String × Nat × Nat) → List Rec → Ms → DNSCache} (hres : ResidualOk lower resetTtlG markFlushG)
    (s : DNSCache) (h : CInv lower s) (now : Ms) :
    (expire (genOps lower resetTtlG markFlushG) s now).map (fun p => (absC p.1, p.2)) = expire (Cache.ops lower) (absC s) now :=
  expire_sim (genOps_sim lower hres) s now h

end Zc.GenFacts.FnCacheRun
