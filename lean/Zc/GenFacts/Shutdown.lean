import Zc.Gen.Shutdown
import Zc.Gen.Const
/-! Facts about the generated shutdown gates that the C17 proofs use. -/
namespace Zc.GenFacts.Shutdown
open Zc.Gen.Shutdown

/-- `async_send` transmits nothing once `done` … -/
theorem send_blocked_of_done : send_blocked true = true := by simp [send_blocked]
/-- … and is open before -/
theorem send_open_of_not_done : send_blocked false = false := by simp [send_blocked]

/-- both scheduler passes return at once when the instance is done -/
theorem sched_blocked_of_done : (startup_pass_blocked true || ready_pass_blocked true) = true := by
  simp [startup_pass_blocked]
theorem sched_open_of_not_done : (startup_pass_blocked false || ready_pass_blocked false) = false := by
  simp [startup_pass_blocked, ready_pass_blocked]

/-- `_close` does nothing the second time -/
theorem close_skipped_of_done : close_skipped true = true := by simp [close_skipped]

/-- the goodbye datagram is transmitted three times -/
theorem register_broadcasts : Zc.Gen.registerBroadcasts = 3 := by decide

/-- a done instance is not `started`, and waiting for it raises `NotRunningException` -/
theorem not_started_of_done (e s : Bool) : started true e s = false := by simp [started]
theorem wait_raises_of_done : wait_for_start_raises true = true := by simp [wait_for_start_raises]

/-- `async_close` does not wait for start-up on a done instance -/
theorem close_no_wait_of_done : close_waits_for_start true = false := by simp [close_waits_for_start]
/-- after the wait, `async_wait_for_start` raises iff the event is no longer set or the instance is done -/
theorem wait_raises_after_iff (s d : Bool) : wait_for_start_raises_after s d = true ↔ (s = false ∨ d = true) := by
  simp [wait_for_start_raises_after]

/-- sync `close()` sends the goodbyes from every thread that is not the instance's own loop — whether or not that
thread runs some other event loop (the model's `closeCall true` is this branch) -/
theorem sync_close_unregisters_off_loop : sync_close_skips_goodbyes false = false := by simp [sync_close_skips_goodbyes]

/-- `async_close` swallows, around its wait for start-up, its own timeout … -/
theorem close_wait_suppresses_timeout_holds : close_wait_suppresses_timeout = true := by decide
/-- … and the `NotRunningException` of a close overtaken by another one during start-up (fix 25230c1; false before) -/
theorem close_wait_suppresses_not_running_holds : close_wait_suppresses_not_running = true := by decide

/-! the cancellations / closings the close path performs, as statements found in the source -/
theorem engine_close_cancels_cleanup_holds : engine_close_cancels_cleanup = true := by decide
/-- the transports are closed (`close()`), not aborted -/
theorem shutdown_closes_transports_holds : (shutdown_closes_transports && !shutdown_aborts_transports) = true := by decide
theorem close_cancels_tracked_browsers_holds : close_cancels_tracked_browsers = true := by decide
theorem browser_cancel_stops_scheduler_holds : browser_cancel_stops_scheduler = true := by decide
theorem browser_cancel_removes_listener_holds : browser_cancel_removes_listener = true := by decide
theorem scheduler_stop_cancels_timer_holds : scheduler_stop_cancels_timer = true := by decide
/-- `connection_lost` leaves `_deferred` and `_timers` alone (it does nothing) -/
theorem connection_lost_is_noop_holds : connection_lost_is_noop = true := by decide

end Zc.GenFacts.Shutdown
