import Zc.Gen.Shutdown
import Zc.Gen.Const
/-! Facts about the generated shutdown gates that the C17 proofs use. -/
namespace Zc.GenFacts.Shutdown
open Zc.Gen.Shutdown

/-- `async_send` transmits nothing once `done` … -/
theorem send_blocked_of_done : send_blocked true = true := by simp [send_blocked]
/-- … and is open before -/
theorem send_open_of_not_done : send_blocked false = false := by simp [send_blocked]

/-- both scheduler passes return at once when the instance is done -/
theorem sched_blocked_of_done : (startup_pass_blocked true || ready_pass_blocked true) = true := by
  simp [startup_pass_blocked]
theorem sched_open_of_not_done : (startup_pass_blocked false || ready_pass_blocked false) = false := by
  simp [startup_pass_blocked, ready_pass_blocked]

/-- `_close` does nothing the second time -/
theorem close_skipped_of_done : close_skipped true = true := by simp [close_skipped]

/-- the goodbye datagram is transmitted three times -/
theorem register_broadcasts : Zc.Gen.registerBroadcasts = 3 := by decide

/-- a done instance is not `started`, and waiting for it raises `NotRunningException` -/
theorem not_started_of_done (e s : Bool) : started true e s = false := by simp [started]
theorem wait_raises_of_done : wait_for_start_raises true = true := by simp [wait_for_start_raises]

/-- `async_close` does not wait for start-up on a done instance -/
theorem close_no_wait_of_done : close_waits_for_start true = false := by simp [close_waits_for_start]
/-- after the wait, `async_wait_for_start` raises iff the event is no longer set or the instance is done -/
theorem wait_raises_after_iff (s d : Bool) : wait_for_start_raises_after s d = true ↔ (s = false ∨ d = true) := by
  simp [wait_for_start_raises_after]

/-- sync `close()` sends the goodbyes from every thread that is not the instance's own loop — whether or not that
thread runs some other event loop (the model's `closeCall true` is this branch) -/
theorem sync_close_unregisters_off_loop : sync_close_skips_goodbyes false = false := by simp [sync_close_skips_goodbyes]

/-- `async_close` swallows, around its wait for start-up, its own timeout … -/
theorem close_wait_suppresses_timeout_holds : close_wait_suppresses_timeout = true := by decide
/-- … and the `NotRunningException` of a close overtaken by another one during start-up (fix 25230c1; false before) -/
theorem close_wait_suppresses_not_running_holds : close_wait_suppresses_not_running = true := by decide

/-! the cancellations / closings the close path performs, as statements found in the source -/
theorem engine_close_cancels_cleanup_holds : engine_close_cancels_cleanup = true := by decide
/-- the transports are closed (`close()`), not aborted -/
theorem shutdown_closes_transports_holds : (shutdown_closes_transports && !shutdown_aborts_transports) = true := by decide
theorem close_cancels_tracked_browsers_holds : close_cancels_tracked_browsers = true := by decide
theorem browser_cancel_stops_scheduler_holds : browser_cancel_stops_scheduler = true := by decide
theorem browser_cancel_removes_listener_holds : browser_cancel_removes_listener = true := by decide
theorem scheduler_stop_cancels_timer_holds : scheduler_stop_cancels_timer = true := by decide
/-- `connection_lost` leaves `_deferred` and `_timers` alone (it does nothing) -/
theorem connection_lost_is_noop_holds : connection_lost_is_noop = true := by decide

/-! the sync path (`Zeroconf.close()` from a non-loop thread) -/

/-- `_close()` sets `done`, after cancelling every browser of `Zeroconf.browsers` -/
theorem close_sets_done_holds : close_sets_done = true := by decide
theorem close_not_skipped_before_done : close_skipped false = false := by simp [close_skipped]
theorem close_skipped_iff (d : Bool) : close_skipped d = d := by simp [close_skipped]
theorem close_removes_service_listeners_holds : (close_removes_service_listeners && remove_listener_cancels) = true := by decide
theorem remove_listener_forgets_holds : remove_listener_forgets = true := by decide
/-- `ServiceBrowser.cancel()`: sentinel, `_async_cancel` on the loop, `join()` -/
theorem thread_cancel_joins_holds : (thread_cancel_signals && thread_cancel_joins) = true := by decide
theorem thread_cancel_schedules_async_cancel_holds : thread_cancel_schedules_async_cancel = true := by decide
/-- `ServiceBrowser.run()` stops at the sentinel on every tree: `if event is None …: return` -/
theorem thread_run_stops_at_sentinel (z b : Bool) : thread_run_stops true z b = true := by simp [thread_run_stops]
/-! (Whether `cancel()` tests "am I that thread" — `thread_cancel_guards_self_join` — and whether `run()` also looks at a `done`
flag — `thread_run_stops false …` — differ between the tree with and without the repairs of findings D30 / D31
(`notes/fixes/D30.diff`, `D31.diff`); no lemma here fixes either value: the C17 theorems carry them as hypotheses, so the same
proofs check on both trees.  Once the repairs are in `/repo`, add `thread_cancel_guards_self_join = true` and
`thread_run_stops false true b = true` here and discharge those hypotheses (notes/agents/C17.md, "flip").) -/
/-- (repair of D30) `ServiceBrowser.cancel()` tests whether it runs on the browser's own thread before joining -/
theorem thread_cancel_guards_self_join_holds : thread_cancel_guards_self_join = true := by decide
/-- (repair of D31) `ServiceBrowser.run()` returns once the instance is done, whatever is still queued -/
theorem thread_run_stops_when_done (c : Bool) : thread_run_stops false true c = true := by simp [thread_run_stops]
/-- (repair of R3-C17-a, 609d2f3) `AsyncEngine._async_setup` looks at the instance's `done` flag when the endpoints have been created
and shuts them down again instead of setting `running_event`.  The leaf is optional: on a tree without the test it is `false` and this
lemma -- and with it the unconditional `C17_quiet` / `C17_quiet_run` / `C17_no_input_after_close` -- no longer builds. -/
theorem startup_closes_when_done_on : startup_closes_when_done true = true := by decide
/-- the four calls of `Zeroconf.close()` come in the order of the model's stages -/
theorem sync_order_holds : (sync_close_unregisters_before_done && sync_close_done_before_engine_close
    && sync_close_engine_close_before_threads && async_close_sets_done_first) = true := by decide
/-- the goodbyes are sent exactly while the loop runs -/
theorem sync_close_unregisters_iff (r : Bool) : sync_close_unregisters_if_loop_running r = r := by simp [sync_close_unregisters_if_loop_running]
/-- `AsyncEngine.close()` from a non-loop thread: nothing when the loop does not run, otherwise `_async_close()` is run on the
loop **and waited for** -/
theorem engine_close_off_loop : engine_close_on_own_loop false = false := by simp [engine_close_on_own_loop]
theorem engine_close_skipped_iff (r : Bool) : engine_close_skipped r = !r := by simp [engine_close_skipped]
theorem engine_close_awaits_async_close_holds : engine_close_awaits_async_close = true := by decide
theorem engine_async_close_shuts_down_holds : (engine_async_close_shuts_down && engine_shutdown_clears_running) = true := by decide
/-- `_shutdown_threads()`: nothing without a loop thread; otherwise the loop is stopped, the thread joined and **forgotten** -/
theorem shutdown_threads_skipped_iff (t : Bool) : shutdown_threads_skipped t = !t := by simp [shutdown_threads_skipped]
theorem shutdown_threads_stops_loop_holds : shutdown_threads_stops_loop = true := by decide
theorem shutdown_threads_forgets_thread_holds : shutdown_threads_forgets_thread = true := by decide
/-- the timeout handle of `wait_for_future_set_or_timeout` and `_resolve_all_futures_to_none` both resolve a future through
`_set_future_none_if_not_done`, which leaves a finished future alone -/
theorem waiter_timer_guarded_holds : waiter_timer_guarded = true := by decide
theorem resolve_all_guarded_holds : resolve_all_guarded = true := by decide
theorem waiter_guard_skips_done : waiter_guard_sets true = false := by simp [waiter_guard_sets]
/-- `Zeroconf.started` -/
theorem started_iff (d s : Bool) : started d true s = (!d && s) := by simp [started]

end Zc.GenFacts.Shutdown
