import Zc.Gen.SurviveApi
/-! The facts the closed composite of C15 needs about the translated leaves of `_utils/asyncio.py` (DESIGN §2.2).

On a tree where `_resolve_all_futures_to_none` sets results without the `done()` test (seeded defect C15-w4-seed3) `resolve_all_guarded`
is `false`, the second lemma fails, and `Proofs/SurviveUser.resolveAll_ok` — hence `Props/C15Closed` — does not build.
(`register_encodes_first` / `update_encodes_first`, the D28 repair, need no fact: the model follows either tree and the block
theorems hold for both values.) -/
namespace Zc.GenFacts.SurviveApi
open Zc.Gen

/-- `_set_future_none_if_not_done` sets the result exactly when the future is not done -/
theorem fut_set_guard_iff (done : Bool) : SurviveApi.fut_set_guard done = true ↔ done = false := by
  cases done <;> simp [SurviveApi.fut_set_guard]

/-- `_resolve_all_futures_to_none` goes through that guard -/
theorem resolve_all_guarded_eq : SurviveApi.resolve_all_guarded = true := by
  simp [SurviveApi.resolve_all_guarded]

end Zc.GenFacts.SurviveApi
