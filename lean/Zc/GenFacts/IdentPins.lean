import Zc.Gen.IdentPins
/-! Shape pins for the two hand-modelled loops of C20 (`Rec.suppressedBy`, `replyAdditionals` in `Zc/Model/Dns.lean`):
the source text of their statements and a statement census per function (see `tools/leaves/identpins.py`).  An edit of
`DNSRecord.suppressed_by` or `_add_answers_additionals` breaks exactly the lemma named after the statement. -/
namespace Zc.GenFacts.IdentPins
open Zc.Gen.IdentPins

theorem pin_suppressed_by_answers : src_suppressed_by_answers = "msg.answers()" := by decide
/-- the loop runs over **all** answers (`for record in answers`) -/
theorem pin_suppressed_by_iter : src_suppressed_by_iter = "answers" := by decide
theorem pin_suppressed_by_test : src_suppressed_by_test = "self._suppressed_by_answer(record)" := by decide
theorem pin_suppressed_by_census : src_suppressed_by_census = "Assign:1 For:1 If:1 Return:2 | answers" := by decide

theorem pin_reply_sending : src_reply_sending = "set(answers)" := by decide
theorem pin_reply_additionals : src_reply_additionals = "answers[answer]" := by decide
theorem pin_reply_iter : src_reply_iter = "additionals" := by decide
theorem pin_reply_test : src_reply_test = "additional not in sending" := by decide
/-- the record remembered as sent is the additional just sent -/
theorem pin_reply_sending_add : src_reply_sending_add = "additional" := by decide
theorem pin_reply_add_additional : src_reply_add_additional = "additional" := by decide
theorem pin_reply_add_answer : src_reply_add_answer = "answer" := by decide
theorem pin_reply_answer_iter : src_reply_answer_iter = "sorted(answers, key=NAME_GETTER)" := by decide
theorem pin_reply_census : src_reply_census = "AnnAssign:1 Assign:1 Expr:3 For:2 If:1 | sending additionals" := by decide

end Zc.GenFacts.IdentPins
