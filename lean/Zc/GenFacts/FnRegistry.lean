import Zc.GenFn.Registry
import Zc.GenFacts.FnBase
import Zc.Model.RegHistory
/-! # `_services/registry.py` as translated statement by statement  =  the hand-written `Registry` model (C03)

`Zc.GenFn.Registry` is regenerated from the bodies of all methods of `ServiceRegistry` on every run.  The hand model
(`Zc.Registry`, `Model/Registry.lean`) keeps `_services` as the list of registered `Svc` objects (their key is derived:
`lower name`), the generated code keeps the Python dict `key ↦ info`.  `absR` reads the model state off the generated
object; under the representation invariant `RInv` (the three dicts are dicts — no two equal keys — and every service is
stored under its own key) every generated method equals the model's operation, and every mutator preserves `RInv`, so the
equations compose along call histories (`run_eq`). -/
namespace Zc.GenFacts.FnRegistry
open Zc Zc.Py Zc.GenFn.Registry Zc.GenFacts.FnBase

variable (lower : String → String)

/-- the model state read off the generated object -/
def absR (s : ServiceRegistry) : Registry :=
  { services := PyDict.values s.services, types := s.types, servers := s.servers, hasEntries := s.has_entries }

/-- representation invariant: the dicts are dicts, every service sits under its own key -/
structure RInv (s : ServiceRegistry) : Prop where
  wfS : PyDict.WF strEq s.services
  keyS : ∀ p ∈ s.services, p.1 = lower p.2.name
  wfT : PyDict.WF strEq s.types
  wfV : PyDict.WF strEq s.servers

theorem rinv_init : RInv lower ServiceRegistry.init :=
  ⟨PyDict.WF_nil, fun _ h => (by cases h), PyDict.WF_nil, PyDict.WF_nil⟩

/-! ### bridge: the model's `dget`/`dset`/`ddel` are the runtime's dict operations on `str` keys -/

theorem dget_eq {β : Type} (k : String) (d : List (String × β)) : dget k d = PyDict.get? strEq d k := by
  induction d with
  | nil => rfl
  | cons x r ih =>
    obtain ⟨k', v⟩ := x
    simp only [dget, PyDict.get?_cons, ih, strEq, decide_eq_true_eq]

theorem dset_eq {β : Type} (k : String) (v : β) (d : List (String × β)) : dset k v d = PyDict.set strEq d k v := by
  induction d with
  | nil => rfl
  | cons x r ih =>
    obtain ⟨k', v'⟩ := x
    simp only [dset, PyDict.set_cons, ih, strEq, decide_eq_true_eq]

theorem ddel_eq {β : Type} (k : String) (d : List (String × β)) (h : PyDict.WF strEq d) : ddel k d = PyDict.erase strEq d k := by
  rw [PyDict.erase_eq_filter strEq_keyEq h]
  rfl


/-! ### `_remove_from_index` -/

/-- what `_remove_from_index` does, in the runtime's terms (no invariant needed) -/
def idxRemove (idx : PyDict String (List String)) (k x : String) : Except PyExc (PyDict String (List String)) :=
  match PyDict.get? strEq idx k with
  | none => .error .keyError
  | some names =>
    if x ∈ names then .ok (if (names.erase x).isEmpty then PyDict.erase strEq idx k else PyDict.set strEq idx k (names.erase x))
    else .error .valueError

theorem remove_from_index_closed (idx : PyDict String (List String)) (k x : String) :
    ServiceRegistry.remove_from_index idx k x = idxRemove idx k x := by
  unfold ServiceRegistry.remove_from_index idxRemove
  cases hg : PyDict.get? strEq idx k with
  | none => simp [PyDict.getItem, hg, bind, Except.bind]
  | some names =>
    simp only [PyDict.getItem, hg, bind, Except.bind, PyList.remove, PyList.contains_strEq, PyList.eraseFirst_strEq]
    by_cases hx : x ∈ names
    · simp only [hx, decide_true, if_true]
      by_cases he : (names.erase x).isEmpty = true
      · simp only [he, if_true, PyDict.delItem, PyDict.contains_set_self strEq_keyEq.refl, PyDict.erase_set_self strEq_keyEq.refl]
        rfl
      · simp only [he, Bool.false_eq_true, if_false]
        rfl
    · simp [hx]

/-- **`_remove_from_index`** is the model's `NameIndex.remove` on a dict -/
theorem remove_from_index_eq (idx : NameIndex) (k x : String) (h : PyDict.WF strEq idx) :
    ServiceRegistry.remove_from_index idx k x = NameIndex.remove idx k x := by
  rw [remove_from_index_closed]
  unfold idxRemove NameIndex.remove
  rw [dget_eq]
  cases hg : PyDict.get? strEq idx k with
  | none => rfl
  | some names => simp only [ddel_eq k idx h, dset_eq]

theorem idxRemove_wf {idx idx' : PyDict String (List String)} {k x : String} (h : PyDict.WF strEq idx)
    (he : idxRemove idx k x = .ok idx') : PyDict.WF strEq idx' := by
  unfold idxRemove at he
  cases hg : PyDict.get? strEq idx k with
  | none => simp [hg] at he
  | some names =>
    simp only [hg] at he
    split at he
    · cases he
      split
      · exact PyDict.WF_erase h k
      · exact PyDict.WF_set h k _
    · cases he

/-! ### `_add` -/

theorem set_append_self {β : Type} (d : PyDict String β) (k : String) (v0 v : β) (hc : PyDict.contains strEq d k = false) :
    PyDict.set strEq (d ++ [(k, v0)]) k v = d ++ [(k, v)] := by
  induction d with
  | nil => simp [PyDict.set_cons]
  | cons x r ih =>
    obtain ⟨k0, v1⟩ := x
    have h' := (PyDict.contains_false_iff _ _).1 hc
    have h0 : strEq k0 k = false := h' (k0, v1) List.mem_cons_self
    rw [List.cons_append, PyDict.set_cons, h0]
    simp only [Bool.false_eq_true, if_false, List.cons_append]
    rw [ih ((PyDict.contains_false_iff _ _).2 (fun p hp => h' p (List.mem_cons_of_mem _ hp)))]

/-- `index.setdefault(k, []).append(x)` is the model's `NameIndex.add` -/
theorem index_add_eq (idx : NameIndex) (k x : String) :
    PyDict.set strEq (PyDict.setdefault strEq idx k []).2 k ((PyDict.setdefault strEq idx k []).1 ++ [x]) = NameIndex.add idx k x := by
  unfold NameIndex.add PyDict.setdefault
  rw [dget_eq, dset_eq]
  cases hg : PyDict.get? strEq idx k with
  | some v => rfl
  | none =>
    have hc : PyDict.contains strEq idx k = false := by simp [PyDict.contains, hg]
    simp only [Option.getD_none, List.nil_append]
    rw [set_append_self idx k [] [x] hc, PyDict.set_of_not_contains hc]

set_option linter.unusedSimpArgs false in
/-- closed form of the generated `_add` -/
theorem add_closed (s : ServiceRegistry) (info : Svc) :
    ServiceRegistry.add lower s info =
      if PyDict.contains strEq s.services (lower info.name) then .error .alreadyRegistered
      else .ok ({ services := PyDict.set strEq s.services (lower info.name) info.clearMemo,
                  types := NameIndex.add s.types (lower info.type) (lower info.name),
                  servers := NameIndex.add s.servers (lower info.server) (lower info.name),
                  has_entries := true }, info.clearMemo) := by
  unfold ServiceRegistry.add
  -- by cases on the dict look-up itself, so that `key in d` and `d.get(key) is not None` in the source prove alike
  cases hg : PyDict.get? strEq s.services (lower info.name) with
  | some v =>
    simp [PyDict.contains, hg, pyAssert_true, bind, Except.bind, throw, throwThe, MonadExceptOf.throw]
  | none =>
    simp only [PyDict.contains, hg, Option.isSome_none, Option.isNone_none, Bool.not_true, Bool.false_eq_true, if_false, pyAssert_true,
      bind, Except.bind, pure, Except.pure]
    rw [← index_add_eq, ← index_add_eq]
    rfl

/-- `_services.get(key)`: the model finds a service by its derived key, the dict by the stored one -/
theorem sget_values (d : PyDict String Svc) (hk : ∀ p ∈ d, p.1 = lower p.2.name) (k : String) :
    sget lower k (PyDict.values d) = PyDict.get? strEq d k := by
  induction d with
  | nil => rfl
  | cons x r ih =>
    obtain ⟨k0, v0⟩ := x
    have h0 : k0 = lower v0.name := hk (k0, v0) List.mem_cons_self
    have ih' := ih (fun p hp => hk p (List.mem_cons_of_mem _ hp))
    simp only [sget, PyDict.values, List.map_cons, List.find?_cons, PyDict.get?_cons, strEq] at ih' ⊢
    rw [h0]
    by_cases h1 : lower v0.name = k
    · simp [h1]
    · simp only [h1, decide_false, Bool.false_eq_true, if_false]
      exact ih'

/-- **`_add`** is the model's `Registry.add` (and clears the memo slots of the object handed in) -/
theorem add_eq (s : ServiceRegistry) (info : Svc) (hinv : RInv lower s) :
    (ServiceRegistry.add lower s info).map (fun p => (absR p.1, p.2)) =
      ((absR s).add lower info).map (fun r => (r, info.clearMemo)) := by
  rw [add_closed]
  unfold Registry.add
  simp only [absR, Svc.key, Svc.typeKey, Svc.serverKey, sget_values lower s.services hinv.keyS]
  by_cases hc : PyDict.contains strEq s.services (lower info.name) = true
  · have hc' : (PyDict.get? strEq s.services (lower info.name)).isSome = true := hc
    simp [hc, hc', Except.map]
  · have hc' : (PyDict.get? strEq s.services (lower info.name)).isSome = false := by simpa [PyDict.contains] using hc
    have hc2 : PyDict.contains strEq s.services (lower info.name) = false := by simpa using hc
    simp only [hc, hc', Bool.false_eq_true, if_false, Except.map, PyDict.set_of_not_contains hc2]
    simp [PyDict.values]

theorem index_add_wf {idx : NameIndex} (h : PyDict.WF strEq idx) (k x : String) : PyDict.WF strEq (NameIndex.add idx k x) := by
  rw [← index_add_eq]
  exact PyDict.WF_set (PyDict.WF_setdefault h k []) k _

/-- `_add` keeps the representation invariant -/
theorem add_inv {s s' : ServiceRegistry} {info i' : Svc} (hinv : RInv lower s)
    (h : ServiceRegistry.add lower s info = .ok (s', i')) : RInv lower s' := by
  rw [add_closed] at h
  split at h
  · cases h
  · rename_i hc
    have hc2 : PyDict.contains strEq s.services (lower info.name) = false := by simpa using hc
    simp only [Except.ok.injEq, Prod.mk.injEq] at h
    obtain ⟨h1, _⟩ := h
    subst h1
    refine ⟨PyDict.WF_set hinv.wfS _ _, ?_, index_add_wf hinv.wfT _ _, index_add_wf hinv.wfV _ _⟩
    intro p hp
    simp only [PyDict.set_of_not_contains hc2, List.mem_append, List.mem_singleton] at hp
    rcases hp with hp | hp
    · exact hinv.keyS p hp
    · rw [hp]; rfl

/-! ### `_remove` -/

/-- one iteration of the loop of `_remove`, in the runtime's terms -/
def stepRemove (s : ServiceRegistry) (info : Svc) : Except PyExc ServiceRegistry :=
  match PyDict.get? strEq s.services (lower info.name) with
  | none => .ok s
  | some old =>
    match idxRemove s.types (lower old.type) (lower info.name) with
    | .error e => .error e
    | .ok t =>
      match idxRemove s.servers (lower old.server) (lower info.name) with
      | .error e => .error e
      | .ok v => .ok { services := PyDict.erase strEq s.services (lower info.name), types := t, servers := v, has_entries := s.has_entries }

/-- closed form of the generated `_remove`: the loop is a fold of `stepRemove`, then `has_entries = bool(self._services)` -/
theorem remove_closed (s : ServiceRegistry) (infos : List Svc) :
    ServiceRegistry.remove lower s infos =
      (infos.foldlM (stepRemove lower) s).map (fun s' => { s' with has_entries := !(PyDict.isEmpty s'.services) }) := by
  unfold ServiceRegistry.remove
  dsimp only
  rw [forIn_except_yield _ _ _ (stepRemove lower) ?hf]
  case hf =>
    intro info b
    unfold stepRemove
    simp only [remove_from_index_closed, pyAssert_true]
    cases hg : PyDict.get? strEq b.services (lower info.name) with
    | none => rfl
    | some old =>
      have hc : PyDict.contains strEq b.services (lower info.name) = true := by simp [PyDict.contains, hg]
      simp only [bind, Except.bind, PyDict.delItem, hc, if_true]
      cases idxRemove b.types (lower old.type) (lower info.name) with
      | error e => rfl
      | ok t =>
        cases idxRemove b.servers (lower old.server) (lower info.name) with
        | error e => rfl
        | ok v => rfl
  cases List.foldlM (stepRemove lower) s infos <;> rfl

/-- `del self._services[key]` on the dict is the model's filter on the derived key -/
theorem values_erase (d : PyDict String Svc) (hwf : PyDict.WF strEq d) (hk : ∀ p ∈ d, p.1 = lower p.2.name) (k : String) :
    PyDict.values (PyDict.erase strEq d k) = (PyDict.values d).filter (fun s => !decide (lower s.name = k)) := by
  rw [PyDict.erase_eq_filter strEq_keyEq hwf]
  simp only [PyDict.values, List.filter_map]
  congr 1
  apply List.filter_congr
  intro p hp
  simp only [Function.comp, strEq, hk p hp]

theorem stepRemove_inv {s s' : ServiceRegistry} {info : Svc} (hinv : RInv lower s) (h : stepRemove lower s info = .ok s') :
    RInv lower s' := by
  unfold stepRemove at h
  cases hg : PyDict.get? strEq s.services (lower info.name) with
  | none => simp only [hg] at h; cases h; exact hinv
  | some old =>
    simp only [hg] at h
    cases ht : idxRemove s.types (lower old.type) (lower info.name) with
    | error e => simp [ht] at h
    | ok t =>
      cases hv : idxRemove s.servers (lower old.server) (lower info.name) with
      | error e => simp [ht, hv] at h
      | ok v =>
        simp only [ht, hv, Except.ok.injEq] at h
        subst h
        exact ⟨PyDict.WF_erase hinv.wfS _, fun p hp => hinv.keyS p ((PyDict.erase_sublist _ _).subset hp),
          idxRemove_wf hinv.wfT ht, idxRemove_wf hinv.wfV hv⟩

/-- one iteration of the loop is the model's `removeOne` -/
theorem stepRemove_eq (s : ServiceRegistry) (info : Svc) (hinv : RInv lower s) :
    (stepRemove lower s info).map absR = (absR s).removeOne lower (lower info.name) := by
  unfold stepRemove Registry.removeOne
  simp only [absR, sget_values lower s.services hinv.keyS, Svc.typeKey, Svc.serverKey]
  cases hg : PyDict.get? strEq s.services (lower info.name) with
  | none => rfl
  | some old =>
    simp only []
    rw [← remove_from_index_eq s.types _ _ hinv.wfT, ← remove_from_index_eq s.servers _ _ hinv.wfV,
      remove_from_index_closed, remove_from_index_closed]
    cases idxRemove s.types (lower old.type) (lower info.name) with
    | error e => rfl
    | ok t =>
      cases idxRemove s.servers (lower old.server) (lower info.name) with
      | error e => rfl
      | ok v =>
        simp only [Except.map, absR, values_erase lower s.services hinv.wfS hinv.keyS]

theorem foldl_stepRemove_inv {s s' : ServiceRegistry} (infos : List Svc) (hinv : RInv lower s)
    (h : infos.foldlM (stepRemove lower) s = .ok s') : RInv lower s' := by
  induction infos generalizing s with
  | nil => cases h; exact hinv
  | cons i r ih =>
    rw [List.foldlM_cons] at h
    cases h1 : stepRemove lower s i with
    | error e => simp [h1, bind, Except.bind] at h
    | ok s1 =>
      simp only [h1, bind, Except.bind] at h
      exact ih (stepRemove_inv lower hinv h1) h

/-- `_remove` keeps the representation invariant -/
theorem remove_inv {s s' : ServiceRegistry} {infos : List Svc} (hinv : RInv lower s)
    (h : ServiceRegistry.remove lower s infos = .ok s') : RInv lower s' := by
  rw [remove_closed] at h
  cases h1 : infos.foldlM (stepRemove lower) s with
  | error e => simp [h1, Except.map] at h
  | ok s1 =>
    simp only [h1, Except.map, Except.ok.injEq] at h
    subst h
    have := foldl_stepRemove_inv lower infos hinv h1
    exact ⟨this.wfS, this.keyS, this.wfT, this.wfV⟩

/-- **`_remove`** is the model's `Registry.remove` on the keys of the objects handed in -/
theorem remove_eq (s : ServiceRegistry) (infos : List Svc) (hinv : RInv lower s) :
    (ServiceRegistry.remove lower s infos).map absR = (absR s).remove lower (infos.map (Svc.key lower)) := by
  rw [remove_closed]
  induction infos generalizing s with
  | nil =>
    simp only [List.foldlM_nil, List.map_nil, Registry.remove, pure, Except.pure, Except.map, absR, PyDict.isEmpty_values]
  | cons i r ih =>
    rw [List.foldlM_cons, List.map_cons, Registry.remove]
    have h1 := stepRemove_eq lower s i hinv
    simp only [Svc.key]
    rw [← h1]
    cases h2 : stepRemove lower s i with
    | error e => rfl
    | ok s1 =>
      simp only [bind, Except.bind, Except.map]
      exact ih s1 (stepRemove_inv lower hinv h2)

/-! ### the public mutators -/

theorem async_add_eq (s : ServiceRegistry) (info : Svc) : ServiceRegistry.async_add lower s info = ServiceRegistry.add lower s info := by
  unfold ServiceRegistry.async_add
  dsimp only
  cases h : ServiceRegistry.add lower s info <;> simp only [bind, Except.bind, pure, Except.pure]

theorem async_remove_eq (s : ServiceRegistry) (info : Svc) : ServiceRegistry.async_remove lower s info = ServiceRegistry.remove lower s [info] := by
  unfold ServiceRegistry.async_remove
  dsimp only
  cases h : ServiceRegistry.remove lower s [info] <;> simp only [bind, Except.bind, pure, Except.pure]

theorem async_remove_list_eq (s : ServiceRegistry) (infos : List Svc) :
    ServiceRegistry.async_remove_list lower s infos = ServiceRegistry.remove lower s infos := by
  unfold ServiceRegistry.async_remove_list
  dsimp only
  cases h : ServiceRegistry.remove lower s infos <;> simp only [bind, Except.bind, pure, Except.pure]

theorem async_update_closed (s : ServiceRegistry) (info : Svc) :
    ServiceRegistry.async_update lower s info = (ServiceRegistry.remove lower s [info]).bind (fun s1 => ServiceRegistry.add lower s1 info) := by
  unfold ServiceRegistry.async_update
  dsimp only
  cases h1 : ServiceRegistry.remove lower s [info] with
  | error e => simp only [bind, Except.bind]
  | ok s1 =>
    simp only [bind, Except.bind]
    cases h2 : ServiceRegistry.add lower s1 info <;> simp only [pure, Except.pure]

/-- **`async_update`** is the model's `Registry.update` -/
theorem async_update_eq (s : ServiceRegistry) (info : Svc) (hinv : RInv lower s) :
    (ServiceRegistry.async_update lower s info).map (fun p => (absR p.1, p.2)) =
      ((absR s).update lower info).map (fun r => (r, info.clearMemo)) := by
  rw [async_update_closed]
  unfold Registry.update
  have h1 := remove_eq lower s [info] hinv
  simp only [List.map_cons, List.map_nil] at h1
  rw [← h1]
  cases h2 : ServiceRegistry.remove lower s [info] with
  | error e => rfl
  | ok s1 =>
    simp only [Except.bind, Except.map]
    exact add_eq lower s1 info (remove_inv lower hinv h2)

theorem async_update_inv {s s' : ServiceRegistry} {info i' : Svc} (hinv : RInv lower s)
    (h : ServiceRegistry.async_update lower s info = .ok (s', i')) : RInv lower s' := by
  rw [async_update_closed] at h
  cases h2 : ServiceRegistry.remove lower s [info] with
  | error e => simp [h2, Except.bind] at h
  | ok s1 =>
    simp only [h2, Except.bind] at h
    exact add_inv lower (remove_inv lower hinv h2) h

/-! ### readers -/

/-- `async_get_service_infos` -/
theorem async_get_service_infos_eq (s : ServiceRegistry) : s.async_get_service_infos = (absR s).services := rfl

/-- `async_get_info_name` -/
theorem async_get_info_name_eq (s : ServiceRegistry) (name : String) (hinv : RInv lower s) :
    s.async_get_info_name name = sget lower name (absR s).services := by
  simp only [absR, sget_values lower s.services hinv.keyS]
  rfl

/-- `async_get_types` -/
theorem async_get_types_eq (s : ServiceRegistry) : s.async_get_types = (absR s).getTypes := rfl

theorem mapM_getItem_eq (d : PyDict String Svc) (hk : ∀ p ∈ d, p.1 = lower p.2.name) (names : List String) :
    List.mapM (fun name => PyDict.getItem strEq d name) names = Registry.lookupAll lower (PyDict.values d) names := by
  induction names with
  | nil => rfl
  | cons n r ih =>
    rw [List.mapM_cons, Registry.lookupAll, sget_values lower d hk, ← ih]
    cases hg : PyDict.get? strEq d n with
    | none => simp [PyDict.getItem, hg, bind, Except.bind]
    | some v =>
      have h1 : PyDict.getItem strEq d n = .ok v := PyDict.getItem_eq_ok hg
      rw [h1]
      cases List.mapM (fun name => PyDict.getItem strEq d name) r <;> rfl

/-- `_async_get_by_index` -/
theorem async_get_by_index_eq (s : ServiceRegistry) (idx : NameIndex) (k : String) (hinv : RInv lower s) :
    s.async_get_by_index idx k = (absR s).byIndex lower idx k := by
  unfold ServiceRegistry.async_get_by_index Registry.byIndex
  rw [dget_eq]
  cases hg : PyDict.get? strEq idx k with
  | none => rfl
  | some names =>
    simp only [absR]
    rw [mapM_getItem_eq lower s.services hinv.keyS]

/-- `async_get_infos_type` -/
theorem async_get_infos_type_eq (s : ServiceRegistry) (k : String) (hinv : RInv lower s) :
    s.async_get_infos_type k = (absR s).byIndex lower (absR s).types k := by
  unfold ServiceRegistry.async_get_infos_type
  rw [async_get_by_index_eq lower s s.types k hinv]
  show (do let r ← (absR s).byIndex lower s.types k; pure r) = (absR s).byIndex lower s.types k
  generalize (absR s).byIndex lower s.types k = m
  cases m <;> rfl

/-- `async_get_infos_server` -/
theorem async_get_infos_server_eq (s : ServiceRegistry) (k : String) (hinv : RInv lower s) :
    s.async_get_infos_server k = (absR s).byIndex lower (absR s).servers k := by
  unfold ServiceRegistry.async_get_infos_server
  rw [async_get_by_index_eq lower s s.servers k hinv]
  show (do let r ← (absR s).byIndex lower s.servers k; pure r) = (absR s).byIndex lower s.servers k
  generalize (absR s).byIndex lower s.servers k = m
  cases m <;> rfl

/-! ### along histories -/

/-- the calls that change a `ServiceRegistry` -/
inductive ROp where
  | add (info : Svc)
  | remove (infos : List Svc)
  | update (info : Svc)

/-- the generated code, call after call (stops at the first exception) -/
def runGen : List ROp → ServiceRegistry → Except PyExc ServiceRegistry
  | [], s => .ok s
  | .add i :: ops, s => (ServiceRegistry.async_add lower s i).bind (fun p => runGen ops p.1)
  | .remove is :: ops, s => (ServiceRegistry.async_remove_list lower s is).bind (runGen ops)
  | .update i :: ops, s => (ServiceRegistry.async_update lower s i).bind (fun p => runGen ops p.1)

/-- the hand model, call after call -/
def runModel : List ROp → Registry → Except PyExc Registry
  | [], r => .ok r
  | .add i :: ops, r => (r.add lower i).bind (runModel ops)
  | .remove is :: ops, r => (r.remove lower (is.map (Svc.key lower))).bind (runModel ops)
  | .update i :: ops, r => (r.update lower i).bind (runModel ops)

/-- **every history of calls**: the generated registry and the model registry raise the same exception at the same call or
end in corresponding states, and the representation invariant holds at the end -/
theorem run_eq (ops : List ROp) (s : ServiceRegistry) (hinv : RInv lower s) :
    (runGen lower ops s).map absR = runModel lower ops (absR s) ∧ ∀ s', runGen lower ops s = .ok s' → RInv lower s' := by
  induction ops generalizing s with
  | nil => exact ⟨rfl, fun s' h => by cases h; exact hinv⟩
  | cons op ops ih =>
    cases op with
    | add i =>
      have h1 := add_eq lower s i hinv
      simp only [runGen, runModel, async_add_eq]
      cases h2 : ServiceRegistry.add lower s i with
      | error e =>
        rw [h2] at h1
        cases h3 : (absR s).add lower i with
        | error e' => rw [h3] at h1; simp only [Except.map, Except.error.injEq] at h1; subst h1; exact ⟨rfl, fun s' h => by cases h⟩
        | ok r => rw [h3] at h1; cases h1
      | ok p =>
        rw [h2] at h1
        cases h3 : (absR s).add lower i with
        | error e' => rw [h3] at h1; cases h1
        | ok r =>
          rw [h3] at h1
          simp only [Except.map, Except.ok.injEq, Prod.mk.injEq] at h1
          simp only [Except.bind]
          rw [← h1.1]
          exact ih p.1 (add_inv lower hinv (by rw [h2]))
    | remove is =>
      have h1 := remove_eq lower s is hinv
      simp only [runGen, runModel, async_remove_list_eq]
      rw [← h1]
      cases h2 : ServiceRegistry.remove lower s is with
      | error e => exact ⟨rfl, fun s' h => by cases h⟩
      | ok s1 => exact ih s1 (remove_inv lower hinv h2)
    | update i =>
      have h1 := async_update_eq lower s i hinv
      simp only [runGen, runModel]
      cases h2 : ServiceRegistry.async_update lower s i with
      | error e =>
        rw [h2] at h1
        cases h3 : (absR s).update lower i with
        | error e' => rw [h3] at h1; simp only [Except.map, Except.error.injEq] at h1; subst h1; exact ⟨rfl, fun s' h => by cases h⟩
        | ok r => rw [h3] at h1; cases h1
      | ok p =>
        rw [h2] at h1
        cases h3 : (absR s).update lower i with
        | error e' => rw [h3] at h1; cases h1
        | ok r =>
          rw [h3] at h1
          simp only [Except.map, Except.ok.injEq, Prod.mk.injEq] at h1
          simp only [Except.bind]
          rw [← h1.1]
          exact ih p.1 (async_update_inv lower hinv (by rw [h2]))

/-! ### C03's histories: a call that raises leaves the registry as it was

`Registry.run` (Model/RegHistory.lean) continues after a call that raised, with the state unchanged (the only exception
a history can meet, `ServiceNameAlreadyRegistered`, is raised before anything is written: `C03_only_already_registered`).
The same reading of the generated code: -/

/-- the API call as the C03 model names it -/
def toRegOp : ROp → RegOp
  | .add i => .register i
  | .remove is => .unregister (is.map (Svc.key lower))
  | .update i => .update i

/-- one API call on the generated registry (the state before the call when it raises) -/
def gstep (s : ServiceRegistry) : ROp → ServiceRegistry
  | .add i => match ServiceRegistry.async_add lower s i with | .ok p => p.1 | .error _ => s
  | .remove is => match ServiceRegistry.async_remove_list lower s is with | .ok s' => s' | .error _ => s
  | .update i => match ServiceRegistry.async_update lower s i with | .ok p => p.1 | .error _ => s

def gRun (ops : List ROp) : ServiceRegistry := ops.foldl (gstep lower) ServiceRegistry.init

theorem gstep_eq (ettl : Nat) (s : ServiceRegistry) (op : ROp) (hinv : RInv lower s) :
    absR (gstep lower s op) = (absR s).step lower ettl (toRegOp lower op) ∧ RInv lower (gstep lower s op) := by
  cases op with
  | add i =>
    have h1 := add_eq lower s i hinv
    simp only [gstep, toRegOp, Registry.step, Registry.stepE, async_add_eq]
    cases h2 : ServiceRegistry.add lower s i with
    | error e =>
      rw [h2] at h1
      cases h3 : (absR s).add lower i with
      | error e' => exact ⟨rfl, hinv⟩
      | ok r => rw [h3] at h1; cases h1
    | ok p =>
      rw [h2] at h1
      cases h3 : (absR s).add lower i with
      | error e' => rw [h3] at h1; cases h1
      | ok r =>
        rw [h3] at h1
        simp only [Except.map, Except.ok.injEq, Prod.mk.injEq] at h1
        exact ⟨h1.1, add_inv lower hinv (by rw [h2])⟩
  | remove is =>
    have h1 := remove_eq lower s is hinv
    simp only [gstep, toRegOp, Registry.step, Registry.stepE, async_remove_list_eq]
    rw [← h1]
    cases h2 : ServiceRegistry.remove lower s is with
    | error e => exact ⟨rfl, hinv⟩
    | ok s1 => exact ⟨rfl, remove_inv lower hinv h2⟩
  | update i =>
    have h1 := async_update_eq lower s i hinv
    simp only [gstep, toRegOp, Registry.step, Registry.stepE]
    cases h2 : ServiceRegistry.async_update lower s i with
    | error e =>
      rw [h2] at h1
      cases h3 : (absR s).update lower i with
      | error e' => exact ⟨rfl, hinv⟩
      | ok r => rw [h3] at h1; cases h1
    | ok p =>
      rw [h2] at h1
      cases h3 : (absR s).update lower i with
      | error e' => rw [h3] at h1; cases h1
      | ok r =>
        rw [h3] at h1
        simp only [Except.map, Except.ok.injEq, Prod.mk.injEq] at h1
        exact ⟨h1.1, async_update_inv lower hinv (by rw [h2])⟩

/-- **the C03 model's registry history is the translated code's**: after any sequence of `async_add` / `async_remove` /
`async_update` calls the state of the generated `ServiceRegistry` is, field by field, the state of `Registry.run` -/
theorem gRun_eq (ettl : Nat) (ops : List ROp) :
    absR (gRun lower ops) = Registry.run lower ettl (ops.map (toRegOp lower)) ∧ RInv lower (gRun lower ops) := by
  unfold gRun Registry.run
  have key : ∀ (ops : List ROp) (s : ServiceRegistry), RInv lower s →
      absR (ops.foldl (gstep lower) s) = (ops.map (toRegOp lower)).foldl (Registry.step lower ettl) (absR s)
        ∧ RInv lower (ops.foldl (gstep lower) s) := by
    intro ops
    induction ops with
    | nil => intro s h; exact ⟨rfl, h⟩
    | cons op r ih =>
      intro s h
      have h1 := gstep_eq lower ettl s op h
      simp only [List.foldl_cons, List.map_cons]
      rw [← h1.1]
      exact ih _ h1.2
  exact key ops ServiceRegistry.init (rinv_init lower)

end Zc.GenFacts.FnRegistry
