import Zc.Model.ReplyNet
import Zc.GenFacts.Reply
/-! Facts about the generated leaves of `Gen.ReplyNet` that the C11 socket / format proofs rely on (DESIGN §2.2), and the
shape pins: the source text of every statement whose control flow `Model/ReplyNet.lean` mirrors by hand.  Nothing else
unfolds `Zc.Gen.ReplyNet`. -/
namespace Zc.Reply.Net.GenFacts
open Zc.Gen Zc.Reply Zc.Reply.Net

/-! ### `async_send_with_transport` -/
theorem send_addr_none (b : Bool) : Gen.ReplyNet.send_addr_none b = b := rfl
theorem send_group_v6 (b : Bool) : Gen.ReplyNet.send_group_v6 b = b := rfl
theorem send_skip (can : Bool) : Gen.ReplyNet.send_skip can = !can := rfl
/-- the socket's own flowinfo / scope id are used exactly when the socket is IPv6 and the caller gave none -/
theorem send_fill_flow_scope (v6 given : Bool) : Gen.ReplyNet.send_fill_flow_scope v6 given = (v6 && !given) := rfl
/-- `port or _MDNS_PORT`: the given port, 5353 for port 0 -/
theorem send_port (port : Nat) : Gen.ReplyNet.send_port port = if port = 0 then 5353 else port := by
  unfold Gen.ReplyNet.send_port; by_cases h : port = 0 <;> simp [h]
theorem send_port_pos (port : Nat) (h : port ≠ 0) : Gen.ReplyNet.send_port port = port := by
  rw [send_port]; simp [h]

/-! ### `Zeroconf.async_send` -/
theorem send_one_transport (b : Bool) : Gen.ReplyNet.send_one_transport b = b := rfl
theorem send_oversize (n : Nat) : Gen.ReplyNet.send_oversize n = true ↔ 8966 < n := by
  simp [Gen.ReplyNet.send_oversize]
theorem mdnsPort_eq : Gen.mdnsPort = 5353 := rfl

/-! ### the reply constructors -/
theorem ans_unicast_flags : Gen.ReplyNet.ans_unicast_flags = 0x8400 := rfl
theorem ans_multicast_flags : Gen.ReplyNet.ans_multicast_flags = 0x8400 := rfl
theorem ans_unicast_id (id : Nat) : Gen.ReplyNet.ans_unicast_id id = id := rfl
/-- neither the multicast constructor nor `_add_answers_additionals` calls `add_question` -/
theorem ans_no_add_question :
    (Gen.ReplyNet.ans_multicast_calls_add_question || Gen.ReplyNet.ans_fill_calls_add_question) = false := rfl

/-- `add_answer_at_time(record, 0)`: with `now == 0` the answer is always stored -/
theorem answer_now_zero (expired : Bool) : Gen.Outgoing.answer_accepted true 0 expired = true := by
  simp [Gen.Outgoing.answer_accepted]

/-! ### the listener's split of the source sockaddr -/
theorem l_two_tuple (n : Nat) : Gen.ReplyNet.l_two_tuple n = true ↔ n = 2 := by simp [Gen.ReplyNet.l_two_tuple]

/-! ### the record constructors: today's arguments imply the numbers of the English statement
(PTR = 12 is the one shared record type; 0x8000 is the cache-flush bit) -/
theorem kind_type (k : RKind) :
    k.ctorType = match k with | .ptr => 12 | .srv => 33 | .txt => 16 | .a => 1 | .aaaa => 28 | .nsec => 47 | .enumPtr => 12 := by
  cases k <;> rfl
theorem kind_class (k : RKind) : k.rclass = 1 := by cases k <;> decide
theorem kind_unique (k : RKind) : k.unique = match k with | .ptr | .enumPtr => false | _ => true := by cases k <;> decide

/-! ### shape pins -/
theorem pin_group_addr : Gen.ReplyNet.src_group_addr = "_MDNS_ADDR6 if ipv6_socket else _MDNS_ADDR" := rfl
theorem pin_given_addr : Gen.ReplyNet.src_given_addr = "addr" := rfl
theorem pin_ipv6_socket : Gen.ReplyNet.src_ipv6_socket = "transport.is_ipv6" := rfl
theorem pin_sock_name : Gen.ReplyNet.src_sock_name = "transport.sock_name" := rfl
theorem pin_sock_flow_scope : Gen.ReplyNet.src_sock_flow_scope = "(sock_flowinfo, sock_scopeid)" := rfl
theorem pin_sendto : Gen.ReplyNet.src_sendto = "transport.transport.sendto(packet, (real_addr, port or _MDNS_PORT, *v6_flow_scope))" := rfl
theorem pin_transports : Gen.ReplyNet.src_transports = "[transport] if transport else self.engine.senders" := rfl
theorem pin_packet_loop : Gen.ReplyNet.src_packet_loop = "enumerate(out.packets())" := rfl
theorem pin_transport_loop : Gen.ReplyNet.src_transport_loop = "transports" := rfl
theorem pin_send_signature : Gen.ReplyNet.src_send_signature =
    "self, out: DNSOutgoing, addr: Optional[str]=None, port: int=_MDNS_PORT, v6_flow_scope: Union[Tuple[()], Tuple[int, int]]=(), transport: Optional[_WrappedTransport]=None" := rfl
theorem pin_send_call : Gen.ReplyNet.src_send_call =
    "async_send_with_transport(log_debug, send_transport, packet, packet_num, out, addr, port, v6_flow_scope)" := rfl
theorem pin_first_packet : Gen.ReplyNet.src_first_packet = "packets[0]" := rfl
theorem pin_ucast_questions : Gen.ReplyNet.src_ucast_questions = "first_packet._questions" := rfl
theorem pin_ucast_id : Gen.ReplyNet.src_ucast_id = "first_packet.id" := rfl
theorem pin_ucast_ctor : Gen.ReplyNet.src_ucast_ctor =
    "construct_outgoing_unicast_answers(question_answers.ucast, ucast_source, questions, id_)" := rfl
theorem pin_ucast_send : Gen.ReplyNet.src_ucast_send = "self.zc.async_send(out, addr, port, v6_flow_scope, transport)" := rfl
theorem pin_mcast_send : Gen.ReplyNet.src_mcast_send =
    "self.zc.async_send(construct_outgoing_multicast_answers(question_answers.mcast_now))" := rfl
theorem pin_queue_send : Gen.ReplyNet.src_queue_send = "zc.async_send(construct_outgoing_multicast_answers(answers))" := rfl
theorem pin_multicast_ctor : Gen.ReplyNet.src_multicast_ctor = "DNSOutgoing(_FLAGS_QR_RESPONSE_AA, True)" := rfl
theorem pin_echo_loop : Gen.ReplyNet.src_echo_loop = "questions" := rfl
theorem pin_echo_call : Gen.ReplyNet.src_echo_call = "out.add_question(question)" := rfl
theorem pin_fill_answer : Gen.ReplyNet.src_fill_answer = "out.add_answer_at_time(answer, 0)" := rfl
theorem pin_fill_additional : Gen.ReplyNet.src_fill_additional = "out.add_additional_answer(additional)" := rfl
theorem pin_l_flow_scope2 : Gen.ReplyNet.src_l_flow_scope2 = "()" := rfl
theorem pin_l_flow_scope4 : Gen.ReplyNet.src_l_flow_scope4 = "(flow, scope)" := rfl
theorem pin_l_unpack2 : Gen.ReplyNet.src_l_unpack2 = "addrs" := rfl
theorem pin_l_unpack4 : Gen.ReplyNet.src_l_unpack4 = "addrs" := rfl
theorem pin_l_handle : Gen.ReplyNet.src_l_handle = "self.handle_query_or_defer(msg, addr, port, self.transport, v6_flow_scope)" := rfl
theorem pin_l_respond_now : Gen.ReplyNet.src_l_respond_now = "self._respond_query(msg, addr, port, transport, v6_flow_scope)" := rfl
theorem pin_l_respond_later : Gen.ReplyNet.src_l_respond_later =
    "loop.call_at(loop.time() + delay, self._respond_query, None, addr, port, transport, v6_flow_scope)" := rfl
theorem pin_l_assembled : Gen.ReplyNet.src_l_assembled =
    "self._query_handler.handle_assembled_query(packets, addr, port, transport, v6_flow_scope)" := rfl
/-- `_respond_query`: the deferred packets of the address first, the packet just received appended (so `packets[0]`, whose id and
questions the unicast reply echoes, is the first packet of the train) — what `Listener.take` of `Model/Reply.lean` mirrors -/
theorem pin_l_packets : Gen.ReplyNet.src_l_packets = "self._deferred.pop(addr, [])" := rfl
theorem pin_l_packets_append : Gen.ReplyNet.src_l_packets_append = "packets.append(msg)" := rfl
theorem l_append_if_msg (b : Bool) : Gen.ReplyNet.l_append_if_msg b = b := rfl
/-- `DNSCache.async_get_unique`: the store is looked up under the record's lower-cased name (`key`), then by identity -/
theorem pin_cache_unique_store : Gen.ReplyNet.src_cache_unique_store = "self.cache.get(entry.key)" := rfl
theorem pin_cache_unique_ret : Gen.ReplyNet.src_cache_unique_ret = "store.get(entry)" := rfl
/-- the state the duplicate guard compares with is assigned exactly once each, after the guard let the datagram through (the model's
`Host.decide` updates `lastData` / `lastTime` on that path only): a dropped repeat does not restart the one-second window -/
theorem pin_l_last_time : Gen.ReplyNet.src_l_last_time = "now" := rfl
theorem pin_l_last_time_once : Gen.ReplyNet.src_l_last_time_again = "<not found>" := rfl
theorem pin_l_data : Gen.ReplyNet.src_l_data = "data" := rfl
theorem pin_l_data_once : Gen.ReplyNet.src_l_data_again = "<not found>" := rfl

end Zc.Reply.Net.GenFacts
