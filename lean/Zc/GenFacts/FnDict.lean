import Zc.Py.Runtime
import Zc.Model.Reply
/-! # bridge between the `Reply` model's `Dict` (records as numbers, C11/C12) and the runtime's `PyDict`

Shared by `FnQueue` (`multicast_outgoing_queue.py`) and `FnReply` (`_QueryResponse`): on a well-formed dict the model's operations
are the runtime's. -/
namespace Zc.GenFacts.FnDict
open Zc Zc.Py Zc.Reply

set_option linter.unusedSimpArgs false

/-- `==` on the model's record numbers -/
abbrev natEq : Nat → Nat → Bool := fun a b => a == b

theorem natEq_keyEq : KeyEq natEq where
  refl a := by simp [natEq]
  symm a b h := by
    have : a = b := by simpa [natEq] using h
    subst this; simp [natEq]
  trans a b c h1 h2 := by
    have e1 : a = b := by simpa [natEq] using h1
    have e2 : b = c := by simpa [natEq] using h2
    subst e1; subst e2; simp [natEq]

/-! ### bridge: the model's `Dict` operations are the runtime's on a well-formed dict -/

theorem dict_has_eq (d : Dict) (k : RecId) : Dict.has d k = PyDict.contains natEq d k := by
  rw [PyDict.contains_eq_any]; rfl

theorem dict_set_eq (d : Dict) (k : RecId) (v : List RecId) (h : PyDict.WF natEq d) : Dict.set d k v = PyDict.set natEq d k v := by
  unfold Dict.set
  rw [dict_has_eq]
  cases hc : PyDict.contains natEq d k with
  | false => simp [PyDict.set_of_not_contains hc]
  | true =>
    simp only [if_true]
    induction d with
    | nil => simp [PyDict.contains] at hc
    | cons x r ih =>
      obtain ⟨k0, v0⟩ := x
      obtain ⟨h1, h2⟩ := PyDict.WF_cons.1 h
      rw [List.map_cons, PyDict.set_cons]
      by_cases h0 : k0 = k
      · subst h0
        simp only [natEq, beq_self_eq_true, if_true, List.cons.injEq, true_and]
        -- no other entry has this key
        rw [List.map_congr_left (g := id)]
        · simp
        · intro p hp
          have := h1 p hp
          simp only [natEq, beq_eq_false_iff_ne, ne_eq] at this
          have : ¬ p.1 = k0 := fun e => this e.symm
          simp [this]
      · have hb : (k0 == k) = false := by simpa using h0
        simp only [natEq, hb, Bool.false_eq_true, if_false, List.cons.injEq, true_and]
        have hc' : PyDict.contains natEq r k = true := by
          rw [PyDict.contains_eq_any] at hc ⊢
          simpa [natEq, hb] using hc
        exact ih h2 hc'

theorem dict_update_eq (d o : Dict) (h : PyDict.WF natEq d) :
    Dict.update d o = PyDict.update natEq d o ∧ PyDict.WF natEq (PyDict.update natEq d o) := by
  unfold Dict.update PyDict.update
  induction o generalizing d with
  | nil => exact ⟨rfl, h⟩
  | cons e r ih =>
    rw [List.foldl_cons, List.foldl_cons, dict_set_eq d e.1 e.2 h]
    exact ih _ (PyDict.WF_set h _ _)

theorem dict_erase_eq (d : Dict) (k : RecId) (h : PyDict.WF natEq d) : Dict.erase d k = PyDict.erase natEq d k := by
  rw [PyDict.erase_eq_filter natEq_keyEq h]; rfl

end Zc.GenFacts.FnDict
