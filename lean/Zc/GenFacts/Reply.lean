import Zc.Model.Reply
/-! Facts about the generated constants and leaves that the C12 / C11 proofs rely on
(DESIGN §2.2).  Nothing else unfolds `Zc.Gen.*`. -/
namespace Zc.Reply.GenFacts
open Zc.Gen Zc.Reply

/-! ### constants: today's values imply the numbers of the English statement -/
theorem drawLo_eq : drawLo = 20 := by decide
theorem drawHi_eq : drawHi = 120 := by decide
theorem tcLo_eq : tcLo = 400 := by decide
theorem tcHi_eq : tcHi = 500 := by decide
theorem outQP_addl : outQP.addl = 0 := by decide
theorem outQP_agg : outQP.agg = 500 := by decide
theorem delayQP_addl : delayQP.addl = 1000 := by decide
theorem delayQP_agg : delayQP.agg = 200 := by decide
theorem replyFlags_eq : replyFlags = 0x8400 := by decide

/-! ### queue arithmetic -/
theorem q_random_delay (d a : Int) : Gen.Reply.q_random_delay d a = d + a := rfl
theorem q_send_after (n rd : Int) : Gen.Reply.q_send_after n rd = n + rd := rfl
theorem q_send_before (n g a : Int) : Gen.Reply.q_send_before n g a = n + g + a := rfl
theorem q_add_timer_delay (rd : Int) : Gen.Reply.q_add_timer_delay rd = rd := rfl
theorem q_add_nonempty (n : Int) : Gen.Reply.q_add_nonempty n = true ↔ n ≠ 0 := by
  simp [Gen.Reply.q_add_nonempty]
theorem q_add_merge (a b : Int) : Gen.Reply.q_add_merge a b = true ↔ a ≤ b := by
  simp [Gen.Reply.q_add_merge]
theorem q_ready_wait (n sb now : Int) : Gen.Reply.q_ready_wait n sb now = true ↔ 1 < n ∧ now < sb := by
  simp [Gen.Reply.q_ready_wait]
theorem q_ready_wait_delay (sb now : Int) : now + Gen.Reply.q_ready_wait_delay sb now = sb := by
  simp only [Gen.Reply.q_ready_wait_delay]; omega
theorem q_ready_pop (n sa now : Int) : Gen.Reply.q_ready_pop n sa now = true ↔ n ≠ 0 ∧ sa ≤ now := by
  simp [Gen.Reply.q_ready_pop]
theorem q_ready_rearm_delay (sa now : Int) : now + Gen.Reply.q_ready_rearm_delay sa now = sa := by
  simp only [Gen.Reply.q_ready_rearm_delay]; omega
/-- `async_remove_answers` keeps exactly the answers that are not withdrawn -/
theorem q_remove_keep (b : Bool) : Gen.Reply.q_remove_keep b = !b := rfl

/-! ### classification -/
theorem in_last_second (none : Bool) (now created : Int) :
    Gen.Reply.has_mcast_record_in_last_second none now created = true ↔ none = false ∧ now - created < 1000 := by
  simp [Gen.Reply.has_mcast_record_in_last_second]
theorem within_quarter (none recent : Bool) :
    Gen.Reply.has_mcast_within_one_quarter_ttl none recent = true ↔ none = false ∧ recent = true := by
  simp [Gen.Reply.has_mcast_within_one_quarter_ttl]
theorem is_recent (created ttl now : Int) : Gen.Dns.is_recent created ttl now = true ↔ now < created + 250 * ttl := by
  simp [Gen.Dns.is_recent]
theorem mc_test_probe (b : Bool) : Gen.Reply.mc_test_probe b = b := rfl
theorem mc_test_last_second (b : Bool) : Gen.Reply.mc_test_last_second b = b := rfl
theorem mc_test_single_question (n : Int) : Gen.Reply.mc_test_single_question n = true ↔ n = 1 := by
  simp [Gen.Reply.mc_test_single_question]
theorem mc_test_immediate_type (t : Int) :
    Gen.Reply.mc_test_immediate_type t = true ↔ t = 33 ∨ t = 1 ∨ t = 28 ∨ t = 47 := by
  simp [Gen.Reply.mc_test_immediate_type]; omega
theorem qu_test_probe (b : Bool) : Gen.Reply.qu_test_probe b = b := rfl
theorem qu_test_mcast_now (b : Bool) : Gen.Reply.qu_test_mcast_now b = !b := rfl
theorem qu_test_ucast (b : Bool) : Gen.Reply.qu_test_ucast b = !b := rfl
theorem route_qu_only (us qu : Bool) : Gen.Reply.route_qu_only us qu = (!us && qu) := rfl
theorem ucast_source (port : Int) : Gen.Reply.ucast_source port = true ↔ port ≠ 5353 := by
  simp [Gen.Reply.ucast_source]
theorem ans_echo_questions (b : Bool) : Gen.Reply.ans_echo_questions b = b := rfl
theorem rrset_suppresses (ttl other : Int) : Gen.Dns.rrset_suppresses_ttl ttl other = true ↔ ttl < 2 * other := by
  simp [Gen.Dns.rrset_suppresses_ttl]; omega

/-! ### listener -/
theorem l_not_truncated (b : Bool) : Gen.Reply.l_not_truncated b = !b := rfl
theorem in_truncated (flags : Nat) : Gen.Reply.in_truncated flags = true ↔ flags &&& 512 = 512 := by
  simp [Gen.Reply.in_truncated]
theorem in_is_probe (n : Nat) : Gen.Reply.in_is_probe n = true ↔ 0 < n := by
  simp [Gen.Reply.in_is_probe]

/-! ### packet format -/
theorem out_id_zero (m : Bool) : Gen.Reply.out_id_zero m = m := rfl
theorem out_class_flush (u m : Bool) : Gen.Reply.out_class_flush u m = (u && m) := rfl
theorem out_class_with_flush (c : Nat) : Gen.Reply.out_class_with_flush c = c ||| 0x8000 := rfl
theorem out_class_plain (c : Nat) : Gen.Reply.out_class_plain c = c := rfl
theorem in_qu_flag_test (u : Bool) : Gen.Reply.in_qu_flag_test u = u := rfl
theorem in_qu_flag_value (u : Bool) : Gen.Reply.in_qu_flag_value u = true := rfl
theorem ans_unicast_multicast_arg (id : Int) (us : Bool) : Gen.Reply.ans_unicast_multicast_arg id us = false := rfl
theorem ans_multicast_multicast_arg : Gen.Reply.ans_multicast_multicast_arg = true := rfl
theorem can_send_to (v6 colon : Bool) : Gen.Reply.can_send_to v6 colon = true ↔ v6 = colon := by
  cases v6 <;> cases colon <;> simp [Gen.Reply.can_send_to]

end Zc.Reply.GenFacts
