import Zc.Gen.Const
import Zc.Gen.Dns
import Zc.Gen.Responder
/-! Facts about the generated leaves and constants that the C03 proofs use (DESIGN §2.2).
The specification `RespSpec` is exact (it names DNS type codes and the enumeration name), so the facts are
the equalities between today's constants and those codes, and the meaning of the question-type tests. -/
namespace Zc.GenFacts.Responder
open Zc.Gen

theorem typePtr_eq : Gen.typePtr = 12 := rfl
theorem typeSrv_eq : Gen.typeSrv = 33 := rfl
theorem typeTxt_eq : Gen.typeTxt = 16 := rfl
theorem typeNsec_eq : Gen.typeNsec = 47 := rfl
theorem addressRecordTypes_eq : Gen.addressRecordTypes = [1, 28] := rfl
theorem enumName_eq : Gen.serviceTypeEnumerationName = "_services._dns-sd._udp.local." := rfl

/-- `_CLASS_IN` is stored as class 1 without the cache-flush bit -/
theorem class_shared : Gen.Dns.class_of Gen.classIn = 1 ∧ Gen.Dns.unique_of Gen.classIn = false := by decide
/-- `_CLASS_IN_UNIQUE` is stored as class 1 with the cache-flush bit -/
theorem class_unique : Gen.Dns.class_of Gen.classInUnique = 1 ∧ Gen.Dns.unique_of Gen.classInUnique = true := by decide

theorem addr_type_v4 : Gen.Responder.addr_type_of_version 4 = 1 := rfl
theorem addr_type_v6 : Gen.Responder.addr_type_of_version 6 = 28 := rfl

theorem q_is_enum_iff (t : Nat) (b : Bool) : Gen.Responder.q_is_enum t b = true ↔ t = 12 ∧ b = true := by
  simp [Gen.Responder.q_is_enum]
theorem q_wants_pointer_iff (t : Nat) : Gen.Responder.q_wants_pointer t = true ↔ t = 12 ∨ t = 255 := by
  simp [Gen.Responder.q_wants_pointer]
theorem q_wants_address_iff (t : Nat) : Gen.Responder.q_wants_address t = true ↔ t = 1 ∨ t = 28 ∨ t = 255 := by
  simp [Gen.Responder.q_wants_address, or_assoc]
theorem q_wants_instance_iff (t : Nat) : Gen.Responder.q_wants_instance t = true ↔ t = 33 ∨ t = 16 ∨ t = 255 := by
  simp [Gen.Responder.q_wants_instance, or_assoc]
theorem q_wants_service_iff (t : Nat) : Gen.Responder.q_wants_service t = true ↔ t = 33 ∨ t = 255 := by
  simp [Gen.Responder.q_wants_service]
theorem q_wants_text_iff (t : Nat) : Gen.Responder.q_wants_text t = true ↔ t = 16 ∨ t = 255 := by
  simp [Gen.Responder.q_wants_text]
theorem addr_is_other_type_iff (a t : Nat) : Gen.Responder.addr_is_other_type a t = true ↔ a ≠ t := by
  simp [Gen.Responder.addr_is_other_type]

theorem addr_is_other_type_iff_false (a t : Nat) : Gen.Responder.addr_is_other_type a t = false ↔ a = t := by
  simp [Gen.Responder.addr_is_other_type]

/-- known-answer suppression: the listed TTL is more than half of the record's -/
theorem suppresses_ttl_iff (ttl other : Nat) : Gen.Dns.rrset_suppresses_ttl ttl other = true ↔ ttl < 2 * other := by
  simp [Gen.Dns.rrset_suppresses_ttl]; omega

end Zc.GenFacts.Responder
