import Zc.Gen.Lookup
import Zc.Gen.Dns
/-! Facts about the generated leaves used by the C18 proofs (DESIGN §2.2): the weakest statement each
proof needs, proved by unfolding the leaf once, here. -/
namespace Zc.GenFacts.Lookup
open Zc.Gen Zc.Gen.Lookup

theorem is_complete_iff (n4 n6 : Nat) : is_complete true n4 n6 = true ↔ n4 ≠ 0 ∨ n6 ≠ 0 := by
  simp [is_complete]

theorem deadline_of_eq (now timeout : Int) : deadline_of now timeout = now + timeout := rfl

theorem deadline_passed_iff (last now : Int) : deadline_passed last now = true ↔ last ≤ now := by
  simp [deadline_passed]

theorem query_due_iff (next now : Int) : query_due next now = true ↔ next ≤ now := by
  simp [query_due]

theorem wait_for_eq (next last now : Int) : wait_for next last now = min next last - now := rfl

theorem next_base_eq (now delay : Int) : next_base now delay = now + delay := rfl

theorem initial_delay_pos : 0 < initial_delay := by decide

theorem dup_interval_pos : 0 < duplicateQuestionInterval := by decide

/-- first query: the forced type, QU (1) when none is forced; later queries: QM (2) -/
theorem this_question_type_first (forced : Nat) : this_question_type forced 1 2 true = if forced = 0 then 1 else forced := by
  simp [this_question_type]

theorem this_question_type_later (forced : Nat) : this_question_type forced 1 2 false = 2 := by
  simp [this_question_type]

theorem send_if_iff (n : Nat) : send_if n = true ↔ n ≠ 0 := by simp [send_if]

theorem skip_known_iff (skip : Bool) (n : Nat) : skip_known skip n = true ↔ skip = true ∧ n ≠ 0 := by
  simp [skip_known]

/-- the repaired `_load_from_cache` takes a record iff it has not expired -/
theorem load_takes_iff (expired : Bool) : load_takes expired = true ↔ expired = false := by
  simp [load_takes]

theorem draw_interval : avoidSyncDelayRandomInterval = [20, 120] := rfl

theorem typeA_eq : typeA = 1 := rfl
theorem typeAaaa_eq : typeAaaa = 28 := rfl
theorem typeTxt_eq : typeTxt = 16 := rfl
theorem typeSrv_eq : typeSrv = 33 := rfl
theorem classIn_eq : classIn = 1 := rfl

theorem is_expired_iff (created : Int) (ttl : Nat) (now : Int) :
    Zc.Gen.Dns.is_expired created ttl now = true ↔ created + 1000 * (ttl : Int) ≤ now := by
  simp [Zc.Gen.Dns.is_expired]

theorem is_stale_iff (created : Int) (ttl : Nat) (now : Int) :
    Zc.Gen.Dns.is_stale created ttl now = true ↔ created + 500 * (ttl : Int) ≤ now := by
  simp [Zc.Gen.Dns.is_stale]

end Zc.GenFacts.Lookup
