import Zc.Gen.NameText
/-! Facts about the translated text-layer statements (`tools/leaves/nametext.py`).

The `pin_*` theorems state the source text of every statement that `Zc.Model.NameText` models by hand; an edit
of one of them in the working tree (another separator, `rstrip('.')`, `'ignore'`, another suffix slice, a
different key for the names table) makes exactly that theorem fail, and with it the proof stage of the
properties whose theorems import this file (C01, C02, C14, C15). -/
namespace Zc.GenFacts.NameText
open Zc.Gen.NameText

/-! ### `write_name`: strip one trailing dot, split at dots -/
theorem pin_strip_test : src_strip_test = "name.endswith('.')" := by decide
theorem pin_strip_value : src_strip_value = "name[:-1]" := by decide
theorem pin_split : src_split = "name.split('.')" := by decide

/-! ### `write_name`: the names table is keyed by text -/
theorem pin_full_lookup : src_full_lookup = "self.names.get(name, 0)" := by decide
theorem pin_full_register : src_full_register = "start_size" := by decide
theorem pin_loop_range : src_loop_range = "range(1, len(labels))" := by decide
theorem pin_partial : src_partial = "'.'.join(labels[count:])" := by decide
theorem pin_partial_lookup : src_partial_lookup = "self.names.get(partial_name, 0)" := by decide
theorem pin_name_length : src_name_length = "len(name.encode('utf-8'))" := by decide

/-- the offset registered for a suffix: `start_size + name_length - len(partial_name.encode('utf-8'))` -/
theorem suffix_offset_eq (start nameLen partialLen : Nat) (h : partialLen ≤ nameLen) :
    (suffix_offset start nameLen partialLen).toNat = start + (nameLen - partialLen) := by
  unfold suffix_offset
  omega

/-! ### per-label UTF-8 -/
theorem pin_encode : src_encode = "s.encode('utf-8')" := by decide
theorem pin_encoded_len : src_encoded_len = "len(utfstr)" := by decide
theorem pin_decode : src_decode = "self.data[label_idx:label_idx + length].decode('utf-8', 'replace')" := by decide

/-! ### `_read_name`: join, trailing dot, character count -/
theorem pin_join : src_join = "'.'.join(labels) + '.'" := by decide
theorem pin_len_test : src_len_test = "len(name) > MAX_NAME_LENGTH" := by decide

end Zc.GenFacts.NameText
