import Zc.Gen.Register
import Zc.Gen.Dns
/-! What the proofs of C09 need from the generated leaves of `_core.py`/`_cache.py` (weakest form). -/
namespace Zc.GenFacts.Register
open Zc.Gen Zc.Gen.Register

/-- the probe loop runs while fewer than three probes were sent -/
theorem probe_continue_iff (i : Nat) : probe_continue i = true ↔ i < 3 := by
  simp [probe_continue]

/-- the loop sleeps exactly when the clock has not reached the next probe instant -/
theorem must_wait_iff (now next : Int) : must_wait now next = true ↔ now < next := by
  simp [must_wait]

theorem wait_timeout_eq (now next : Int) : wait_timeout now next = next - now := by
  simp [wait_timeout]

/-- probes are 175 ms apart -/
theorem next_probe_time_eq (next : Int) : next_probe_time next = next + 175 := by
  simp [next_probe_time]

theorem next_probe_count_eq (i : Nat) : next_probe_count i = i + 1 := by
  simp [next_probe_count]

/-- three broadcasts -/
theorem broadcast_count_eq : broadcast_count = 3 := by
  simp [broadcast_count]

/-- announcements are 225 ms apart -/
theorem registerTime_eq : registerTime = 225 := by decide

/-- the public wrappers (`Zeroconf.register_service`, `AsyncZeroconf.async_register_service`) hand `allow_name_change`,
`cooperating_responders`, `strict` to `Zeroconf.async_register_service` in that order -/
theorem api_wrappers_pass_arguments :
    src_sync_register_arg2 = "allow_name_change" ∧ src_sync_register_arg3 = "cooperating_responders" ∧ src_sync_register_arg4 = "strict" ∧
    src_aio_register_arg2 = "allow_name_change" ∧ src_aio_register_arg3 = "cooperating_responders" ∧ src_aio_register_arg4 = "strict" := by
  decide

/-- an info's registry key is its lower-cased name, at construction and after every rename (`ServiceInfo.__init__`, the `name` setter) -/
theorem info_key_follows_name : src_info_ctor_key = "name.lower()" ∧ src_info_name_setter_key = "name.lower()" := by
  decide

/-- a cache entry conflicts iff it is an unexpired PTR whose alias is the name -/
theorem cache_conflict_iff (t : Int) (e a : Bool) : cache_conflict t e a = true ↔ t = 12 ∧ e = false ∧ a = true := by
  simp [cache_conflict, and_assoc]

theorem add_addresses_eq (b : Bool) : add_addresses b = b := by simp [add_addresses]

/-- the cache-flush bit of the record classes used by `ServiceInfo` -/
theorem unique_in : Zc.Gen.Dns.unique_of classIn = false := by decide
theorem unique_inUnique : Zc.Gen.Dns.unique_of classInUnique = true := by decide
theorem class_in : Zc.Gen.Dns.class_of classIn = 1 := by decide
theorem class_inUnique : Zc.Gen.Dns.class_of classInUnique = 1 := by decide

theorem typePtr_eq : typePtr = 12 := by decide
theorem typeSrv_eq : typeSrv = 33 := by decide
theorem typeTxt_eq : typeTxt = 16 := by decide
theorem typeA_eq : typeA = 1 := by decide
theorem typeAaaa_eq : typeAaaa = 28 := by decide
theorem typeNsec_eq : typeNsec = 47 := by decide

end Zc.GenFacts.Register
