import Zc.Gen.Const
import Zc.Gen.Dns
import Zc.Gen.Outgoing
/-! Facts about the generated leaves of `_protocol/outgoing.py` that the wire proofs rely on
(DESIGN §2.2): each is the *weakest* statement needed, so that a harmless rewrite of the Python
expression still proves while a semantic change breaks exactly one named lemma. -/
namespace Zc.GenFacts.Outgoing
open Zc.Gen Zc.Gen.Outgoing

/-- a label that passes `_write_utf`'s guard fits the 6-bit length field (RFC 1035: ≤ 63).
On the unrepaired tree (`length > 64`) this is false at 64 — defect D1. -/
theorem label_ok (n : Nat) (h : label_too_long n = false) : n < 64 := by
  simp [label_too_long] at h; omega

/-- labels of 64 bytes and more are rejected -/
theorem label_long_rejected (n : Nat) (h : 63 < n) : label_too_long n = true := by
  simp [label_too_long]; omega

theorem label_short_accepted (n : Nat) (h : n ≤ 63) : label_too_long n = false := by
  simp [label_too_long]; omega

theorem charstring_short_accepted (n : Nat) (h : n ≤ 255) : charstring_too_long n = false := by
  simp [charstring_too_long]; omega

theorem link_hi_eq (idx : Nat) (h : idx < 16384) : link_hi idx = idx / 256 + 192 := by
  unfold link_hi
  have h1 : idx >>> 8 = idx / 256 := by rw [Nat.shiftRight_eq_div_pow]
  rw [h1]
  have h2 : idx / 256 < 64 := by omega
  have key : ∀ a, a < 64 → a ||| 192 = a + 192 := by decide
  exact key _ h2

theorem link_lo_eq (idx : Nat) : link_lo idx = idx % 256 := by
  unfold link_lo
  exact Nat.and_two_pow_sub_one_eq_mod idx 8

theorem class_bit (u m : Bool) : class_has_unique_bit u m = (u && m) := by
  simp [class_has_unique_bit]

theorem class_with_unique_eq (c : Nat) (h : c < 32768) : class_with_unique c = c + 32768 := by
  unfold class_with_unique
  have key := Nat.two_pow_add_eq_or_of_lt (i := 15) (b := c) (by simpa using h) 1
  rw [Nat.or_comm]
  simp only [Nat.mul_one] at key
  rw [show (32768 : Nat) = 2 ^ 15 by rfl, ← key]
  omega

theorem header_len : dnsPacketHeaderLen = 12 := rfl

theorem len_limit_le (b : Bool) : len_limit b ≤ 8966 := by
  cases b <;> simp [len_limit]

theorem len_limit_false : len_limit false = 1460 := rfl

theorem len_limit_true : len_limit true = 8966 := rfl

theorem fits_iff (s l : Nat) : fits s l = true ↔ s ≤ l := by simp [fits]

theorem rollback_drops_iff (idx start : Nat) : rollback_drops idx start = true ↔ start ≤ idx := by
  simp [rollback_drops]

theorem has_more_iff (qo ao auo ado nq na nau nad : Nat) :
    has_more_to_add qo ao auo ado nq na nau nad = true ↔ (qo < nq ∨ ao < na ∨ auo < nau ∨ ado < nad) := by
  simp [has_more_to_add, or_assoc]

theorem set_tc_eq (a b : Bool) : set_tc a b = (a && b) := rfl

theorem flags_with_tc_eq (f : Nat) : flags_with_tc f = f ||| 512 := rfl

theorem is_query_eq (f : Nat) : is_query f = decide (f &&& 32768 = 0) := rfl

/-- the TTL field: the record's TTL when `now = 0`, else the remaining whole seconds (never negative) -/
theorem ttl_field_eq (created ttl now : Int) (h : 0 ≤ ttl) :
    ttl_field ttl now (Zc.Gen.Dns.get_remaining_ttl created ttl now) =
      if now = 0 then ttl else if created + 1000 * ttl - now < 0 then 0 else (created + 1000 * ttl - now) / 1000 := by
  unfold ttl_field Zc.Gen.Dns.get_remaining_ttl
  by_cases h0 : now = 0
  · simp [h0]
  · simp only [h0, decide_false, if_false]
    by_cases hn : created + 1000 * ttl - now < 0
    · simp [hn, Int.fdiv]
    · have : 0 ≤ (created + 1000 * ttl - now) * 1 := by omega
      rw [Int.fdiv_eq_ediv_of_nonneg _ (by simp)]
      simp [hn]

/-! NSEC bitmap leaves -/
theorem nsec_small_accepted (t : Nat) (h : t ≤ 255) : nsec_type_too_large t = false := by
  simp [nsec_type_too_large]; omega

theorem nsec_byte_eq (t : Nat) : nsec_byte t = t / 8 := rfl
theorem nsec_total_eq (b : Nat) : nsec_total_octets b = b + 1 := rfl

theorem nsec_mask_eq (t : Nat) : nsec_mask t = 2 ^ (7 - t % 8) := by
  unfold nsec_mask
  have key : ∀ r, r < 8 → 128 >>> r = 2 ^ (7 - r) := by decide
  exact key _ (Nat.mod_lt _ (by omega))

end Zc.GenFacts.Outgoing
