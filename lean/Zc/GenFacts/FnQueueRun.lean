import Zc.GenFacts.FnQueue
import Zc.Proofs.QueueRun
/-! # legal runs of the outgoing queue (`Run`, C12), stepped through the *generated* functions

`Zc.Reply.Run p q clock evs q' clock' outs` steps the model queue through `Queue.add` / `Queue.ready` / `Queue.removeRecords`
(`Queue.stepQ`) under the event-loop axioms (`QEv.enabled`).  Here the same events drive the translated
`MulticastOutgoingQueue.async_add` / `async_ready` / `async_remove_answers` (`runGenEv`): along every legal run the generated queue
never raises, stays the model's queue (`Rel`), and sends exactly the run's batches at the run's instants. -/
namespace Zc.GenFacts.FnQueueRun
open Zc Zc.Py Zc.Reply Zc.GenFn.Queue Zc.GenFacts.FnQueue Zc.GenFacts.FnDict

/-- the call a run event makes -/
def opOf : QEv → QOp
  | .add c now draw a => .add now a draw c
  | .fire now => .ready now
  | .remove _ rm => .withdraw rm

/-- the batches among the effects of a call made at loop time `t` -/
def sentOf (t : Int) (effs : List QEffect) : List (Int × Dict) :=
  effs.filterMap (fun e => match e with | .send b => some (t, b) | _ => none)

/-- the generated queue driven by the events of a run: per event one translated call; the batches it sends, with the event's time -/
def runGenEv : List QEv → MulticastOutgoingQueue → Except PyExc (MulticastOutgoingQueue × List (Int × Dict))
  | [], s => .ok (s, [])
  | e :: es, s =>
    match runGen [opOf e] s with
    | .error x => .error x
    | .ok (s1, effs) =>
      match runGenEv es s1 with
      | .error x => .error x
      | .ok (s2, outs) => .ok (s2, sentOf e.time effs ++ outs)

/-- the dicts handed to `async_add` are dicts -/
def evWF (e : QEv) : Prop := (opOf e).WF

theorem step_model (p : QP) (q : Queue) (e : QEv) :
    (runModel p [opOf e] q).1 = (q.stepQ p e).1 ∧ sentOf e.time (runModel p [opOf e] q).2 = (q.stepQ p e).2 := by
  cases e with
  | add c now draw a =>
    refine ⟨rfl, ?_⟩
    simp only [opOf, runModel, Queue.stepQ, List.append_nil]
    split
    · cases (Queue.add p q c now draw a).timer <;> rfl
    · rfl
  | fire now =>
    refine ⟨rfl, ?_⟩
    simp only [opOf, runModel, Queue.stepQ, List.append_nil, QEv.time, effOf]
    cases (Queue.ready q now).1.timer <;> cases (Queue.ready q now).2 <;> rfl
  | remove c rm => exact ⟨rfl, rfl⟩

/-- **Along every legal run the generated queue is the model's queue and sends the run's batches** -/
theorem run_source {p : QP} {q : Queue} {clock : Int} {evs : List QEv} {q' : Queue} {clock' : Int} {outs : List (Int × Dict)}
    (hrun : Run p q clock evs q' clock' outs) (hwf : ∀ e ∈ evs, evWF e) {s : MulticastOutgoingQueue} (h : Rel s q) (hp : qpOf s = p) :
    ∃ s', runGenEv evs s = .ok (s', outs) ∧ Rel s' q' ∧ qpOf s' = p := by
  induction hrun generalizing s with
  | nil q c => exact ⟨s, rfl, h, hp⟩
  | @cons q clock e es q' c' outs he hrest ih =>
    obtain ⟨s1, h1, hr1, hq1⟩ := run_eq [opOf e] (fun op hop => by
      simp only [List.mem_singleton] at hop
      subst hop
      exact hwf e List.mem_cons_self) h
    rw [hp] at h1 hr1
    obtain ⟨m1, m2⟩ := step_model p q e
    rw [m1] at hr1
    obtain ⟨s2, h2, hr2, hq2⟩ := ih (fun e' he' => hwf e' (List.mem_cons_of_mem _ he')) hr1 (hq1.trans hp)
    refine ⟨s2, ?_, hr2, hq2⟩
    simp only [runGenEv, h1, h2, m2]

/-! ### the dicts `handle_assembled_query` hands to the queues are dicts -/

theorem setAdd_nodup (l : List RecId) (k : RecId) (h : l.Nodup) : (setAdd l k).Nodup := by
  unfold setAdd
  split
  · exact h
  · next hc =>
    rw [List.nodup_append]
    refine ⟨h, List.pairwise_singleton _ k, ?_⟩
    intro a ha b hb
    simp only [List.mem_singleton] at hb
    subst hb
    intro hab
    subst hab
    exact hc (List.contains_iff_mem.2 ha)

theorem foldl_setAdd_nodup (ks l : List RecId) (h : l.Nodup) : (ks.foldl setAdd l).Nodup := by
  induction ks generalizing l with
  | nil => exact h
  | cons k t ih => exact ih _ (setAdd_nodup l k h)

structure SetsNodup (qr : QR) : Prop where
  u : qr.ucast.Nodup
  n : qr.mcastNow.Nodup
  a : qr.mcastAgg.Nodup
  l : qr.mcastLast.Nodup

theorem addQu_nodup (p : Bool) (seen : SeenMap) (now : Int) (answers : Dict) (qr : QR) (h : SetsNodup qr) :
    SetsNodup (qr.addQu p seen now answers) := by
  unfold QR.addQu
  induction answers generalizing qr with
  | nil => exact h
  | cons e t ih =>
    rw [List.foldl_cons]
    apply ih
    constructor
    · simp only; split <;> first | exact setAdd_nodup _ _ h.u | exact h.u
    · simp only; split <;> first | exact setAdd_nodup _ _ h.n | exact h.n
    · exact h.a
    · exact h.l

theorem addUcast_nodup (answers : Dict) (qr : QR) (h : SetsNodup qr) : SetsNodup (qr.addUcast answers) :=
  ⟨foldl_setAdd_nodup _ _ h.u, h.n, h.a, h.l⟩

theorem addMcast_nodup (p : Bool) (seen : SeenMap) (now : Int) (nq q0 : Nat) (answers : Dict) (qr : QR) (h : SetsNodup qr) :
    SetsNodup (qr.addMcast p seen now nq q0 answers) := by
  unfold QR.addMcast
  have h0 : SetsNodup { qr with additionals := qr.additionals.update answers } := ⟨h.u, h.n, h.a, h.l⟩
  generalize ({ qr with additionals := qr.additionals.update answers } : QR) = qr0 at h0
  induction answers generalizing qr0 with
  | nil => exact h0
  | cons e t ih =>
    rw [List.foldl_cons]
    apply ih
    split
    · exact ⟨h0.u, setAdd_nodup _ _ h0.n, h0.a, h0.l⟩
    · exact ⟨h0.u, h0.n, h0.a, setAdd_nodup _ _ h0.l⟩
    · exact ⟨h0.u, h0.n, setAdd_nodup _ _ h0.a, h0.l⟩

theorem route_nodup (us p : Bool) (seen : SeenMap) (now : Int) (nq q0 : Nat) (qr : QR) (qu : Bool) (answers : Dict) (h : SetsNodup qr) :
    SetsNodup (qr.route us p seen now nq q0 qu answers) := by
  unfold QR.route
  split
  · exact addQu_nodup _ _ _ _ _ h
  · cases us
    · exact addMcast_nodup _ _ _ _ _ _ _ h
    · exact addMcast_nodup _ _ _ _ _ _ _ (addUcast_nodup _ _ h)

theorem wf_of_nodup (l : List RecId) (f : RecId → List RecId) (h : l.Nodup) : PyDict.WF natEq (l.map (fun r => (r, f r))) := by
  unfold PyDict.WF
  rw [List.pairwise_map]
  exact h.imp (fun {a b} hab => by simpa [natEq] using hab)

/-- what `async_response` hands on are four dicts -/
theorem asyncResponse_wf {pkts : List Pkt} {us : Bool} {seen : SeenMap} {qa : QA} (h : asyncResponse pkts us seen = some qa) :
    PyDict.WF natEq qa.ucast ∧ PyDict.WF natEq qa.mcastNow ∧ PyDict.WF natEq qa.mcastAgg ∧ PyDict.WF natEq qa.mcastLast := by
  unfold asyncResponse at h
  simp only at h
  split at h
  · cases h
  · split at h
    · next first last _ _ =>
      simp only [Option.some.injEq] at h
      subst h
      have key : ∀ (items : List QItem) (qr : QR), SetsNodup qr →
          SetsNodup (items.foldl (fun (qr : QR) it => qr.route us (pkts.any (·.isProbe)) seen last.now first.nq first.q0type it.qu
            (answerSet ((pkts.filter (fun p => !p.isProbe)).flatMap (·.known)) it)) qr) := by
        intro items
        induction items with
        | nil => intro qr hq; exact hq
        | cons it t ih => intro qr hq; rw [List.foldl_cons]; exact ih _ (route_nodup _ _ _ _ _ _ _ _ _ hq)
      have hn := key (pkts.flatMap (·.items)) {} ⟨List.nodup_nil, List.nodup_nil, List.nodup_nil, List.nodup_nil⟩
      exact ⟨wf_of_nodup _ _ hn.u, wf_of_nodup _ _ hn.n, wf_of_nodup _ _ hn.a, wf_of_nodup _ _ hn.l⟩
    · cases h

end Zc.GenFacts.FnQueueRun
