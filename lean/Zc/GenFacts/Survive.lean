import Zc.Gen.Incoming
import Zc.Gen.Listener
import Zc.Gen.Reply
import Zc.Gen.Dns
/-! The facts the C15 proofs need about translated leaves (DESIGN §2.2).

`label_encodable` is the **D8 repair**: on a tree whose decoder does not test the re-encoded length
of a label the leaf `label_unencodable` is the constant `false`, this lemma fails, and
`Props/C15` does not build. -/
namespace Zc.GenFacts.Survive
open Zc.Gen

/-- **D8**: a label the decoder keeps is ASCII or re-encodes to at most 63 bytes of UTF-8 -/
theorem label_encodable (ascii : Bool) (n : Nat) (h : Incoming.label_unencodable ascii n = false) :
    ascii = true ∨ n ≤ 63 := by
  simp [Incoming.label_unencodable] at h
  cases ascii
  · right; simpa using h
  · left; rfl

/-- a length byte the decoder reads as a literal label is below 64 -/
theorem is_label_lt {n : Nat} (h : Incoming.is_label n = true) : n < 64 := by
  simpa [Incoming.is_label] using h

/-- the literal label is the slice `[off+1, off+1+n)` -/
theorem label_bounds (off n : Nat) : Incoming.label_end (Incoming.label_idx off) n - Incoming.label_idx off = n := by
  simp [Incoming.label_idx, Incoming.label_end]

/-- the listener's size guard is "longer than 8966 bytes" -/
theorem oversize_iff (n : Int) : Listener.oversize n = true ↔ n > 8966 := by
  simp [Listener.oversize]

/-- questions are echoed exactly for a unicast (legacy) source -/
theorem echo_iff (u : Bool) : Reply.ans_echo_questions u = u := rfl

/-- a query from the mDNS port is not a legacy query -/
theorem ucast_source_iff (p : Nat) : Listener.ucast_source p = true ↔ p ≠ 5353 := by
  simp [Listener.ucast_source]

/-- the 15-bit class of a decoded question -/
theorem class_of_lt (c : Nat) : Dns.class_of c < 32768 := by
  have : c &&& 32767 ≤ 32767 := Nat.and_le_right
  simp only [Dns.class_of]
  omega

end Zc.GenFacts.Survive
