import Zc.GenFn.Queue
import Zc.GenFacts.FnDict
/-! # `_handlers/multicast_outgoing_queue.py` as translated statement by statement  =  the `Reply` model's queue (C12)

`Zc.GenFn.Queue` is regenerated from the bodies of `MulticastOutgoingQueue.async_add`, `_remove_answers_from_queue` and
`async_ready` on every run; `random.randint`, `loop.time()`, `current_time_millis()` are parameters, `loop.call_at` and
`zc.async_send` are returned effects.  The hand model (`Zc.Reply.Queue`, `Model/Reply.lean`) keeps the groups with a ghost
field `born` and the one armed timer as `timer : Option Int`; the generated code keeps the deque of `AnswerGroup`s and returns
the `call_at` it performs.  `Rel s q`: the deque is the model's group list without the ghost field, the two delays are the
model's parameters, and every `answers` dict is a dict (`PyDict.WF`; true of every Python dict handed in). -/
namespace Zc.GenFacts.FnQueue
open Zc Zc.Py Zc.Reply Zc.GenFn.Queue Zc.GenFacts.FnDict

set_option linter.unusedSimpArgs false

/-- a model group without its ghost field -/
def strip (g : Group) : AnswerGroup := { send_after := g.sa, send_before := g.sb, answers := g.answers }

/-- the model's parameters of a generated queue -/
def qpOf (s : MulticastOutgoingQueue) : QP := { addl := s.additional_delay, agg := s.aggregation_delay }

/-- representation relation -/
structure Rel (s : MulticastOutgoingQueue) (q : Queue) : Prop where
  groups : s.queue = q.groups.map strip
  wf : ∀ g ∈ q.groups, PyDict.WF natEq g.answers

/-! ### `_remove_answers_from_queue` -/

/-- what the inner loop does to one group -/
def eraseAll (batch : Dict) (g : AnswerGroup) : AnswerGroup :=
  { g with answers := (PyDict.keys batch).foldl (fun a r => (PyDict.popD natEq a r).2) g.answers }

theorem remove_answers_closed (s : MulticastOutgoingQueue) (batch : Dict) :
    s.remove_answers_from_queue batch = { s with queue := s.queue.map (eraseAll batch) } := by
  unfold MulticastOutgoingQueue.remove_answers_from_queue
  simp only [Id.run, bind, pure]
  have inner : ∀ (g : AnswerGroup),
      (forIn (m := Id) (PyDict.keys batch) g fun record st =>
        ForInStep.yield { send_after := st.send_after, send_before := st.send_before,
                          answers := (PyDict.popD (fun a b => a == b) st.answers record).snd }) = eraseAll batch g := by
    intro g
    rw [forIn_id_yield _ _ _ (fun (st : AnswerGroup) r => { st with answers := (PyDict.popD natEq st.answers r).2 }) (by intro x b; rfl)]
    unfold eraseAll
    generalize PyDict.keys batch = ks
    induction ks generalizing g with
    | nil => rfl
    | cons k r ih => rw [List.foldl_cons, ih]; rfl
  simp only [inner]
  rw [forIn_id_yield _ _ _ (fun acc p => acc ++ [eraseAll batch p]) (by intro x b; rfl), foldl_append_map]
  rfl

/-- on a well-formed dict the inner loop is the model's `batch.keys.foldl Dict.erase` -/
theorem eraseAll_eq (batch : Dict) (g : Group) (h : PyDict.WF natEq g.answers) :
    eraseAll batch (strip g) = strip { g with answers := batch.keys.foldl Dict.erase g.answers }
    ∧ PyDict.WF natEq (batch.keys.foldl Dict.erase g.answers) := by
  unfold eraseAll strip
  simp only [PyDict.popD, PyDict.keys, Dict.keys]
  generalize List.map (fun x => x.1) batch = ks
  obtain ⟨sa, sb, a, born⟩ := g
  simp only at h ⊢
  induction ks generalizing a with
  | nil => exact ⟨rfl, h⟩
  | cons k r ih =>
    rw [List.foldl_cons, List.foldl_cons, dict_erase_eq a k h]
    exact ih _ (PyDict.WF_erase h k)

/-- **`_remove_answers_from_queue`** is the model's `removeAnswers` -/
theorem remove_answers_eq {s : MulticastOutgoingQueue} {q : Queue} (h : Rel s q) (batch : Dict) :
    Rel (s.remove_answers_from_queue batch) { q with groups := removeAnswers q.groups batch }
    ∧ qpOf (s.remove_answers_from_queue batch) = qpOf s := by
  rw [remove_answers_closed]
  refine ⟨⟨?_, ?_⟩, rfl⟩
  · simp only [h.groups, removeAnswers, List.map_map]
    apply List.map_congr_left
    intro g hg
    exact (eraseAll_eq batch g (h.wf g hg)).1
  · intro g hg
    simp only [removeAnswers, List.mem_map] at hg
    obtain ⟨g0, hg0, rfl⟩ := hg
    exact (eraseAll_eq batch g0 (h.wf g0 hg0)).2

/-! ### `async_remove_answers` -/

/-- the dict comprehension on one group -/
def withdrawItem (remove : List RecId) (p : Nat × PySet Nat) : Option (Nat × PySet Nat) :=
  if (!(PySet.contains natEq (PySet.ofList natEq remove) p.fst)) then
    some (p.fst, PySet.diff natEq p.snd (PySet.ofList natEq remove))
  else none

def withdrawGen (remove : List RecId) (g : AnswerGroup) : AnswerGroup :=
  { send_after := g.send_after, send_before := g.send_before,
    answers := List.filterMap (withdrawItem remove) (PyDict.items g.answers) }

theorem async_remove_answers_closed (s : MulticastOutgoingQueue) (records : List RecId) :
    s.async_remove_answers records = { s with queue := s.queue.map (withdrawGen records) } := by
  unfold MulticastOutgoingQueue.async_remove_answers
  simp only [Id.run, bind, pure]
  rw [forIn_id_yield _ _ _ (fun acc p => acc ++ [withdrawGen records p]) (by intro x b; rfl), foldl_append_map]
  rfl

theorem contains_ofList_nat (l : List RecId) (x : RecId) : PySet.contains natEq (PySet.ofList natEq l) x = l.contains x := by
  rw [PySet.contains_ofList natEq_keyEq]
  induction l with
  | nil => rfl
  | cons y r ih =>
    simp only [List.any_cons, List.contains_cons, ih, natEq]
    cases hxy : (x == y) <;> cases hyx : (y == x) <;> simp_all

/-- the comprehension is the model's `Dict.withdraw` -/
theorem withdrawItem_eq (remove : List RecId) (e : RecId × List RecId) :
    withdrawItem remove e = if remove.contains e.1 then none else some (e.1, e.2.filter (fun a => !remove.contains a)) := by
  unfold withdrawItem
  simp only [contains_ofList_nat, PySet.diff]
  cases remove.contains e.1 <;> rfl

theorem withdrawGen_eq (remove : List RecId) (g : Group) :
    withdrawGen remove (strip g) = strip { g with answers := g.answers.withdraw remove } := by
  unfold withdrawGen strip Dict.withdraw
  simp only [PyDict.items, Gen.Reply.q_remove_keep]
  congr 1
  induction g.answers with
  | nil => rfl
  | cons e r ih =>
    rw [List.filterMap_cons, List.filter_cons, withdrawItem_eq]
    cases h : remove.contains e.1
    · simp only [Bool.false_eq_true, if_false, Bool.not_false, if_true, List.map_cons, ih]
    · simp only [if_true, Bool.not_true, Bool.false_eq_true, if_false, ih]

theorem withdraw_wf (remove : List RecId) (d : Dict) (h : PyDict.WF natEq d) : PyDict.WF natEq (d.withdraw remove) := by
  unfold Dict.withdraw PyDict.WF
  rw [List.pairwise_map]
  exact List.Pairwise.sublist List.filter_sublist h

/-- **`async_remove_answers`** is the model's `Queue.removeRecords` -/
theorem async_remove_answers_eq {s : MulticastOutgoingQueue} {q : Queue} (h : Rel s q) (records : List RecId) :
    Rel (s.async_remove_answers records) (q.removeRecords records) ∧ qpOf (s.async_remove_answers records) = qpOf s := by
  rw [async_remove_answers_closed]
  refine ⟨⟨?_, ?_⟩, rfl⟩
  · simp only [h.groups, Queue.removeRecords, List.map_map]
    apply List.map_congr_left
    intro g _
    exact withdrawGen_eq records g
  · intro g hg
    simp only [Queue.removeRecords, List.mem_map] at hg
    obtain ⟨g0, hg0, rfl⟩ := hg
    exact withdraw_wf records g0.answers (h.wf g0 hg0)

/-! ### `async_add` -/

theorem last_map_strip (gs : List Group) : PyList.last (gs.map strip) = match gs.getLast? with | some g => .ok (strip g) | none => .error .indexError := by
  unfold PyList.last
  rw [List.getLast?_map]
  cases gs.getLast? <;> rfl

/-- closed form of the generated `async_add` on a queue that represents the model queue `q` -/
theorem async_add_closed (s : MulticastOutgoingQueue) (now : Int) (answers : Dict) (rand : Int → Int → Int) (clock : Int) :
    MulticastOutgoingQueue.async_add s now answers rand clock =
      (let rd := rand s.multicast_delay_random_min s.multicast_delay_random_max + s.additional_delay
       let sa := now + rd
       let sb := now + s.aggregation_delay + s.additional_delay
       match s.queue.getLast? with
       | none => .ok ({ s with queue := s.queue ++ [⟨sa, sb, answers⟩] }, [QEffect.callAt (clock + rd)])
       | some last =>
         if sa ≤ last.send_after then
           .ok ({ s with queue := PyList.setLast s.queue { last with answers := PyDict.update natEq last.answers answers } }, [])
         else .ok ({ s with queue := s.queue ++ [⟨sa, sb, answers⟩] }, [])) := by
  unfold MulticastOutgoingQueue.async_add
  dsimp only
  cases hq : s.queue.getLast? with
  | none =>
    have h0 : s.queue = [] := List.getLast?_eq_none_iff.1 hq
    simp [h0, AnswerGroup.init, pure, Except.pure]
  | some last =>
    have hne : s.queue.length ≠ 0 := by
      intro h0
      have : s.queue = [] := List.length_eq_zero_iff.1 h0
      rw [this] at hq; cases hq
    have hemp : List.isEmpty s.queue = false := by cases hs : s.queue <;> simp_all
    -- `if len(self.queue):` and `if self.queue:` prove alike
    simp only [hne, hemp, Bool.not_false, ne_eq, not_false_eq_true, decide_true, if_true, PyList.last, hq, bind, Except.bind, AnswerGroup.init,
      pure, Except.pure, decide_eq_true_eq]

/-- **`async_add`** is the model's `Queue.add`: same groups, and it arms a timer (returns a `call_at`) exactly when the model does,
for the same instant.  `rand` is `random.randint`, `clock` the loop time in ms. -/
theorem async_add_eq {s : MulticastOutgoingQueue} {q : Queue} (h : Rel s q) (now : Int) (answers : Dict)
    (hans : PyDict.WF natEq answers) (rand : Int → Int → Int) (clock : Int) :
    ∃ s' eff, MulticastOutgoingQueue.async_add s now answers rand clock = .ok (s', eff)
      ∧ Rel s' (Queue.add (qpOf s) q clock now (rand s.multicast_delay_random_min s.multicast_delay_random_max) answers)
      ∧ qpOf s' = qpOf s
      ∧ s'.multicast_delay_random_min = s.multicast_delay_random_min ∧ s'.multicast_delay_random_max = s.multicast_delay_random_max
      ∧ eff = (if q.groups.isEmpty then
                [QEffect.callAt (clock + (rand s.multicast_delay_random_min s.multicast_delay_random_max + s.additional_delay))] else [])
      ∧ (Queue.add (qpOf s) q clock now (rand s.multicast_delay_random_min s.multicast_delay_random_max) answers).timer =
          (if q.groups.isEmpty then
            some (clock + (rand s.multicast_delay_random_min s.multicast_delay_random_max + s.additional_delay)) else q.timer) := by
  rw [async_add_closed]
  simp only [h.groups, List.getLast?_map]
  unfold Queue.add
  simp only [Gen.Reply.q_random_delay, Gen.Reply.q_send_after, Gen.Reply.q_send_before, Gen.Reply.q_add_nonempty, Gen.Reply.q_add_merge,
    Gen.Reply.q_add_timer_delay, qpOf]
  cases hl : q.groups.getLast? with
  | none =>
    have h0 : q.groups = [] := List.getLast?_eq_none_iff.1 hl
    refine ⟨_, _, rfl, ?_⟩
    simp only [h0, List.length_nil, Int.natCast_zero, ne_eq, not_true_eq_false, decide_false, Bool.false_eq_true, if_false, List.isEmpty_nil,
      if_true, List.map_nil, List.nil_append, and_self, and_true]
    exact ⟨rfl, fun g hg => by simp only [List.mem_singleton] at hg; rw [hg]; exact hans⟩
  | some last =>
    have hne : q.groups ≠ [] := by intro h0; rw [h0] at hl; cases hl
    have hlen : ((q.groups.length : Int) ≠ 0) := by
      intro h0
      exact hne (List.length_eq_zero_iff.1 (by omega))
    have hmem : last ∈ q.groups := List.mem_of_getLast? hl
    have hemp : q.groups.isEmpty = false := by cases hg : q.groups <;> simp_all
    simp only [Option.map_some, hlen, ne_eq, not_false_eq_true, decide_true, if_true, hemp, Bool.false_eq_true, if_false]
    by_cases hm : now + (rand s.multicast_delay_random_min s.multicast_delay_random_max + s.additional_delay) ≤ last.sa
    · have hm' : now + (rand s.multicast_delay_random_min s.multicast_delay_random_max + s.additional_delay) ≤ (strip last).send_after := hm
      simp only [hm, hm', if_true, decide_true]
      refine ⟨_, _, rfl, ⟨?_, ?_⟩, ?rest⟩
      case rest => simp
      · have hnm : q.groups.map strip ≠ [] := by simpa using hne
        have hu := (dict_update_eq last.answers answers (h.wf last hmem)).1
        cases hg : q.groups.map strip with
        | nil => exact absurd hg hnm
        | cons x r =>
          simp only [PyList.setLast, ← hg, List.map_append, List.map_dropLast, List.map_cons, List.map_nil, strip, hu]
      · intro g hg
        rcases List.mem_append.1 hg with hg | hg
        · exact h.wf g ((List.dropLast_sublist _).subset hg)
        · simp only [List.mem_singleton] at hg
          rw [hg]
          rw [(dict_update_eq last.answers answers (h.wf last hmem)).1]
          exact (dict_update_eq last.answers answers (h.wf last hmem)).2
    · have hm' : ¬ now + (rand s.multicast_delay_random_min s.multicast_delay_random_max + s.additional_delay) ≤ (strip last).send_after := hm
      simp only [hm, hm', if_false, decide_false, Bool.false_eq_true]
      refine ⟨_, _, rfl, ⟨?_, ?_⟩, ?rest⟩
      case rest => simp
      · simp only [List.map_append, List.map_cons, List.map_nil, strip]
      · intro g hg
        rcases List.mem_append.1 hg with hg | hg
        · exact h.wf g hg
        · simp only [List.mem_singleton] at hg; rw [hg]; exact hans

/-! ### `async_ready` -/

/-- `len(self.queue) and self.queue[0].send_after <= now` -/
def headReady (now : Int) : List AnswerGroup → Bool
  | [] => false
  | g :: _ => decide (g.send_after ≤ now)

/-- the test of the `while` loop never raises: `queue[0]` is only read on a non-empty queue -/
theorem headReady_closed (now : Int) (qu : List AnswerGroup) :
    (if (!decide (qu.length ≠ 0)) = true then pure false
      else do
        let x ← PyList.first qu
        pure (decide (x.send_after ≤ now)) : Except PyExc Bool) = .ok (headReady now qu) := by
  cases qu with
  | nil => rfl
  | cons g gs => simp [headReady, PyList.first, bind, Except.bind, pure, Except.pure]

/-- one round of the `while` loop on the loop state (self, answers, "left by break") -/
def popStep (st : MulticastOutgoingQueue × Dict × Bool) : MulticastOutgoingQueue × Dict × Bool :=
  match st.1.queue with
  | [] => st
  | g :: gs => ({ st.1 with queue := gs }, PyDict.update natEq st.2.1 g.answers, st.2.2)

/-- leaving the loop because its test fails -/
def popFin (st : MulticastOutgoingQueue × Dict × Bool) : MulticastOutgoingQueue × Dict × Bool := (st.1, st.2.1, true)

/-- the whole loop, on the deque -/
def popGen (now : Int) : List AnswerGroup → Dict → List AnswerGroup × Dict
  | [], acc => ([], acc)
  | g :: gs, acc => if g.send_after ≤ now then popGen now gs (PyDict.update natEq acc g.answers) else (g :: gs, acc)

theorem iterWhile_pop (now : Int) (n : Nat) (s : MulticastOutgoingQueue) (acc : Dict) (fl : Bool) (hn : s.queue.length < n) :
    iterWhileF (fun st => headReady now st.1.queue) popStep popFin n (s, acc, fl) =
      ({ s with queue := (popGen now s.queue acc).1 }, (popGen now s.queue acc).2, true) := by
  induction n generalizing s acc with
  | zero => omega
  | succ n ih =>
    rw [iterWhileF]
    obtain ⟨zc, qu, mn, mx, ad, ag⟩ := s
    cases qu with
    | nil => rfl
    | cons g gs =>
      by_cases hg : g.send_after ≤ now
      · have hc : (fun st : MulticastOutgoingQueue × Dict × Bool => headReady now st.1.queue) (⟨zc, g :: gs, mn, mx, ad, ag⟩, acc, fl) = true := by
          simp [headReady, hg]
        rw [if_pos hc]
        have := ih ⟨zc, gs, mn, mx, ad, ag⟩ (PyDict.update natEq acc g.answers) (by simpa using Nat.lt_of_succ_lt_succ hn)
        simp only [popStep, popGen, hg, if_true]
        exact this
      · have hc : ¬ (fun st : MulticastOutgoingQueue × Dict × Bool => headReady now st.1.queue) (⟨zc, g :: gs, mn, mx, ad, ag⟩, acc, fl) = true := by
          simp [headReady, hg]
        rw [if_neg hc]
        simp only [popGen, hg, if_false, popFin]

theorem headReady_popGen (now : Int) (qu : List AnswerGroup) (acc : Dict) : headReady now (popGen now qu acc).1 = false := by
  induction qu generalizing acc with
  | nil => rfl
  | cons g gs ih =>
    rw [popGen]
    by_cases hg : g.send_after ≤ now
    · simp only [hg, if_true]; exact ih _
    · simp [hg, headReady]

/-- closed form of the generated `async_ready` -/
theorem async_ready_closed (s : MulticastOutgoingQueue) (now clock : Int) :
    MulticastOutgoingQueue.async_ready s now clock =
      match s.queue with
      | [] => .ok (s, [])
      | g :: gs =>
        if gs.length + 1 > 1 ∧ g.send_before > now then .ok (s, [QEffect.callAt (clock + (g.send_before - now))])
        else
          let rest := (popGen now (g :: gs) []).1
          let batch := (popGen now (g :: gs) []).2
          .ok (if PyDict.isEmpty batch then { s with queue := rest } else ({ s with queue := rest } : MulticastOutgoingQueue).remove_answers_from_queue batch,
               (match rest with | [] => [] | h :: _ => [QEffect.callAt (clock + (h.send_after - now))]) ++
                 (if PyDict.isEmpty batch then [] else [QEffect.send batch])) := by
  unfold MulticastOutgoingQueue.async_ready
  dsimp only
  simp only [headReady_closed]
  rw [forIn_except_whileF _ _ _ (fun st => headReady now st.1.queue) popStep popFin ?hf]
  case hf =>
    intro x st
    simp only [bind, Except.bind, pure, Except.pure]
    cases hq : st.1.queue with
    | nil => simp [headReady, hq, popFin]
    | cons g gs =>
      by_cases hg : g.send_after ≤ now
      · simp [headReady, hq, hg, PyList.popleft, popStep]
      · simp [headReady, hq, hg, popFin]
  simp only [List.length_range]
  rw [iterWhile_pop now _ s PyDict.empty false (Nat.lt_succ_self _)]
  simp only [bind, Except.bind, pure, Except.pure, Bool.not_true, pyFuel_false, PyDict.empty]
  obtain ⟨zc, qu, mn, mx, ad, ag⟩ := s
  cases qu with
  | nil => simp [popGen, PyDict.isEmpty]
  | cons g gs =>
    obtain ⟨rest, batch, hpg⟩ : ∃ r b, popGen now (g :: gs) [] = (r, b) := ⟨_, _, rfl⟩
    simp only [hpg]
    by_cases hw : gs.length + 1 > 1 ∧ g.send_before > now
    · have h1 : (g :: gs).length > 1 := by simpa using hw.1
      simp [hw, h1, PyList.first]
    · have hw' : ¬ ((g :: gs).length > 1 ∧ g.send_before > now) := by simpa using hw
      simp only [hw, if_false]
      by_cases h1 : (g :: gs).length > 1
      · have h2 : ¬ g.send_before > now := fun h => hw' ⟨h1, h⟩
        simp only [h1, decide_true, Bool.not_true, Bool.false_eq_true, if_false, PyList.first, h2, decide_false]
        cases rest <;> cases hb : PyDict.isEmpty batch <;> simp [hb, PyList.first]
      · have h1' : decide ((g :: gs).length > 1) = false := by simpa using h1
        simp only [h1', Bool.not_false, if_true, Bool.false_eq_true, if_false]
        cases rest <;> cases hb : PyDict.isEmpty batch <;> simp [hb, PyList.first]

/-- the `while` loop is the model's `popReady` -/
theorem popGen_eq (now : Int) (gs : List Group) (acc : Dict) (hacc : PyDict.WF natEq acc) :
    popGen now (gs.map strip) acc = ((popReady now gs acc).1.map strip, (popReady now gs acc).2)
    ∧ PyDict.WF natEq (popReady now gs acc).2 ∧ (∀ g ∈ (popReady now gs acc).1, g ∈ gs) := by
  induction gs generalizing acc with
  | nil => exact ⟨rfl, hacc, fun g hg => hg⟩
  | cons g r ih =>
    simp only [List.map_cons, popGen, popReady, Gen.Reply.q_ready_pop]
    have hlen : ((r.length + 1 : Nat) : Int) ≠ 0 := by omega
    by_cases hg : g.sa ≤ now
    · have hg' : (strip g).send_after ≤ now := hg
      have hu := dict_update_eq acc g.answers hacc
      simp only [hg, hg', if_true, hlen, ne_eq, not_false_eq_true, decide_true, Bool.and_self]
      have hs : (strip g).answers = g.answers := rfl
      rw [hs, ← hu.1]
      have := ih (acc.update g.answers) (hu.1 ▸ hu.2)
      exact ⟨this.1, this.2.1, fun x hx => List.mem_cons_of_mem _ (this.2.2 x hx)⟩
    · have hg' : ¬ (strip g).send_after ≤ now := hg
      simp only [hg, hg', if_false, decide_false, Bool.and_false, Bool.false_eq_true]
      exact ⟨rfl, hacc, fun x hx => hx⟩

/-- what the model's new timer and batch are as effects: `call_at` first, then the transmission -/
def effOf (timer : Option Int) (batch : Option Dict) : List QEffect :=
  (timer.map QEffect.callAt).toList ++ (batch.map QEffect.send).toList

/-- **`async_ready`** is the model's `Queue.ready` (clock reading and loop time are the same instant `now`, as in the model):
same groups afterwards, the `call_at` it performs is the model's new timer, what it sends is the model's batch -/
theorem async_ready_eq {s : MulticastOutgoingQueue} {q : Queue} (h : Rel s q) (now : Int) :
    ∃ s' eff, MulticastOutgoingQueue.async_ready s now now = .ok (s', eff)
      ∧ Rel s' (Queue.ready q now).1 ∧ qpOf s' = qpOf s
      ∧ eff = effOf (Queue.ready q now).1.timer (Queue.ready q now).2 := by
  rw [async_ready_closed]
  unfold Queue.ready
  obtain ⟨zc, qu, mn, mx, ad, ag⟩ := s
  obtain ⟨groups, timer⟩ := q
  have hgr : qu = groups.map strip := h.groups
  subst hgr
  cases groups with
  | nil => exact ⟨_, _, rfl, ⟨rfl, fun g hg => by cases hg⟩, rfl, rfl⟩
  | cons g gs =>
    simp only [List.map_cons, List.length_map, Gen.Reply.q_ready_wait, Gen.Reply.q_ready_wait_delay, Gen.Reply.q_ready_rearm_delay,
      Int.natCast_add, Int.natCast_one]
    by_cases hw : gs.length + 1 > 1 ∧ (strip g).send_before > now
    · have hw2 : (decide ((gs.length : Int) + 1 > 1) && decide (g.sb > now)) = true := by
        have h1 : (gs.length : Int) + 1 > 1 := by omega
        have h2 : g.sb > now := hw.2
        simp only [h1, h2, decide_true, Bool.and_self]
      simp only [hw, and_self, if_true, hw2]
      exact ⟨_, _, rfl, ⟨rfl, h.wf⟩, rfl, rfl⟩
    · have hw2 : (decide ((gs.length : Int) + 1 > 1) && decide (g.sb > now)) = false := by
        cases hb : (decide ((gs.length : Int) + 1 > 1) && decide (g.sb > now))
        · rfl
        · exfalso
          simp only [Bool.and_eq_true, decide_eq_true_eq] at hb
          exact hw ⟨by omega, hb.2⟩
      simp only [hw, if_false, hw2, Bool.false_eq_true]
      have hp := popGen_eq now (g :: gs) [] PyDict.WF_nil
      simp only [List.map_cons] at hp
      rw [hp.1]
      obtain ⟨rest, batch, hpr⟩ : ∃ r b, popReady now (g :: gs) [] = (r, b) := ⟨_, _, rfl⟩
      rw [hpr] at hp ⊢
      simp only at hp ⊢
      have hrel : Rel (⟨zc, rest.map strip, mn, mx, ad, ag⟩ : MulticastOutgoingQueue) { groups := rest, timer := timer } :=
        ⟨rfl, fun x hx => h.wf x (hp.2.2 x hx)⟩
      cases hb : PyDict.isEmpty batch with
      | true =>
        have hb' : batch.isEmpty = true := hb
        simp only [hb', if_true]
        refine ⟨_, _, rfl, ⟨rfl, hrel.wf⟩, rfl, ?_⟩
        cases rest <;> rfl
      | false =>
        have hb' : batch.isEmpty = false := hb
        simp only [hb', Bool.false_eq_true, if_false]
        have hr := remove_answers_eq hrel batch
        refine ⟨_, _, rfl, ⟨hr.1.groups, hr.1.wf⟩, hr.2, ?_⟩
        cases rest <;> rfl

/-! ### along histories of queue calls -/

/-- a call on the queue, with what the environment supplies: the `randint` draw and the loop time for `async_add`; the clock
reading (= loop time, as in the model) for `async_ready` -/
inductive QOp where
  | add (now : Int) (answers : Dict) (draw clock : Int)
  | ready (now : Int)
  | remove (batch : Dict)
  /-- `async_remove_answers(records)` -/
  | withdraw (records : List RecId)

/-- the dicts handed in are dicts -/
def QOp.WF : QOp → Prop
  | .add _ answers _ _ => PyDict.WF natEq answers
  | _ => True

/-- the generated code, call after call, with all effects in order -/
def runGen : List QOp → MulticastOutgoingQueue → Except PyExc (MulticastOutgoingQueue × List QEffect)
  | [], s => .ok (s, [])
  | .add now answers draw clock :: ops, s =>
    (MulticastOutgoingQueue.async_add s now answers (fun _ _ => draw) clock).bind (fun p => (runGen ops p.1).map (fun r => (r.1, p.2 ++ r.2)))
  | .ready now :: ops, s =>
    (MulticastOutgoingQueue.async_ready s now now).bind (fun p => (runGen ops p.1).map (fun r => (r.1, p.2 ++ r.2)))
  | .remove batch :: ops, s => runGen ops (s.remove_answers_from_queue batch)
  | .withdraw records :: ops, s => runGen ops (s.async_remove_answers records)

/-- the hand model, call after call: the queue, and per call the timer it armed and the batch it sent -/
def runModel (p : QP) : List QOp → Queue → Queue × List QEffect
  | [], q => (q, [])
  | .add now answers draw clock :: ops, q =>
    let q' := Queue.add p q clock now draw answers
    ((runModel p ops q').1, (if q.groups.isEmpty then effOf q'.timer none else []) ++ (runModel p ops q').2)
  | .ready now :: ops, q =>
    ((runModel p ops (Queue.ready q now).1).1, effOf (Queue.ready q now).1.timer (Queue.ready q now).2 ++ (runModel p ops (Queue.ready q now).1).2)
  | .remove batch :: ops, q => runModel p ops { q with groups := removeAnswers q.groups batch }
  | .withdraw records :: ops, q => runModel p ops (q.removeRecords records)

/-- **every history of calls**: the generated queue never raises (no `IndexError` from `queue[0]` / `queue[-1]` / `popleft`, the
`while` bound suffices), stays the model's queue, and arms exactly the model's timers and sends exactly the model's batches -/
theorem run_eq (ops : List QOp) (hops : ∀ op ∈ ops, op.WF) {s : MulticastOutgoingQueue} {q : Queue} (h : Rel s q) :
    ∃ s', runGen ops s = .ok (s', (runModel (qpOf s) ops q).2) ∧ Rel s' (runModel (qpOf s) ops q).1 ∧ qpOf s' = qpOf s := by
  induction ops generalizing s q with
  | nil => exact ⟨s, rfl, h, rfl⟩
  | cons op ops ih =>
    have hrest : ∀ op ∈ ops, op.WF := fun o ho => hops o (List.mem_cons_of_mem _ ho)
    cases op with
    | add now answers draw clock =>
      have hw : PyDict.WF natEq answers := hops _ List.mem_cons_self
      obtain ⟨s1, eff, h1, hr, hq, _, _, he, ht⟩ := async_add_eq h now answers hw (fun _ _ => draw) clock
      obtain ⟨s2, h2, hr2, hq2⟩ := ih hrest hr
      refine ⟨s2, ?_, ?_, hq2.trans hq⟩
      · simp only [runGen, h1, Except.bind, runModel]
        rw [hq] at h2
        rw [h2]
        simp only [Except.map, he, ht]
        cases q.groups.isEmpty <;> simp [effOf]
      · simp only [runModel]; rw [hq] at hr2; exact hr2
    | ready now =>
      obtain ⟨s1, eff, h1, hr, hq, he⟩ := async_ready_eq h now
      obtain ⟨s2, h2, hr2, hq2⟩ := ih hrest hr
      refine ⟨s2, ?_, ?_, hq2.trans hq⟩
      · simp only [runGen, h1, Except.bind, runModel]
        rw [hq] at h2
        rw [h2]
        simp only [Except.map, he]
      · simp only [runModel]; rw [hq] at hr2; exact hr2
    | remove batch =>
      have hr := remove_answers_eq h batch
      obtain ⟨s2, h2, hr2, hq2⟩ := ih hrest hr.1
      refine ⟨s2, ?_, ?_, hq2.trans hr.2⟩
      · simp only [runGen, runModel]; rw [hr.2] at h2; exact h2
      · simp only [runModel]; rw [hr.2] at hr2; exact hr2
    | withdraw records =>
      have hr := async_remove_answers_eq h records
      obtain ⟨s2, h2, hr2, hq2⟩ := ih hrest hr.1
      refine ⟨s2, ?_, ?_, hq2.trans hr.2⟩
      · simp only [runGen, runModel]; rw [hr.2] at h2; exact h2
      · simp only [runModel]; rw [hr.2] at hr2; exact hr2

end Zc.GenFacts.FnQueue
