import Zc.GenFn.Sched
import Zc.Model.Sched2
/-! # `_services/browser.py`: `_ScheduledPTRQuery` and `QueryScheduler` as translated statement by statement  =  `Model/Sched2.lean` (C10)

`Zc.GenFn.Sched` is regenerated from the method bodies on every run.  `_ScheduledPTRQuery` objects have identity (the same
object sits in the heap and in the per-alias dict and is cancelled / re-lived through the dict): they live in the scheduler's
`PyStore`, heap and dict hold ids — the representation `Sched2` uses (`Obj.id`).  `random.randint`, `current_time_millis()`,
`zc.done` are parameters; `loop.call_later` / `loop.call_at` / `TimerHandle.cancel()` / `async_send_ready_queries` are returned
effects.  The model's `armed : Option (Timer × Int)` is what the returned timer effects leave armed (`armedAfter`), its `Send`s are
the returned `send` effects (`sendsOf`).

`Rel c s m`: the generated scheduler `s` represents the model state `m` under the configuration `c`. -/
namespace Zc.GenFacts.FnSched
open Zc Zc.Py Zc.Sched Zc.Sched2 Zc.GenFn.Sched

set_option linter.unusedSimpArgs false

/-! ### `_ScheduledPTRQuery` comparisons: ordered by `when_millis` alone -/

theorem lt_eq (a b : ScheduledPTRQuery) : a.lt b = decide (a.when_millis < b.when_millis) := rfl
theorem eq_eq (a b : ScheduledPTRQuery) : a.eq b = decide (a.when_millis = b.when_millis) := rfl
theorem gt_eq (a b : ScheduledPTRQuery) : a.gt b = decide (a.when_millis > b.when_millis) := rfl
theorem le_eq (a b : ScheduledPTRQuery) : a.le b = decide (a.when_millis ≤ b.when_millis) := by
  simp only [ScheduledPTRQuery.le, ScheduledPTRQuery.eq, Id.run, pure]
  by_cases h1 : a.when_millis < b.when_millis <;> by_cases h2 : a.when_millis = b.when_millis <;> simp [h1, h2] <;> omega
theorem ge_eq (a b : ScheduledPTRQuery) : a.ge b = decide (a.when_millis ≥ b.when_millis) := by
  simp only [ScheduledPTRQuery.ge, ScheduledPTRQuery.eq, Id.run, pure]
  by_cases h1 : a.when_millis > b.when_millis <;> by_cases h2 : a.when_millis = b.when_millis <;> simp [h1, h2] <;> omega

/-! ### the representation -/

/-- the model's view of a stored object -/
def toQ (o : ScheduledPTRQuery) : Q :=
  { alias := o.alias, name := o.name, ttl := o.ttl, cancelled := o.cancelled, expire := o.expire_time_millis, when := o.when_millis }

/-- the model object behind an id -/
def objOf (st : PyStore ScheduledPTRQuery) (i : Nat) : Obj := ⟨i, toQ (PyStore.getD st i default)⟩

structure Rel (c : Cfg) (s : QueryScheduler) (m : S2) : Prop where
  sent : m.startupSent = s.startup_queries_sent
  heap : m.heap = s.query_heap.map (objOf s.store)
  dict : ∀ a, PyDict.get? strEq s.next_scheduled_for_alias a = dget a m.dict
  nextId : m.nextId = s.store.next
  started : m.started = s.next_run.isSome
  nextRun : m.nextRunMs = s.next_run_millis
  earliest : m.earliest = s.earliest_next_run_millis
  minDelay : (c.minDelay : Int) = s.min_time_between_queries_millis
  types : c.types = s.types
  interval : ((c.lo : Int), (c.hi : Int)) = s.first_random_delay_interval
  resolution : s.clock_resolution_millis = 0

/-- what the timer effects of one call leave armed: `call_later` / `call_at` arm (replacing what was armed), `cancel` disarms -/
def armedAfter (now : Int) (prev : Option (Timer × Int)) (effs : List SEffect) : Option (Timer × Int) :=
  effs.foldl (fun a e => match e with
    | .callLater d cb => some ((match cb with | .startup => Timer.startup | .ready => Timer.ready), now + d)
    | .callAt w cb => some ((match cb with | .startup => Timer.startup | .ready => Timer.ready), w)
    | .cancel => none
    | _ => a) prev

/-- the `async_send_ready_queries` calls as the model's `Send`s -/
def sendsOf (c : Cfg) (effs : List SEffect) : List Send :=
  effs.filterMap (fun e => match e with
    | .send first now types => some { t := now, first := first, qtype := sendQtype c first, types := types }
    | _ => none)

/-! ### `start`, `stop`, `_arm_ready_types`, `_rearm_if_earlier` -/

/-- **`start`** is the model's `.start d` block (`d` the `randint` draw): a `call_later(d ms)` of the start-up callback -/
theorem start_eq {c : Cfg} {s : QueryScheduler} {m : S2} (h : Rel c s m) (rand : Int → Int → Int) (now : Int) :
    Rel c (s.start () rand).1 { m with started := true, armed := some (.startup, now + rand c.lo c.hi) }
    ∧ armedAfter now m.armed (s.start () rand).2 = some (.startup, now + rand c.lo c.hi)
    ∧ (s.start () rand).1.loop.isSome := by
  have hi := h.interval
  simp only [QueryScheduler.start, Id.run, pure, bind]
  refine ⟨⟨h.sent, h.heap, h.dict, h.nextId, rfl, h.nextRun, h.earliest, h.minDelay, h.types, h.interval, h.resolution⟩, ?_, rfl⟩
  simp only [armedAfter, List.nil_append, List.foldl_cons, List.foldl_nil, ← hi]

/-- closed form of `_arm_ready_types` once the scheduler was started (`self._loop` is set) -/
theorem arm_ready_types_closed (s : QueryScheduler) (w : Int) (hl : s.loop.isSome) :
    s.arm_ready_types w = .ok ({ s with next_run_millis := w, next_run := some () }, [SEffect.callAt w Cb.ready]) := by
  unfold QueryScheduler.arm_ready_types
  cases hs : s.loop with
  | none => rw [hs] at hl; cases hl
  | some u => simp [pyUnwrap, hs, bind, Except.bind, pure, Except.pure]

theorem rel_arm {c : Cfg} {s : QueryScheduler} {m : S2} (h : Rel c s m) (w : Int) :
    Rel c { s with next_run_millis := w, next_run := some () } (armReady2 m w) :=
  ⟨h.sent, h.heap, h.dict, h.nextId, rfl, rfl, h.earliest, h.minDelay, h.types, h.interval, h.resolution⟩

/-- closed form of `_rearm_if_earlier` -/
theorem rearm_if_earlier_closed (s : QueryScheduler) (w : Int) (hl : s.next_run.isSome → s.loop.isSome) :
    s.rearm_if_earlier w =
      if s.next_run.isNone || decide (s.startup_queries_sent < 4) then .ok (s, [])
      else if max w s.earliest_next_run_millis < s.next_run_millis then
        .ok ({ s with next_run_millis := max w s.earliest_next_run_millis, next_run := some () },
             [SEffect.cancel, SEffect.callAt (max w s.earliest_next_run_millis) Cb.ready])
      else .ok (s, []) := by
  unfold QueryScheduler.rearm_if_earlier
  cases hn : s.next_run with
  | none => simp [hn, bind, Except.bind, pure, Except.pure]
  | some u =>
    by_cases h4 : s.startup_queries_sent < 4
    · simp [hn, h4, bind, Except.bind, pure, Except.pure]
    · by_cases hlt : max w s.earliest_next_run_millis < s.next_run_millis
      · simp only [hn, Option.isNone_some, h4, decide_false, Bool.or_self, Bool.false_eq_true, if_false, hlt, decide_true, if_true, pyUnwrap, bind,
          Except.bind, pure, Except.pure, arm_ready_types_closed s _ (hl (by rw [hn]; rfl)), List.nil_append]
        rfl
      · simp [hn, h4, hlt, bind, Except.bind, pure, Except.pure]

/-- **`_rearm_if_earlier`** is the model's `rearmIfEarlier2` -/
theorem rearm_if_earlier_eq {c : Cfg} {s : QueryScheduler} {m : S2} (h : Rel c s m) (w now : Int) (hl : s.next_run.isSome → s.loop.isSome) :
    ∃ s' eff, s.rearm_if_earlier w = .ok (s', eff) ∧ Rel c s' (rearmIfEarlier2 m w) ∧ s'.loop = s.loop
      ∧ s'.store = s.store ∧ s'.query_heap = s.query_heap ∧ s'.next_scheduled_for_alias = s.next_scheduled_for_alias
      ∧ armedAfter now m.armed eff = (rearmIfEarlier2 m w).armed ∧ sendsOf c eff = [] := by
  rw [rearm_if_earlier_closed s w hl]
  unfold rearmIfEarlier2
  simp only [Gen.Browser.rearm_guard, Gen.Browser.rearm_lt, Gen.Browser.rearm_when, h.started, h.sent, h.earliest, h.nextRun]
  cases hn : s.next_run with
  | none => exact ⟨s, [], by simp, by simpa [hn] using h, rfl, rfl, rfl, rfl, by simp [armedAfter], rfl⟩
  | some u =>
    by_cases h4 : s.startup_queries_sent < 4
    · have h4' : ((s.startup_queries_sent : Nat) : Int) < 4 := by omega
      exact ⟨s, [], by simp [h4], by simpa [hn, h4'] using h, rfl, rfl, rfl, rfl, by simp [armedAfter, hn, h4'], rfl⟩
    · have h4' : ¬ ((s.startup_queries_sent : Nat) : Int) < 4 := by omega
      by_cases hlt : max w s.earliest_next_run_millis < s.next_run_millis
      · refine ⟨{ s with next_run_millis := max w s.earliest_next_run_millis, next_run := some () },
          [SEffect.cancel, SEffect.callAt (max w s.earliest_next_run_millis) Cb.ready], by simp [h4, hlt], ?_, rfl, rfl, rfl, rfl, ?_, rfl⟩
        · simp only [Option.isSome_some, Bool.not_true, h4', decide_false, Bool.or_self, Bool.false_eq_true, if_false, hlt, decide_true, if_true]
          exact rel_arm h _
        · simp [armedAfter, h4', hlt, armReady2]
      · exact ⟨s, [], by simp [h4, hlt], by simpa [hn, h4', hlt] using h, rfl, rfl, rfl, rfl, by simp [armedAfter, hn, h4', hlt], rfl⟩

/-! ### `stop`, `_process_startup_queries` -/

/-- **`stop`** is the model's `.stop` block -/
theorem stop_eq {c : Cfg} {s : QueryScheduler} {m : S2} (h : Rel c s m) :
    ∃ s' eff, s.stop = .ok (s', eff) ∧ Rel c s' { m with armed := none, started := false, heap := [], dict := [] } ∧ sendsOf c eff = [] := by
  unfold QueryScheduler.stop
  cases hn : s.next_run with
  | none =>
    refine ⟨_, _, by simp [hn, bind, Except.bind, pure, Except.pure]; exact ⟨rfl, rfl⟩, ?_, rfl⟩
    exact ⟨h.sent, rfl, fun _ => rfl, h.nextId, by simp [hn], h.nextRun, h.earliest, h.minDelay, h.types, h.interval, h.resolution⟩
  | some u =>
    refine ⟨_, _, by simp [hn, pyUnwrap, bind, Except.bind, pure, Except.pure]; exact ⟨rfl, rfl⟩, ?_, rfl⟩
    exact ⟨h.sent, rfl, fun _ => rfl, h.nextId, rfl, h.nextRun, h.earliest, h.minDelay, h.types, h.interval, h.resolution⟩

/-- closed form of `_process_startup_queries` on a started scheduler -/
theorem process_startup_queries_closed (s : QueryScheduler) (hl : s.loop.isSome) (done : Bool) (now : Int) :
    s.process_startup_queries done now =
      if done then .ok (s, [])
      else if s.startup_queries_sent + 1 ≥ 4 then
        .ok ({ s with startup_queries_sent := s.startup_queries_sent + 1, earliest_next_run_millis := now + s.min_time_between_queries_millis,
                      next_run_millis := now + s.min_time_between_queries_millis, next_run := some () },
             [SEffect.send (decide (s.startup_queries_sent = 0)) now s.types, SEffect.callAt (now + s.min_time_between_queries_millis) Cb.ready])
      else
        .ok ({ s with startup_queries_sent := s.startup_queries_sent + 1, next_run := some () },
             [SEffect.send (decide (s.startup_queries_sent = 0)) now s.types,
              SEffect.callLater (((s.startup_queries_sent + 1 : Nat) : Int) ^ 2 * 1000) Cb.startup]) := by
  unfold QueryScheduler.process_startup_queries
  cases hs : s.loop with
  | none => rw [hs] at hl; cases hl
  | some u =>
    cases done with
    | true => simp [bind, Except.bind, pure, Except.pure]
    | false =>
      by_cases h4 : s.startup_queries_sent + 1 ≥ 4
      · simp only [Bool.false_eq_true, if_false, h4, decide_true, if_true, QueryScheduler.arm_ready_types, hs, pyUnwrap, bind, Except.bind, pure,
          Except.pure, List.nil_append]
        rfl
      · simp only [Bool.false_eq_true, if_false, h4, decide_false, hs, pyUnwrap, bind, Except.bind, pure, Except.pure, List.nil_append]
        rfl

/-- **`_process_startup_queries`** is the model's `fireStartup2` (clock reading = loop time `now`): the same counter, the same
`send`, the same timer armed next.  `hst`: the timer that fires is still `self._next_run` (`started` in the model). -/
theorem process_startup_queries_eq {c : Cfg} {s : QueryScheduler} {m : S2} (h : Rel c s m) (hl : s.loop.isSome)
    (hst : s.next_run.isSome) (done : Bool) (now : Int) :
    ∃ s' eff, s.process_startup_queries done now = .ok (s', eff)
      ∧ Rel c s' { (fireStartup2 c m now done).1 with armed := m.armed } -- `armed` is compared through the effects
      ∧ s'.loop = s.loop
      ∧ armedAfter now none eff = (fireStartup2 c m now done).1.armed
      ∧ sendsOf c eff = (fireStartup2 c m now done).2 := by
  rw [process_startup_queries_closed s hl]
  unfold fireStartup2
  have hmd := h.minDelay
  cases done with
  | true =>
    exact ⟨s, [], rfl, ⟨h.sent, h.heap, h.dict, h.nextId, h.started, h.nextRun, h.earliest, h.minDelay, h.types, h.interval, h.resolution⟩,
      rfl, rfl, rfl⟩
  | false =>
    simp only [Bool.false_eq_true, if_false, Gen.Browser.startup_first, Gen.Browser.startup_done, Gen.Browser.next_time,
      Gen.Browser.startup_backoff_s, h.sent]
    have hz : decide (((s.startup_queries_sent : Nat) : Int) = 0) = decide (s.startup_queries_sent = 0) := by
      by_cases hz : s.startup_queries_sent = 0 <;> simp [hz]
    by_cases h4 : s.startup_queries_sent + 1 ≥ 4
    · have h4' : ((s.startup_queries_sent + 1 : Nat) : Int) ≥ 4 := by omega
      rw [if_pos h4]
      refine ⟨_, _, rfl, ?_, rfl, ?_, ?_⟩
      · simp only [h4', decide_true, if_true, armReady2, hmd]
        exact ⟨rfl, h.heap, h.dict, h.nextId, rfl, rfl, rfl, h.minDelay, h.types, h.interval, h.resolution⟩
      · have h5 : (4 : Int) ≤ (s.startup_queries_sent : Int) + 1 := by omega
        simp [armedAfter, h4', h5, armReady2, hmd]
      · have h5 : (4 : Int) ≤ (s.startup_queries_sent : Int) + 1 := by omega
        simp [sendsOf, h4', h5, h.types, hz]
    · have h4' : ¬ ((s.startup_queries_sent + 1 : Nat) : Int) ≥ 4 := by omega
      rw [if_neg h4]
      refine ⟨_, _, rfl, ?_, rfl, ?_, ?_⟩
      · simp only [h4', decide_false, Bool.false_eq_true, if_false]
        exact ⟨rfl, h.heap, h.dict, h.nextId, by rw [h.started, hst]; rfl, h.nextRun, h.earliest, h.minDelay, h.types, h.interval, h.resolution⟩
      · have h5 : ¬ (4 : Int) ≤ (s.startup_queries_sent : Int) + 1 := by omega
        simp [armedAfter, h4', h5]
      · have h5 : ¬ (4 : Int) ≤ (s.startup_queries_sent : Int) + 1 := by omega
        simp [sendsOf, h4', h5, h.types, hz]

/-! ### `_schedule_ptr_query` on a freshly constructed object = the model's `schedule2` -/

/-- ids are allocated in order: every stored id and every id in the heap is below the next one; the heap holds ids of stored
objects; the per-alias dict is a dict -/
structure StoreOk (s : QueryScheduler) : Prop where
  fresh : PyStore.Fresh s.store
  heapIds : ∀ i ∈ s.query_heap, i < s.store.next
  heapStored : ∀ i ∈ s.query_heap, (PyStore.get? s.store i).isSome
  dictWF : PyDict.WF strEq s.next_scheduled_for_alias

theorem dget_dset (k : String) (i : Nat) (d : Sched2.Dict) (a : String) :
    dget a (dset k i d) = if k = a then some i else dget a d := by
  unfold dget dset ddel
  rw [List.find?_cons]
  by_cases hk : k = a
  · subst hk; simp
  · have hk' : (k == a) = false := by simpa using hk
    simp only [hk', Bool.false_eq_true, if_false, hk]
    congr 1
    induction d with
    | nil => rfl
    | cons e r ih =>
      rw [List.filter_cons]
      by_cases he : e.1 = k
      · have : (e.1 == a) = false := by rw [he]; exact hk'
        simp [he, List.find?_cons, this, ← ih, hk']
      · have he' : (e.1 == k) = false := by simpa using he
        simp only [he', Bool.not_false, if_true, List.find?_cons]
        cases e.1 == a <;> simp [ih]

/-- every object of `a` is, unchanged, an object of `b` (allocation only adds) -/
def StoreLe (a b : PyStore ScheduledPTRQuery) : Prop := ∀ j o, PyStore.get? a j = some o → PyStore.get? b j = some o

/-- the constructor call followed by `_schedule_ptr_query`: the model's `schedule2` of the same query -/
theorem schedule_new_eq' {c : Cfg} {s : QueryScheduler} {m : S2} (h : Rel c s m) (hok : StoreOk s) (hl : s.next_run.isSome → s.loop.isSome)
    (o : ScheduledPTRQuery) (now : Int) :
    ∃ s' eff, QueryScheduler.schedule_ptr_query { s with store := (PyStore.alloc s.store o).2 } (PyStore.alloc s.store o).1 = .ok (s', eff)
      ∧ Rel c s' (schedule2 m (toQ o)) ∧ StoreOk s' ∧ s'.loop = s.loop
      ∧ armedAfter now m.armed eff = (schedule2 m (toQ o)).armed ∧ sendsOf c eff = [] ∧ StoreLe s.store s'.store := by
  have hnew : PyStore.get? (PyStore.alloc s.store o).2 s.store.next = some o := PyStore.get?_alloc_new hok.fresh o
  have hget : PyStore.get (PyStore.alloc s.store o).2 s.store.next = .ok o := by simp [PyStore.get, hnew]
  -- the state after the two container updates
  let s1 : QueryScheduler :=
    { s with store := (PyStore.alloc s.store o).2,
             next_scheduled_for_alias := PyDict.set strEq s.next_scheduled_for_alias o.alias s.store.next,
             query_heap := PyHeap.push (fun a b => ScheduledPTRQuery.lt (PyStore.getD (PyStore.alloc s.store o).2 a default)
               (PyStore.getD (PyStore.alloc s.store o).2 b default)) s.query_heap s.store.next }
  let m1 : S2 := { m with heap := insert2 ⟨m.nextId, toQ o⟩ m.heap, dict := dset (toQ o).alias m.nextId m.dict, nextId := m.nextId + 1 }
  have hobj : ∀ i ∈ s.query_heap, objOf (PyStore.alloc s.store o).2 i = objOf s.store i := by
    intro i hi
    simp only [objOf, PyStore.getD_alloc_old o default (hok.heapIds i hi)]
  have hobjn : objOf (PyStore.alloc s.store o).2 s.store.next = ⟨s.store.next, toQ o⟩ := by
    simp only [objOf, PyStore.getD, hnew, Option.getD_some]
  have hrel1 : Rel c s1 m1 := by
    refine ⟨h.sent, ?_, ?_, ?_, h.started, h.nextRun, h.earliest, h.minDelay, h.types, h.interval, h.resolution⟩
    · show insert2 ⟨m.nextId, toQ o⟩ m.heap = (PyHeap.push _ s.query_heap s.store.next).map (objOf (PyStore.alloc s.store o).2)
      rw [PyHeap.map_push _ (fun (a b : Obj) => decide (a.q.when < b.q.when)) (objOf (PyStore.alloc s.store o).2)]
      · rw [hobjn, h.heap, h.nextId, List.map_congr_left hobj]
        -- `PyHeap.push` with this order is `insert2`
        generalize s.query_heap.map (objOf s.store) = l
        induction l with
        | nil => rfl
        | cons y t ih => simp only [PyHeap.push, insert2, decide_eq_true_eq, ih]
      · intro y _
        simp only [objOf, toQ, ScheduledPTRQuery.lt, Id.run, pure]
        rfl
    · intro a
      show PyDict.get? strEq (PyDict.set strEq s.next_scheduled_for_alias o.alias s.store.next) a = dget a (dset (toQ o).alias m.nextId m.dict)
      rw [PyDict.get?_set strEq_keyEq, dget_dset, h.dict a, h.nextId]
      simp only [strEq, toQ, decide_eq_true_eq]
      rfl
    · show m.nextId + 1 = (PyStore.alloc s.store o).2.next
      rw [h.nextId]; rfl
  have hok1 : StoreOk s1 := by
    have hsub : ∀ (l : List Nat) (lt : Nat → Nat → Bool) (x : Nat), ∀ i ∈ PyHeap.push lt l x, i ∈ l ∨ i = x := by
      intro l lt x
      induction l with
      | nil => intro i hi; simp [PyHeap.push] at hi; exact Or.inr hi
      | cons y t ih =>
        intro i hi
        simp only [PyHeap.push] at hi
        split at hi
        · simp only [List.mem_cons] at hi ⊢; rcases hi with h | h | h <;> simp [h]
        · simp only [List.mem_cons] at hi ⊢
          rcases hi with h | h
          · simp [h]
          · rcases ih i h with h | h <;> simp [h]
    refine ⟨PyStore.fresh_alloc hok.fresh o, ?_, ?_, PyDict.WF_set hok.dictWF _ _⟩
    · intro i hi
      show i < s.store.next + 1
      rcases hsub _ _ _ i hi with h1 | h1
      · exact Nat.lt_succ_of_lt (hok.heapIds i h1)
      · rw [h1]; exact Nat.lt_succ_self _
    · intro i hi
      show (PyStore.get? (PyStore.alloc s.store o).2 i).isSome
      rcases hsub _ _ _ i hi with h1 | h1
      · rw [PyStore.get?_alloc_old o (hok.heapIds i h1)]; exact hok.heapStored i h1
      · rw [h1, hnew]; rfl
  have hl1 : s1.next_run.isSome → s1.loop.isSome := hl
  obtain ⟨s', eff, he, hr, hloop, hst, hhp, hdc, harm, hsend⟩ := rearm_if_earlier_eq hrel1 o.when_millis now hl1
  refine ⟨s', eff, ?_, ?_, ?_, hloop, ?_, hsend, ?_⟩
  rotate_left 4
  · intro j o' hj
    rw [hst]
    show PyStore.get? (PyStore.alloc s.store o).2 j = some o'
    rw [PyStore.get?_alloc_old o (PyStore.lt_next_of_get? hok.fresh hj)]
    exact hj
  · unfold QueryScheduler.schedule_ptr_query
    simp only [PyStore.alloc] at hget ⊢
    simp only [hget, bind, Except.bind, pure, Except.pure]
    have he' := he
    simp only [s1, PyStore.alloc] at he'
    rw [he']
    simp
  · exact hr
  · exact ⟨by rw [hst]; exact hok1.fresh, by rw [hhp, hst]; exact hok1.heapIds, by rw [hhp, hst]; exact hok1.heapStored,
      by rw [hdc]; exact hok1.dictWF⟩
  · exact harm

theorem schedule_new_eq {c : Cfg} {s : QueryScheduler} {m : S2} (h : Rel c s m) (hok : StoreOk s) (hl : s.next_run.isSome → s.loop.isSome)
    (o : ScheduledPTRQuery) (now : Int) :
    ∃ s' eff, QueryScheduler.schedule_ptr_query { s with store := (PyStore.alloc s.store o).2 } (PyStore.alloc s.store o).1 = .ok (s', eff)
      ∧ Rel c s' (schedule2 m (toQ o)) ∧ StoreOk s' ∧ s'.loop = s.loop
      ∧ armedAfter now m.armed eff = (schedule2 m (toQ o)).armed ∧ sendsOf c eff = [] := by
  obtain ⟨s', eff, h1, h2, h3, h4, h5, h6, _⟩ := schedule_new_eq' h hok hl o now
  exact ⟨s', eff, h1, h2, h3, h4, h5, h6⟩

/-! ### `cancel_ptr_refresh` = the model's `cancel2` -/

theorem dget_ddel (k : String) (d : Sched2.Dict) (a : String) :
    dget a (ddel k d) = if k = a then none else dget a d := by
  unfold dget ddel
  induction d with
  | nil => simp
  | cons e r ih =>
    rw [List.filter_cons]
    by_cases he : e.1 = k
    · have he' : (e.1 == k) = true := by simpa using he
      simp only [he', Bool.not_true, Bool.false_eq_true, if_false, List.find?_cons]
      rw [ih]
      by_cases hk : k = a
      · simp [hk]
      · have : (e.1 == a) = false := by rw [he]; simpa using hk
        simp [hk, this]
    · have he' : (e.1 == k) = false := by simpa using he
      simp only [he', Bool.not_false, if_true, List.find?_cons]
      cases hea : e.1 == a with
      | true =>
        have : ¬ k = a := by
          intro hka; apply he; rw [hka]; simpa using hea
        simp [this]
      | false => exact ih

/-- an attribute write through the store is the same write on the model's heap of objects -/
theorem map_objOf_modify (st : PyStore ScheduledPTRQuery) (hp : List Nat) (i : Nat) (f : ScheduledPTRQuery → ScheduledPTRQuery) (g : Q → Q)
    (hfg : ∀ o, toQ (f o) = g (toQ o)) (hs : ∀ j ∈ hp, (PyStore.get? st j).isSome) :
    hp.map (objOf (PyStore.modify st i f)) = (hp.map (objOf st)).map (fun o => if o.id == i then { o with q := g o.q } else o) := by
  rw [List.map_map]
  apply List.map_congr_left
  intro j hj
  obtain ⟨o, ho⟩ := Option.isSome_iff_exists.1 (hs j hj)
  simp only [Function.comp, objOf, PyStore.getD, PyStore.get?_modify, ho]
  by_cases hji : j = i
  · simp [hji, hfg]
  · simp [hji]

theorem stored_modify {st : PyStore ScheduledPTRQuery} {hp : List Nat} (hs : ∀ j ∈ hp, (PyStore.get? st j).isSome) (i : Nat)
    (f : ScheduledPTRQuery → ScheduledPTRQuery) : ∀ j ∈ hp, (PyStore.get? (PyStore.modify st i f) j).isSome := by
  intro j hj
  rw [PyStore.get?_modify]
  have := hs j hj
  split
  · rw [Option.isSome_map]; exact this
  · exact this

/-- `obj.cancelled = True` through the store is the model's `setCancelled` on the heap of objects -/
theorem map_objOf_cancel (st : PyStore ScheduledPTRQuery) (hp : List Nat) (i : Nat) (hs : ∀ j ∈ hp, (PyStore.get? st j).isSome) :
    hp.map (objOf (PyStore.modify st i (fun o => { o with cancelled := true }))) = setCancelled i (hp.map (objOf st)) :=
  map_objOf_modify st hp i _ (fun q => { q with cancelled := true }) (fun _ => rfl) hs

theorem dict_erase_ddel {c : Cfg} {s : QueryScheduler} {m : S2} (h : Rel c s m) (hok : StoreOk s) (a a' : String) :
    PyDict.get? strEq (PyDict.erase strEq s.next_scheduled_for_alias a) a' = dget a' (ddel a m.dict) := by
  rw [PyDict.get?_erase strEq_keyEq hok.dictWF, dget_ddel, h.dict a']
  simp only [strEq, decide_eq_true_eq]

/-- the two statements `scheduled.cancelled = True; del dict[alias]` (in either order) on both sides -/
theorem rel_cancel {c : Cfg} {s : QueryScheduler} {m : S2} (h : Rel c s m) (hok : StoreOk s) (a : String) (i : Nat) :
    Rel c { s with store := PyStore.modify s.store i (fun o => { o with cancelled := true }),
                   next_scheduled_for_alias := PyDict.erase strEq s.next_scheduled_for_alias a }
          { m with dict := ddel a m.dict, heap := setCancelled i m.heap }
    ∧ StoreOk { s with store := PyStore.modify s.store i (fun o => { o with cancelled := true }),
                       next_scheduled_for_alias := PyDict.erase strEq s.next_scheduled_for_alias a } := by
  refine ⟨⟨h.sent, ?_, dict_erase_ddel h hok a, h.nextId, h.started, h.nextRun, h.earliest, h.minDelay, h.types, h.interval, h.resolution⟩,
    ⟨PyStore.fresh_modify hok.fresh _ _, hok.heapIds, stored_modify hok.heapStored _ _, PyDict.WF_erase hok.dictWF _⟩⟩
  show setCancelled i m.heap = s.query_heap.map (objOf (PyStore.modify s.store i _))
  rw [map_objOf_cancel s.store s.query_heap i hok.heapStored, h.heap]

/-- **`cancel_ptr_refresh`** is the model's `cancel2` (`a` the pointer's lower-cased alias): the dict entry goes, the object it named
is marked cancelled and stays in the heap -/
theorem cancel_ptr_refresh_eq {c : Cfg} {s : QueryScheduler} {m : S2} (lower : String → String) (h : Rel c s m) (hok : StoreOk s)
    (p : Rec) (a : String) (ha : Rec.attrAliasKey lower p = .ok a) :
    ∃ s', QueryScheduler.cancel_ptr_refresh lower s p = .ok s' ∧ Rel c s' (cancel2 m a) ∧ StoreOk s' ∧ s'.loop = s.loop := by
  unfold QueryScheduler.cancel_ptr_refresh cancel2
  have hd : ∀ a', PyDict.get? strEq (PyDict.erase strEq s.next_scheduled_for_alias a) a' = dget a' (ddel a m.dict) := by
    intro a'
    rw [PyDict.get?_erase strEq_keyEq hok.dictWF, dget_ddel, h.dict a']
    simp only [strEq, decide_eq_true_eq]
  simp only [ha, bind, Except.bind, pure, Except.pure, PyDict.popD]
  rw [← h.dict a]
  cases hg : PyDict.get? strEq s.next_scheduled_for_alias a with
  | none =>
    refine ⟨_, rfl, ?_, ?_, rfl⟩
    · refine ⟨h.sent, h.heap, ?_, h.nextId, h.started, h.nextRun, h.earliest, h.minDelay, h.types, h.interval, h.resolution⟩
      intro a'
      rw [hd a', dget_ddel]
      by_cases hk : a = a'
      · rw [if_pos hk, ← h.dict a', ← hk, hg]
      · rw [if_neg hk]
    · exact ⟨hok.fresh, hok.heapIds, hok.heapStored, PyDict.WF_erase hok.dictWF _⟩
  | some i =>
    refine ⟨_, rfl, ?_, ?_, rfl⟩
    · refine ⟨h.sent, ?_, hd, h.nextId, h.started, h.nextRun, h.earliest, h.minDelay, h.types, h.interval, h.resolution⟩
      show setCancelled i m.heap = s.query_heap.map (objOf (PyStore.modify s.store i _))
      rw [map_objOf_cancel s.store s.query_heap i hok.heapStored, h.heap]
    · refine ⟨PyStore.fresh_modify hok.fresh _ _, hok.heapIds, ?_, PyDict.WF_erase hok.dictWF _⟩
      intro j hj
      show (PyStore.get? (PyStore.modify s.store i _) j).isSome
      rw [PyStore.get?_modify]
      have := hok.heapStored j hj
      split
      · rw [Option.isSome_map]; exact this
      · exact this

/-! ### `reschedule_ptr_first_refresh` = the model's `reschedule2` -/

theorem getObj_map (st : PyStore ScheduledPTRQuery) (hp : List Nat) (i : Nat) (hi : i ∈ hp) :
    getObj i (hp.map (objOf st)) = some (objOf st i) := by
  unfold getObj
  induction hp with
  | nil => cases hi
  | cons j r ih =>
    simp only [List.map_cons, List.find?_cons]
    by_cases hji : j = i
    · simp [objOf, hji]
    · have : ((objOf st j).id == i) = false := by simpa [objOf] using hji
      rw [this]
      cases hi with
      | head => exact absurd rfl hji
      | tail _ h => exact ih h

/-- `current.ttl = …; current.expire_time_millis = …` through the store is the model's `setLife` -/
theorem map_objOf_life (st : PyStore ScheduledPTRQuery) (hp : List Nat) (i : Nat) (ttl : Nat) (exp : Int)
    (hs : ∀ j ∈ hp, (PyStore.get? st j).isSome) :
    hp.map (objOf (PyStore.modify (PyStore.modify st i (fun o => { o with ttl := ttl })) i (fun o => { o with expire_time_millis := exp })))
      = setLife i ttl exp (hp.map (objOf st)) := by
  rw [map_objOf_modify _ hp i _ (fun q => { q with expire := exp }) (fun _ => rfl) (stored_modify hs _ _),
      map_objOf_modify st hp i _ (fun q => { q with ttl := ttl }) (fun _ => rfl) hs]
  unfold setLife
  rw [List.map_map]
  apply List.map_congr_left
  intro o _
  simp only [Function.comp]
  by_cases h : o.id == i <;> simp [h]

/-- **`_schedule_ptr_refresh`** (constructor call + `_schedule_ptr_query`) is the model's `schedule2` of the constructed query -/
theorem schedule_ptr_refresh_eq {c : Cfg} {s : QueryScheduler} {m : S2} (lower : String → String) (h : Rel c s m)
    (hok : StoreOk s) (hl : s.next_run.isSome → s.loop.isSome) (p : Rec) (a : String) (ha : Rec.attrAliasKey lower p = .ok a) (exp refresh now : Int) :
    ∃ s' eff, QueryScheduler.schedule_ptr_refresh lower s p exp refresh = .ok (s', eff)
      ∧ Rel c s' (schedule2 m (toQ (ScheduledPTRQuery.init a p.name p.ttl exp refresh))) ∧ StoreOk s' ∧ s'.loop = s.loop
      ∧ armedAfter now m.armed eff = (schedule2 m (toQ (ScheduledPTRQuery.init a p.name p.ttl exp refresh))).armed ∧ sendsOf c eff = [] := by
  obtain ⟨s', eff, he, hr, hk, hloop, harm, hsend⟩ := schedule_new_eq h hok hl (ScheduledPTRQuery.init a p.name p.ttl exp refresh) now
  refine ⟨s', eff, ?_, hr, hk, hloop, harm, hsend⟩
  simp only [QueryScheduler.schedule_ptr_refresh, ha, bind, Except.bind, pure, Except.pure]
  rw [he]
  rfl

/-- **`reschedule_ptr_first_refresh`** is the model's `reschedule2` of the pointer's `(alias, name, ttl, created)`.  `hdh`: the object
the dict names for this alias is in the heap (in Python the dict holds the object itself; `Proofs/Sched2` proves it an invariant of
the model).  The model's `dangling` error does not arise. -/
theorem reschedule_ptr_first_refresh_eq {c : Cfg} {s : QueryScheduler} {m : S2} (lower : String → String) (h : Rel c s m)
    (hok : StoreOk s) (hl : s.next_run.isSome → s.loop.isSome) (p : Rec) (a : String) (ha : Rec.attrAliasKey lower p = .ok a) (now : Int)
    (hdh : ∀ i, PyDict.get? strEq s.next_scheduled_for_alias a = some i → i ∈ s.query_heap) :
    ∃ s' eff m', QueryScheduler.reschedule_ptr_first_refresh lower s p = .ok (s', eff)
      ∧ reschedule2 c m a p.name p.ttl p.created = .ok m'
      ∧ Rel c s' m' ∧ StoreOk s' ∧ s'.loop = s.loop ∧ armedAfter now m.armed eff = m'.armed ∧ sendsOf c eff = [] := by
  have hfq : toQ (ScheduledPTRQuery.init a p.name p.ttl (Rec.expirationTime p 100) (Rec.expirationTime p 75))
      = firstQuery a p.name p.ttl p.created := rfl
  unfold QueryScheduler.reschedule_ptr_first_refresh reschedule2
  simp only [ha, bind, Except.bind, pure, Except.pure]
  rw [← h.dict a]
  cases hg : PyDict.get? strEq s.next_scheduled_for_alias a with
  | none =>
    obtain ⟨s', eff, he, hr, hk, hloop, harm, hsend⟩ :=
      schedule_ptr_refresh_eq lower h hok hl p a ha (Rec.expirationTime p 100) (Rec.expirationTime p 75) now
    rw [hfq] at hr harm
    refine ⟨s', eff, _, ?_, rfl, hr, hk, hloop, harm, hsend⟩
    simp only [he]
    rfl
  | some i =>
    have hi := hdh i hg
    obtain ⟨o, ho⟩ := Option.isSome_iff_exists.1 (hok.heapStored i hi)
    have hget : PyStore.get s.store i = .ok o := by simp [PyStore.get, ho]
    have hobj : getObj i m.heap = some ⟨i, toQ o⟩ := by
      rw [h.heap, getObj_map s.store s.query_heap i hi]
      simp [objOf, PyStore.getD, ho]
    simp only [hget, hobj]
    have hkeep : Gen.Browser.reschedule_keep (↑c.minDelay) (firstQuery a p.name p.ttl p.created).when (toQ o).when
        = (decide (-s.min_time_between_queries_millis ≤ p.expirationTime 75 - o.when_millis)
            && decide (p.expirationTime 75 - o.when_millis ≤ s.min_time_between_queries_millis)) := by
      simp only [Gen.Browser.reschedule_keep, h.minDelay]
      rfl
    rw [hkeep]
    have hdel : PyDict.delItem strEq s.next_scheduled_for_alias a = .ok (PyDict.erase strEq s.next_scheduled_for_alias a) := by
      simp [PyDict.delItem, PyDict.contains, hg]
    generalize (decide (-s.min_time_between_queries_millis ≤ p.expirationTime 75 - o.when_millis)
            && decide (p.expirationTime 75 - o.when_millis ≤ s.min_time_between_queries_millis)) = keep
    cases keep with
    | true =>
      refine ⟨_, _, _, rfl, rfl, ?_, ?_, rfl, rfl, rfl⟩
      · refine ⟨h.sent, ?_, h.dict, h.nextId, h.started, h.nextRun, h.earliest, h.minDelay, h.types, h.interval, h.resolution⟩
        have hlife := map_objOf_life s.store s.query_heap i p.ttl (p.expirationTime 100) hok.heapStored
        show setLife i p.ttl (p.expirationTime 100) m.heap = _
        rw [h.heap]
        exact hlife.symm
      · exact ⟨PyStore.fresh_modify (PyStore.fresh_modify hok.fresh _ _) _ _, hok.heapIds,
          stored_modify (stored_modify hok.heapStored _ _) _ _, hok.dictWF⟩
    | false =>
      obtain ⟨hr1, hok1⟩ := rel_cancel h hok a i
      obtain ⟨s', eff, he, hr, hk, hloop, harm, hsend⟩ :=
        schedule_ptr_refresh_eq lower hr1 hok1 hl p a ha (Rec.expirationTime p 100) (Rec.expirationTime p 75) now
      rw [hfq] at hr harm
      refine ⟨s', eff, _, ?_, rfl, hr, hk, hloop, harm, hsend⟩
      simp only [hdel, Bool.false_eq_true, if_false]
      rw [he]
      rfl

/-! ### `schedule_rescue_query` = the model's `rescueOf` followed by `schedule2` -/

/-- one rescue step of the model -/
def rescueStep (now : Int) (m : S2) (q : Q) : S2 :=
  match rescueOf now q with
  | some q' => schedule2 m q'
  | none => m

/-- **`schedule_rescue_query`** (called with `RESCUE_RECORD_RETRY_TTL_PERCENTAGE` = 100 ‰) of a live stored object is the model's
`rescueOf` + `schedule2`: nothing when the retry would fall at or after the expiry, else a new object `ttl/10` ahead -/
theorem schedule_rescue_query_eq' {c : Cfg} {s : QueryScheduler} {m : S2} (h : Rel c s m) (hok : StoreOk s) (hl : s.loop.isSome)
    (i : Nat) (o : ScheduledPTRQuery) (ho : PyStore.get? s.store i = some o) (hc : o.cancelled = false) (now clk : Int) :
    ∃ s' eff, s.schedule_rescue_query i now 100 = .ok (s', eff)
      ∧ Rel c s' (rescueStep now m (toQ o)) ∧ StoreOk s' ∧ s'.loop = s.loop
      ∧ armedAfter clk m.armed eff = (rescueStep now m (toQ o)).armed ∧ sendsOf c eff = [] ∧ StoreLe s.store s'.store := by
  have hget : PyStore.get s.store i = .ok o := by simp [PyStore.get, ho]
  unfold QueryScheduler.schedule_rescue_query rescueStep rescueOf
  simp only [hget, bind, Except.bind, pure, Except.pure, Gen.Browser.rescue_next, Gen.Browser.rescue_ttl_millis, Gen.Browser.rescue_stop,
    Gen.rescueRecordRetryTtlPercentagePerMille, toQ]
  have hnext : now + ((o.ttl : Int) * 1000 * ((100 : Nat) : Int)) / 1000 = now + (o.ttl : Int) * 100 := by omega
  have hdiv : Int.fdiv (now * 1000 + (o.ttl : Int) * 1000 * 100 * 1) 1000 = now + (o.ttl : Int) * 100 := by
    rw [Int.fdiv_eq_ediv_of_nonneg _ (by decide)]
    omega
  simp only [hnext, hdiv]
  by_cases hstop : now + (o.ttl : Int) * 100 ≥ o.expire_time_millis
  · have h1 : now * 1000 + (o.ttl : Int) * 1000 * 100 * 1 ≥ o.expire_time_millis * 1000 := by omega
    simp only [h1, hstop, decide_true, if_true]
    exact ⟨s, [], rfl, h, hok, rfl, rfl, rfl, fun _ _ hj => hj⟩
  · have h1 : ¬ now * 1000 + (o.ttl : Int) * 1000 * 100 * 1 ≥ o.expire_time_millis * 1000 := by omega
    simp only [h1, hstop, decide_false, Bool.false_eq_true, if_false]
    obtain ⟨s', eff, he, hr, hk, hloop, harm, hsend, hle⟩ :=
      schedule_new_eq' h hok (fun _ => hl) (ScheduledPTRQuery.init o.alias o.name o.ttl o.expire_time_millis (now + (o.ttl : Int) * 100)) clk
    have hq : toQ (ScheduledPTRQuery.init o.alias o.name o.ttl o.expire_time_millis (now + (o.ttl : Int) * 100))
        = { alias := o.alias, name := o.name, ttl := o.ttl, cancelled := o.cancelled, expire := o.expire_time_millis,
            when := now + (o.ttl : Int) * 100 } := by
      simp only [toQ, ScheduledPTRQuery.init, hc]
    rw [hq] at hr harm
    refine ⟨s', eff, ?_, hr, hk, hloop, harm, hsend, hle⟩
    rw [he]
    rfl

theorem schedule_rescue_query_eq {c : Cfg} {s : QueryScheduler} {m : S2} (h : Rel c s m) (hok : StoreOk s) (hl : s.loop.isSome)
    (i : Nat) (o : ScheduledPTRQuery) (ho : PyStore.get? s.store i = some o) (hc : o.cancelled = false) (now clk : Int) :
    ∃ s' eff, s.schedule_rescue_query i now 100 = .ok (s', eff)
      ∧ Rel c s' (rescueStep now m (toQ o)) ∧ StoreOk s' ∧ s'.loop = s.loop
      ∧ armedAfter clk m.armed eff = (rescueStep now m (toQ o)).armed ∧ sendsOf c eff = [] := by
  obtain ⟨s', eff, h1, h2, h3, h4, h5, h6, _⟩ := schedule_rescue_query_eq' h hok hl i o ho hc now clk
  exact ⟨s', eff, h1, h2, h3, h4, h5, h6⟩

/-! ### `_process_ready_types` = the model's `fireReady2` -/

theorem sendsOf_append (c : Cfg) (a b : List SEffect) : sendsOf c (a ++ b) = sendsOf c a ++ sendsOf c b := by
  unfold sendsOf
  rw [List.filterMap_append]

/-- the loop `for query in schedule_rescue: self.schedule_rescue_query(query, now_millis, …)` over live stored objects is the model's
fold of `rescueOf` + `schedule2` -/
theorem rescue_loop {c : Cfg} (now : Int) (objs : List (Nat × ScheduledPTRQuery)) :
    ∀ (s : QueryScheduler) (m : S2) (eff0 : List SEffect)
      (f : Nat → QueryScheduler × List SEffect → Except PyExc (ForInStep (QueryScheduler × List SEffect))),
      (∀ q st, f q st = match st.1.schedule_rescue_query q now 100 with
        | .error e => .error e
        | .ok v => .ok (.yield (v.1, st.2 ++ v.2))) →
      Rel c s m → StoreOk s → s.loop.isSome →
      (∀ p ∈ objs, PyStore.get? s.store p.1 = some p.2 ∧ p.2.cancelled = false) →
      ∃ s' eff, forIn (objs.map (·.1)) (s, eff0) f = .ok (s', eff0 ++ eff)
        ∧ Rel c s' ((objs.map (fun p => toQ p.2)).foldl (rescueStep now) m) ∧ StoreOk s' ∧ s'.loop = s.loop
        ∧ StoreLe s.store s'.store ∧ sendsOf c eff = [] := by
  induction objs with
  | nil =>
    intro s m eff0 f _ h hok _ _
    exact ⟨s, [], by simp [pure, Except.pure], h, hok, rfl, fun _ _ hj => hj, rfl⟩
  | cons p r ih =>
    intro s m eff0 f hf h hok hl hst
    obtain ⟨hp, hc⟩ := hst p (List.mem_cons_self ..)
    obtain ⟨s1, e1, he, hr, hk, hloop, _, hsend, hle⟩ := schedule_rescue_query_eq' h hok hl p.1 p.2 hp hc now 0
    have hl1 : s1.loop.isSome := by rw [hloop]; exact hl
    obtain ⟨s', eff, hfor, hr', hk', hloop', hle', hsend'⟩ := ih s1 _ (eff0 ++ e1) f hf hr hk hl1
      (fun q hq => ⟨hle _ _ (hst q (List.mem_cons_of_mem _ hq)).1, (hst q (List.mem_cons_of_mem _ hq)).2⟩)
    refine ⟨s', e1 ++ eff, ?_, hr', hk', by rw [hloop', hloop], fun j o hj => hle' _ _ (hle _ _ hj), ?_⟩
    · rw [List.map_cons, List.forIn_cons, hf]
      simp only [he, bind, Except.bind]
      rw [hfor, List.append_assoc]
    · rw [sendsOf_append, hsend, hsend']
      rfl

/-- the loop state of the `while self._query_heap:` loop: `self`, `ready_types`, `next_scheduled`, `schedule_rescue`, "left by break" -/
abbrev PState := QueryScheduler × PySet String × Option Nat × List Nat × Bool

/-- one round of the `while self._query_heap:` loop, on the loop state alone -/
def popBody (endT : Int) (st : PState) : Except PyExc (ForInStep PState) :=
  match st.1.query_heap with
  | [] => .ok (.done (st.1, st.2.1, st.2.2.1, st.2.2.2.1, true))
  | v :: rest =>
    match st.1.store.get v with
    | .error e => .error e
    | .ok o =>
      if o.cancelled then .ok (.yield ({ st.1 with query_heap := rest }, st.2.1, st.2.2.1, st.2.2.2.1, st.2.2.2.2))
      else if o.when_millis > endT then .ok (.done (st.1, st.2.1, some v, st.2.2.2.1, true))
      else
        match PyDict.delItem strEq st.1.next_scheduled_for_alias o.alias with
        | .error e => .error e
        | .ok d => .ok (.yield ({ st.1 with next_scheduled_for_alias := d, query_heap := rest }, PySet.add strEq st.2.1 o.name,
                                st.2.2.1, st.2.2.2.1 ++ [v], st.2.2.2.2))

/-- the `while` loop of `_process_ready_types` against the model's `popReady2`: whenever the model's loop succeeds, so does the
translated one (within the fuel), popping the same live objects in the same order, leaving the same heap and the same dict -/
theorem pop_loop (endT : Int) (s : QueryScheduler) (hp : List Nat) :
    ∀ (d : PyDict String Nat) (md : Sched2.Dict) (rt : PySet String) (ns : Option Nat) (resc : List Nat)
      (r : List Obj × List Obj × Sched2.Dict) (fuel : Nat),
      hp.length < fuel →
      (∀ i ∈ hp, (PyStore.get? s.store i).isSome) →
      PyDict.WF strEq d → (∀ a, PyDict.get? strEq d a = dget a md) →
      popReady2 endT (hp.map (objOf s.store)) md = .ok r →
      ∃ (objs : List (Nat × ScheduledPTRQuery)) (rem : List Nat) (d' : PyDict String Nat),
        iterM (popBody endT) fuel ({ s with query_heap := hp, next_scheduled_for_alias := d }, rt, ns, resc, false)
          = .ok ({ s with query_heap := rem, next_scheduled_for_alias := d' }, (objs.map (·.2.name)).foldl (PySet.add strEq) rt,
                 (match rem with | [] => ns | v :: _ => some v), resc ++ objs.map (·.1), true)
        ∧ r.1 = objs.map (fun p => ⟨p.1, toQ p.2⟩) ∧ r.2.1 = rem.map (objOf s.store)
        ∧ (∀ a, PyDict.get? strEq d' a = dget a r.2.2) ∧ PyDict.WF strEq d'
        ∧ (∀ p ∈ objs, PyStore.get? s.store p.1 = some p.2 ∧ p.2.cancelled = false)
        ∧ (∀ i ∈ rem, i ∈ hp) := by
  induction hp with
  | nil =>
    intro d md rt ns resc r fuel hfuel _ hwf hd hpop
    cases fuel with
    | zero => cases hfuel
    | succ n =>
      simp only [List.map_nil, popReady2, Except.ok.injEq] at hpop
      subst hpop
      refine ⟨[], [], d, ?_, rfl, rfl, hd, hwf, (fun _ h => by cases h), (fun _ h => by cases h)⟩
      simp [iterM, popBody]
  | cons v rest ih =>
    intro d md rt ns resc r fuel hfuel hs hwf hd hpop
    cases fuel with
    | zero => cases hfuel
    | succ n =>
      have hn : rest.length < n := by simp only [List.length_cons] at hfuel; omega
      have hs' : ∀ i ∈ rest, (PyStore.get? s.store i).isSome := fun i hi => hs i (List.mem_cons_of_mem _ hi)
      obtain ⟨o, ho⟩ := Option.isSome_iff_exists.1 (hs v (List.mem_cons_self ..))
      have hget : PyStore.get s.store v = .ok o := by simp [PyStore.get, ho]
      have hobj : objOf s.store v = ⟨v, toQ o⟩ := by simp [objOf, PyStore.getD, ho]
      rw [List.map_cons, hobj] at hpop
      simp only [popReady2, toQ, Gen.Browser.ready_not_due] at hpop
      by_cases hc : o.cancelled = true
      · simp only [hc, if_true] at hpop
        obtain ⟨objs, rem, d', hit, h1, h2, h3, h4, h5, h6⟩ := ih d md rt ns resc r n hn hs' hwf hd hpop
        refine ⟨objs, rem, d', ?_, h1, h2, h3, h4, h5, fun i hi => List.mem_cons_of_mem _ (h6 i hi)⟩
        rw [iterM]
        simp only [popBody, hget, hc, if_true]
        exact hit
      · have hc' : o.cancelled = false := by cases h : o.cancelled <;> simp_all
        simp only [hc', Bool.false_eq_true, if_false] at hpop
        by_cases hdue : o.when_millis > endT
        · simp only [hdue, decide_true, if_true, Except.ok.injEq] at hpop
          subst hpop
          refine ⟨[], v :: rest, d, ?_, rfl, ?_, hd, hwf, (fun _ h => by cases h), (fun i hi => hi)⟩
          · rw [iterM]
            simp [popBody, hget, hc', hdue]
          · simp [hobj, toQ, hc']
        · simp only [hdue, decide_false, Bool.false_eq_true, if_false] at hpop
          cases hdg : dget o.alias md with
          | none => simp [hdg] at hpop
          | some j =>
            simp only [hdg] at hpop
            have hdel : PyDict.delItem strEq d o.alias = .ok (PyDict.erase strEq d o.alias) := by
              simp [PyDict.delItem, PyDict.contains, hd o.alias, hdg]
            have hd1 : ∀ a, PyDict.get? strEq (PyDict.erase strEq d o.alias) a = dget a (ddel o.alias md) := by
              intro a
              rw [PyDict.get?_erase strEq_keyEq hwf, dget_ddel, hd a]
              simp only [strEq, decide_eq_true_eq]
            cases hrec : popReady2 endT (rest.map (objOf s.store)) (ddel o.alias md) with
            | error e => simp [hrec] at hpop
            | ok r1 =>
              simp only [hrec, Except.ok.injEq] at hpop
              subst hpop
              obtain ⟨objs, rem, d', hit, h1, h2, h3, h4, h5, h6⟩ :=
                ih (PyDict.erase strEq d o.alias) (ddel o.alias md) (PySet.add strEq rt o.name) ns (resc ++ [v]) r1 n hn hs'
                  (PyDict.WF_erase hwf _) hd1 hrec
              refine ⟨(v, o) :: objs, rem, d', ?_, ?_, h2, h3, h4, ?_, fun i hi => List.mem_cons_of_mem _ (h6 i hi)⟩
              · rw [iterM]
                simp only [popBody, hget, hc', hdue, hdel, Bool.false_eq_true, if_false]
                rw [hit]
                simp
              · simp [h1, toQ, hc']
              · intro p hp
                cases hp with
                | head => exact ⟨ho, hc'⟩
                | tail _ h => exact h5 p h

theorem insert2_ne_nil (o : Obj) (l : List Obj) : insert2 o l ≠ [] := by
  cases l with
  | nil => simp [insert2]
  | cons h t => simp only [insert2]; split <;> simp

theorem rescueStep_heap_ne (now : Int) (m : S2) (q : Q) (hm : m.heap ≠ []) : (rescueStep now m q).heap ≠ [] := by
  unfold rescueStep
  split
  · unfold schedule2 rearmIfEarlier2
    split
    · exact insert2_ne_nil _ _
    · split
      · exact insert2_ne_nil _ _
      · exact insert2_ne_nil _ _
  · exact hm

theorem foldl_rescueStep_heap_ne (now : Int) (qs : List Q) (m : S2) (hm : m.heap ≠ []) : (qs.foldl (rescueStep now) m).heap ≠ [] := by
  induction qs generalizing m with
  | nil => exact hm
  | cons q r ih => exact ih _ (rescueStep_heap_ne now m q hm)

/-- the model's fold of rescues, as a fold of `rescueStep` -/
theorem foldl_rescue (now : Int) (l : List Obj) (m : S2) :
    (l.filterMap (fun o => rescueOf now o.q)).foldl schedule2 m = (l.map (·.q)).foldl (rescueStep now) m := by
  induction l generalizing m with
  | nil => rfl
  | cons o r ih =>
    rw [List.filterMap_cons, List.map_cons, List.foldl_cons]
    unfold rescueStep
    cases rescueOf now o.q with
    | none => exact ih m
    | some q => rw [List.foldl_cons]; exact ih _

theorem armedAfter_callAt (clk : Int) (a : Option (Timer × Int)) (xs : List SEffect) (w : Int) :
    armedAfter clk a (xs ++ [SEffect.callAt w Cb.ready]) = some (.ready, w) := by
  unfold armedAfter
  rw [List.foldl_append]
  rfl

theorem forIn_congr_body {α σ : Type} (l : List α) (st : σ) (f g : α → σ → Except PyExc (ForInStep σ)) (hf : ∀ x st, f x st = g x st) :
    forIn l st f = forIn l st g := by
  have : f = g := funext fun x => funext fun st => hf x st
  rw [this]

/-- the body of the rescue loop -/
def rescueBody (now : Int) (q : Nat) (st : QueryScheduler × List SEffect) : Except PyExc (ForInStep (QueryScheduler × List SEffect)) :=
  match st.1.schedule_rescue_query q now 100 with
  | .error e => .error e
  | .ok v => .ok (.yield (v.1, st.2 ++ v.2))

/-- the instant `_process_ready_types` arms the next wake-up for, read off the translated state -/
def nextWhenGen (s2 : QueryScheduler) (now : Int) : Int :=
  match s2.query_heap with
  | [] => now + s2.min_time_between_queries_millis
  | w :: _ =>
    if (PyStore.getD s2.store w default).when_millis > now + s2.min_time_between_queries_millis then
      (PyStore.getD s2.store w default).when_millis
    else now + s2.min_time_between_queries_millis

theorem nextWhen_eq {c : Cfg} {s2 : QueryScheduler} {m2 : S2} (hr2 : Rel c s2 m2) (now : Int) :
    nextWhen c (m2.heap.map (·.q)) now = nextWhenGen s2 now := by
  unfold nextWhen nextWhenGen
  rw [hr2.heap]
  cases s2.query_heap with
  | nil => simp [Gen.Browser.next_is_scheduled, Gen.Browser.next_time, hr2.minDelay]
  | cons w rest =>
    simp only [List.map_cons, List.head?_cons, Gen.Browser.next_is_scheduled, Gen.Browser.next_time, hr2.minDelay, Bool.true_and,
      decide_eq_true_eq, objOf, toQ]

theorem ready_tail {c : Cfg} {s2 : QueryScheduler} {m2 : S2} (hr2 : Rel c s2 m2) (hok2 : StoreOk s2) (now : Int) :
    Rel c { s2 with earliest_next_run_millis := now + s2.min_time_between_queries_millis, next_run_millis := nextWhenGen s2 now,
                    next_run := some () }
          (armReady2 { m2 with earliest := Gen.Browser.next_time now c.minDelay } (nextWhen c (m2.heap.map (·.q)) now))
    ∧ StoreOk { s2 with earliest_next_run_millis := now + s2.min_time_between_queries_millis, next_run_millis := nextWhenGen s2 now,
                        next_run := some () } := by
  refine ⟨⟨hr2.sent, hr2.heap, hr2.dict, hr2.nextId, rfl, ?_, ?_, hr2.minDelay, hr2.types, hr2.interval, hr2.resolution⟩,
    ⟨hok2.fresh, hok2.heapIds, hok2.heapStored, hok2.dictWF⟩⟩
  · exact nextWhen_eq hr2 now
  · simp [armReady2, Gen.Browser.next_time, hr2.minDelay]

/-- **`_process_ready_types`** is the model's `fireReady2`, whenever the model's pop loop succeeds (it fails only on a popped live entry
whose alias is not in the dict: `KeyError` in Python too): same heap, same dict, the same rescue queries scheduled, the same timer armed
next, and one `async_send_ready_queries` call whose `types` are the popped names **as a set** (the model lists them with repetitions). -/
theorem process_ready_types_eq {c : Cfg} {s : QueryScheduler} {m : S2} (h : Rel c s m) (hok : StoreOk s) (hl : s.loop.isSome)
    (now clk : Int) (r : List Obj × List Obj × Sched2.Dict) (hpop : popReady2 now m.heap m.dict = .ok r) :
    ∃ s' eff m' outs, s.process_ready_types false now = .ok (s', eff)
      ∧ fireReady2 c m now false = .ok (m', outs)
      ∧ Rel c s' m' ∧ StoreOk s' ∧ s'.loop = s.loop
      ∧ armedAfter clk none eff = m'.armed
      ∧ sendsOf c eff = outs.map (fun sd => { sd with types := PySet.ofList strEq sd.types }) := by
  unfold QueryScheduler.process_ready_types fireReady2
  simp only [bind, Except.bind, pure, Except.pure, Bool.false_eq_true, if_false, hpop]
  rw [forIn_except_iterM (body := popBody (now + s.clock_resolution_millis))]
  case hf =>
    intro x st
    obtain ⟨s0, rt, ns, resc, left⟩ := st
    simp only [popBody]
    cases hq : s0.query_heap with
    | nil => simp
    | cons v rest =>
      simp only [List.isEmpty_cons, Bool.false_eq_true, if_false, PyList.first, PyHeap.pop]
      cases s0.store.get v with
      | error e => rfl
      | ok o =>
        simp only []
        cases o.cancelled with
        | true => simp
        | false =>
          simp only [Bool.false_eq_true, if_false, decide_eq_true_eq]
          split
          · rfl
          · cases PyDict.delItem strEq s0.next_scheduled_for_alias o.alias <;> rfl
  rw [List.length_range, h.resolution, Int.add_zero]
  rw [h.heap] at hpop
  obtain ⟨objs, rem, d', hit, h1, h2, h3, h4, h5, h6⟩ :=
    pop_loop now s s.query_heap s.next_scheduled_for_alias m.dict PySet.empty none [] r (s.query_heap.length + 1) (Nat.lt_succ_self _)
      hok.heapStored hok.dictWF h.dict hpop
  have hit' : iterM (popBody now) (s.query_heap.length + 1) (s, PySet.empty, none, [], false) = _ := hit
  simp only [hit', Bool.not_true, pyFuel_false, List.nil_append]
  clear hit hit'
  -- the rescue loop
  have hrel1 : Rel c { s with query_heap := rem, next_scheduled_for_alias := d' } { m with heap := r.2.1, dict := r.2.2, armed := none } :=
    ⟨h.sent, h2, h3, h.nextId, h.started, h.nextRun, h.earliest, h.minDelay, h.types, h.interval, h.resolution⟩
  have hok1 : StoreOk { s with query_heap := rem, next_scheduled_for_alias := d' } :=
    ⟨hok.fresh, fun i hi => hok.heapIds i (h6 i hi), fun i hi => hok.heapStored i (h6 i hi), h4⟩
  rw [forIn_congr_body (g := rescueBody now)]
  case hf => intro q st; simp only [rescueBody]; cases st.1.schedule_rescue_query q now 100 <;> rfl
  obtain ⟨s2, eff2, hfor, hr2, hok2, hloop2, hle2, hsend2⟩ :=
    rescue_loop now objs _ _ [] (rescueBody now)
      (by intro q st; simp only [rescueBody]) hrel1 hok1 hl h5
  rw [List.nil_append] at hfor
  simp only [hfor]
  have hfold : (r.1.filterMap (fun o => rescueOf now o.q)).foldl schedule2 { m with heap := r.2.1, dict := r.2.2, armed := none }
      = (objs.map (fun p => toQ p.2)).foldl (rescueStep now) { m with heap := r.2.1, dict := r.2.2, armed := none } := by
    rw [foldl_rescue, h1, List.map_map]
    rfl
  rw [hfold]
  have hne : rem ≠ [] →
      ((objs.map (fun p => toQ p.2)).foldl (rescueStep now) { m with heap := r.2.1, dict := r.2.2, armed := none }).heap ≠ [] := by
    intro hrem
    apply foldl_rescueStep_heap_ne
    show r.2.1 ≠ []
    rw [h2]
    simpa using hrem
  generalize (objs.map (fun p => toQ p.2)).foldl (rescueStep now) { m with heap := r.2.1, dict := r.2.2, armed := none } = m2
    at hr2 hne ⊢
  have hl2 : s2.loop.isSome := by rw [hloop2]; exact hl
  have hre : PySet.isEmpty (List.foldl (PySet.add strEq) PySet.empty (objs.map (fun x => x.2.name))) = objs.isEmpty := by
    rw [PySet.isEmpty_foldl_add]
    cases objs <;> rfl
  have hr1e : r.1.isEmpty = objs.isEmpty := by rw [h1]; cases objs <;> rfl
  obtain ⟨hrelF, hokF⟩ := ready_tail hr2 hok2 now
  have hloopF : s2.loop = s.loop := hloop2
  have hcl : ∀ w, QueryScheduler.arm_ready_types { s2 with earliest_next_run_millis := now + s2.min_time_between_queries_millis } w
      = .ok ({ s2 with earliest_next_run_millis := now + s2.min_time_between_queries_millis, next_run_millis := w, next_run := some () },
             [SEffect.callAt w Cb.ready]) := fun w => arm_ready_types_closed _ w hl2
  have hrt : List.foldl (PySet.add strEq) PySet.empty (objs.map (fun x => x.2.name)) = PySet.ofList strEq (r.1.map (fun x => x.q.name)) := by
    rw [h1, List.map_map]
    rfl
  have hsendF : ∀ W, sendsOf c (eff2 ++ [SEffect.callAt W Cb.ready]) = [] := by
    intro W; rw [sendsOf_append, hsend2]; rfl
  have hsendG : ∀ W rt, sendsOf c (eff2 ++ [SEffect.send false now rt] ++ [SEffect.callAt W Cb.ready])
      = [{ t := now, first := false, qtype := sendQtype c false, types := rt }] := by
    intro W rt; rw [sendsOf_append, sendsOf_append, hsend2]; rfl
  have harmF : ∀ xs, armedAfter clk none (xs ++ [SEffect.callAt (nextWhenGen s2 now) Cb.ready])
      = (armReady2 { m2 with earliest := Gen.Browser.next_time now c.minDelay } (nextWhen c (m2.heap.map (·.q)) now)).armed := by
    intro xs; rw [armedAfter_callAt, nextWhen_eq hr2 now]; rfl
  by_cases hq2 : s2.query_heap = []
  · have hrem : rem = [] := by
      apply Classical.byContradiction
      intro hx
      have := hne hx
      rw [hr2.heap, hq2] at this
      exact this rfl
    have hW : nextWhenGen s2 now = now + s2.min_time_between_queries_millis := by simp [nextWhenGen, hq2]
    have hie : s2.query_heap.isEmpty = true := by rw [hq2]; rfl
    rw [hW] at hrelF hokF
    simp only [hW] at harmF
    subst hrem
    cases hoe : objs.isEmpty with
    | true =>
      rw [hoe] at hre hr1e
      simp only [hie, Bool.not_true, Bool.false_eq_true, if_false, hre, Option.isNone_none, if_true,
        arm_ready_types_closed, hl2, hr1e]
      exact ⟨_, _, _, _, rfl, rfl, hrelF, hokF, hloopF, harmF _, hsendF _⟩
    | false =>
      rw [hoe] at hre hr1e
      simp only [hie, Bool.not_true, Bool.not_false, Bool.false_eq_true, if_false, hre, Option.isNone_none, if_true,
        arm_ready_types_closed, hl2, hr1e]
      refine ⟨_, _, _, _, rfl, rfl, hrelF, hokF, hloopF, harmF _, ?_⟩
      rw [hsendG, hrt]
      rfl
  · obtain ⟨w, rest2, hq2'⟩ := List.exists_cons_of_ne_nil hq2
    obtain ⟨ow, how⟩ := Option.isSome_iff_exists.1 (hok2.heapStored w (by rw [hq2']; exact List.mem_cons_self ..))
    have hgetw : PyStore.get s2.store w = .ok ow := by simp [PyStore.get, how]
    have hie : s2.query_heap.isEmpty = false := by rw [hq2']; rfl
    have hfirst : PyList.first s2.query_heap = .ok w := by rw [hq2']; rfl
    by_cases hgt : ow.when_millis > now + s2.min_time_between_queries_millis
    · have hW : nextWhenGen s2 now = ow.when_millis := by simp [nextWhenGen, hq2', PyStore.getD, how, hgt]
      rw [hW] at hrelF hokF
      simp only [hW] at harmF
      cases hoe : objs.isEmpty with
      | true =>
        rw [hoe] at hre hr1e
        simp only [hie, hfirst, Bool.not_true, Bool.not_false, Bool.false_eq_true, if_false, hre, Option.isNone_some, if_true, pyUnwrap, hgetw,
          hgt, decide_true, arm_ready_types_closed, hl2, hr1e]
        exact ⟨_, _, _, _, rfl, rfl, hrelF, hokF, hloopF, harmF _, hsendF _⟩
      | false =>
        rw [hoe] at hre hr1e
        simp only [hie, hfirst, Bool.not_true, Bool.not_false, Bool.false_eq_true, if_false, hre, Option.isNone_some, if_true, pyUnwrap, hgetw,
          hgt, decide_true, arm_ready_types_closed, hl2, hr1e]
        refine ⟨_, _, _, _, rfl, rfl, hrelF, hokF, hloopF, harmF _, ?_⟩
        rw [hsendG, hrt]
        rfl
    · have hW : nextWhenGen s2 now = now + s2.min_time_between_queries_millis := by simp [nextWhenGen, hq2', PyStore.getD, how, hgt]
      rw [hW] at hrelF hokF
      simp only [hW] at harmF
      cases hoe : objs.isEmpty with
      | true =>
        rw [hoe] at hre hr1e
        simp only [hie, hfirst, Bool.not_true, Bool.not_false, Bool.false_eq_true, if_false, hre, Option.isNone_some, if_true, pyUnwrap, hgetw,
          hgt, decide_false, arm_ready_types_closed, hl2, hr1e]
        exact ⟨_, _, _, _, rfl, rfl, hrelF, hokF, hloopF, harmF _, hsendF _⟩
      | false =>
        rw [hoe] at hre hr1e
        simp only [hie, hfirst, Bool.not_true, Bool.not_false, Bool.false_eq_true, if_false, hre, Option.isNone_some, if_true, pyUnwrap, hgetw,
          hgt, decide_false, arm_ready_types_closed, hl2, hr1e]
        refine ⟨_, _, _, _, rfl, rfl, hrelF, hokF, hloopF, harmF _, ?_⟩
        rw [hsendG, hrt]
        rfl

/-- with `zc.done` set the callback does nothing (the model: `fireReady2 … true = ({ m with armed := none }, [])`, the fired timer
is simply not re-armed) -/
theorem process_ready_types_done (s : QueryScheduler) (now : Int) : s.process_ready_types true now = .ok (s, []) := by
  unfold QueryScheduler.process_ready_types
  simp [bind, Except.bind, pure, Except.pure]

end Zc.GenFacts.FnSched
