import Zc.Gen.Const
import Zc.Gen.Send
/-! Facts about the generated leaf of `Zeroconf.async_send` (`_core.py`) that C14 relies on (DESIGN §2.2). -/
namespace Zc.GenFacts.Send
open Zc.Gen Zc.Gen.Send

/-- the send path drops a datagram exactly when it is longer than 8966 bytes — a datagram of exactly 8966 bytes, which
the builder may legitimately produce for a single entry, is sent.  (With the guard `>=` this lemma fails at 8966.) -/
theorem send_drops_iff (n : Nat) : send_drops n = true ↔ 8966 < n := by
  simp [send_drops]

end Zc.GenFacts.Send
