import Zc.Model.Link
/-! The timing parameters computed from today's source constants are the numbers of the English property
(DESIGN §7 C07: 350/575/800 ms announcements, 125 ms goodbyes, 20–120 ms first query, +1 s/+5 s/+14 s start-up
queries, 999 ms duplicate-question window, answers within 1200 ms). -/
namespace Zc.GenFacts.Link
open Zc.Link

theorem cfg_gen_eq : Cfg.gen = Cfg.paper := by decide

end Zc.GenFacts.Link
