import Zc.Model.Link
import Zc.Model.LinkBridge
/-! The timing parameters computed from today's source constants are the numbers of the English property
(DESIGN §7 C07: 350/575/800 ms announcements, 125 ms goodbyes, 20–120 ms first query, +1 s/+5 s/+14 s start-up
queries, 999 ms duplicate-question window, answers within 1200 ms). -/
namespace Zc.GenFacts.Link
open Zc.Link

theorem cfg_gen_eq : Cfg.gen = Cfg.paper := by decide

/-! ### routes: what a host sends on its own initiative goes to the multicast group

`_async_broadcast_service`, `async_unregister_all_services` and `MulticastOutgoingQueue.async_ready` call `async_send` with the
packet alone; `async_send`'s `addr` defaults to `None`; `async_send_with_transport` sends a datagram without address to the group. -/

theorem mcastCall_broadcast : Zc.Bridge.mcastCall Gen.Link.broadcast_send_nargs = true := by decide
theorem mcastCall_unregister_all : Zc.Bridge.mcastCall Gen.Link.unregister_all_send_nargs = true := by decide
theorem mcastCall_queue_ready : Zc.Bridge.mcastCall Gen.Link.queue_ready_send_nargs = true := by decide

/-- the blocks of the C08/C09 machine that send on the host's own initiative send to the multicast group -/
theorem dstOf_task (oid : Nat) (ttl : Option Nat) (ad : Bool) (due : Int) (x : Option Nat) :
    Zc.Bridge.dstOf (.task oid ttl ad due) x = none := by
  simp only [Zc.Bridge.dstOf, mcastCall_broadcast, if_true]
theorem dstOf_unregisterAll (now : Int) (x : Option Nat) : Zc.Bridge.dstOf (.unregisterAll now) x = none := by
  simp only [Zc.Bridge.dstOf, mcastCall_unregister_all, if_true]
theorem dstOf_allStep (due : Int) (x : Option Nat) : Zc.Bridge.dstOf (.allStep due) x = none := by
  simp only [Zc.Bridge.dstOf, mcastCall_unregister_all, if_true]
theorem dstOf_ready (d : Bool) (now : Int) (x : Option Nat) : Zc.Bridge.dstOf (.ready d now) x = none := by
  simp only [Zc.Bridge.dstOf, mcastCall_queue_ready, if_true]

end Zc.GenFacts.Link
