import Zc.GenFn.Listener
import Zc.Model.Listener
/-! # `_listener.py`: the deferral of truncated queries as translated statement by statement  =  `Model/Listener.lean`

`Zc.GenFn.Listener` is regenerated from the bodies of `AsyncListener.handle_query_or_defer`, `_cancel_any_timers_for_addr` and
`_respond_query` on every run.  `random.randint` and `loop.time()` are parameters; `loop.call_at(…)`, `handle.cancel()` and
`query_handler.handle_assembled_query(packets, addr, port, …)` are returned effects (`LEffect`).  A message is the pair of what the
listener looks at (`MsgInfo`) and the packet handed on (`Packet`); the model keeps the packets.

`Rel s st`: the two dicts of the generated listener are the model's association lists (`_deferred` with its messages' packets), and
both are dicts (`PyDict.WF`). -/
namespace Zc.GenFacts.FnListener
open Zc Zc.Py Zc.Listener Zc.GenFn.Listener

set_option linter.unusedSimpArgs false

abbrev Msg := MsgInfo × Packet

/-- the model's `_deferred`: the packets of the deferred messages -/
def absD (d : PyDict String (List Msg)) : List (Addr × List Packet) := d.map (fun e => (e.1, e.2.map Prod.snd))

structure Rel {σ : Type} (s : AsyncListener) (st : State σ) : Prop where
  deferred : st.deferred = absD s.deferred
  timers : st.timers = s.timers
  wfD : PyDict.WF strEq s.deferred
  wfT : PyDict.WF strEq s.timers

/-! ### the model's association-list helpers are the runtime's dict operations -/

theorem alGet_eq {α : Type} (k : Addr) (l : List (Addr × α)) : alGet k l = PyDict.get? strEq l k := by
  induction l with
  | nil => rfl
  | cons x r ih =>
    obtain ⟨k', v⟩ := x
    simp only [alGet, PyDict.get?, strEq, decide_eq_true_eq, ih]

theorem alSet_eq {α : Type} (k : Addr) (v : α) (l : List (Addr × α)) : alSet k v l = PyDict.set strEq l k v := by
  induction l with
  | nil => rfl
  | cons x r ih =>
    obtain ⟨k', v'⟩ := x
    simp only [alSet, PyDict.set, strEq, decide_eq_true_eq, ih]
    split
    · next h => rw [h]
    · rfl

theorem alErase_eq {α : Type} (k : Addr) {l : List (Addr × α)} (h : PyDict.WF strEq l) : alErase k l = PyDict.erase strEq l k := by
  rw [PyDict.erase_eq_filter strEq_keyEq h]
  unfold alErase
  congr 1
  funext p
  simp [strEq]

theorem erase_of_none {α : Type} (l : PyDict String α) (k : String) (h : PyDict.get? strEq l k = none) : PyDict.erase strEq l k = l := by
  induction l with
  | nil => rfl
  | cons x r ih =>
    obtain ⟨k', v⟩ := x
    rw [PyDict.get?_cons] at h
    rw [PyDict.erase_cons]
    by_cases hk : strEq k' k = true
    · simp [hk] at h
    · simp only [hk, Bool.false_eq_true, if_false] at h ⊢
      rw [ih h]

theorem get?_absD (d : PyDict String (List Msg)) (k : String) :
    PyDict.get? strEq (absD d) k = (PyDict.get? strEq d k).map (fun l => l.map Prod.snd) := by
  unfold absD
  induction d with
  | nil => rfl
  | cons x r ih =>
    obtain ⟨k', v⟩ := x
    simp only [List.map_cons, PyDict.get?_cons, ih]
    split <;> rfl

theorem erase_absD (d : PyDict String (List Msg)) (k : String) : PyDict.erase strEq (absD d) k = absD (PyDict.erase strEq d k) := by
  unfold absD
  induction d with
  | nil => rfl
  | cons x r ih =>
    obtain ⟨k', v⟩ := x
    simp only [List.map_cons, PyDict.erase_cons]
    split
    · rfl
    · rw [List.map_cons, ih]

theorem set_absD (d : PyDict String (List Msg)) (k : String) (v : List Msg) :
    PyDict.set strEq (absD d) k (v.map Prod.snd) = absD (PyDict.set strEq d k v) := by
  unfold absD
  induction d with
  | nil => rfl
  | cons x r ih =>
    obtain ⟨k', v'⟩ := x
    simp only [List.map_cons, PyDict.set_cons]
    split
    · rfl
    · rw [List.map_cons, ih]

theorem wf_absD {d : PyDict String (List Msg)} (h : PyDict.WF strEq d) : PyDict.WF strEq (absD d) := by
  unfold absD PyDict.WF at *
  rw [List.pairwise_map]
  exact h

/-! ### `_cancel_any_timers_for_addr` -/

theorem cancel_closed (s : AsyncListener) (addr : String) :
    s.cancel_any_timers_for_addr addr
      = .ok ({ s with timers := PyDict.erase strEq s.timers addr }, ((PyDict.get? strEq s.timers addr).toList.map LEffect.cancel)) := by
  unfold AsyncListener.cancel_any_timers_for_addr
  cases hg : PyDict.get? strEq s.timers addr with
  | none => simp [PyDict.contains, hg, erase_of_none _ _ hg, pure, Except.pure]
  | some h => simp [PyDict.contains, PyDict.pop, hg, bind, Except.bind, pure, Except.pure]

/-! ### `_respond_query` -/

theorem respond_closed (s : AsyncListener) (msg : Option Msg) (addr : String) (port : Nat) :
    s.respond_query msg addr port () ()
      = .ok ({ s with timers := PyDict.erase strEq s.timers addr, deferred := PyDict.erase strEq s.deferred addr },
             (PyDict.get? strEq s.timers addr).toList.map LEffect.cancel
               ++ [LEffect.assembled ((PyDict.get? strEq s.deferred addr).getD [] ++ msg.toList) addr port]) := by
  unfold AsyncListener.respond_query
  simp only [cancel_closed, bind, Except.bind, pure, Except.pure, PyDict.popD, List.nil_append]
  cases msg <;> simp

/-- what `handle_assembled_query(packets, addr, port, …)` is in the model: the downstream handler on the packets (`packets[0]` of an
empty list is the `IndexError` of the model) -/
def runAssembled {σ ω β : Type} (H : Handler σ ω β) (st : State σ) (packets : List Packet) (addr : Addr) (port : Nat) :
    Except PyExc (State σ × List ω × Tag) :=
  match packets with
  | [] => .error .indexError
  | _ :: _ =>
    let (d, out) := H.onQuery st.down packets addr port
    .ok ({ st with down := d }, out, .responded packets.length)

/-- **`_respond_query`** is the model's `respond`: the same timer cancelled, the same packets popped and handed on (the hand-over is the
returned `assembled` effect, run by `runAssembled`) -/
theorem respond_query_eq {σ ω β : Type} (H : Handler σ ω β) {s : AsyncListener} {st : State σ} (h : Rel s st)
    (msg : Option Msg) (addr : String) (port : Nat) :
    ∃ s' pk, s.respond_query msg addr port () ()
        = .ok (s', (PyDict.get? strEq s.timers addr).toList.map LEffect.cancel ++ [LEffect.assembled pk addr port])
      ∧ Rel s' { st with timers := alErase addr st.timers, deferred := alErase addr st.deferred }
      ∧ respond H st (msg.map Prod.snd) addr port
          = runAssembled H { st with timers := alErase addr st.timers, deferred := alErase addr st.deferred } (pk.map Prod.snd) addr port := by
  rw [respond_closed]
  refine ⟨_, _, rfl, ?_, ?_⟩
  · refine ⟨?_, ?_, PyDict.WF_erase h.wfD _, PyDict.WF_erase h.wfT _⟩
    · show alErase addr st.deferred = absD (PyDict.erase strEq s.deferred addr)
      rw [h.deferred, alErase_eq addr (wf_absD h.wfD), erase_absD]
    · show alErase addr st.timers = PyDict.erase strEq s.timers addr
      rw [h.timers, alErase_eq addr h.wfT]
  · unfold respond runAssembled
    have hp : (alGet addr st.deferred).getD [] ++ (msg.map Prod.snd).toList
        = ((PyDict.get? strEq s.deferred addr).getD [] ++ msg.toList).map Prod.snd := by
      rw [alGet_eq, h.deferred, get?_absD, List.map_append]
      cases PyDict.get? strEq s.deferred addr <;> cases msg <;> rfl
    simp only [hp]
    generalize List.map Prod.snd ((PyDict.get? strEq s.deferred addr).getD [] ++ msg.toList) = l
    cases l <;> rfl

/-! ### `handle_query_or_defer` -/

theorem any_of_find_reverse {α : Type} (p : α → Bool) (l : List α) : (l.reverse.find? p).isSome = l.any p := by
  apply Bool.eq_iff_iff.2
  rw [List.find?_isSome, List.any_eq_true]
  constructor
  · rintro ⟨x, hx, hp⟩
    exact ⟨x, List.mem_reverse.1 hx, hp⟩
  · rintro ⟨x, hx, hp⟩
    exact ⟨x, List.mem_reverse.2 hx, hp⟩

/-- closed form of `handle_query_or_defer` for a truncated message -/
theorem defer_closed (s : AsyncListener) (m : MsgInfo) (pkt : Packet) (addr : String) (port : Nat) (rr : Int → Int → Int) (lt : Int)
    (ht : m.truncated = true) :
    s.handle_query_or_defer (m, pkt) addr port () () rr lt =
      if ((PyDict.get? strEq s.deferred addr).getD []).any (fun x => decide (x.2.data = pkt.data)) then
        .ok ({ s with deferred := (PyDict.setdefault strEq s.deferred addr []).2 }, [])
      else
        .ok ({ s with deferred := PyDict.set strEq (PyDict.setdefault strEq s.deferred addr []).2 addr
                                    ((PyDict.get? strEq s.deferred addr).getD [] ++ [(m, pkt)]),
                      timers := PyDict.set strEq (PyDict.erase strEq s.timers addr) addr ⟨lt + rr 400 500, port⟩ },
             (PyDict.get? strEq s.timers addr).toList.map LEffect.cancel ++ [LEffect.callAt (lt + rr 400 500) addr port]) := by
  unfold AsyncListener.handle_query_or_defer
  simp only [ht, Bool.not_true, Bool.false_eq_true, if_false]
  rw [forIn_except_first _ _ _ (fun x => pure (decide (x.2.data = pkt.data)))
    (fun _ => (some ({ s with deferred := (PyDict.setdefault strEq s.deferred addr []).2 }, []), ())) ?hf]
  case hf =>
    intro x
    cases decide (x.2.data = pkt.data) <;> rfl
  rw [firstM_of_ok (fun (x : Msg) => (pure (decide (x.2.data = pkt.data)) : Except PyExc Bool)) (fun x => decide (x.2.data = pkt.data)) _ (fun _ _ => rfl)]
  rw [← any_of_find_reverse, PyDict.setdefault_fst]
  cases hfind : List.find? (fun x => decide (x.2.data = pkt.data)) ((PyDict.get? strEq s.deferred addr).getD []).reverse with
  | some x => simp [Except.map, bind, Except.bind, pure, Except.pure]
  | none =>
    simp only [Except.map, bind, Except.bind, pure, Except.pure, Option.isSome_none, Bool.false_eq_true, if_false, pyAssert_true,
      cancel_closed, List.nil_append]

theorem setdefault_snd_of_some {α : Type} (d : PyDict String α) (k : String) (v v' : α) (h : PyDict.get? strEq d k = some v') :
    (PyDict.setdefault strEq d k v).2 = d := by
  unfold PyDict.setdefault
  rw [h]

theorem set_setdefault_nil (d : PyDict String (List Msg)) (k : String) (v : List Msg) :
    PyDict.set strEq (PyDict.setdefault strEq d k []).2 k v = PyDict.set strEq d k v := by
  unfold PyDict.setdefault
  cases hg : PyDict.get? strEq d k with
  | some x => rfl
  | none =>
    simp only
    induction d with
    | nil => simp [PyDict.set, strEq]
    | cons x r ih =>
      obtain ⟨k', v'⟩ := x
      rw [PyDict.get?_cons] at hg
      by_cases hk : strEq k' k = true
      · simp [hk] at hg
      · simp only [hk, Bool.false_eq_true, if_false] at hg
        simp only [List.cons_append, PyDict.set_cons, hk, Bool.false_eq_true, if_false, ih hg]

/-- **`handle_query_or_defer`, truncated message** is the model's `queryOrDefer`: the same packet is ignored, otherwise it is stored behind
the address's deferred packets and the address's timer is replaced by one `draw` ms ahead (`draw` the `randint(400, 500)` result, the
loop time the message's `now`), with nothing handed to the query handler -/
theorem defer_eq {σ ω β : Type} (H : Handler σ ω β) {s : AsyncListener} {st : State σ} (h : Rel s st)
    (m : MsgInfo) (pkt : Packet) (addr : String) (port : Nat) (rr : Int → Int → Int) (lt : Int) (draw : Nat)
    (ht : m.truncated = true) (hdraw : rr 400 500 = (draw : Int)) (hlt : lt = pkt.now) :
    ∃ s' effs, s.handle_query_or_defer (m, pkt) addr port () () rr lt = .ok (s', effs)
      ∧ Rel s' (queryOrDefer H st m pkt addr port draw).1
      ∧ (queryOrDefer H st m pkt addr port draw).2.1 = []
      ∧ (((queryOrDefer H st m pkt addr port draw).2.2 = .deferredSame ∧ effs = [])
         ∨ ((queryOrDefer H st m pkt addr port draw).2.2 = .deferred (pkt.now + draw)
            ∧ effs = (PyDict.get? strEq s.timers addr).toList.map LEffect.cancel ++ [LEffect.callAt (pkt.now + draw) addr port])) := by
  rw [defer_closed s m pkt addr port rr lt ht, hdraw, hlt]
  unfold queryOrDefer
  simp only [ht, Bool.not_true, Bool.false_eq_true, if_false, Gen.Listener.deferred_same_packet]
  have hcur : (alGet addr st.deferred).getD [] = ((PyDict.get? strEq s.deferred addr).getD []).map Prod.snd := by
    rw [alGet_eq, h.deferred, get?_absD]
    cases PyDict.get? strEq s.deferred addr <;> rfl
  have hany : ((alGet addr st.deferred).getD []).any (fun p => p.data == pkt.data)
      = ((PyDict.get? strEq s.deferred addr).getD []).any (fun x => decide (x.2.data = pkt.data)) := by
    rw [hcur, List.any_map]
    congr 1
    funext x
    simp only [Function.comp]
    by_cases hx : x.2.data = pkt.data <;> simp [hx]
  simp only [hany]
  cases hfound : ((PyDict.get? strEq s.deferred addr).getD []).any (fun x => decide (x.2.data = pkt.data)) with
  | true =>
    simp only [if_true]
    -- a packet matched: the address has an entry already, `setdefault` changes nothing
    have hsome : ∃ v, PyDict.get? strEq s.deferred addr = some v := by
      cases hg : PyDict.get? strEq s.deferred addr with
      | none => simp [hg] at hfound
      | some v => exact ⟨v, rfl⟩
    obtain ⟨v, hv⟩ := hsome
    refine ⟨_, _, rfl, ?_, by simp, by simp⟩
    rw [setdefault_snd_of_some _ _ _ _ hv]
    exact h
  | false =>
    simp only [Bool.false_eq_true, if_false]
    refine ⟨_, _, rfl, ?_, by simp, by simp⟩
    refine ⟨?_, ?_, ?_, ?_⟩
    · show alSet addr ((alGet addr st.deferred).getD [] ++ [pkt]) st.deferred = absD _
      rw [set_setdefault_nil, ← set_absD, alSet_eq, hcur, h.deferred, List.map_append]
      rfl
    · show alErase addr st.timers ++ [(addr, ⟨pkt.now + draw, port⟩)] = PyDict.set strEq (PyDict.erase strEq s.timers addr) addr _
      rw [h.timers, alErase_eq addr h.wfT,
        PyDict.set_of_not_contains (PyDict.contains_erase_self strEq_keyEq h.wfT addr)]
    · rw [set_setdefault_nil]
      exact PyDict.WF_set h.wfD _ _
    · exact PyDict.WF_set (PyDict.WF_erase h.wfT _) _ _

/-- **`handle_query_or_defer`, complete message**: it is `_respond_query(msg, …)`, the model's `respondMsg` -/
theorem direct_eq {σ ω β : Type} (H : Handler σ ω β) (s : AsyncListener) (st : State σ)
    (m : MsgInfo) (pkt : Packet) (addr : String) (port : Nat) (rr : Int → Int → Int) (lt : Int) (draw : Nat) (ht : m.truncated = false) :
    s.handle_query_or_defer (m, pkt) addr port () () rr lt = s.respond_query (some (m, pkt)) addr port () ()
    ∧ queryOrDefer H st m pkt addr port draw = respondMsg H st pkt addr port
    ∧ respond H st (some pkt) addr port = .ok (respondMsg H st pkt addr port) := by
  refine ⟨?_, ?_, ?_⟩
  · unfold AsyncListener.handle_query_or_defer
    simp only [ht, Bool.not_false, if_true, bind, Except.bind, pure, Except.pure, List.nil_append]
    cases s.respond_query (some (m, pkt)) addr port () () <;> rfl
  · unfold queryOrDefer
    simp [ht]
  · unfold respond respondMsg
    simp only [Option.toList]
    cases (alGet addr st.deferred).getD [] <;> rfl

end Zc.GenFacts.FnListener
