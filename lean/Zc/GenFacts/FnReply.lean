import Zc.GenFn.Reply
import Zc.GenFacts.FnDict
/-! # `_handlers/query_handler.py::_QueryResponse` as translated statement by statement  =  the `Reply` model's classification (C11)

`Zc.GenFn.Reply` is regenerated from the bodies of `_QueryResponse`'s methods on every run.  Records are the model's numbers;
`self._get_unique_ignoring_scope(record)` is a parameter (`seenFn : Nat → Option Rec`), the model's `SeenMap` (`Seen r m`: what the
function returns is what the map holds — creation time and TTL of the cached copy).  The generated object and the model's `QR` hold the
same data (`absQ`); the model's `Dict` / `setAdd` operations are the runtime's on well-formed dicts (`FnDict`).

Invariant `QInv`: `_additionals` is a dict, and every record in one of the four sets is a key of `_additionals` (so `answers()` never
raises `KeyError`); established by `__init__`, preserved by the three `add_*` methods. -/
namespace Zc.GenFacts.FnReply
open Zc Zc.Py Zc.Reply Zc.GenFn.Reply Zc.GenFacts.FnDict

set_option linter.unusedSimpArgs false

/-- the model's view of a `_QueryResponse` -/
def absQ (s : QueryResponse) : QR :=
  { additionals := s.additionals, ucast := s.ucast, mcastNow := s.mcast_now, mcastAgg := s.mcast_aggregate,
    mcastLast := s.mcast_aggregate_last_second }

/-- the look-up function is the model's map -/
def SeenRel (seenFn : Nat → Option Rec) (seen : SeenMap) : Prop :=
  ∀ r, (seenFn r).map (fun e => ({ created := e.created, ttl := e.ttl } : Seen)) = seen.get r

structure QInv (s : QueryResponse) : Prop where
  wf : PyDict.WF natEq s.additionals
  cover : ∀ r, (r ∈ s.ucast ∨ r ∈ s.mcast_now ∨ r ∈ s.mcast_aggregate ∨ r ∈ s.mcast_aggregate_last_second) →
    PyDict.contains natEq s.additionals r = true

theorem init_inv (cache : Unit) (qs : List Question) (p : Bool) (now : Int) : QInv (QueryResponse.init cache qs p now) :=
  ⟨PyDict.WF_nil, fun r h => by rcases h with h | h | h | h <;> cases h⟩

theorem init_abs (cache : Unit) (qs : List Question) (p : Bool) (now : Int) : absQ (QueryResponse.init cache qs p now) = {} := rfl

/-! ### the two cache tests -/

/-- **`_has_mcast_within_one_quarter_ttl`** is the model's `withinQuarter` of what the look-up returned -/
theorem within_eq (s : QueryResponse) (r : Nat) {seenFn : Nat → Option Rec} {seen : SeenMap} (hs : SeenRel seenFn seen) :
    s.has_mcast_within_one_quarter_ttl r seenFn = .ok (withinQuarter (seen.get r) s.now) := by
  unfold QueryResponse.has_mcast_within_one_quarter_ttl withinQuarter
  rw [← hs r]
  cases seenFn r with
  | none => rfl
  | some e => simp [pyUnwrap, bind, Except.bind, pure, Except.pure, Gen.Reply.has_mcast_within_one_quarter_ttl, Rec.isRecent]

/-- **`_has_mcast_record_in_last_second`** is the model's `inLastSecond` -/
theorem last_second_eq (s : QueryResponse) (r : Nat) {seenFn : Nat → Option Rec} {seen : SeenMap} (hs : SeenRel seenFn seen) :
    s.has_mcast_record_in_last_second r seenFn = .ok (inLastSecond (seen.get r) s.now) := by
  unfold QueryResponse.has_mcast_record_in_last_second inLastSecond
  rw [← hs r]
  cases seenFn r with
  | none => rfl
  | some e => simp [pyUnwrap, bind, Except.bind, pure, Except.pure, Gen.Reply.has_mcast_record_in_last_second]

/-! ### sets -/

theorem setAdd_eq (l : List RecId) (k : RecId) : setAdd l k = PySet.add natEq l k := by
  unfold setAdd PySet.add PySet.contains
  have : l.contains k = l.any (fun y => natEq y k) := by
    induction l with
    | nil => rfl
    | cons y t ih =>
      simp only [List.contains_cons, List.any_cons, ih, natEq]
      congr 1
      exact Bool.eq_iff_iff.2 ⟨fun h => by simpa using (beq_iff_eq.1 h).symm, fun h => by simpa using (beq_iff_eq.1 h).symm⟩
  rw [this]

theorem mem_add (l : List RecId) (k r : RecId) : r ∈ PySet.add natEq l k ↔ r ∈ l ∨ r = k := by
  unfold PySet.add
  cases hc : PySet.contains natEq l k with
  | true =>
    simp only [if_true]
    constructor
    · exact Or.inl
    · rintro (h | h)
      · exact h
      · subst h
        simp only [PySet.contains, List.any_eq_true, natEq, beq_iff_eq] at hc
        obtain ⟨y, hy, rfl⟩ := hc
        exact hy
  | false => simp

/-! ### `add_qu_question_response` -/

/-- one round of the loop of `add_qu_question_response` (`w`: the record was multicast within a quarter of its TTL) -/
def quStepG (w : Bool) (s : QueryResponse) (e : Nat × PySet Nat) : QueryResponse :=
  let s1 : QueryResponse := { s with additionals := PyDict.set natEq s.additionals e.1 e.2 }
  let s2 : QueryResponse := if s1.is_probe then { s1 with ucast := PySet.add natEq s1.ucast e.1 } else s1
  if !w then { s2 with mcast_now := PySet.add natEq s2.mcast_now e.1 }
  else if !s2.is_probe then { s2 with ucast := PySet.add natEq s2.ucast e.1 } else s2

theorem add_qu_closed (s : QueryResponse) (answers : PyDict Nat (PySet Nat)) {seenFn : Nat → Option Rec} {seen : SeenMap}
    (hs : SeenRel seenFn seen) :
    s.add_qu_question_response answers seenFn
      = .ok (answers.foldl (fun s e => quStepG (withinQuarter (seen.get e.1) s.now) s e) s) := by
  unfold QueryResponse.add_qu_question_response
  simp only [bind, Except.bind, pure, Except.pure, PyDict.items]
  rw [forIn_ok_yield _ _ _ (fun s e => quStepG (withinQuarter (seen.get e.1) s.now) s e)]
  intro x b
  obtain ⟨r, adds⟩ := x
  simp only [within_eq _ _ hs, quStepG]
  cases b.is_probe <;> cases withinQuarter (seen.get r) b.now <;> rfl

/-- the model's round -/
def quStepM (isProbe : Bool) (seen : SeenMap) (now : Int) (qr : QR) (e : RecId × List RecId) : QR :=
  let (u, m) := quRoute isProbe (withinQuarter (seen.get e.1) now)
  { qr with additionals := qr.additionals.set e.1 e.2
            ucast := if u then setAdd qr.ucast e.1 else qr.ucast
            mcastNow := if m then setAdd qr.mcastNow e.1 else qr.mcastNow }

theorem quStepG_fields (w : Bool) (s : QueryResponse) (e : Nat × PySet Nat) :
    (quStepG w s e).is_probe = s.is_probe ∧ (quStepG w s e).now = s.now ∧ (quStepG w s e).questions = s.questions := by
  unfold quStepG
  dsimp only
  cases hp : s.is_probe <;> cases w <;> simp [hp]

theorem contains_set_of {d : PyDict Nat (PySet Nat)} (k : Nat) (v : PySet Nat) (r : Nat)
    (hr : PyDict.contains natEq d r = true ∨ r = k) : PyDict.contains natEq (PyDict.set natEq d k v) r = true := by
  unfold PyDict.contains at hr ⊢
  rw [PyDict.get?_set natEq_keyEq]
  by_cases h : natEq k r = true
  · simp [h]
  · rcases hr with hr | hr
    · simpa [h] using hr
    · subst hr; simp [natEq] at h

theorem quStepG_abs (s : QueryResponse) (e : Nat × PySet Nat) (seen : SeenMap) (hi : QInv s) :
    absQ (quStepG (withinQuarter (seen.get e.1) s.now) s e) = quStepM s.is_probe seen s.now (absQ s) e := by
  have hset := dict_set_eq s.additionals e.1 e.2 hi.wf
  unfold quStepG quStepM quRoute
  simp only [Gen.Reply.qu_test_probe, Gen.Reply.qu_test_mcast_now, Gen.Reply.qu_test_ucast, absQ, setAdd_eq, hset]
  cases hp : s.is_probe <;> cases hw : withinQuarter (seen.get e.1) s.now <;> simp [hp, hw]

theorem quStepG_inv (w : Bool) (s : QueryResponse) (e : Nat × PySet Nat) (hi : QInv s) : QInv (quStepG w s e) := by
  have hwf := PyDict.WF_set hi.wf e.1 e.2
  unfold quStepG
  dsimp only
  cases hp : s.is_probe <;> cases w <;>
    simp only [hp, Bool.not_true, Bool.not_false, Bool.false_eq_true, if_true, if_false] <;>
    refine ⟨hwf, ?_⟩ <;>
    intro r hr <;> apply contains_set_of <;> simp only [mem_add] at hr <;>
    rcases hr with hr | hr | hr | hr <;>
    first
      | exact Or.inl (hi.cover r (Or.inl hr))
      | exact Or.inl (hi.cover r (Or.inr (Or.inl hr)))
      | exact Or.inl (hi.cover r (Or.inr (Or.inr (Or.inl hr))))
      | exact Or.inl (hi.cover r (Or.inr (Or.inr (Or.inr hr))))
      | (rcases hr with hr | hr
         · first
             | exact Or.inl (hi.cover r (Or.inl hr))
             | exact Or.inl (hi.cover r (Or.inr (Or.inl hr)))
         · exact Or.inr hr)

/-- **`add_qu_question_response`** is the model's `QR.addQu` -/
theorem add_qu_eq (s : QueryResponse) (answers : PyDict Nat (PySet Nat)) {seenFn : Nat → Option Rec} {seen : SeenMap}
    (hs : SeenRel seenFn seen) (hi : QInv s) :
    ∃ s', s.add_qu_question_response answers seenFn = .ok s'
      ∧ absQ s' = QR.addQu s.is_probe seen s.now (absQ s) answers ∧ QInv s'
      ∧ s'.is_probe = s.is_probe ∧ s'.now = s.now ∧ s'.questions = s.questions := by
  rw [add_qu_closed s answers hs]
  refine ⟨_, rfl, ?_⟩
  unfold QR.addQu
  induction answers generalizing s with
  | nil => exact ⟨rfl, hi, rfl, rfl, rfl⟩
  | cons e r ih =>
    rw [List.foldl_cons, List.foldl_cons]
    obtain ⟨f1, f2, f3⟩ := quStepG_fields (withinQuarter (seen.get e.1) s.now) s e
    obtain ⟨g1, g2, g3, g4, g5⟩ := ih (quStepG (withinQuarter (seen.get e.1) s.now) s e) (quStepG_inv _ s e hi)
    rw [f1, f2, quStepG_abs s e seen hi] at g1
    exact ⟨g1, g2, by rw [g3, f1], by rw [g4, f2], by rw [g5, f3]⟩

/-! ### `add_ucast_question_response` -/

theorem contains_update_of (d o : PyDict Nat (PySet Nat)) (r : Nat)
    (hr : PyDict.contains natEq d r = true ∨ r ∈ PyDict.keys o) : PyDict.contains natEq (PyDict.update natEq d o) r = true := by
  unfold PyDict.update
  induction o generalizing d with
  | nil =>
    rcases hr with hr | hr
    · exact hr
    · cases hr
  | cons e t ih =>
    rw [List.foldl_cons]
    apply ih
    rcases hr with hr | hr
    · exact Or.inl (contains_set_of _ _ _ (Or.inl hr))
    · simp only [PyDict.keys, List.map_cons, List.mem_cons] at hr
      rcases hr with hr | hr
      · exact Or.inl (contains_set_of _ _ _ (Or.inr hr))
      · exact Or.inr hr

theorem foldl_setAdd_eq (ks : List RecId) (l : List RecId) : ks.foldl setAdd l = ks.foldl (PySet.add natEq) l := by
  induction ks generalizing l with
  | nil => rfl
  | cons k t ih => rw [List.foldl_cons, List.foldl_cons, setAdd_eq, ih]

theorem mem_foldl_add (ks l : List RecId) (r : RecId) : r ∈ ks.foldl (PySet.add natEq) l ↔ r ∈ l ∨ r ∈ ks := by
  induction ks generalizing l with
  | nil => simp
  | cons k t ih =>
    rw [List.foldl_cons, ih, mem_add]
    simp only [List.mem_cons]
    constructor
    · rintro ((h | h) | h)
      · exact Or.inl h
      · exact Or.inr (Or.inl h)
      · exact Or.inr (Or.inr h)
    · rintro (h | h | h)
      · exact Or.inl (Or.inl h)
      · exact Or.inl (Or.inr h)
      · exact Or.inr h

/-- **`add_ucast_question_response`** is the model's `QR.addUcast` -/
theorem add_ucast_eq (s : QueryResponse) (answers : PyDict Nat (PySet Nat)) (hi : QInv s) :
    absQ (s.add_ucast_question_response answers) = QR.addUcast (absQ s) answers
    ∧ QInv (s.add_ucast_question_response answers)
    ∧ (s.add_ucast_question_response answers).is_probe = s.is_probe ∧ (s.add_ucast_question_response answers).now = s.now
    ∧ (s.add_ucast_question_response answers).questions = s.questions := by
  obtain ⟨hu, hwf⟩ := dict_update_eq s.additionals answers hi.wf
  unfold QueryResponse.add_ucast_question_response QR.addUcast
  simp only [Id.run, bind, pure]
  refine ⟨?_, ⟨hwf, ?_⟩, trivial, trivial, trivial⟩
  · simp only [absQ, hu, foldl_setAdd_eq]
    rfl
  · intro r hr
    apply contains_update_of
    simp only [mem_foldl_add] at hr
    rcases hr with (hr | hr) | hr | hr | hr
    · exact Or.inl (hi.cover r (Or.inl hr))
    · exact Or.inr hr
    · exact Or.inl (hi.cover r (Or.inr (Or.inl hr)))
    · exact Or.inl (hi.cover r (Or.inr (Or.inr (Or.inl hr))))
    · exact Or.inl (hi.cover r (Or.inr (Or.inr (Or.inr hr))))

/-! ### `add_mcast_question_response` -/

/-- `len(self._questions)` and the type of the first question (0 if none), as the model's packet carries them -/
def nqOf (s : QueryResponse) : Nat := s.questions.length
def q0typeOf (s : QueryResponse) : Nat := (s.questions.head?.map (·.type)).getD 0

/-- one round of the loop of `add_mcast_question_response` (`l`: the record was seen in the last second) -/
def mcStepG (l : Bool) (s : QueryResponse) (r : Nat) : QueryResponse :=
  if s.is_probe then { s with mcast_now := PySet.add natEq s.mcast_now r }
  else if l then { s with mcast_aggregate_last_second := PySet.add natEq s.mcast_aggregate_last_second r }
  else if decide (nqOf s = 1) && (decide (q0typeOf s = 47) || decide (q0typeOf s = 33) || decide (q0typeOf s = 1) || decide (q0typeOf s = 28)) then
    { s with mcast_now := PySet.add natEq s.mcast_now r }
  else { s with mcast_aggregate := PySet.add natEq s.mcast_aggregate r }

theorem add_mcast_closed (s : QueryResponse) (answers : PyDict Nat (PySet Nat)) {seenFn : Nat → Option Rec} {seen : SeenMap}
    (hs : SeenRel seenFn seen) :
    s.add_mcast_question_response answers seenFn
      = .ok ((PyDict.keys answers).foldl (fun s r => mcStepG (inLastSecond (seen.get r) s.now) s r)
              { s with additionals := PyDict.update natEq s.additionals answers }) := by
  unfold QueryResponse.add_mcast_question_response
  simp only [bind, Except.bind, pure, Except.pure]
  rw [forIn_ok_yield _ _ _ (fun s r => mcStepG (inLastSecond (seen.get r) s.now) s r)]
  intro x b
  obtain ⟨ip, qs, now, cache, adds, u, mn, ma, ml⟩ := b
  simp only [last_second_eq _ _ hs, mcStepG, nqOf, q0typeOf]
  cases ip
  · cases hl : inLastSecond (seen.get x) now
    · cases qs with
      | nil => simp
      | cons q t =>
        cases t with
        | nil =>
          simp only [List.length_cons, List.length_nil, PyList.first, List.head?_cons, Option.map_some, Option.getD_some]
          by_cases h47 : q.type = 47 <;> by_cases h33 : q.type = 33 <;> by_cases h1 : q.type = 1 <;> by_cases h28 : q.type = 28 <;>
            simp [h47, h33, h1, h28]
        | cons q2 t2 => simp
    · simp
  · simp

theorem mcStepG_fields (l : Bool) (s : QueryResponse) (r : Nat) :
    (mcStepG l s r).is_probe = s.is_probe ∧ (mcStepG l s r).now = s.now ∧ (mcStepG l s r).questions = s.questions
    ∧ (mcStepG l s r).additionals = s.additionals := by
  unfold mcStepG
  split
  · exact ⟨rfl, rfl, rfl, rfl⟩
  · split
    · exact ⟨rfl, rfl, rfl, rfl⟩
    · split <;> exact ⟨rfl, rfl, rfl, rfl⟩

theorem single_cast (n : Nat) : Gen.Reply.mc_test_single_question n = decide (n = 1) := by
  unfold Gen.Reply.mc_test_single_question
  by_cases h : n = 1
  · simp [h]
  · have : ¬ (n : Int) = 1 := by omega
    simp [h, this]

theorem immediate_cast (n : Nat) :
    Gen.Reply.mc_test_immediate_type n = (decide (n = 47) || decide (n = 33) || decide (n = 1) || decide (n = 28)) := by
  unfold Gen.Reply.mc_test_immediate_type
  have e : ∀ (k : Nat) (ki : Int), ki = (k : Int) → decide ((n : Int) = ki) = decide (n = k) := by
    intro k ki hk
    subst hk
    by_cases h : n = k
    · simp [h]
    · have : ¬ (n : Int) = (k : Int) := by omega
      simp [h, this]
  rw [e 47 47 rfl, e 33 33 rfl, e 1 1 rfl, e 28 28 rfl]

/-- the model's round -/
def mcStepM (isProbe : Bool) (seen : SeenMap) (now : Int) (nq q0type : Nat) (qr : QR) (r : RecId) : QR :=
  match mcRoute isProbe (inLastSecond (seen.get r) now) nq q0type with
  | .now => { qr with mcastNow := setAdd qr.mcastNow r }
  | .lastSecond => { qr with mcastLast := setAdd qr.mcastLast r }
  | .aggregate => { qr with mcastAgg := setAdd qr.mcastAgg r }

theorem mcStepG_abs (s : QueryResponse) (r : Nat) (seen : SeenMap) :
    absQ (mcStepG (inLastSecond (seen.get r) s.now) s r) = mcStepM s.is_probe seen s.now (nqOf s) (q0typeOf s) (absQ s) r := by
  unfold mcStepG mcStepM mcRoute
  simp only [Gen.Reply.mc_test_probe, Gen.Reply.mc_test_last_second, single_cast, immediate_cast, setAdd_eq]
  cases s.is_probe
  · cases inLastSecond (seen.get r) s.now
    · simp only [Bool.false_eq_true, if_false]
      split <;> rfl
    · rfl
  · rfl

theorem mcStepG_inv (l : Bool) (s : QueryResponse) (r : Nat) (hi : QInv s) (hr : PyDict.contains natEq s.additionals r = true) :
    QInv (mcStepG l s r) := by
  have key : ∀ x, (x ∈ s.ucast ∨ x ∈ s.mcast_now ∨ x ∈ s.mcast_aggregate ∨ x ∈ s.mcast_aggregate_last_second) ∨ x = r →
      PyDict.contains natEq s.additionals x = true := by
    intro x hx
    rcases hx with hx | hx
    · exact hi.cover x hx
    · rw [hx]; exact hr
  unfold mcStepG
  split
  · refine ⟨hi.wf, fun x hx => key x ?_⟩
    simp only [mem_add] at hx
    rcases hx with hx | (hx | hx) | hx | hx
    · exact Or.inl (Or.inl hx)
    · exact Or.inl (Or.inr (Or.inl hx))
    · exact Or.inr hx
    · exact Or.inl (Or.inr (Or.inr (Or.inl hx)))
    · exact Or.inl (Or.inr (Or.inr (Or.inr hx)))
  · split
    · refine ⟨hi.wf, fun x hx => key x ?_⟩
      simp only [mem_add] at hx
      rcases hx with hx | hx | hx | (hx | hx)
      · exact Or.inl (Or.inl hx)
      · exact Or.inl (Or.inr (Or.inl hx))
      · exact Or.inl (Or.inr (Or.inr (Or.inl hx)))
      · exact Or.inl (Or.inr (Or.inr (Or.inr hx)))
      · exact Or.inr hx
    · split
      · refine ⟨hi.wf, fun x hx => key x ?_⟩
        simp only [mem_add] at hx
        rcases hx with hx | (hx | hx) | hx | hx
        · exact Or.inl (Or.inl hx)
        · exact Or.inl (Or.inr (Or.inl hx))
        · exact Or.inr hx
        · exact Or.inl (Or.inr (Or.inr (Or.inl hx)))
        · exact Or.inl (Or.inr (Or.inr (Or.inr hx)))
      · refine ⟨hi.wf, fun x hx => key x ?_⟩
        simp only [mem_add] at hx
        rcases hx with hx | hx | (hx | hx) | hx
        · exact Or.inl (Or.inl hx)
        · exact Or.inl (Or.inr (Or.inl hx))
        · exact Or.inl (Or.inr (Or.inr (Or.inl hx)))
        · exact Or.inr hx
        · exact Or.inl (Or.inr (Or.inr (Or.inr hx)))

/-- the model folds over the entries of `answers`, the code over its keys -/
theorem addMcast_keys (p : Bool) (seen : SeenMap) (now : Int) (nq q0 : Nat) (qr : QR) (answers : Dict) :
    QR.addMcast p seen now nq q0 qr answers
      = (PyDict.keys answers).foldl (mcStepM p seen now nq q0) { qr with additionals := qr.additionals.update answers } := by
  unfold QR.addMcast PyDict.keys
  rw [List.foldl_map]
  rfl

/-- **`add_mcast_question_response`** is the model's `QR.addMcast` (with `len(self._questions)` and the first question's type) -/
theorem add_mcast_eq (s : QueryResponse) (answers : PyDict Nat (PySet Nat)) {seenFn : Nat → Option Rec} {seen : SeenMap}
    (hs : SeenRel seenFn seen) (hi : QInv s) :
    ∃ s', s.add_mcast_question_response answers seenFn = .ok s'
      ∧ absQ s' = QR.addMcast s.is_probe seen s.now (nqOf s) (q0typeOf s) (absQ s) answers ∧ QInv s'
      ∧ s'.is_probe = s.is_probe ∧ s'.now = s.now ∧ s'.questions = s.questions := by
  rw [add_mcast_closed s answers hs]
  refine ⟨_, rfl, ?_⟩
  obtain ⟨hu, hwf⟩ := dict_update_eq s.additionals answers hi.wf
  rw [addMcast_keys]
  have hstart : QInv { s with additionals := PyDict.update natEq s.additionals answers } :=
    ⟨hwf, fun r hr => contains_update_of _ _ _ (Or.inl (hi.cover r hr))⟩
  have hkeys : ∀ r ∈ PyDict.keys answers, PyDict.contains natEq (PyDict.update natEq s.additionals answers) r = true :=
    fun r hr => contains_update_of _ _ _ (Or.inr hr)
  have habs0 : absQ { s with additionals := PyDict.update natEq s.additionals answers }
      = { absQ s with additionals := (absQ s).additionals.update answers } := by
    simp only [absQ, hu]
  rw [← habs0]
  generalize hs0 : ({ s with additionals := PyDict.update natEq s.additionals answers } : QueryResponse) = s0 at hstart ⊢
  have hp0 : s0.is_probe = s.is_probe := by rw [← hs0]
  have hn0 : s0.now = s.now := by rw [← hs0]
  have hq0 : s0.questions = s.questions := by rw [← hs0]
  have ha0 : s0.additionals = PyDict.update natEq s.additionals answers := by rw [← hs0]
  rw [← ha0] at hkeys
  have hnq : nqOf s = nqOf s0 := by simp [nqOf, hq0]
  have hqt : q0typeOf s = q0typeOf s0 := by simp [q0typeOf, hq0]
  rw [← hp0, ← hn0, ← hq0, hnq, hqt]
  clear hs0 hp0 hn0 hq0 ha0 hnq hqt habs0 hu hwf
  generalize PyDict.keys answers = ks at hkeys ⊢
  induction ks generalizing s0 with
  | nil => exact ⟨rfl, hstart, rfl, rfl, rfl⟩
  | cons r t ih =>
    rw [List.foldl_cons, List.foldl_cons]
    obtain ⟨f1, f2, f3, f4⟩ := mcStepG_fields (inLastSecond (seen.get r) s0.now) s0 r
    have hinv := mcStepG_inv (inLastSecond (seen.get r) s0.now) s0 r hstart (hkeys r (List.mem_cons_self ..))
    obtain ⟨g1, g2, g3, g4, g5⟩ := ih (mcStepG (inLastSecond (seen.get r) s0.now) s0 r) hinv
      (fun x hx => by rw [f4]; exact hkeys x (List.mem_cons_of_mem _ hx))
    have hnq : nqOf (mcStepG (inLastSecond (seen.get r) s0.now) s0 r) = nqOf s0 := by simp [nqOf, f3]
    have hqt : q0typeOf (mcStepG (inLastSecond (seen.get r) s0.now) s0 r) = q0typeOf s0 := by simp [q0typeOf, f3]
    rw [f1, f2, hnq, hqt, mcStepG_abs s0 r seen] at g1
    exact ⟨g1, g2, by rw [g3, f1], by rw [g4, f2], by rw [g5, f3]⟩

/-! ### `answers` -/

theorem dict_get_of_get? (d : Dict) (k : RecId) (v : List RecId) (h : PyDict.get? natEq d k = some v) : Dict.get d k = v := by
  unfold Dict.get
  induction d with
  | nil => simp at h
  | cons x t ih =>
    obtain ⟨k0, v0⟩ := x
    rw [PyDict.get?_cons] at h
    rw [List.find?_cons]
    by_cases hk : natEq k0 k = true
    · have hk' : (k0 == k) = true := hk
      simp only [hk, if_true, Option.some.injEq] at h
      simp [hk', h]
    · have hk' : (k0 == k) = false := by simpa [natEq] using hk
      simp only [hk, Bool.false_eq_true, if_false] at h
      simp only [hk']
      exact ih h

/-- one of the four dict comprehensions of `answers()` -/
theorem mapM_getItem (d : PyDict Nat (PySet Nat)) (l : List Nat) (h : ∀ r ∈ l, PyDict.contains natEq d r = true) :
    List.mapM (fun r => do return (r, (← PyDict.getItem natEq d r))) l
      = (.ok (l.map (fun r => (r, Dict.get d r))) : Except PyExc _) := by
  induction l with
  | nil => rfl
  | cons r t ih =>
    rw [List.mapM_cons, ih (fun x hx => h x (List.mem_cons_of_mem _ hx))]
    have hc := h r (List.mem_cons_self ..)
    unfold PyDict.contains at hc
    obtain ⟨v, hv⟩ := Option.isSome_iff_exists.1 hc
    simp [PyDict.getItem, hv, bind, Except.bind, pure, Except.pure, dict_get_of_get? d r v hv]

/-- **`answers()`** is the model's `QR.answers` and, under the invariant, never raises -/
theorem answers_eq (s : QueryResponse) (hi : QInv s) :
    ∃ qa, s.answers = .ok qa
      ∧ ({ ucast := qa.ucast, mcastNow := qa.mcast_now, mcastAgg := qa.mcast_aggregate, mcastLast := qa.mcast_aggregate_last_second } : QA)
        = QR.answers (absQ s) := by
  unfold QueryResponse.answers
  simp only [bind, Except.bind, pure, Except.pure, PySet.toList]
  have h1 := mapM_getItem s.additionals s.ucast (fun r hr => hi.cover r (Or.inl hr))
  have h2 := mapM_getItem s.additionals s.mcast_now (fun r hr => hi.cover r (Or.inr (Or.inl hr)))
  have h3 := mapM_getItem s.additionals s.mcast_aggregate (fun r hr => hi.cover r (Or.inr (Or.inr (Or.inl hr))))
  have h4 := mapM_getItem s.additionals s.mcast_aggregate_last_second (fun r hr => hi.cover r (Or.inr (Or.inr (Or.inr hr))))
  simp only [bind, Except.bind, pure, Except.pure] at h1 h2 h3 h4
  simp only [h1, h2, h3, h4]
  exact ⟨_, rfl, rfl⟩

/-! ### any sequence of calls -/

/-- a call of one of the three `add_*` methods -/
inductive ROp where
  | qu (answers : Dict)
  | uc (answers : Dict)
  | mc (answers : Dict)

def stepGen (seenFn : Nat → Option Rec) (s : QueryResponse) : ROp → Except PyExc QueryResponse
  | .qu a => s.add_qu_question_response a seenFn
  | .uc a => .ok (s.add_ucast_question_response a)
  | .mc a => s.add_mcast_question_response a seenFn

def runGen (seenFn : Nat → Option Rec) : List ROp → QueryResponse → Except PyExc QueryResponse
  | [], s => .ok s
  | op :: r, s =>
    match stepGen seenFn s op with
    | .error e => .error e
    | .ok s1 => runGen seenFn r s1

def stepModel (p : Bool) (seen : SeenMap) (now : Int) (nq q0 : Nat) (qr : QR) : ROp → QR
  | .qu a => qr.addQu p seen now a
  | .uc a => qr.addUcast a
  | .mc a => qr.addMcast p seen now nq q0 a

/-- **Along every sequence of `add_*` calls** the translated `_QueryResponse` never raises, and holds what the model's `QR` holds -/
theorem run_eq {seenFn : Nat → Option Rec} {seen : SeenMap} (hs : SeenRel seenFn seen) (ops : List ROp) (s : QueryResponse) (hi : QInv s) :
    ∃ s', runGen seenFn ops s = .ok s'
      ∧ absQ s' = ops.foldl (stepModel s.is_probe seen s.now (nqOf s) (q0typeOf s)) (absQ s) ∧ QInv s'
      ∧ s'.is_probe = s.is_probe ∧ s'.now = s.now ∧ s'.questions = s.questions := by
  induction ops generalizing s with
  | nil => exact ⟨s, rfl, rfl, hi, rfl, rfl, rfl⟩
  | cons op r ih =>
    have key : ∃ s1, stepGen seenFn s op = .ok s1 ∧ absQ s1 = stepModel s.is_probe seen s.now (nqOf s) (q0typeOf s) (absQ s) op ∧ QInv s1
        ∧ s1.is_probe = s.is_probe ∧ s1.now = s.now ∧ s1.questions = s.questions := by
      cases op with
      | qu a => exact add_qu_eq s a hs hi
      | uc a =>
        obtain ⟨h1, h2, h3, h4, h5⟩ := add_ucast_eq s a hi
        exact ⟨_, rfl, h1, h2, h3, h4, h5⟩
      | mc a => exact add_mcast_eq s a hs hi
    obtain ⟨s1, e1, a1, i1, p1, n1, q1⟩ := key
    obtain ⟨s', e2, a2, i2, p2, n2, q2⟩ := ih s1 i1
    have hnq : nqOf s1 = nqOf s := by simp [nqOf, q1]
    have hqt : q0typeOf s1 = q0typeOf s := by simp [q0typeOf, q1]
    refine ⟨s', ?_, ?_, i2, by rw [p2, p1], by rw [n2, n1], by rw [q2, q1]⟩
    · simp only [runGen, e1, e2]
    · rw [List.foldl_cons, a2, a1, p1, n1, hnq, hqt]

/-- the calls `QueryHandler.async_response` makes for one strategy (source port, QU bit): the model's `QR.route` -/
def routeOps (ucastSource qu : Bool) (answers : Dict) : List ROp :=
  if Gen.Reply.route_qu_only ucastSource qu then [.qu answers]
  else (if ucastSource then [.uc answers] else []) ++ [.mc answers]

theorem route_as_ops (ucastSource p : Bool) (seen : SeenMap) (now : Int) (nq q0 : Nat) (qr : QR) (qu : Bool) (answers : Dict) :
    qr.route ucastSource p seen now nq q0 qu answers = (routeOps ucastSource qu answers).foldl (stepModel p seen now nq q0) qr := by
  unfold QR.route routeOps
  cases Gen.Reply.route_qu_only ucastSource qu <;> cases ucastSource <;> rfl

theorem foldl_routes (ucastSource p : Bool) (seen : SeenMap) (now : Int) (nq q0 : Nat) (its : List (Bool × Dict)) (qr : QR) :
    (its.flatMap (fun it => routeOps ucastSource it.1 it.2)).foldl (stepModel p seen now nq q0) qr
      = its.foldl (fun qr it => qr.route ucastSource p seen now nq q0 it.1 it.2) qr := by
  induction its generalizing qr with
  | nil => rfl
  | cons it r ih => rw [List.flatMap_cons, List.foldl_append, List.foldl_cons, ← route_as_ops, ih]

/-- the model's view of a `QuestionAnswers` -/
def absA (qa : QuestionAnswers) : QA :=
  { ucast := qa.ucast, mcastNow := qa.mcast_now, mcastAgg := qa.mcast_aggregate, mcastLast := qa.mcast_aggregate_last_second }

/-- **The classification of a whole query**: a fresh `_QueryResponse`, the `add_*` calls `async_response` makes for the strategies
`its` (QU bit, answers) in order, then `answers()` — all translated code — never raises and returns the four dicts of the model's
fold of `QR.route` -/
theorem response_eq {seenFn : Nat → Option Rec} {seen : SeenMap} (hs : SeenRel seenFn seen) (ucastSource : Bool)
    (qs : List Question) (probe : Bool) (now : Int) (its : List (Bool × Dict)) :
    ∃ s' qa, runGen seenFn (its.flatMap (fun it => routeOps ucastSource it.1 it.2)) (QueryResponse.init () qs probe now) = .ok s'
      ∧ s'.answers = .ok qa
      ∧ absA qa = (its.foldl (fun (qr : QR) it => qr.route ucastSource probe seen now qs.length ((qs.head?.map (·.type)).getD 0) it.1 it.2) {}).answers := by
  obtain ⟨s', h1, h2, h3, _, _, _⟩ := run_eq hs (its.flatMap (fun it => routeOps ucastSource it.1 it.2)) _ (init_inv () qs probe now)
  obtain ⟨qa, h4, h5⟩ := answers_eq s' h3
  refine ⟨s', qa, h1, h4, ?_⟩
  rw [foldl_routes] at h2
  unfold absA
  rw [h5, h2]
  rfl

end Zc.GenFacts.FnReply
