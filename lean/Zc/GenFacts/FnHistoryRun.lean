import Zc.GenFacts.FnHistory
import Zc.Model.QueryGen
/-! # query generation over the *generated* `QuestionHistory` (C13)

`askType` / `serviceQuery` / `serviceQuestions` (`generate_service_query`) and `addQuestion` / `requestQuery`
(`_add_question_with_known_answers`, `_generate_request_query`) use the question history only through `suppresses` and `add`.
The `…G` versions below are the same functions with the history being the generated `QuestionHistory` and its two operations the
translated `QuestionHistory.suppresses` / `add_question_at_time`.  Under `Sim` (the generated dict holds the model's entries) they emit
the same questions and leave corresponding histories. -/
namespace Zc.GenFacts.FnHistoryRun
open Zc Zc.Py Zc.QueryGen Zc.GenFn.History Zc.GenFacts.FnHistory

variable (lower : String → String)

/-- `askType` over the generated history -/
def askTypeG (cache : List Rec) (s : QuestionHistory) (now : Int) (qu : Bool) (ty : String) : Option QOut × QuestionHistory :=
  let q : Question := { name := ty, type := Gen.typePtr, class_ := Gen.classIn, unique := qu }
  let known := knownAnswers lower cache ty Gen.typePtr Gen.classIn now
  if !qu && s.suppresses lower q now known then (none, s)
  else (some { q, known, wire := known.filterMap (wireAnswerAt (browserAnswerTime now)) },
        if !qu then s.add_question_at_time lower q now known else s)

theorem askTypeG_sim {s : QuestionHistory} {h : History} (hs : Sim lower s h) (cache : List Rec) (now : Int) (qu : Bool) (ty : String) :
    (askTypeG lower cache s now qu ty).1 = (askType lower cache h now qu ty).1
    ∧ Sim lower (askTypeG lower cache s now qu ty).2 (askType lower cache h now qu ty).2 := by
  unfold askTypeG askType
  simp only [sim_suppresses lower hs]
  cases qu with
  | true => exact ⟨rfl, hs⟩
  | false =>
    simp only [Bool.not_false, Bool.true_and]
    split
    · exact ⟨rfl, hs⟩
    · exact ⟨rfl, sim_add lower hs _ now _⟩

/-- `serviceQuery` over the generated history -/
def serviceQueryG (cache : List Rec) (now : Int) (qu : Bool) : List String → QuestionHistory → List QOut × QuestionHistory
  | [], s => ([], s)
  | ty :: rest, s =>
    match askTypeG lower cache s now qu ty with
    | (none, s1) => serviceQueryG cache now qu rest s1
    | (some o, s1) => (o :: (serviceQueryG cache now qu rest s1).1, (serviceQueryG cache now qu rest s1).2)

theorem serviceQueryG_sim (cache : List Rec) (now : Int) (qu : Bool) (tys : List String) {s : QuestionHistory} {h : History}
    (hs : Sim lower s h) :
    (serviceQueryG lower cache now qu tys s).1 = (serviceQuery lower cache now qu tys h).1
    ∧ Sim lower (serviceQueryG lower cache now qu tys s).2 (serviceQuery lower cache now qu tys h).2 := by
  induction tys generalizing s h with
  | nil => exact ⟨rfl, hs⟩
  | cons ty rest ih =>
    obtain ⟨h1, h2⟩ := askTypeG_sim lower hs cache now qu ty
    simp only [serviceQueryG, serviceQuery]
    cases hg : askTypeG lower cache s now qu ty with
    | mk og s1 =>
      cases hm : askType lower cache h now qu ty with
      | mk om h1' =>
        rw [hg, hm] at h1 h2
        simp only at h1 h2
        subst h1
        obtain ⟨i1, i2⟩ := ih h2
        cases og with
        | none => exact ⟨i1, i2⟩
        | some o => exact ⟨by simp only [i1], i2⟩

/-- `serviceQuestions` (`generate_service_query` up to the grouping) over the generated history -/
def serviceQuestionsG (cache : List Rec) (now : Int) (qu : Bool) (types : List String) (s : QuestionHistory) :
    List QOut × QuestionHistory :=
  ((serviceQueryG lower cache now qu types s).1.foldl (dictPut lower) [], (serviceQueryG lower cache now qu types s).2)

theorem serviceQuestionsG_sim (cache : List Rec) (now : Int) (qu : Bool) (tys : List String) {s : QuestionHistory} {h : History}
    (hs : Sim lower s h) :
    (serviceQuestionsG lower cache now qu tys s).1 = (serviceQuestions lower cache now qu tys h).1
    ∧ Sim lower (serviceQuestionsG lower cache now qu tys s).2 (serviceQuestions lower cache now qu tys h).2 := by
  obtain ⟨h1, h2⟩ := serviceQueryG_sim lower cache now qu tys hs
  unfold serviceQuestionsG serviceQuestions
  exact ⟨by simp only [h1], h2⟩

/-- `addQuestion` (`_add_question_with_known_answers`) over the generated history -/
def addQuestionG (cache : List Rec) (s : QuestionHistory) (now : Int) (qu : Bool) (name : String) (type cls : Nat)
    (skipIfKnown : Bool) : Option QOut × QuestionHistory :=
  let known := knownAnswers lower cache name type cls now
  if skipIfKnown && !known.isEmpty then (none, s)
  else
    let q : Question := { name, type, class_ := cls, unique := qu }
    if qu then (some { q, known, wire := known.filterMap (wireAnswerAt (lookupAnswerTime now)) }, s)
    else if s.suppresses lower q now known then (none, s)
    else (some { q, known, wire := known.filterMap (wireAnswerAt (lookupAnswerTime now)) }, s.add_question_at_time lower q now known)

theorem addQuestionG_sim {s : QuestionHistory} {h : History} (hs : Sim lower s h) (cache : List Rec) (now : Int) (qu : Bool)
    (name : String) (type cls : Nat) (skip : Bool) :
    (addQuestionG lower cache s now qu name type cls skip).1 = (addQuestion lower cache h now qu name type cls skip).1
    ∧ Sim lower (addQuestionG lower cache s now qu name type cls skip).2 (addQuestion lower cache h now qu name type cls skip).2 := by
  unfold addQuestionG addQuestion
  simp only [sim_suppresses lower hs]
  split
  · exact ⟨rfl, hs⟩
  · split
    · exact ⟨rfl, hs⟩
    · split
      · exact ⟨rfl, hs⟩
      · exact ⟨rfl, sim_add lower hs _ now _⟩

/-- `requestQuery` (`_generate_request_query`) over the generated history -/
def requestQueryG (cache : List Rec) (s : QuestionHistory) (now : Int) (qu : Bool) (name server : String) : List QOut × QuestionHistory :=
  let r1 := addQuestionG lower cache s now qu name Gen.typeSrv Gen.classIn true
  let r2 := addQuestionG lower cache r1.2 now qu name Gen.typeTxt Gen.classIn true
  let r3 := addQuestionG lower cache r2.2 now qu server Gen.typeA Gen.classIn false
  let r4 := addQuestionG lower cache r3.2 now qu server Gen.typeAaaa Gen.classIn false
  ([r1.1, r2.1, r3.1, r4.1].filterMap id, r4.2)

theorem requestQueryG_sim {s : QuestionHistory} {h : History} (hs : Sim lower s h) (cache : List Rec) (now : Int) (qu : Bool)
    (name server : String) :
    (requestQueryG lower cache s now qu name server).1 = (requestQuery lower cache h now qu name server).1
    ∧ Sim lower (requestQueryG lower cache s now qu name server).2 (requestQuery lower cache h now qu name server).2 := by
  obtain ⟨a1, b1⟩ := addQuestionG_sim lower hs cache now qu name Gen.typeSrv Gen.classIn true
  obtain ⟨a2, b2⟩ := addQuestionG_sim lower b1 cache now qu name Gen.typeTxt Gen.classIn true
  obtain ⟨a3, b3⟩ := addQuestionG_sim lower b2 cache now qu server Gen.typeA Gen.classIn false
  obtain ⟨a4, b4⟩ := addQuestionG_sim lower b3 cache now qu server Gen.typeAaaa Gen.classIn false
  unfold requestQueryG requestQuery
  exact ⟨by simp only [a1, a2, a3, a4], b4⟩

end Zc.GenFacts.FnHistoryRun
