import Zc.GenFacts.FnRegistry
import Zc.Model.Responder
/-! # the responder's strategy selection over the *generated* registry (C03)

`Zc.respond` (`QueryHandler.async_response` as far as the registry goes) reads the registry only in `_get_answer_strategies`: the type
index (`async_get_infos_type`), the server index (`async_get_infos_server`), the services dict (`async_get_info_name`) and the list of
types (`async_get_types`).  The `…G` functions below are the model's with those four reads being the **translated** `ServiceRegistry`
methods on the generated object; under `RInv` they select the same strategies, hence compute the same answers. -/
namespace Zc.GenFacts.FnResponderRun
open Zc Zc.Py Zc.GenFn.Registry Zc.GenFacts.FnRegistry

variable (lower : String → String)

def pointerPartG (s : ServiceRegistry) (q : Question) : Except PyExc (List Strategy) :=
  if Gen.Responder.q_wants_pointer q.type then
    match s.async_get_infos_type (lower q.name) with
    | .error e => .error e
    | .ok svcs => .ok (if svcs.isEmpty then [] else [.pointer svcs])
  else .ok []

def addressPartG (s : ServiceRegistry) (q : Question) : Except PyExc (List Strategy) :=
  if Gen.Responder.q_wants_address q.type then
    match s.async_get_infos_server (lower q.name) with
    | .error e => .error e
    | .ok svcs => .ok (if svcs.isEmpty then [] else [.address q.type svcs])
  else .ok []

def instancePartG (s : ServiceRegistry) (q : Question) : List Strategy :=
  if Gen.Responder.q_wants_instance q.type then
    match s.async_get_info_name (lower q.name) with
    | none => []
    | some i =>
      (if Gen.Responder.q_wants_service q.type then [.service i] else [])
      ++ (if Gen.Responder.q_wants_text q.type then [.text i] else [])
  else []

/-- `_get_answer_strategies` over the generated registry -/
def strategiesForG (s : ServiceRegistry) (q : Question) : Except PyExc (List Strategy) :=
  if Gen.Responder.q_is_enum q.type (decide (lower q.name = Gen.serviceTypeEnumerationName)) then
    .ok (if s.async_get_types.isEmpty then [] else [.enum s.async_get_types])
  else
    match pointerPartG lower s q with
    | .error e => .error e
    | .ok a =>
      match addressPartG lower s q with
      | .error e => .error e
      | .ok b => .ok (a ++ b ++ instancePartG lower s q)

def strategiesAllG (s : ServiceRegistry) : List Question → Except PyExc (List Strategy)
  | [] => .ok []
  | q :: qs =>
    match strategiesForG lower s q with
    | .error e => .error e
    | .ok a => match strategiesAllG s qs with
      | .error e => .error e
      | .ok b => .ok (a ++ b)

/-- `async_response` over the generated registry: the merged answer ↦ additionals map (`none`: no strategy applies) -/
def respondG (ettl : Nat) (s : ServiceRegistry) (msgs : List Msg) : Except PyExc (Option DictRS) :=
  match strategiesAllG lower s (questionsOf msgs) with
  | .error e => .error e
  | .ok [] => .ok none
  | .ok sts => .ok (some (mergeAll lower (sts.map (fun st => st.answer lower ettl (knownOf msgs)))))

theorem pointerPartG_eq (s : ServiceRegistry) (hinv : RInv lower s) (q : Question) :
    pointerPartG lower s q = pointerPart lower (absR s) q := by
  unfold pointerPartG pointerPart
  rw [async_get_infos_type_eq lower s _ hinv]
  split
  · cases Registry.byIndex lower (absR s) (absR s).types (lower q.name) <;> rfl
  · rfl

theorem addressPartG_eq (s : ServiceRegistry) (hinv : RInv lower s) (q : Question) :
    addressPartG lower s q = addressPart lower (absR s) q := by
  unfold addressPartG addressPart
  rw [async_get_infos_server_eq lower s _ hinv]
  split
  · cases Registry.byIndex lower (absR s) (absR s).servers (lower q.name) <;> rfl
  · rfl

theorem instancePartG_eq (s : ServiceRegistry) (hinv : RInv lower s) (q : Question) :
    instancePartG lower s q = instancePart lower (absR s) q := by
  unfold instancePartG instancePart
  rw [async_get_info_name_eq lower s _ hinv]
  split
  · cases sget lower (lower q.name) (absR s).services <;> rfl
  · rfl

theorem strategiesForG_eq (s : ServiceRegistry) (hinv : RInv lower s) (q : Question) :
    strategiesForG lower s q = strategiesFor lower (absR s) q := by
  unfold strategiesForG strategiesFor
  rw [pointerPartG_eq lower s hinv, addressPartG_eq lower s hinv, instancePartG_eq lower s hinv, async_get_types_eq]
  split
  · rfl
  · cases pointerPart lower (absR s) q with
    | error e => rfl
    | ok a => cases addressPart lower (absR s) q <;> rfl

theorem strategiesAllG_eq (s : ServiceRegistry) (hinv : RInv lower s) (qs : List Question) :
    strategiesAllG lower s qs = strategiesAll lower (absR s) qs := by
  induction qs with
  | nil => rfl
  | cons q t ih =>
    simp only [strategiesAllG, strategiesAll, strategiesForG_eq lower s hinv, ih]
    cases strategiesFor lower (absR s) q with
    | error e => rfl
    | ok a => cases strategiesAll lower (absR s) t <;> rfl

/-- **the responder over the translated registry readers computes the model's answers** -/
theorem respondG_eq (ettl : Nat) (s : ServiceRegistry) (hinv : RInv lower s) (msgs : List Msg) :
    respondG lower ettl s msgs = (respond lower ettl (absR s) msgs).map (·.1) := by
  unfold respondG respond
  rw [strategiesAllG_eq lower s hinv]
  cases strategiesAll lower (absR s) (questionsOf msgs) with
  | error e => rfl
  | ok sts => cases sts <;> rfl

end Zc.GenFacts.FnResponderRun
