import Zc.Py.Model
import Zc.Props.C20
/-! Facts shared by the `GenFacts/Fn*.lean` equivalence files: the key equalities the generated code passes to the
Python-container runtime are equivalence relations (C20). -/
namespace Zc.GenFacts.FnBase
open Zc Zc.Py

variable (lower : String → String)

/-- `DNSRecord.__eq__` (of the concrete class) is an equivalence relation: C20 -/
theorem rec_keyEq : KeyEq (Rec.beq lower) where
  refl := (C20_equivalence lower).1
  symm := (C20_equivalence lower).2.1
  trans := (C20_equivalence lower).2.2

theorem question_beq_iff (p q : Question) : p.beq lower q = true ↔ p.specIdent lower = q.specIdent lower := by
  simp [Question.beq, Gen.Ident.questionEq, Question.field, Question.specIdent]

/-- `DNSQuestion.__eq__` is an equivalence relation -/
theorem question_keyEq : KeyEq (Question.beq lower) where
  refl a := (question_beq_iff lower a a).2 rfl
  symm a b h := (question_beq_iff lower b a).2 ((question_beq_iff lower a b).1 h).symm
  trans a b c h1 h2 := (question_beq_iff lower a c).2 (((question_beq_iff lower a b).1 h1).trans ((question_beq_iff lower b c).1 h2))

end Zc.GenFacts.FnBase
