import Zc.GenFn.Cache
import Zc.GenFacts.FnBase
import Zc.Model.Cache
import Zc.Model.Register
/-! # `_cache.py` as translated statement by statement  =  the hand-written `Cache` model (C05 / C06 / C04)

`Zc.GenFn.Cache` is regenerated from the bodies of `_remove_key` and of the methods of `DNSCache` on every run.
The hand model (`Zc.Cache`, `Model/Cache.lean`) keeps each index as `name ↦ list of records`; the generated code keeps
the Python `Dict[str, Dict[DNSRecord, DNSRecord]]`.  `absC` reads the model state off the generated object (each
store by its keys).  Under the representation invariant `CInv` — every dict is a dict (`PyDict.WF`) and in every
store key and value are the same record (what the D4 repair establishes) — each generated function equals the model's,
and each mutator preserves `CInv`.

Not translated: `async_mark_unique_records_older_than_1s_to_expire` (mutates record objects reachable through both
indexes: outside the subset). -/
namespace Zc.GenFacts.FnCache
open Zc Zc.Py Zc.GenFn.Cache Zc.GenFacts.FnBase

variable (lower : String → String)

abbrev Store := PyDict Rec Rec
abbrev Idx := PyDict String Store

/-- an index of the model read off the dict of dicts -/
def absIdx (d : Idx) : Index := d.map (fun p => (p.1, PyDict.keys p.2))

/-- the model state read off the generated object -/
def absC (s : DNSCache) : Cache := { cache := absIdx s.cache, svc := absIdx s.service_cache }

/-- a store is a dict whose keys are their own values -/
structure StoreOk (st : Store) : Prop where
  wf : PyDict.WF (Rec.beq lower) st
  kv : ∀ p ∈ st, p.1 = p.2

structure IdxOk (d : Idx) : Prop where
  wf : PyDict.WF strEq d
  st : ∀ p ∈ d, StoreOk lower p.2

/-- representation invariant of the generated cache -/
structure CInv (s : DNSCache) : Prop where
  c : IdxOk lower s.cache
  s : IdxOk lower s.service_cache

theorem storeOk_nil : StoreOk lower [] := ⟨PyDict.WF_nil, fun _ h => (by cases h)⟩
theorem idxOk_nil : IdxOk lower [] := ⟨PyDict.WF_nil, fun _ h => (by cases h)⟩
theorem cinv_init : CInv lower DNSCache.init := ⟨idxOk_nil lower, idxOk_nil lower⟩

/-! ### bridge: the model's `Index` / `Bucket` operations are the runtime's dict operations -/

theorem find?_abs (d : Idx) (k : String) : Index.find? (absIdx d) k = (PyDict.get? strEq d k).map PyDict.keys := by
  induction d with
  | nil => rfl
  | cons x r ih =>
    obtain ⟨k', st⟩ := x
    simp only [absIdx, List.map_cons, Index.find?, PyDict.get?_cons, strEq, decide_eq_true_eq] at ih ⊢
    by_cases h : k' = k <;> simp [h, ih]

theorem get_abs (d : Idx) (k : String) : Index.get (absIdx d) k = PyDict.keys ((PyDict.get? strEq d k).getD []) := by
  rw [Index.get, find?_abs]
  cases PyDict.get? strEq d k <;> rfl

theorem set_abs (d : Idx) (k : String) (st : Store) : Index.set (absIdx d) k (PyDict.keys st) = absIdx (PyDict.set strEq d k st) := by
  induction d with
  | nil => rfl
  | cons x r ih =>
    obtain ⟨k', st'⟩ := x
    simp only [absIdx, List.map_cons, Index.set, PyDict.set_cons, strEq, decide_eq_true_eq] at ih ⊢
    by_cases h : k' = k <;> simp [h, ih]

theorem erase_abs (d : Idx) (k : String) (h : PyDict.WF strEq d) : Index.erase (absIdx d) k = absIdx (PyDict.erase strEq d k) := by
  rw [PyDict.erase_eq_filter strEq_keyEq h]
  simp only [Index.erase, absIdx, List.filter_map]
  congr 1

theorem has_keys (st : Store) (r : Rec) : Bucket.has lower (PyDict.keys st) r = PyDict.contains (Rec.beq lower) st r := by
  rw [PyDict.contains_eq_any]
  simp [Bucket.has, PyDict.keys, List.any_map, Function.comp_def]

theorem lookup_keys (st : Store) (r : Rec) (hkv : ∀ p ∈ st, p.1 = p.2) :
    Bucket.lookup lower (PyDict.keys st) r = PyDict.get? (Rec.beq lower) st r := by
  induction st with
  | nil => rfl
  | cons x t ih =>
    obtain ⟨a, b⟩ := x
    have hab : a = b := hkv (a, b) List.mem_cons_self
    have ih' := ih (fun p hp => hkv p (List.mem_cons_of_mem _ hp))
    simp only [Bucket.lookup, PyDict.keys, List.map_cons, List.find?_cons, PyDict.get?_cons] at ih' ⊢
    cases h : Rec.beq lower a r
    · simpa using ih'
    · simp [hab]

theorem del_keys (st : Store) (r : Rec) (h : PyDict.WF (Rec.beq lower) st) :
    Bucket.del lower (PyDict.keys st) r = PyDict.keys (PyDict.erase (Rec.beq lower) st r) := by
  rw [PyDict.keys_erase (rec_keyEq lower) h]
  rfl

theorem put_keys (st : Store) (r : Rec) (h : PyDict.WF (Rec.beq lower) st) :
    Bucket.put lower (PyDict.keys st) r = PyDict.keys (PyDict.set (Rec.beq lower) (PyDict.erase (Rec.beq lower) st r) r r) := by
  rw [PyDict.set_of_not_contains (PyDict.contains_erase_self (rec_keyEq lower) h r)]
  simp only [PyDict.keys, List.map_append, List.map_cons, List.map_nil]
  have := del_keys lower st r h
  simp only [Bucket.del, PyDict.keys] at this
  rw [← this]
  rfl

theorem storeOk_erase {st : Store} (h : StoreOk lower st) (r : Rec) : StoreOk lower (PyDict.erase (Rec.beq lower) st r) :=
  ⟨PyDict.WF_erase h.wf r, fun p hp => h.kv p ((PyDict.erase_sublist _ _).subset hp)⟩

theorem storeOk_put {st : Store} (h : StoreOk lower st) (r : Rec) :
    StoreOk lower (PyDict.set (Rec.beq lower) (PyDict.erase (Rec.beq lower) st r) r r) := by
  have he := storeOk_erase lower h r
  refine ⟨PyDict.WF_set he.wf r r, ?_⟩
  rw [PyDict.set_of_not_contains (PyDict.contains_erase_self (rec_keyEq lower) h.wf r)]
  intro p hp
  rcases List.mem_append.1 hp with hp | hp
  · exact he.kv p hp
  · simp only [List.mem_singleton] at hp; rw [hp]

theorem storeOk_of_get {d : Idx} (h : IdxOk lower d) {k : String} {st : Store} (hg : PyDict.get? strEq d k = some st) : StoreOk lower st := by
  obtain ⟨k', hm, _⟩ := PyDict.mem_of_get? hg
  exact h.st (k', st) hm

theorem storeOk_getD {d : Idx} (h : IdxOk lower d) (k : String) : StoreOk lower ((PyDict.get? strEq d k).getD []) := by
  cases hg : PyDict.get? strEq d k with
  | none => exact storeOk_nil lower
  | some st => exact storeOk_of_get lower h hg

theorem idxOk_set {d : Idx} (h : IdxOk lower d) (k : String) {st : Store} (hs : StoreOk lower st) : IdxOk lower (PyDict.set strEq d k st) := by
  refine ⟨PyDict.WF_set h.wf k st, ?_⟩
  intro p hp
  -- an entry of `set d k st` is an old entry or carries the new store
  have : ∀ (d : Idx), (∀ q ∈ d, StoreOk lower q.2) → ∀ p ∈ PyDict.set strEq d k st, StoreOk lower p.2 := by
    intro d
    induction d with
    | nil => intro _ p hp; simp at hp; rw [hp]; exact hs
    | cons x r ih =>
      obtain ⟨k0, v0⟩ := x
      intro hd p hp
      rw [PyDict.set_cons] at hp
      split at hp
      · rcases List.mem_cons.1 hp with rfl | hp
        · exact hs
        · exact hd p (List.mem_cons_of_mem _ hp)
      · rcases List.mem_cons.1 hp with rfl | hp
        · exact hd _ List.mem_cons_self
        · exact ih (fun q hq => hd q (List.mem_cons_of_mem _ hq)) p hp
  exact this d h.st p hp

theorem idxOk_erase {d : Idx} (h : IdxOk lower d) (k : String) : IdxOk lower (PyDict.erase strEq d k) :=
  ⟨PyDict.WF_erase h.wf k, fun p hp => h.st p ((PyDict.erase_sublist _ _).subset hp)⟩

/-! ### `_remove_key` -/

/-- what `_remove_key` does, in the runtime's terms -/
def idxRemove (c : Idx) (k : String) (r : Rec) : Except PyExc Idx :=
  match PyDict.get? strEq c k with
  | none => .error .keyError
  | some st =>
    if PyDict.contains (Rec.beq lower) st r then
      .ok (if PyDict.isEmpty (PyDict.erase (Rec.beq lower) st r) then PyDict.erase strEq c k
           else PyDict.set strEq c k (PyDict.erase (Rec.beq lower) st r))
    else .error .keyError

theorem remove_key_closed (c : Idx) (k : String) (r : Rec) : remove_key lower c k r = idxRemove lower c k r := by
  unfold remove_key idxRemove
  cases hg : PyDict.get? strEq c k with
  | none => simp [PyDict.getItem, hg, bind, Except.bind]
  | some st =>
    simp only [PyDict.getItem, hg, bind, Except.bind, PyDict.delItem]
    cases hc : PyDict.contains (Rec.beq lower) st r with
    | false => simp
    | true =>
      simp only [if_true, PyDict.get?_set strEq_keyEq, strEq_keyEq.refl, PyDict.contains_set_self strEq_keyEq.refl,
        PyDict.erase_set_self strEq_keyEq.refl]
      cases PyDict.isEmpty (PyDict.erase (Rec.beq lower) st r) <;> rfl

/-- **`_remove_key`** is the model's `Cache.removeKey` -/
theorem remove_key_eq (d : Idx) (k : String) (r : Rec) (h : IdxOk lower d) :
    (remove_key lower d k r).map absIdx = Cache.removeKey lower (absIdx d) k r := by
  rw [remove_key_closed]
  unfold idxRemove Cache.removeKey
  rw [find?_abs]
  cases hg : PyDict.get? strEq d k with
  | none => rfl
  | some st =>
    have hs := storeOk_of_get lower h hg
    simp only [Option.map_some, has_keys, del_keys lower st r hs.wf, PyDict.isEmpty_keys]
    cases PyDict.contains (Rec.beq lower) st r with
    | false => rfl
    | true =>
      simp only [if_true, Except.map]
      cases PyDict.isEmpty (PyDict.erase (Rec.beq lower) st r) with
      | true => simp only [if_true, erase_abs d k h.wf]
      | false => simp only [Bool.false_eq_true, if_false, set_abs]

theorem idxRemove_ok {d d' : Idx} {k : String} {r : Rec} (h : IdxOk lower d) (he : idxRemove lower d k r = .ok d') : IdxOk lower d' := by
  unfold idxRemove at he
  cases hg : PyDict.get? strEq d k with
  | none => simp [hg] at he
  | some st =>
    simp only [hg] at he
    split at he
    · cases he
      split
      · exact idxOk_erase lower h k
      · exact idxOk_set lower h k (storeOk_erase lower (storeOk_of_get lower h hg) r)
    · cases he

/-! ### `_async_add` -/

/-- `store.pop(record, None); store[record] = record` -/
def storePut (st : Store) (r : Rec) : Store := PyDict.set (Rec.beq lower) (PyDict.erase (Rec.beq lower) st r) r r

/-- `store = index.setdefault(k, {})` followed by the two statements above -/
def idxPut (d : Idx) (k : String) (r : Rec) : Idx := PyDict.set strEq d k (storePut lower ((PyDict.get? strEq d k).getD []) r)

theorem idxPut_closed (d : Idx) (k : String) (r : Rec) :
    PyDict.set strEq (PyDict.set strEq (PyDict.setdefault strEq d k PyDict.empty).2 k
        (PyDict.popD (Rec.beq lower) (PyDict.setdefault strEq d k PyDict.empty).1 r).2) k
      (PyDict.set (Rec.beq lower) (PyDict.popD (Rec.beq lower) (PyDict.setdefault strEq d k PyDict.empty).1 r).2 r r)
      = idxPut lower d k r := by
  rw [PyDict.set_set strEq_keyEq.refl, PyDict.set_setdefault strEq_keyEq.refl, PyDict.setdefault_fst]
  rfl

/-- closed form of the generated `_async_add` -/
theorem async_add_closed (s : DNSCache) (r : Rec) :
    DNSCache.async_add lower s r = .ok
      ((!(PyDict.contains (Rec.beq lower) ((PyDict.get? strEq s.cache (lower r.name)).getD []) r)) && (!(decide (r.rdata.kind = Kind.nsec))),
       { cache := idxPut lower s.cache (lower r.name) r,
         service_cache := match r.rdata with
           | .srv _ _ _ h => idxPut lower s.service_cache (lower h) r
           | _ => s.service_cache }) := by
  unfold DNSCache.async_add
  dsimp only
  simp only [idxPut_closed]
  simp only [PyDict.setdefault_fst, PyDict.empty]
  cases hr : r.rdata <;> simp [RData.kind, Rec.attrServerKey, hr, bind, Except.bind, pure, Except.pure]

theorem idxPut_abs (d : Idx) (k : String) (r : Rec) (h : IdxOk lower d) :
    absIdx (idxPut lower d k r) = Index.set (absIdx d) k (Bucket.put lower (Index.get (absIdx d) k) r) := by
  unfold idxPut storePut
  rw [get_abs, put_keys lower _ r (storeOk_getD lower h k).wf, set_abs]

theorem idxPut_ok {d : Idx} (h : IdxOk lower d) (k : String) (r : Rec) : IdxOk lower (idxPut lower d k r) :=
  idxOk_set lower h k (storeOk_put lower (storeOk_getD lower h k) r)

/-- **`_async_add`** is the model's `Cache.add`: same new state, same "was new" answer, and it never raises -/
theorem async_add_eq (s : DNSCache) (r : Rec) (h : CInv lower s) :
    (DNSCache.async_add lower s r).map (fun p => (absC p.2, p.1)) = .ok (Cache.add lower (absC s) r) := by
  rw [async_add_closed]
  unfold Cache.add
  simp only [Except.map, absC, idxPut_abs lower s.cache _ r h.c, get_abs, has_keys, Gen.Cache.add_is_new]
  congr 2
  cases hr : r.rdata <;> simp only [Rec.serverKey, hr]
  rw [idxPut_abs lower s.service_cache _ r h.s, get_abs]

/-- `_async_add` keeps the representation invariant -/
theorem async_add_inv {s s' : DNSCache} {r : Rec} {b : Bool} (h : CInv lower s) (he : DNSCache.async_add lower s r = .ok (b, s')) :
    CInv lower s' := by
  rw [async_add_closed] at he
  simp only [Except.ok.injEq, Prod.mk.injEq] at he
  obtain ⟨_, rfl⟩ := he
  refine ⟨idxPut_ok lower h.c _ r, ?_⟩
  cases hr : r.rdata <;> simp only []
  all_goals first | exact h.s | exact idxPut_ok lower h.s _ r

/-! ### `_async_remove` -/

/-- closed form of the generated `_async_remove` -/
theorem async_remove_closed (s : DNSCache) (r : Rec) :
    DNSCache.async_remove lower s r =
      (match r.rdata with
        | .srv _ _ _ h => idxRemove lower s.service_cache (lower h) r
        | _ => .ok s.service_cache).bind (fun svc =>
          (idxRemove lower s.cache (lower r.name) r).map (fun c => { cache := c, service_cache := svc })) := by
  unfold DNSCache.async_remove
  dsimp only
  simp only [remove_key_closed]
  cases hr : r.rdata <;> simp only [RData.kind, Rec.attrServerKey, hr, bind, Except.bind, pure, Except.pure, decide_false, decide_true,
      Bool.false_eq_true, if_false, if_true, reduceCtorEq]
  all_goals first
    | (cases idxRemove lower s.cache (lower r.name) r <;> rfl)
    | (rename_i p w q hsv
       cases idxRemove lower s.service_cache (lower hsv) r with
       | error e => rfl
       | ok v => simp only []; cases idxRemove lower s.cache (lower r.name) r <;> rfl)

/-- **`_async_remove`** is the model's `Cache.remove` -/
theorem async_remove_eq (s : DNSCache) (r : Rec) (h : CInv lower s) :
    (DNSCache.async_remove lower s r).map absC = Cache.remove lower (absC s) r := by
  rw [async_remove_closed]
  unfold Cache.remove
  have hc := remove_key_eq lower s.cache (lower r.name) r h.c
  rw [remove_key_closed] at hc
  simp only [absC, ← hc]
  cases hr : r.rdata <;> simp only [Rec.serverKey, hr, bind, Except.bind, pure, Except.pure]
  all_goals first
    | (cases idxRemove lower s.cache (lower r.name) r <;> rfl)
    | (rename_i p w q hsv
       have hs := remove_key_eq lower s.service_cache (lower hsv) r h.s
       rw [remove_key_closed] at hs
       rw [← hs]
       cases idxRemove lower s.service_cache (lower hsv) r with
       | error e => rfl
       | ok v => simp only [Except.map]; cases idxRemove lower s.cache (lower r.name) r <;> rfl)

theorem async_remove_inv {s s' : DNSCache} {r : Rec} (h : CInv lower s) (he : DNSCache.async_remove lower s r = .ok s') : CInv lower s' := by
  rw [async_remove_closed] at he
  cases hr : r.rdata <;> simp only [hr, Except.bind] at he
  all_goals first
    | (cases hc : idxRemove lower s.cache (lower r.name) r with
       | error e => simp [hc, Except.map] at he
       | ok c =>
         simp only [hc, Except.map, Except.ok.injEq] at he
         subst he
         exact ⟨idxRemove_ok lower h.c hc, h.s⟩)
    | (rename_i p w q hsv
       cases hv : idxRemove lower s.service_cache (lower hsv) r with
       | error e => simp [hv] at he
       | ok v =>
         simp only [hv] at he
         cases hc : idxRemove lower s.cache (lower r.name) r with
         | error e => simp [hc, Except.map] at he
         | ok c =>
           simp only [hc, Except.map, Except.ok.injEq] at he
           subst he
           exact ⟨idxRemove_ok lower h.c hc, idxRemove_ok lower h.s hv⟩)

/-! ### `async_add_records`, `async_remove_records`, `async_expire` -/

/-- closed form: the loop of `async_add_records` is a fold of `_async_add` that ors the answers -/
theorem async_add_records_closed (s : DNSCache) (rs : List Rec) :
    DNSCache.async_add_records lower s rs =
      (rs.foldlM (fun (st : Bool × DNSCache) r => (DNSCache.async_add lower st.2 r).map (fun p => (st.1 || p.1, p.2))) (false, s)) := by
  unfold DNSCache.async_add_records
  dsimp only
  rw [forIn_except_yield _ _ _ (fun (st : DNSCache × Bool) r =>
      (DNSCache.async_add lower st.1 r).map (fun p => ((p.2, st.2 || p.1) : DNSCache × Bool))) ?hf]
  case hf =>
    intro r b
    cases h : DNSCache.async_add lower b.1 r with
    | error e => simp only [bind, Except.bind, Except.map]
    | ok p =>
      simp only [bind, Except.bind, Except.map, pure, Except.pure]
      cases p.1 <;> simp
  -- the loop state (self, new) as the pair (new, self) the function returns
  have key : ∀ (rs : List Rec) (b : Bool) (s : DNSCache),
      (do let r ← rs.foldlM (fun (st : DNSCache × Bool) r =>
            (DNSCache.async_add lower st.1 r).map (fun p => ((p.2, st.2 || p.1) : DNSCache × Bool))) (s, b)
          pure (r.2, r.1) : Except PyExc (Bool × DNSCache)) =
        rs.foldlM (fun (st : Bool × DNSCache) r => (DNSCache.async_add lower st.2 r).map (fun p => (st.1 || p.1, p.2))) (b, s) := by
    intro rs
    induction rs with
    | nil => intro b s; rfl
    | cons r t ih =>
      intro b s
      rw [List.foldlM_cons, List.foldlM_cons]
      cases h : DNSCache.async_add lower s r with
      | error e => simp only [Except.map, bind, Except.bind]
      | ok p =>
        simp only [Except.map, bind, Except.bind]
        exact ih _ _
  exact key rs false s

/-- **`async_add_records`** is the model's `addAll` -/
theorem async_add_records_eq (s : DNSCache) (rs : List Rec) (h : CInv lower s) :
    (DNSCache.async_add_records lower s rs).map (fun p => (absC p.2, p.1)) = .ok (addAll (Cache.ops lower) (absC s) rs)
    ∧ ∀ b s', DNSCache.async_add_records lower s rs = .ok (b, s') → CInv lower s' := by
  rw [async_add_records_closed]
  unfold addAll
  have key : ∀ (rs : List Rec) (b : Bool) (s : DNSCache), CInv lower s →
      (rs.foldlM (fun (st : Bool × DNSCache) r => (DNSCache.async_add lower st.2 r).map (fun p => (st.1 || p.1, p.2))) (b, s)).map
          (fun p => (absC p.2, p.1)) =
        .ok (rs.foldl (fun (acc : Cache × Bool) r => (((Cache.ops lower).add acc.1 r).1, acc.2 || ((Cache.ops lower).add acc.1 r).2)) (absC s, b))
      ∧ ∀ b' s', rs.foldlM (fun (st : Bool × DNSCache) r => (DNSCache.async_add lower st.2 r).map (fun p => (st.1 || p.1, p.2))) (b, s) = .ok (b', s') →
          CInv lower s' := by
    intro rs
    induction rs with
    | nil => intro b s hs; exact ⟨rfl, fun b' s' he => by cases he; exact hs⟩
    | cons r t ih =>
      intro b s hs
      rw [List.foldlM_cons, List.foldl_cons]
      have h1 := async_add_eq lower s r hs
      cases h2 : DNSCache.async_add lower s r with
      | error e => rw [h2] at h1; cases h1
      | ok p =>
        rw [h2] at h1
        simp only [Except.map, Except.ok.injEq] at h1
        have hinv := async_add_inv lower (b := p.1) (s' := p.2) hs (by rw [h2])
        simp only [Except.map, bind, Except.bind, Cache.ops]
        have := ih (b || p.1) p.2 hinv
        rw [← h1]
        exact this
  exact key rs false s h

/-- closed form: the loop of `async_remove_records` is a monadic fold of `_async_remove` -/
theorem async_remove_records_closed (s : DNSCache) (rs : List Rec) :
    DNSCache.async_remove_records lower s rs = rs.foldlM (fun st r => DNSCache.async_remove lower st r) s := by
  unfold DNSCache.async_remove_records
  dsimp only
  rw [forIn_except_yield _ _ _ (fun st r => DNSCache.async_remove lower st r) ?hf]
  case hf =>
    intro r b
    cases h : DNSCache.async_remove lower b r <;> simp only [bind, Except.bind, Except.map, pure, Except.pure]
  cases rs.foldlM (fun st r => DNSCache.async_remove lower st r) s <;> rfl

/-- **`async_remove_records`** is the model's `removeAll` -/
theorem async_remove_records_eq (s : DNSCache) (rs : List Rec) (h : CInv lower s) :
    (DNSCache.async_remove_records lower s rs).map absC = removeAll (Cache.ops lower) (absC s) rs
    ∧ ∀ s', DNSCache.async_remove_records lower s rs = .ok s' → CInv lower s' := by
  rw [async_remove_records_closed]
  unfold removeAll
  induction rs generalizing s with
  | nil => exact ⟨rfl, fun s' he => by cases he; exact h⟩
  | cons r t ih =>
    rw [List.foldlM_cons, List.foldlM_cons]
    have h1 := async_remove_eq lower s r h
    simp only [Cache.ops]
    rw [← h1]
    cases h2 : DNSCache.async_remove lower s r with
    | error e => exact ⟨rfl, fun s' he => by cases he⟩
    | ok s1 =>
      simp only [bind, Except.bind, Except.map]
      exact ih s1 (async_remove_inv lower h h2)

theorem allRecs_abs (d : Idx) : (absIdx d).flatMap (fun kb => kb.2) = (PyDict.values d).flatMap PyDict.keys := by
  simp only [absIdx, PyDict.values, List.flatMap_map]

/-- **`async_expire`** is the model's `expire`: the same purged records in the same order, the same cache afterwards -/
theorem async_expire_eq (s : DNSCache) (now : Int) (h : CInv lower s) :
    (DNSCache.async_expire lower s now).map (fun p => (absC p.2, p.1)) = expire (Cache.ops lower) (absC s) now
    ∧ ∀ l s', DNSCache.async_expire lower s now = .ok (l, s') → CInv lower s' := by
  unfold DNSCache.async_expire expire
  dsimp only
  have hexp : List.flatMap (fun records => List.filter (fun record => record.isExpired now) (PyDict.keys records)) (PyDict.values s.cache) =
      List.filter (fun r => r.isExpired now) ((Cache.ops lower).allRecs (absC s)) := by
    simp only [Cache.ops, Cache.allRecs, absC, allRecs_abs, List.filter_flatMap]
  rw [hexp]
  have h1 := async_remove_records_eq lower s (List.filter (fun r => r.isExpired now) ((Cache.ops lower).allRecs (absC s))) h
  rw [← h1.1]
  cases h2 : DNSCache.async_remove_records lower s (List.filter (fun r => r.isExpired now) ((Cache.ops lower).allRecs (absC s))) with
  | error e => exact ⟨rfl, fun l s' he => by simp [bind, Except.bind] at he⟩
  | ok s1 =>
    refine ⟨rfl, fun l s' he => ?_⟩
    simp only [bind, Except.bind, pure, Except.pure, Except.ok.injEq, Prod.mk.injEq] at he
    rw [← he.2]
    exact h1.2 s1 h2

/-! ### readers -/

/-- `async_get_unique` -/
theorem async_get_unique_eq (s : DNSCache) (e : Rec) (h : CInv lower s) :
    s.async_get_unique lower e = Cache.getUnique lower (absC s) e := by
  unfold DNSCache.async_get_unique Cache.getUnique
  simp only [absC, find?_abs, Id.run, pure]
  cases hg : PyDict.get? strEq s.cache (lower e.name) with
  | none => rfl
  | some st => simp only [Option.map_some, Option.bind_some, lookup_keys lower st e (storeOk_of_get lower h.c hg).kv]

set_option linter.unusedSimpArgs false in
/-- `async_all_by_details` -/
theorem async_all_by_details_eq (s : DNSCache) (name : String) (ty cls : Nat) :
    s.async_all_by_details lower name ty cls = Cache.asyncAllByDetails lower (absC s) name ty cls := by
  unfold DNSCache.async_all_by_details Cache.asyncAllByDetails
  simp only [absC, get_abs, Id.run, pure]
  cases hg : PyDict.get? strEq s.cache (lower name) with
  | none => rfl
  | some st =>
    -- the accumulating loop of the source; a comprehension in its place is the model's filter as it stands (closed by `simp only`)
    simp only [Option.getD_some, bind] <;>
      (rw [forIn_id_yield _ _ _ (fun acc x => if (decide (ty = x.type) && decide (cls = x.class_)) then acc ++ [id x] else acc)
          (by intro x b; split <;> rfl), foldl_collect]
       simp [pure])

/-- `async_entries_with_name`: the keys of the returned dict are the model's list -/
theorem async_entries_with_name_eq (s : DNSCache) (name : String) :
    PyDict.keys (s.async_entries_with_name lower name) = Cache.asyncEntriesWithName lower (absC s) name := by
  simp only [DNSCache.async_entries_with_name, Cache.asyncEntriesWithName, absC, get_abs, Id.run, pure, pyOrEmpty_eq]

/-- `async_entries_with_server` -/
theorem async_entries_with_server_eq (s : DNSCache) (name : String) :
    PyDict.keys (s.async_entries_with_server lower name) = Cache.asyncEntriesWithServer lower (absC s) name := by
  simp only [DNSCache.async_entries_with_server, Cache.asyncEntriesWithServer, absC, get_abs, Id.run, pure, pyOrEmpty_eq]

/-- `entries_with_name` -/
theorem entries_with_name_eq (s : DNSCache) (name : String) :
    s.entries_with_name lower name = Cache.entriesWithName lower (absC s) name := by
  simp only [DNSCache.entries_with_name, Cache.entriesWithName, absC, get_abs, Id.run, pure, PyDict.getD, PyDict.empty]

/-- `entries_with_server` -/
theorem entries_with_server_eq (s : DNSCache) (name : String) :
    s.entries_with_server lower name = Cache.entriesWithServer lower (absC s) name := by
  simp only [DNSCache.entries_with_server, Cache.entriesWithServer, absC, get_abs, Id.run, pure, PyDict.getD, PyDict.empty]

/-- `names` -/
theorem names_eq (s : DNSCache) : s.names = Cache.names (absC s) := by
  simp only [DNSCache.names, Cache.names, absC, Index.keys, absIdx, PyDict.keys, Id.run, pure, List.map_map]
  rfl

/-- `get_all_by_details` -/
theorem get_all_by_details_eq (s : DNSCache) (name : String) (ty cls : Nat) :
    s.get_all_by_details lower name ty cls = Cache.getAllByDetails lower (absC s) name ty cls := by
  unfold DNSCache.get_all_by_details Cache.getAllByDetails
  simp only [absC, get_abs, Id.run, pure]
  cases hg : PyDict.get? strEq s.cache (lower name) <;> rfl

/-- `get_by_details` -/
theorem get_by_details_eq (s : DNSCache) (name : String) (ty cls : Nat) :
    s.get_by_details lower name ty cls = Cache.getByDetails lower (absC s) name ty cls := by
  unfold DNSCache.get_by_details Cache.getByDetails
  simp only [absC, get_abs, Id.run, pure]
  cases hg : PyDict.get? strEq s.cache (lower name) with
  | none => rfl
  | some st =>
    simp only [Option.getD_some, bind]
    rw [forIn_id_first _ _ _ (fun e => decide (ty = e.type) && decide (cls = e.class_)) (fun x => (some (some x), ())) (by intro x; rfl)]
    cases List.find? (fun e => decide (ty = e.type) && decide (cls = e.class_)) st.keys.reverse <;> rfl

/-- `isinstance(entry, _UNIQUE_RECORD_TYPES)`: every record class but `DNSNsec` -/
theorem unique_types_iff (e : Rec) :
    (decide (e.rdata.kind = Kind.addr) || decide (e.rdata.kind = Kind.hinfo) || decide (e.rdata.kind = Kind.ptr) ||
      decide (e.rdata.kind = Kind.txt) || decide (e.rdata.kind = Kind.srv)) = true ↔ e.rdata.kind ≠ Kind.nsec := by
  cases e.rdata.kind <;> simp

/-- `get` -/
theorem get_eq (s : DNSCache) (e : Rec) (h : CInv lower s) : s.get lower e = Cache.get lower (absC s) e := by
  unfold DNSCache.get Cache.get
  simp only [absC, get_abs, Id.run, pure, PyDict.getD, PyDict.empty]
  by_cases hk : e.rdata.kind ≠ Kind.nsec
  · rw [if_pos ((unique_types_iff e).2 hk), if_pos hk, lookup_keys lower _ e (storeOk_getD lower h.c _).kv]
  · rw [if_neg (fun hc => hk ((unique_types_iff e).1 hc)), if_neg hk]
    simp only [bind]
    rw [forIn_id_first _ _ _ (fun c => Rec.beq lower e c) (fun x => (some (some x), ())) (by intro x; rfl)]
    cases List.find? (fun c => Rec.beq lower e c) (PyDict.keys ((PyDict.get? strEq s.cache (lower e.name)).getD [])).reverse <;> rfl

/-- records whose type field says PTR are `DNSPointer` objects (true of everything the wire decoder and the API construct;
for any other record `cast(DNSPointer, record).alias` is an `AttributeError`) -/
def PtrTyped (l : List Rec) : Prop := ∀ r ∈ l, r.type = 12 → r.rdata.kind = Kind.ptr

/-- the test of the loop of `current_entry_with_name_and_alias`, with its raise site -/
def aliasTest (alias : String) (now : Int) (record : Rec) : Except PyExc Bool :=
  if (!decide (record.type = 12)) = true then pure false
  else if record.isExpired now = true then pure false
  else do
    let a ← record.attrAlias
    pure (decide (a = alias))

theorem aliasTest_ok (alias : String) (now : Int) (r : Rec) (h : r.type = 12 → r.rdata.kind = Kind.ptr) :
    aliasTest alias now r = .ok (Gen.Register.cache_conflict r.type (r.isExpired now)
      (match r.rdata with | .ptr a => decide (a = alias) | _ => false)) := by
  unfold aliasTest Gen.Register.cache_conflict
  by_cases ht : r.type = 12
  · have hk := h ht
    cases hr : r.rdata <;> simp [hr, RData.kind] at hk
    cases he : r.isExpired now <;> simp [ht, hr, Rec.attrAlias, bind, Except.bind, pure, Except.pure]
  · have : ¬ ((r.type : Int) = 12) := by omega
    simp [ht, this, pure, Except.pure]

/-- `current_entry_with_name_and_alias` (the clock reading is the parameter `now`): it finds a record iff the model's
`Register.conflict` says so -/
theorem current_entry_with_name_and_alias_eq (s : DNSCache) (name alias : String) (now : Int)
    (ht : PtrTyped (Cache.entriesWithName lower (absC s) name)) :
    (s.current_entry_with_name_and_alias lower name alias now).map Option.isSome =
      .ok (Register.conflict (Cache.entriesWithName lower (absC s) name) now alias) := by
  unfold DNSCache.current_entry_with_name_and_alias
  dsimp only
  rw [forIn_except_first _ _ _ (aliasTest alias now) (fun x => (some (some x), ())) ?hf]
  case hf =>
    intro x
    have : ∀ (t : Except PyExc Bool),
        (do let c ← t
            if c = true then pure (ForInStep.done (some (some x), ())) else pure (ForInStep.yield ((none : Option (Option Rec)), ()))) =
          t.map (fun b => if b = true then ForInStep.done (some (some x), ()) else ForInStep.yield (none, ())) := by
      intro t
      cases t with
      | error e => rfl
      | ok b => cases b <;> rfl
    exact this _
  rw [entries_with_name_eq] at *
  rw [firstM_of_ok _ (fun r => Gen.Register.cache_conflict r.type (r.isExpired now) (match r.rdata with | .ptr a => decide (a = alias) | _ => false)) _
    (fun x hx => aliasTest_ok alias now x (ht x (List.mem_reverse.1 hx)))]
  unfold Register.conflict
  simp only [Except.map, bind, Except.bind]
  cases hf : List.find? (fun r => Gen.Register.cache_conflict r.type (r.isExpired now) (match r.rdata with | .ptr a => decide (a = alias) | _ => false))
      (Cache.entriesWithName lower (absC s) name).reverse with
  | none =>
    simp only [pure, Except.pure, Option.isSome_none, Except.ok.injEq]
    rw [List.find?_eq_none] at hf
    symm
    rw [List.any_eq_false]
    intro r hr
    exact hf r (List.mem_reverse.2 hr)
  | some r =>
    simp only [pure, Except.pure, Option.isSome_some, Except.ok.injEq]
    symm
    rw [List.any_eq_true]
    have h3 := List.find?_some hf
    exact ⟨r, List.mem_reverse.1 (List.mem_of_find?_eq_some hf), h3⟩

/-! ### along histories of cache calls -/

/-- the translated calls that change a `DNSCache` -/
inductive COp where
  | add (rs : List Rec)
  | remove (rs : List Rec)
  | expire (now : Int)

/-- the generated code, call after call (stops at the first exception) -/
def runGen : List COp → DNSCache → Except PyExc DNSCache
  | [], s => .ok s
  | .add rs :: ops, s => (DNSCache.async_add_records lower s rs).bind (fun p => runGen ops p.2)
  | .remove rs :: ops, s => (DNSCache.async_remove_records lower s rs).bind (runGen ops)
  | .expire now :: ops, s => (DNSCache.async_expire lower s now).bind (fun p => runGen ops p.2)

/-- the hand model, call after call -/
def runModel : List COp → Cache → Except PyExc Cache
  | [], c => .ok c
  | .add rs :: ops, c => runModel ops (addAll (Cache.ops lower) c rs).1
  | .remove rs :: ops, c => (removeAll (Cache.ops lower) c rs).bind (runModel ops)
  | .expire now :: ops, c => (Zc.expire (Cache.ops lower) c now).bind (fun p => runModel ops p.1)

/-- **every history of calls**: generated cache and model cache raise the same exception at the same call or end in
corresponding states, and the representation invariant holds at the end -/
theorem run_eq (ops : List COp) (s : DNSCache) (h : CInv lower s) :
    (runGen lower ops s).map absC = runModel lower ops (absC s) ∧ ∀ s', runGen lower ops s = .ok s' → CInv lower s' := by
  induction ops generalizing s with
  | nil => exact ⟨rfl, fun s' he => by cases he; exact h⟩
  | cons op ops ih =>
    cases op with
    | add rs =>
      have h1 := async_add_records_eq lower s rs h
      simp only [runGen, runModel]
      cases h2 : DNSCache.async_add_records lower s rs with
      | error e => rw [h2] at h1; cases h1.1
      | ok p =>
        rw [h2] at h1
        have h3 := h1.1
        simp only [Except.map, Except.ok.injEq] at h3
        simp only [Except.bind]
        rw [← h3]
        exact ih p.2 (h1.2 p.1 p.2 rfl)
    | remove rs =>
      have h1 := async_remove_records_eq lower s rs h
      simp only [runGen, runModel]
      rw [← h1.1]
      cases h2 : DNSCache.async_remove_records lower s rs with
      | error e => exact ⟨rfl, fun s' he => by cases he⟩
      | ok s1 => exact ih s1 (h1.2 s1 h2)
    | expire now =>
      have h1 := async_expire_eq lower s now h
      simp only [runGen, runModel]
      rw [← h1.1]
      cases h2 : DNSCache.async_expire lower s now with
      | error e => exact ⟨rfl, fun s' he => by cases he⟩
      | ok p => exact ih p.2 (h1.2 p.1 p.2 h2)

end Zc.GenFacts.FnCache
