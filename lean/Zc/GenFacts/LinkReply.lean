import Zc.Model.Reply
import Zc.Gen.Const
/-! Facts about the listener's two guards (`_listener.py`: size guard, duplicate-packet guard) that the K4 bridge needs (C07).
1000 ms is the property's "a byte-identical datagram inside the duplicate-packet window", 8966 the largest datagram. -/
namespace Zc.GenFacts.LinkReply
open Zc.Gen

/-- `len(data) > _MAX_MSG_ABSOLUTE` -/
theorem l_oversize (n : Int) : Gen.Reply.l_oversize n = true ↔ 8966 < n := by
  simp [Gen.Reply.l_oversize]

/-- the duplicate guard drops a datagram iff it has the bytes of the last one processed, that one was processed less than a second
ago, and it was not a query with a QU question -/
theorem l_duplicate (same : Bool) (now last : Int) (noLast lastQu : Bool) :
    Gen.Reply.l_duplicate same now last noLast lastQu = true ↔ same = true ∧ now - 1000 < last ∧ noLast = false ∧ lastQu = false := by
  simp [Gen.Reply.l_duplicate, and_assoc]

/-- the address record types the link model's `full` flag looks for -/
theorem typeA_eq : Gen.typeA = 1 := rfl
theorem typeAaaa_eq : Gen.typeAaaa = 28 := rfl

end Zc.GenFacts.LinkReply
