import Zc.Model.BrowserCb
/-! What the C04 proofs need to know about generated constants used by the browser model. -/
namespace Zc
open Zc.Gen

/-- `DNSQuestion(type_, _TYPE_PTR, _CLASS_IN).answered_by(rec)`: class IN, type PTR (12), owner name spelled exactly `type_` -/
theorem answeredBy_iff (t : String) (r : Rec) :
    Browser.answeredBy t r = true ↔ r.class_ = 1 ∧ r.type = 12 ∧ r.name = t := by
  simp only [Browser.answeredBy, Gen.classIn, Gen.typePtr, Gen.typeAny, Bool.and_eq_true, Bool.or_eq_true]
  constructor
  · rintro ⟨⟨h1, h2⟩, h3⟩
    refine ⟨(of_decide_eq_true h1).symm, ?_, (of_decide_eq_true h3).symm⟩
    rcases h2 with h2 | h2
    · exact (of_decide_eq_true h2).symm
    · exact absurd (of_decide_eq_true h2) (by decide)
  · rintro ⟨h1, h2, h3⟩
    exact ⟨⟨decide_eq_true h1.symm, Or.inl (decide_eq_true h2.symm)⟩, decide_eq_true h3.symm⟩

end Zc
