import Zc.Gen.Const
import Zc.Gen.Incoming
import Zc.Model.Basic
/-! The facts the C02 proofs need about the leaves translated from `_protocol/incoming.py`
(DESIGN §2.2).  Each states the *weakest* property used; proofs elsewhere never unfold `Gen.*`.

`hop_limit` is the D2 repair: on a tree without the hop test the leaf is the constant `false`
and this lemma (hence `Props/C02`) does not build. -/
namespace Zc.GenFacts.Incoming
open Zc.Gen Zc.Gen.Incoming

/-- **D2**: recursing is only allowed while fewer than 128 pointers have been followed -/
theorem hop_limit (n : Nat) (h : hop_limit_reached n = false) : n < 128 := by
  simp [hop_limit_reached] at h; omega

/-- a label whose text re-encodes to at most 63 bytes is never rejected by the D8 test -/
theorem label_ok_of_short (a : Bool) (n : Nat) (h : n ≤ 63) : label_unencodable a n = false := by
  first | (simp [label_unencodable]; done) | (simp [label_unencodable]; omega)

theorem in_packet_lt {off len : Nat} (h : in_packet off len = true) : off < len := by
  simpa [in_packet] using h

theorem in_packet_of_lt {off len : Nat} (h : off < len) : in_packet off len = true := by
  simpa [in_packet] using h

theorem label_advance_eq (n : Nat) : label_advance n = 1 + n := by simp [label_advance]

theorem label_slice (off n : Nat) : label_idx off = off + 1 ∧ label_end (label_idx off) n = off + 1 + n := by
  simp [label_idx, label_end]

theorem header_len : dnsCompressionHeaderLen = 1 := rfl
theorem pointer_len : dnsCompressionPointerLen = 2 := rfl

/-! byte classification, only in the directions the agreement proof uses: a strict label byte
(1..63) is read as a label, a strict pointer byte (192..255) as a pointer, zero as the terminator -/
theorem is_end_zero : is_end 0 = true := by decide
theorem not_end_of_pos {n : Nat} (h : 0 < n) : is_end n = false := by simp [is_end]; omega
theorem is_label_of_lt {n : Nat} (h : n < 64) : is_label n = true := by simp [is_label]; omega
theorem not_label_of_ptr {n : Nat} (h : 192 ≤ n) : is_label n = false := by simp [is_label]; omega
theorem not_unknown_of_ptr {n : Nat} (h : 192 ≤ n) : is_unknown n = false := by simp [is_unknown]; omega

/-- a pointer that strictly points backwards inside the packet passes the two position tests -/
theorem link_in_packet {l len : Nat} (h : l < len) : link_beyond l len = false := by simp [link_beyond]; omega
theorem link_not_self {l off : Nat} (h : l < off) : link_self l off = false := by simp [link_self]; omega

/-- the 14-bit pointer target: for **every** pointer byte `0xC0 ≤ b0 ≤ 0xFF` and every low byte
`b1 < 256` the link is `(b0 & 0x3F) * 256 + b1` — all six payload bits of the first byte count, so
targets up to `0x3FFF` (in particular those beyond 4095 and 8191, which only occur in datagrams
longer than that) are pinned.  Proved by evaluating the translated leaf on all 64 × 256 byte pairs,
so any rewrite of the Python expression with the same values still builds and any other does not. -/
theorem link_eq {b0 b1 : Nat} (h1 : 192 ≤ b0) (h2 : b0 < 256) (h3 : b1 < 256) :
    link b0 b1 = (b0 - 192) * 256 + b1 := by
  have h : ∀ b0, b0 < 256 → 192 ≤ b0 → ∀ b1, b1 < 256 → link b0 b1 = (b0 - 192) * 256 + b1 := by decide +kernel
  exact h b0 h2 h1 b1 h3

/-- the same, as the mask the RFC describes -/
theorem link_mask {b0 b1 : Nat} (h1 : 192 ≤ b0) (h2 : b0 < 256) (h3 : b1 < 256) :
    link b0 b1 = (b0 &&& 0x3F) * 256 + b1 := by
  rw [link_eq h1 h2 h3]
  have : b0 &&& 63 = b0 % 64 := Nat.and_two_pow_sub_one_eq_mod b0 6
  rw [this]; omega

theorem name_short {n : Nat} (h : name_too_long n = false) : n ≤ 253 := by
  simp [name_too_long] at h; omega

theorem name_ok_of_short {n : Nat} (h : n ≤ 253) : name_too_long n = false := by
  simp [name_too_long]; omega

theorem labels_ok_of_le {n : Nat} (h : n ≤ 128) : too_many_labels n = false := by
  simp [too_many_labels]; omega

theorem hop_ok_of_lt {n : Nat} (h : n < 128) : hop_limit_reached n = false := by
  first | (simp [hop_limit_reached]; done) | (simp [hop_limit_reached]; omega)

/-- `IndexError` and `IncomingDecodeError` are in `DECODE_EXCEPTIONS` -/
theorem caught_index : decodeExceptions.contains PyExc.indexError.name = true := by decide
theorem caught_decode : decodeExceptions.contains PyExc.decodeError.name = true := by decide

theorem hdr_len_eq : hdr_len = 12 := rfl
theorem q_len_eq : q_len = 4 := rfl
theorem r_len_eq : r_len = 10 := rfl
theorem srv_len_eq : srv_len = 6 := rfl
theorem a_len_eq : a_len = 4 := rfl
theorem aaaa_len_eq : aaaa_len = 16 := rfl
theorem txt_len_eq (n : Nat) : txt_len n = n := rfl
theorem skip_unknown_eq (n : Nat) : skip_unknown n = n := rfl
theorem str_end_eq (o n : Nat) : str_end o n = o + n := rfl
theorem cstr_end_eq (o n : Nat) : cstr_end o n = o + n := rfl
theorem r_end_eq (o n : Nat) : r_end o n = o + n := rfl
theorem nsec_end_eq (o n : Nat) : nsec_end o n = o + n := rfl
theorem bitmap_end_eq (o n : Nat) : bitmap_end o n = o + n := rfl
theorem bitmap_advance_eq (n : Nat) : bitmap_advance n = 2 + n := by simp [bitmap_advance]
theorem bitmap_more_iff (o e : Nat) : bitmap_more o e = true ↔ o < e := by simp [bitmap_more]
/-- the section loops run once per announced entry -/
theorem q_loop_count_eq (n : Nat) : q_loop_count n = n := rfl
theorem r_loop_count_eq (n : Nat) : r_loop_count n = n := rfl
theorem others_count_eq (a b c : Nat) : others_count a b c = a + b + c := rfl
theorem eager_iff (n : Nat) : eager_others n = true ↔ n = 0 := by simp [eager_others]

/-- the listener's size guard lets through at most `_MAX_MSG_ABSOLUTE` = 8966 bytes -/
theorem not_oversize_le {n : Nat} (h : oversize n = false) : n ≤ 8966 := by
  simp [oversize] at h; omega

/-! ### big-endian fields: the shift-and-or expressions are the usual positional values -/

theorem shl8_or (a b : Nat) (hb : b < 256) : (a <<< 8) ||| b = a * 256 + b := by
  rw [← Nat.shiftLeft_add_eq_or_of_lt (by simpa using hb), Nat.shiftLeft_eq]

theorem hdr_id_eq (a b : Nat) (hb : b < 256) : hdr_id a b = a * 256 + b := shl8_or a b hb
theorem hdr_flags_eq (a b : Nat) (hb : b < 256) : hdr_flags a b = a * 256 + b := shl8_or a b hb
theorem hdr_nq_eq (a b : Nat) (hb : b < 256) : hdr_nq a b = a * 256 + b := shl8_or a b hb
theorem hdr_nan_eq (a b : Nat) (hb : b < 256) : hdr_nan a b = a * 256 + b := shl8_or a b hb
theorem hdr_nau_eq (a b : Nat) (hb : b < 256) : hdr_nau a b = a * 256 + b := shl8_or a b hb
theorem hdr_nad_eq (a b : Nat) (hb : b < 256) : hdr_nad a b = a * 256 + b := shl8_or a b hb
theorem q_type_eq (a b : Nat) (hb : b < 256) : q_type a b = a * 256 + b := shl8_or a b hb
theorem q_class_eq (a b : Nat) (hb : b < 256) : q_class a b = a * 256 + b := shl8_or a b hb
theorem r_type_eq (a b : Nat) (hb : b < 256) : r_type a b = a * 256 + b := shl8_or a b hb
theorem r_class_eq (a b : Nat) (hb : b < 256) : r_class a b = a * 256 + b := shl8_or a b hb
theorem r_rdlen_eq (a b : Nat) (hb : b < 256) : r_rdlen a b = a * 256 + b := shl8_or a b hb
theorem srv_priority_eq (a b : Nat) (hb : b < 256) : srv_priority a b = a * 256 + b := shl8_or a b hb
theorem srv_weight_eq (a b : Nat) (hb : b < 256) : srv_weight a b = a * 256 + b := shl8_or a b hb
theorem srv_port_eq (a b : Nat) (hb : b < 256) : srv_port a b = a * 256 + b := shl8_or a b hb

theorem r_ttl_eq (a b c d : Nat) (hb : b < 256) (hc : c < 256) (hd : d < 256) :
    r_ttl a b c d = (a * 256 + b) * 65536 + (c * 256 + d) := by
  unfold r_ttl
  have h1 : (a <<< 24) ||| (b <<< 16) = (a * 256 + b) <<< 16 := by
    rw [← Nat.shiftLeft_add_eq_or_of_lt (by rw [Nat.shiftLeft_eq]; omega)]
    simp only [Nat.shiftLeft_eq]; omega
  have h2 : ((a * 256 + b) <<< 16) ||| (c <<< 8) = ((a * 256 + b) * 256 + c) <<< 8 := by
    rw [← Nat.shiftLeft_add_eq_or_of_lt (by rw [Nat.shiftLeft_eq]; omega)]
    simp only [Nat.shiftLeft_eq]; omega
  rw [h1, h2, ← Nat.shiftLeft_add_eq_or_of_lt (by simpa using hd), Nat.shiftLeft_eq]
  omega

/-! ### record type dispatch -/
theorem is_a_iff (t : Nat) : is_a t = true ↔ t = 1 := by simp [is_a]
theorem is_ptr_iff (t : Nat) : is_ptr t = true ↔ (t = 5 ∨ t = 12) := by simp [is_ptr]
theorem is_txt_iff (t : Nat) : is_txt t = true ↔ t = 16 := by simp [is_txt]
theorem is_srv_iff (t : Nat) : is_srv t = true ↔ t = 33 := by simp [is_srv]
theorem is_hinfo_iff (t : Nat) : is_hinfo t = true ↔ t = 13 := by simp [is_hinfo]
theorem is_aaaa_iff (t : Nat) : is_aaaa t = true ↔ t = 28 := by simp [is_aaaa]
theorem is_nsec_iff (t : Nat) : is_nsec t = true ↔ t = 47 := by simp [is_nsec]

/-! ### NSEC bitmaps -/
theorem bitmap_rdtype_eq (bit w i : Nat) : bitmap_rdtype bit w i = bit + w * 256 + i * 8 := rfl

theorem bitmap_bit_set_iff (byte bit : Nat) (hb : byte < 256) (hbit : bit < 8) :
    bitmap_bit_set byte bit = true ↔ byte / 2 ^ (7 - bit) % 2 = 1 := by
  have : ∀ bit, bit < 8 → ∀ byte, byte < 256 →
      (decide ((byte &&& (128 >>> bit)) ≠ 0) = true ↔ byte / 2 ^ (7 - bit) % 2 = 1) := by decide +kernel
  exact this bit hbit byte hb

end Zc.GenFacts.Incoming
