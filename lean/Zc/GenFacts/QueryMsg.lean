import Zc.Gen.Const
/-! Facts about the flags constant of outgoing queries (`const._FLAGS_QR_QUERY`) used by C13's split clause (DESIGN §2.2). -/
namespace Zc.GenFacts.QueryMsg
open Zc.Gen

/-- the flags a browser / lookup query is built with say "query" (QR bit clear) and do not carry TC -/
theorem flagsQrQuery_query : flagsQrQuery &&& 32768 = 0 ∧ flagsQrQuery &&& 512 = 0 := by decide

end Zc.GenFacts.QueryMsg
