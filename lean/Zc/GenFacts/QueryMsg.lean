import Zc.Gen.Const
import Zc.Gen.BrowserQuery
/-! Facts about the flags constant of outgoing queries (`const._FLAGS_QR_QUERY`) and about the browser's call of
`generate_service_query`, used by C13's run-level statements (DESIGN §2.2). -/
namespace Zc.GenFacts.QueryMsg
open Zc.Gen

/-- the flags a browser / lookup query is built with say "query" (QR bit clear) and do not carry TC -/
theorem flagsQrQuery_query : flagsQrQuery &&& 32768 = 0 ∧ flagsQrQuery &&& 512 = 0 := by decide

/-- the clock a browser hands to `generate_service_query` is the one its scheduler pass was given -/
theorem browser_query_time_eq (now : Int) : BrowserQuery.query_time now = now := rfl

/-- the question type a browser hands to `generate_service_query` (0 = `None`): `QU_QUESTION` on the first request of a browser with no
forced type, else the forced type (`None` for an unforced browser's later requests) -/
theorem browser_question_type_eq (unforced first : Bool) (qu forced : Nat) :
    BrowserQuery.query_type_arg (BrowserQuery.question_type unforced first qu forced) =
      if unforced = true ∧ first = true then qu else forced := by
  cases unforced <;> cases first <;> simp [BrowserQuery.query_type_arg, BrowserQuery.question_type]

/-- a heard question is remembered with the arrival time of the assembled query's last packet (`now = msg.now`), whenever the query is
processed -/
theorem heard_stamp_eq (msgNow : Int) : BrowserQuery.heard_stamp_arg (BrowserQuery.heard_stamp msgNow) = msgNow := rfl

end Zc.GenFacts.QueryMsg
