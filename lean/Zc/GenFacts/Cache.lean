import Zc.Model.Cache
/-! What the proofs of C05/C06/C04 need to know about the generated leaves and constants
(`Zc.Gen.Dns`, `Zc.Gen.Cache`, `Zc.Gen.Const`).  Proofs elsewhere never unfold `Gen.*`. -/
namespace Zc
open Zc.Gen

/-- `is_expired`: the TTL has fully elapsed -/
theorem isExpired_iff (r : Rec) (now : Ms) : r.isExpired now = true ↔ r.created + 1000 * (r.ttl : Int) ≤ now := by
  simp [Rec.isExpired, Gen.Dns.is_expired]

/-- a record stamped `now` is expired at `now` exactly when its TTL is zero -/
theorem isExpired_self_iff (r : Rec) : r.isExpired r.created = true ↔ r.ttl = 0 := by
  rw [isExpired_iff]
  constructor
  · intro h
    have h2 : ∀ c : Int, c + 1000 * (r.ttl : Int) ≤ c → r.ttl = 0 := by intro c hc; omega
    exact h2 r.created h
  · intro h; rw [h]; simp

/-- the flush test: strictly more than one second old, and not part of the datagram -/
theorem flush_test_iff (now created : Int) (b : Bool) :
    Gen.Cache.flush_test now created b = true ↔ now - created > 1000 ∧ b = true := by
  simp [Gen.Cache.flush_test]

/-- the PTR floor applies to pointer records (type 12) with a non-zero TTL below 1125 s … -/
theorem ptr_floor_test_iff (ttl type : Nat) :
    Gen.Cache.ptr_floor_test ttl type = true ↔ ttl ≠ 0 ∧ type = 12 ∧ ttl < 1125 := by
  simp [Gen.Cache.ptr_floor_test, and_assoc]

/-- … and raises it to 1125 s -/
theorem dnsPtrMinTtl_eq : Gen.dnsPtrMinTtl = 1125 := rfl

theorem typePtr_eq : Gen.typePtr = 12 := rfl

/-- `_enqueue_callback`: Added always wins; Removed unless an Added is pending; Updated only if nothing is pending -/
theorem enqueue_test_iff (a r pna u ka : Bool) :
    Gen.Cache.enqueue_test a r pna u ka = true ↔ a = true ∨ (r = true ∧ pna = true) ∨ (u = true ∧ ka = true) := by
  simp [Gen.Cache.enqueue_test, or_assoc]

/-- `async_updates` and `async_updates_complete` iterate over `self.listeners.copy()` -/
theorem updates_iterates_copy_eq : Gen.Cache.updates_iterates_copy = true := rfl
/-- the purges hand `async_updates` a materialised list, not a generator (seeded defect C05-w5-seed1 breaks exactly this) -/
theorem purge_updates_is_list_eq : Gen.Cache.purge_updates_is_list = true := rfl
theorem add_listener_purge_updates_is_list_eq : Gen.Cache.add_listener_purge_updates_is_list = true := rfl
theorem complete_iterates_copy_eq : Gen.Cache.complete_iterates_copy = true := rfl

/-- D18 repair: `async_remove_listener` catches the `KeyError` of `set.remove` -/
theorem remove_listener_catches_keyerror_eq : Gen.Cache.remove_listener_catches_keyerror = true := rfl

/-- the periodic purge sweeps the cache with, and tells the listeners, the one instant it read -/
theorem purge_expire_now_eq (now : Int) : Gen.Cache.purge_expire_now now = now := rfl
theorem purge_updates_now_eq (now : Int) : Gen.Cache.purge_updates_now now = now := rfl

/-- D23 repair: `async_add_listener` purges the expired records before it adds the listener, with one reading of the clock -/
theorem add_listener_purges_first_eq : Gen.Cache.add_listener_purges_first = true := rfl
theorem add_listener_purge_expire_now_eq (now : Int) : Gen.Cache.add_listener_purge_expire_now now = now := rfl
theorem add_listener_purge_updates_now_eq (now : Int) : Gen.Cache.add_listener_purge_updates_now now = now := rfl

/-- D23b repair: the replay to a new listener uses the instant of the purge that precedes it -/
theorem add_listener_replay_now_eq (now : Int) : Gen.Cache.add_listener_replay_now now = now := rfl

/-- D24 repair: only the withdrawn records that are still cached are handed to `async_remove_records` -/
theorem removes_keep_test_eq (b : Bool) : Gen.Cache.removes_keep_test b = b := rfl

/-- D24b repair (D25): `async_update_records_complete` detaches the pending changes before it fires them -/
theorem complete_takes_pending_eq (b : Bool) : Gen.Cache.complete_takes_pending b = b := rfl
theorem complete_iterates_live_eq : Gen.Cache.complete_iterates_live = false := rfl

end Zc
