import Zc.Model.Name
/-! The facts the C19 proofs need about the generated definitions (today's constants, numeric tests
and regular-expression texts of `_utils/name.py` / `const.py`).  Nothing else unfolds `Gen.*`. -/
namespace Zc.Name.GenFacts
open Zc.Name

theorem name_too_long_iff (n : Nat) : Gen.Name.name_too_long n = true ↔ 256 < n := by
  simp [Gen.Name.name_too_long]

/-- fails on a tree without the D9 repair (`if not test_service_name: raise …`) -/
theorem svc_empty_iff (n : Nat) : Gen.Name.svc_empty n = true ↔ n = 0 := by
  simp [Gen.Name.svc_empty]

theorem svc_too_long_iff (strict : Bool) (n : Nat) : Gen.Name.svc_too_long strict n = true ↔ strict = true ∧ 15 < n := by
  simp [Gen.Name.svc_too_long]

theorem inst_too_long_iff (n : Nat) : Gen.Name.inst_too_long n = true ↔ 63 < n := by
  simp [Gen.Name.inst_too_long]

theorem tcpT_eq : tcpT = ['.', '_', 't', 'c', 'p', '.', 'l', 'o', 'c', 'a', 'l', '.'] := by decide
theorem udpT_eq : udpT = ['.', '_', 'u', 'd', 'p', '.', 'l', 'o', 'c', 'a', 'l', '.'] := by decide
theorem localT_eq : localT = ['.', 'l', 'o', 'c', 'a', 'l', '.'] := by decide

theorem hasAToZ_pat : parsePat Gen.hasAToZPattern.toList = some ⟨false, [(65, 90), (97, 122)], false, .none⟩ := by decide

/-- fails on a tree without the D10 repair (`$` instead of `\Z`) -/
theorem strictChars_pat : parsePat Gen.hasOnlyAToZNumHyphenPattern.toList =
    some ⟨true, [(65, 90), (97, 122), (48, 57), (45, 45)], true, .absZ⟩ := by decide

/-- fails on a tree without the D10 repair (`$` instead of `\Z`) -/
theorem looseChars_pat : parsePat Gen.hasOnlyAToZNumHyphenUnderscorePattern.toList =
    some ⟨true, [(65, 90), (97, 122), (48, 57), (45, 45), (95, 95)], true, .absZ⟩ := by decide

theorem ctrl_pat : parsePat Gen.hasAsciiControlCharsPattern.toList = some ⟨false, [(0, 31), (127, 127)], false, .none⟩ := by decide

/-! ### shape pins: the source text of the statements that are hand-modelled (see tools/leaves/name.py).
An edit of one of these statements in the working tree breaks exactly the lemma named after it; the model in
`Zc/Model/Name.lean` / `Zc/Model/Txt.lean` was written against these texts. -/

theorem pin_suffix_test : Gen.Name.src_suffix_test = "type_.endswith((_TCP_PROTOCOL_LOCAL_TRAILER, _NONTCP_PROTOCOL_LOCAL_TRAILER))" := by decide
theorem pin_local_test : Gen.Name.src_local_test = "type_.endswith(_LOCAL_TRAILER)" := by decide
theorem pin_with_service : Gen.Name.src_with_service = "strict or has_protocol" := by decide
theorem pin_no_service_name : Gen.Name.src_no_service_name = "not service_name" := by decide
theorem pin_leading_dot : Gen.Name.src_leading_dot = "len(remaining) == 1 and len(remaining[0]) == 0" := by decide
theorem pin_first_underscore : Gen.Name.src_first_underscore = "service_name[0] != '_'" := by decide
theorem pin_test_service_name : Gen.Name.src_test_service_name = "service_name[1:]" := by decide
theorem pin_double_hyphen : Gen.Name.src_double_hyphen = "'--' in test_service_name" := by decide
theorem pin_edge_hyphen : Gen.Name.src_edge_hyphen = "'-' in (test_service_name[0], test_service_name[-1])" := by decide
theorem pin_letter_search : Gen.Name.src_letter_search = "not _HAS_A_TO_Z.search(test_service_name)" := by decide
theorem pin_allowed_re : Gen.Name.src_allowed_re = "_HAS_ONLY_A_TO_Z_NUM_HYPHEN if strict else _HAS_ONLY_A_TO_Z_NUM_HYPHEN_UNDERSCORE" := by decide
theorem pin_chars_search : Gen.Name.src_chars_search = "not allowed_characters_re.search(test_service_name)" := by decide
theorem pin_sub_test : Gen.Name.src_sub_test = "remaining and remaining[-1] == '_sub'" := by decide
theorem pin_sub_empty : Gen.Name.src_sub_empty = "len(remaining) == 0 or len(remaining[0]) == 0" := by decide
theorem pin_join_test : Gen.Name.src_join_test = "len(remaining) > 1" := by decide
theorem pin_split_proto : Gen.Name.src_split_proto = "type_[:-len(_TCP_PROTOCOL_LOCAL_TRAILER)].split('.')" := by decide
theorem pin_join : Gen.Name.src_join = "['.'.join(remaining)]" := by decide
theorem pin_split_local : Gen.Name.src_split_local = "type_[:-len(_LOCAL_TRAILER)].split('.')" := by decide
theorem pin_trailer_proto : Gen.Name.src_trailer_proto = "type_[-len(_TCP_PROTOCOL_LOCAL_TRAILER):]" := by decide
theorem pin_trailer_local : Gen.Name.src_trailer_local = "type_[-len(_LOCAL_TRAILER) + 1:]" := by decide
theorem pin_service_name_pop : Gen.Name.src_service_name_pop = "remaining.pop()" := by decide
theorem pin_result : Gen.Name.src_result = "service_name + trailer" := by decide
theorem pin_inst_length : Gen.Name.src_inst_length = "len(remaining[0].encode('utf-8'))" := by decide
theorem pin_ctrl_search : Gen.Name.src_ctrl_search = "_HAS_ASCII_CONTROL_CHARS.search(remaining[0])" := by decide
theorem pin_ctor_test : Gen.Name.src_ctor_test = "not type_.endswith(service_type_name(name, strict=False))" := by decide
theorem pin_txt_key_is_str : Gen.Name.src_txt_key_is_str = "isinstance(key, str)" := by decide
theorem pin_txt_value_present : Gen.Name.src_txt_value_present = "value is not None" := by decide
theorem pin_txt_value_not_bytes : Gen.Name.src_txt_value_not_bytes = "not isinstance(value, bytes)" := by decide
theorem pin_txt_value_coerce : Gen.Name.src_txt_value_coerce = "str(value).encode('utf-8')" := by decide
theorem pin_txt_item : Gen.Name.src_txt_item = "b''.join((result, bytes((len(item),)), item))" := by decide
theorem pin_txt_alias_test : Gen.Name.src_txt_alias_test = "not properties_contain_str" := by decide
theorem pin_txt_loop : Gen.Name.src_txt_loop = "index < end" := by decide
theorem pin_txt_slice : Gen.Name.src_txt_slice = "text[index:index + length]" := by decide
theorem pin_txt_partition : Gen.Name.src_txt_partition = "key_value.partition(b'=')" := by decide
theorem pin_txt_key : Gen.Name.src_txt_key = "key_sep_value[0]" := by decide
theorem pin_txt_first_wins : Gen.Name.src_txt_first_wins = "key not in properties" := by decide
theorem pin_txt_stored : Gen.Name.src_txt_stored = "key_sep_value[2] or None" := by decide

/-! second review round: the statements that had no pin, and one *statement census* per function (number of statements of
each kind, every assignment target in source order) so that an **added** statement — a new `if … raise`, a `break`, a second
assignment — breaks a lemma too.  (Text pins: they locate an edit; what the edit means is for the correspondence/oracle.) -/

theorem pin_inst_present : Gen.Name.src_inst_present = "remaining" := by decide
theorem pin_txt_dict_iter : Gen.Name.src_txt_dict_iter = "properties.items()" := by decide
theorem pin_txt_key_encode : Gen.Name.src_txt_key_encode = "key.encode('utf-8')" := by decide
theorem pin_txt_record : Gen.Name.src_txt_record = "key" := by decide
theorem pin_txt_record_value : Gen.Name.src_txt_record_value = "b'=' + value" := by decide
theorem pin_txt_append : Gen.Name.src_txt_append = "record" := by decide
theorem pin_txt_items_iter : Gen.Name.src_txt_items_iter = "list_" := by decide
theorem pin_txt_alias : Gen.Name.src_txt_alias = "properties" := by decide
theorem pin_txt_text_set : Gen.Name.src_txt_text_set = "result" := by decide
theorem pin_txt_text : Gen.Name.src_txt_text = "self.text" := by decide
theorem pin_txt_end : Gen.Name.src_txt_end = "len(text)" := by decide
theorem pin_txt_length : Gen.Name.src_txt_length = "text[index]" := by decide
theorem pin_txt_index_step1 : Gen.Name.src_txt_index_step1 = "1" := by decide
theorem pin_txt_index_step2 : Gen.Name.src_txt_index_step2 = "length" := by decide
theorem pin_census_name : Gen.Name.src_census_name =
    "Assign:12 Expr:1 If:20 Raise:16 Return:1 Try:1 | remaining trailer has_protocol remaining trailer has_protocol service_name test_service_name allowed_characters_re service_name remaining length" := rfl
theorem pin_census_set_properties : Gen.Name.src_census_set_properties =
    "AnnAssign:1 Assign:11 AugAssign:1 Expr:1 For:2 If:5 | list_ properties_contain_str result key properties_contain_str record value properties_contain_str record+ result self._properties self._properties self.text" := rfl
theorem pin_census_unpack : Gen.Name.src_census_unpack =
    "AnnAssign:1 Assign:10 AugAssign:2 If:2 Return:1 While:1 | text end self._properties index properties length index+ key_value key_sep_value key properties[key] index+ self._properties" := rfl

end Zc.Name.GenFacts
