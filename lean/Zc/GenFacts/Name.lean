import Zc.Model.Name
/-! The facts the C19 proofs need about the generated definitions (today's constants, numeric tests
and regular-expression texts of `_utils/name.py` / `const.py`).  Nothing else unfolds `Gen.*`. -/
namespace Zc.Name.GenFacts
open Zc.Name

theorem name_too_long_iff (n : Nat) : Gen.Name.name_too_long n = true ↔ 256 < n := by
  simp [Gen.Name.name_too_long]

/-- fails on a tree without the D9 repair (`if not test_service_name: raise …`) -/
theorem svc_empty_iff (n : Nat) : Gen.Name.svc_empty n = true ↔ n = 0 := by
  simp [Gen.Name.svc_empty]

theorem svc_too_long_iff (strict : Bool) (n : Nat) : Gen.Name.svc_too_long strict n = true ↔ strict = true ∧ 15 < n := by
  simp [Gen.Name.svc_too_long]

theorem inst_too_long_iff (n : Nat) : Gen.Name.inst_too_long n = true ↔ 63 < n := by
  simp [Gen.Name.inst_too_long]

theorem tcpT_eq : tcpT = ['.', '_', 't', 'c', 'p', '.', 'l', 'o', 'c', 'a', 'l', '.'] := by decide
theorem udpT_eq : udpT = ['.', '_', 'u', 'd', 'p', '.', 'l', 'o', 'c', 'a', 'l', '.'] := by decide
theorem localT_eq : localT = ['.', 'l', 'o', 'c', 'a', 'l', '.'] := by decide

theorem hasAToZ_pat : parsePat Gen.hasAToZPattern.toList = some ⟨false, [(65, 90), (97, 122)], false, .none⟩ := by decide

/-- fails on a tree without the D10 repair (`$` instead of `\Z`) -/
theorem strictChars_pat : parsePat Gen.hasOnlyAToZNumHyphenPattern.toList =
    some ⟨true, [(65, 90), (97, 122), (48, 57), (45, 45)], true, .absZ⟩ := by decide

/-- fails on a tree without the D10 repair (`$` instead of `\Z`) -/
theorem looseChars_pat : parsePat Gen.hasOnlyAToZNumHyphenUnderscorePattern.toList =
    some ⟨true, [(65, 90), (97, 122), (48, 57), (45, 45), (95, 95)], true, .absZ⟩ := by decide

theorem ctrl_pat : parsePat Gen.hasAsciiControlCharsPattern.toList = some ⟨false, [(0, 31), (127, 127)], false, .none⟩ := by decide

/-! ### shape pins: the source text of the statements that are hand-modelled (see tools/leaves/name.py).
An edit of one of these statements in the working tree breaks exactly the lemma named after it; the model in
`Zc/Model/Name.lean` / `Zc/Model/Txt.lean` was written against these texts. -/

theorem pin_suffix_test : Gen.Name.src_suffix_test = "type_.endswith((_TCP_PROTOCOL_LOCAL_TRAILER, _NONTCP_PROTOCOL_LOCAL_TRAILER))" := by decide
theorem pin_local_test : Gen.Name.src_local_test = "type_.endswith(_LOCAL_TRAILER)" := by decide
theorem pin_with_service : Gen.Name.src_with_service = "strict or has_protocol" := by decide
theorem pin_no_service_name : Gen.Name.src_no_service_name = "not service_name" := by decide
theorem pin_leading_dot : Gen.Name.src_leading_dot = "len(remaining) == 1 and len(remaining[0]) == 0" := by decide
theorem pin_first_underscore : Gen.Name.src_first_underscore = "service_name[0] != '_'" := by decide
theorem pin_test_service_name : Gen.Name.src_test_service_name = "service_name[1:]" := by decide
theorem pin_double_hyphen : Gen.Name.src_double_hyphen = "'--' in test_service_name" := by decide
theorem pin_edge_hyphen : Gen.Name.src_edge_hyphen = "'-' in (test_service_name[0], test_service_name[-1])" := by decide
theorem pin_letter_search : Gen.Name.src_letter_search = "not _HAS_A_TO_Z.search(test_service_name)" := by decide
theorem pin_allowed_re : Gen.Name.src_allowed_re = "_HAS_ONLY_A_TO_Z_NUM_HYPHEN if strict else _HAS_ONLY_A_TO_Z_NUM_HYPHEN_UNDERSCORE" := by decide
theorem pin_chars_search : Gen.Name.src_chars_search = "not allowed_characters_re.search(test_service_name)" := by decide
theorem pin_sub_test : Gen.Name.src_sub_test = "remaining and remaining[-1] == '_sub'" := by decide
theorem pin_sub_empty : Gen.Name.src_sub_empty = "len(remaining) == 0 or len(remaining[0]) == 0" := by decide
theorem pin_join_test : Gen.Name.src_join_test = "len(remaining) > 1" := by decide
theorem pin_split_proto : Gen.Name.src_split_proto = "type_[:-len(_TCP_PROTOCOL_LOCAL_TRAILER)].split('.')" := by decide
theorem pin_join : Gen.Name.src_join = "['.'.join(remaining)]" := by decide
theorem pin_split_local : Gen.Name.src_split_local = "type_[:-len(_LOCAL_TRAILER)].split('.')" := by decide
theorem pin_trailer_proto : Gen.Name.src_trailer_proto = "type_[-len(_TCP_PROTOCOL_LOCAL_TRAILER):]" := by decide
theorem pin_trailer_local : Gen.Name.src_trailer_local = "type_[-len(_LOCAL_TRAILER) + 1:]" := by decide
theorem pin_service_name_pop : Gen.Name.src_service_name_pop = "remaining.pop()" := by decide
theorem pin_result : Gen.Name.src_result = "service_name + trailer" := by decide
theorem pin_inst_length : Gen.Name.src_inst_length = "len(remaining[0].encode('utf-8'))" := by decide
theorem pin_ctrl_search : Gen.Name.src_ctrl_search = "_HAS_ASCII_CONTROL_CHARS.search(remaining[0])" := by decide
theorem pin_ctor_test : Gen.Name.src_ctor_test = "not type_.endswith(service_type_name(name, strict=False))" := by decide
theorem pin_txt_key_is_str : Gen.Name.src_txt_key_is_str = "isinstance(key, str)" := by decide
theorem pin_txt_value_present : Gen.Name.src_txt_value_present = "value is not None" := by decide
theorem pin_txt_value_not_bytes : Gen.Name.src_txt_value_not_bytes = "not isinstance(value, bytes)" := by decide
theorem pin_txt_value_coerce : Gen.Name.src_txt_value_coerce = "str(value).encode('utf-8')" := by decide
theorem pin_txt_item : Gen.Name.src_txt_item = "b''.join((result, bytes((len(item),)), item))" := by decide
theorem pin_txt_alias_test : Gen.Name.src_txt_alias_test = "not properties_contain_str" := by decide
theorem pin_txt_loop : Gen.Name.src_txt_loop = "index < end" := by decide
theorem pin_txt_slice : Gen.Name.src_txt_slice = "text[index:index + length]" := by decide
theorem pin_txt_partition : Gen.Name.src_txt_partition = "key_value.partition(b'=')" := by decide
theorem pin_txt_key : Gen.Name.src_txt_key = "key_sep_value[0]" := by decide
theorem pin_txt_first_wins : Gen.Name.src_txt_first_wins = "key not in properties" := by decide
theorem pin_txt_stored : Gen.Name.src_txt_stored = "key_sep_value[2] or None" := by decide

end Zc.Name.GenFacts
