import Zc.Model.Name
/-! The facts the C19 proofs need about the generated definitions (today's constants, numeric tests
and regular-expression texts of `_utils/name.py` / `const.py`).  Nothing else unfolds `Gen.*`. -/
namespace Zc.Name.GenFacts
open Zc.Name

theorem name_too_long_iff (n : Nat) : Gen.Name.name_too_long n = true ↔ 256 < n := by
  simp [Gen.Name.name_too_long]

/-- fails on a tree without the D9 repair (`if not test_service_name: raise …`) -/
theorem svc_empty_iff (n : Nat) : Gen.Name.svc_empty n = true ↔ n = 0 := by
  simp [Gen.Name.svc_empty]

theorem svc_too_long_iff (strict : Bool) (n : Nat) : Gen.Name.svc_too_long strict n = true ↔ strict = true ∧ 15 < n := by
  simp [Gen.Name.svc_too_long]

theorem inst_too_long_iff (n : Nat) : Gen.Name.inst_too_long n = true ↔ 63 < n := by
  simp [Gen.Name.inst_too_long]

theorem tcpT_eq : tcpT = ['.', '_', 't', 'c', 'p', '.', 'l', 'o', 'c', 'a', 'l', '.'] := by decide
theorem udpT_eq : udpT = ['.', '_', 'u', 'd', 'p', '.', 'l', 'o', 'c', 'a', 'l', '.'] := by decide
theorem localT_eq : localT = ['.', 'l', 'o', 'c', 'a', 'l', '.'] := by decide

theorem hasAToZ_pat : parsePat Gen.hasAToZPattern.toList = some ⟨false, [(65, 90), (97, 122)], false, .none⟩ := by decide

/-- fails on a tree without the D10 repair (`$` instead of `\Z`) -/
theorem strictChars_pat : parsePat Gen.hasOnlyAToZNumHyphenPattern.toList =
    some ⟨true, [(65, 90), (97, 122), (48, 57), (45, 45)], true, .absZ⟩ := by decide

/-- fails on a tree without the D10 repair (`$` instead of `\Z`) -/
theorem looseChars_pat : parsePat Gen.hasOnlyAToZNumHyphenUnderscorePattern.toList =
    some ⟨true, [(65, 90), (97, 122), (48, 57), (45, 45), (95, 95)], true, .absZ⟩ := by decide

theorem ctrl_pat : parsePat Gen.hasAsciiControlCharsPattern.toList = some ⟨false, [(0, 31), (127, 127)], false, .none⟩ := by decide

end Zc.Name.GenFacts
