import Zc.Proofs.Register
import Zc.Model.Responder
/-! # C09 — registration probes first, detects conflicts, then announces completely

Model: `Zc.Register` (`Model/Register.lean`).  One `async_register_service` call is a run of *atomic blocks* of
`async_check_service`: `Cfg.start` is the block entered by the call, `Cfg.wake` a block entered when
`async_wait` returns — at its timer (`now = due`) or earlier, through `async_notify_all`, whenever the cache
learnt something (`now < due`).  Each block sees the cache bucket of the service type as it is at that instant.
The theorems quantify over **all** sequences of wake-ups and cache contents.  Numbers (175, 225, 3) are those
of the English statement; `GenFacts/Register.lean` proves that today's constants imply them. -/
namespace Zc.Register
open Zc

/-- the packet schedule of an undisturbed registration: three probes 175 ms apart -/
def probeSchedule (t0 : Int) (svc : Svc) : List (Int × Pkt) :=
  [(t0, probePkt svc), (t0 + 175, probePkt svc), (t0 + 350, probePkt svc)]

/-- **Schedule.**  If no check ever finds the name in the cache then — whatever the number and the instants of
the wake-ups — the name is kept, registration never fails, exactly the first `i` entries of the probe schedule
`t0, t0+175, t0+350` have been sent, the coroutine sleeps until the next entry, and it is finished exactly when
all three are out, at `t0 + 350`. -/
theorem C09_schedule (allow : Bool) (valid : String → Bool) (svc : Svc) (inst : String) (w0 : Wake) (ws : List Wake) (c : Cfg)
    (hq : ∀ w ∈ w0 :: ws, conflict w.bucket w.now svc.name = false)
    (hrun : (Cfg.start { allow, valid, bucket := w0.bucket } svc inst w0.now).run allow valid ws = some c) :
    c.st.svc = svc ∧ c.sent = (probeSchedule w0.now svc).take c.st.i ∧
    match c.phase with
    | .waiting due => 0 < c.st.i ∧ c.st.i < 3 ∧ due = w0.now + 175 * (c.st.i : Int)
    | .done => c.st.i = 3 ∧ c.st.now = w0.now + 350
    | _ => False := by
  have h0 := start_qinv { allow, valid, bucket := w0.bucket } svc inst w0.now (hq w0 (by simp))
  have h := run_qinv allow valid svc w0.now ws _ c h0 (fun w hw => hq w (by simp [hw])) hrun
  obtain ⟨hsvc, hsent, hn, hph⟩ := h
  refine ⟨hsvc, ?_, ?_⟩
  · rw [hsent]
    have hi : c.st.i ≤ 3 := by
      cases hp : c.phase <;> simp [hp] at hph <;> omega
    have : c.st.i = 0 ∨ c.st.i = 1 ∨ c.st.i = 2 ∨ c.st.i = 3 := by omega
    rcases this with h | h | h | h <;> simp [h, seqProbes, probeSchedule, List.range_succ]
  · cases hp : c.phase <;> simp [hp] at hph ⊢
    · omega
    · omega

/-- … and with the two timer wake-ups at their due instants the registration does complete (non-vacuity of
`C09_schedule`, and the liveness half of the schedule claim). -/
theorem C09_schedule_completes (allow : Bool) (valid : String → Bool) (svc : Svc) (inst : String) (t0 : Int) (b0 b1 b2 : List Rec)
    (h0 : conflict b0 t0 svc.name = false) (h1 : conflict b1 (t0 + 175) svc.name = false) (h2 : conflict b2 (t0 + 350) svc.name = false) :
    ∃ c, (Cfg.start { allow, valid, bucket := b0 } svc inst t0).run allow valid [⟨t0 + 175, b1⟩, ⟨t0 + 350, b2⟩] = some c
      ∧ c.phase = .done ∧ c.sent = probeSchedule t0 svc ∧ c.st.now = t0 + 350 := by
  -- first block
  have q0 := start_qinv { allow, valid, bucket := b0 } svc inst t0 h0
  generalize hc0 : Cfg.start { allow, valid, bucket := b0 } svc inst t0 = c0 at q0
  have r0 := start_res { allow, valid, bucket := b0 } svc inst t0
  have e0 := start_eq { allow, valid, bucket := b0 } svc inst t0
  rw [hc0] at e0
  have hst0 : c0.st.i = 1 ∧ c0.phase = .waiting (t0 + 175) ∧ c0.st.now = t0 ∧ c0.st.nextTime = t0 + 175 := by
    generalize startBlock { allow, valid, bucket := b0 } svc inst t0 = r at r0 e0
    cases r0 <;> simp_all [PState.init, Cfg.after, phaseOf]
  obtain ⟨hi0, hp0, hn0, hnt0⟩ := hst0
  -- second block, at the timer
  have hw1 : ∃ c1, c0.wake { allow, valid, bucket := b1 } (t0 + 175) = some c1 := by
    unfold Cfg.wake; simp [hp0, hn0]; omega
  obtain ⟨c1, hw1⟩ := hw1
  have q1 := wake_qinv { allow, valid, bucket := b1 } svc t0 c0 c1 (t0 + 175) q0 h1 hw1
  obtain ⟨_, _, _, _, e1⟩ := wake_some _ c0 c1 _ hw1
  have r1 := resume_res { allow, valid, bucket := b1 } c0.st (t0 + 175) (by omega) (by omega)
  have hst1 : c1.st.i = 2 ∧ c1.phase = .waiting (t0 + 350) ∧ c1.st.now = t0 + 175 ∧ c1.st.nextTime = t0 + 350 := by
    generalize resumeBlock { allow, valid, bucket := b1 } c0.st (t0 + 175) = r at r1 e1
    obtain ⟨hs, _⟩ := q0
    cases r1 <;> simp_all [Cfg.after, phaseOf] <;> (try omega)
  obtain ⟨hi1, hp1, hn1, hnt1⟩ := hst1
  -- third block
  have hw2 : ∃ c2, c1.wake { allow, valid, bucket := b2 } (t0 + 350) = some c2 := by
    unfold Cfg.wake; simp [hp1, hn1]
  obtain ⟨c2, hw2⟩ := hw2
  have q2 := wake_qinv { allow, valid, bucket := b2 } svc t0 c1 c2 (t0 + 350) q1 h2 hw2
  obtain ⟨_, _, _, _, e2⟩ := wake_some _ c1 c2 _ hw2
  have r2 := resume_res { allow, valid, bucket := b2 } c1.st (t0 + 350) (by omega) (by omega)
  have hst2 : c2.st.i = 3 ∧ c2.phase = .done ∧ c2.st.now = t0 + 350 := by
    generalize resumeBlock { allow, valid, bucket := b2 } c1.st (t0 + 350) = r at r2 e2
    obtain ⟨hs, _⟩ := q1
    cases r2 <;> simp_all [Cfg.after, phaseOf] <;> (try omega)
  obtain ⟨hi2, hp2, hn2⟩ := hst2
  refine ⟨c2, ?_, hp2, ?_, hn2⟩
  · simp [Cfg.run, hw1, hw2]
  · obtain ⟨_, hsent, _⟩ := q2
    rw [hsent, hi2]
    simp [seqProbes, probeSchedule, List.range_succ]

/-- **Conflict.**  Whatever happened before (`hrun`: any history of blocks), a wake-up that finds an unexpired
pointer to the current name in the cache — a wake-up can only happen while fewer than three probes for that
name are out, i.e. up to and including the last probe check — ends the registration with
`NonUniqueNameException` when renaming is not allowed, nothing being sent; and otherwise renames to the
**first** candidate `-n` (`n ≥` the next unused suffix) that is not in the cache, every smaller one being taken,
sends the first probe for the new name at once and restarts the count (`i = 1`, next probe 175 ms later) —
or fails with `BadTypeInNameException` if a candidate on the way is not a valid service name. -/
theorem C09_conflict (allow : Bool) (valid : String → Bool) (svc : Svc) (inst : String) (w0 : Wake) (ws : List Wake)
    (c c' : Cfg) (w : Wake)
    (hrun : (Cfg.start { allow, valid, bucket := w0.bucket } svc inst w0.now).run allow valid ws = some c)
    (hw : c.wake { allow, valid, bucket := w.bucket } w.now = some c')
    (hc : conflict w.bucket w.now c.st.svc.name = true) :
    (allow = false ∧ c'.phase = .failed .nonUnique ∧ c'.sent = c.sent ∧ c'.st.svc = c.st.svc) ∨
    (allow = true ∧ ∃ n, c.st.nextInst ≤ n ∧
      (∀ m, c.st.nextInst ≤ m → m < n → conflict w.bucket w.now (mkName c.st.inst m c.st.svc.type) = true) ∧
      ((valid (mkName c.st.inst n c.st.svc.type) = true ∧ conflict w.bucket w.now (mkName c.st.inst n c.st.svc.type) = false ∧
          c'.st.svc = { c.st.svc with name := mkName c.st.inst n c.st.svc.type } ∧ c'.st.nextInst = n + 1 ∧ c'.st.i = 1 ∧
          c'.phase = .waiting (w.now + 175) ∧ c'.sent = c.sent ++ [(w.now, probePkt c'.st.svc)]) ∨
       (valid (mkName c.st.inst n c.st.svc.type) = false ∧ c'.phase = .failed .badType ∧ c'.sent = c.sent))) := by
  have hinv := run_inv allow valid ws _ c (start_inv _ svc inst w0.now) hrun
  obtain ⟨due, hph, h1, h2, rfl⟩ := wake_some _ c c' w.now hw
  simp only [Inv, hph] at hinv
  obtain ⟨_, hdue, hlt, hi⟩ := hinv
  have hr := resume_res { allow, valid, bucket := w.bucket } c.st w.now hi (by omega)
  generalize resumeBlock { allow, valid, bucket := w.bucket } c.st w.now = r at hr
  cases hr with
  | sleep hf _ => simp [hc] at hf
  | probe hf _ _ => simp [hc] at hf
  | last hf _ _ => simp [hc] at hf
  | nonUnique _ ha => left; exact ⟨ha, by simp [Cfg.after, phaseOf]⟩
  | renamed n _ ha hle hch hv hf =>
    right
    refine ⟨ha, n, hle, fun m a b => (hch m a b).1, Or.inl ⟨hv, hf, ?_⟩⟩
    simp [Cfg.after, phaseOf, renamedTo]
  | badType n st' _ ha hle hch hv hn =>
    right
    exact ⟨ha, n, hle, fun m a b => (hch m a b).1, Or.inr ⟨hv, by simp [Cfg.after, phaseOf]⟩⟩

/-- the same at the very first check (cache pre-populated before the call) -/
theorem C09_conflict_at_start (allow : Bool) (valid : String → Bool) (svc : Svc) (inst : String) (w0 : Wake)
    (hc : conflict w0.bucket w0.now svc.name = true) :
    let c' := Cfg.start { allow, valid, bucket := w0.bucket } svc inst w0.now
    (allow = false ∧ c'.phase = .failed .nonUnique ∧ c'.sent = [] ∧ c'.st.svc = svc) ∨
    (allow = true ∧ ∃ n, 2 ≤ n ∧
      (∀ m, 2 ≤ m → m < n → conflict w0.bucket w0.now (mkName inst m svc.type) = true) ∧
      ((valid (mkName inst n svc.type) = true ∧ conflict w0.bucket w0.now (mkName inst n svc.type) = false ∧
          c'.st.svc = { svc with name := mkName inst n svc.type } ∧ c'.st.nextInst = n + 1 ∧ c'.st.i = 1 ∧
          c'.phase = .waiting (w0.now + 175) ∧ c'.sent = [(w0.now, probePkt c'.st.svc)]) ∨
       (valid (mkName inst n svc.type) = false ∧ c'.phase = .failed .badType ∧ c'.sent = []))) := by
  intro c'
  have hr := start_res { allow, valid, bucket := w0.bucket } svc inst w0.now
  have he := start_eq { allow, valid, bucket := w0.bucket } svc inst w0.now
  show _ ∨ _
  simp only [c', he]
  generalize startBlock { allow, valid, bucket := w0.bucket } svc inst w0.now = r at hr
  cases hr with
  | sleep hf _ => simp [PState.init, hc] at hf
  | probe hf _ _ => simp [PState.init, hc] at hf
  | last hf _ _ => simp [PState.init, hc] at hf
  | nonUnique _ ha => left; exact ⟨ha, by simp [Cfg.after, phaseOf, PState.init]⟩
  | renamed n _ ha hle hch hv hf =>
    right
    refine ⟨ha, n, hle, fun m a b => (hch m a b).1, Or.inl ⟨hv, hf, ?_⟩⟩
    simp [Cfg.after, phaseOf, renamedTo, PState.init]
  | badType n st' _ ha hle hch hv hn =>
    right
    exact ⟨ha, n, hle, fun m a b => (hch m a b).1, Or.inr ⟨hv, by simp [Cfg.after, phaseOf]⟩⟩

/-- **Only a name that passed the last check is registered.**  Whatever the history, when the check completes
(`phase = done`, after which `async_register_service` adds the info to the registry and starts announcing) the
block that sent the third probe found the final name free in the cache of that instant, and the last three
datagrams are the probes of exactly that name, 175 ms apart, the last one at the instant of completion. -/
theorem C09_done (allow : Bool) (valid : String → Bool) (svc : Svc) (inst : String) (w0 : Wake) (ws : List Wake)
    (c c' : Cfg) (w : Wake)
    (hrun : (Cfg.start { allow, valid, bucket := w0.bucket } svc inst w0.now).run allow valid ws = some c)
    (hw : c.wake { allow, valid, bucket := w.bucket } w.now = some c') (hd : c'.phase = .done) :
    conflict w.bucket w.now c'.st.svc.name = false ∧ c'.st.now = w.now ∧
    ∃ older, c'.sent = older ++ probeSchedule (w.now - 350) c'.st.svc := by
  have hinv := run_inv allow valid ws _ c (start_inv _ svc inst w0.now) hrun
  have hinv' := wake_inv _ c c' w.now hinv hw
  obtain ⟨due, hph, h1, h2, rfl⟩ := wake_some _ c c' w.now hw
  simp only [Inv, hph] at hinv
  obtain ⟨_, hdue, hlt, hi⟩ := hinv
  have hr := resume_res { allow, valid, bucket := w.bucket } c.st w.now hi (by omega)
  simp only [Inv] at hinv'
  generalize resumeBlock { allow, valid, bucket := w.bucket } c.st w.now = r at hr hinv' hd
  cases hr with
  | last hf heq h3 =>
    simp only [Cfg.after, phaseOf] at hinv' ⊢
    obtain ⟨⟨T, older, hs, hn⟩, hi3, hnow⟩ := hinv'
    refine ⟨hf, trivial, older, ?_⟩
    simp only at hi3 hn hnow hs
    rw [hs, hi3]
    have hT : T = w.now - 350 := by
      rw [hi3] at hn; push_cast at hn; omega
    subst hT
    simp [seqProbes, probeSchedule, List.range_succ]
  | sleep _ _ => simp [Cfg.after, phaseOf] at hd
  | probe _ _ _ => simp [Cfg.after, phaseOf] at hd
  | nonUnique _ _ => simp [Cfg.after, phaseOf] at hd
  | renamed _ _ _ _ _ _ _ => simp [Cfg.after, phaseOf] at hd
  | badType _ _ _ _ _ _ _ _ => simp [Cfg.after, phaseOf] at hd

/-! ### announcements -/

/-- **… and only then three announcements 225 ms apart.**  The task spawned at completion time `t` sends the
same datagram at `t`, `t + 225`, `t + 450` (with `C09_schedule`: `t0 + 350`, `t0 + 575`, `t0 + 800`). -/
theorem C09_announce_schedule (svc : Svc) (oid : Nat) (t : Int) :
    (announceTask svc oid t).schedule 3 =
      [(t, broadcastPkt svc none true), (t + 225, broadcastPkt svc none true), (t + 450, broadcastPkt svc none true)] := by
  simp [Task.schedule, Task.step, announceTask, Zc.GenFacts.Register.broadcast_count_eq, Zc.GenFacts.Register.registerTime_eq,
    Gen.Register.announce_stops]
  omega

/-- an announcement carries PTR, SRV, TXT, every address, and the NSEC record exactly when an address family is
missing (the record `get_address_and_nsec_records` defines), all in the answer section of a response -/
theorem C09_announce_contents (svc : Svc) :
    (broadcastPkt svc none true).answers =
      [svc.ptr none, svc.srv none, svc.txt none] ++ svc.addrs none ++ (if svc.missing.isEmpty then [] else [svc.nsec none])
    ∧ (broadcastPkt svc none true).questions = [] ∧ (broadcastPkt svc none true).authorities = []
    ∧ (broadcastPkt svc none true).additionals = [] := by
  simp [broadcastPkt, broadcastAnswers, Svc.addrNsec, Zc.GenFacts.Register.add_addresses_eq]

/-- the cache-flush bit is set on the unique records (SRV, TXT, A, AAAA, NSEC) and only on them (not on the
shared PTR); the TTLs are the service's own -/
theorem C09_announce_flush (svc : Svc) (r : Rec) (h : r ∈ (broadcastPkt svc none true).answers) :
    (r.unique = true ↔ r.type ≠ 12) ∧ r.class_ = 1 ∧
    (r.ttl = if r.type = 12 ∨ r.type = 16 then svc.otherTtl else svc.hostTtl) := by
  open Zc.GenFacts.Register in
  have h' : r = svc.ptr none ∨ r = svc.srv none ∨ r = svc.txt none ∨ r ∈ svc.addrs none ∨ r = svc.nsec none := by
    simp only [broadcastPkt, broadcastAnswers, Svc.addrNsec, add_addresses_eq, if_true, List.cons_append, List.nil_append,
      List.mem_cons, List.mem_append] at h
    rcases h with h | h | h | h | h
    · exact Or.inl h
    · exact Or.inr (Or.inl h)
    · exact Or.inr (Or.inr (Or.inl h))
    · exact Or.inr (Or.inr (Or.inr (Or.inl h)))
    · split at h
      · simp at h
      · simp only [List.mem_singleton] at h
        exact Or.inr (Or.inr (Or.inr (Or.inr h)))
  simp only [Svc.addrs, List.mem_append, List.mem_map] at h'
  rcases h' with rfl | rfl | rfl | (⟨_, _, rfl⟩ | ⟨_, _, rfl⟩) | rfl
  all_goals (simp [Svc.ptr, Svc.srv, Svc.txt, Svc.nsec, mkRec, ttlOf, unique_in, unique_inUnique, class_in, class_inUnique,
    typePtr_eq, typeSrv_eq, typeTxt_eq, typeA_eq, typeAaaa_eq, typeNsec_eq])

/-- a probe is a query with one QU PTR question for the type and the proposed pointer (not flushed) as its only authority record -/
theorem C09_probe_shape (svc : Svc) :
    (probePkt svc).questions = [{ name := svc.type, type := 12, class_ := 1, unique := true }] ∧
    (probePkt svc).authorities = [svc.ptr none] ∧ (svc.ptr none).rdata = .ptr svc.name ∧ (svc.ptr none).name = svc.type ∧
    (probePkt svc).answers = [] ∧ (probePkt svc).additionals = [] := by
  open Zc.GenFacts.Register in
  simp [probePkt, Svc.ptr, mkRec, unique_inUnique, class_inUnique, typePtr_eq]

/-! ### probe first, *only then* announce — the whole `async_register_service` call -/

/-- **Only then.**  For every history of wake-ups, one `async_register_service` call (`registerRun`: check, `registry.async_add`,
announcement task) puts on the wire: first nothing but probes (everything the check sent); and — exactly when the check completed
and the registry accepted the name — afterwards the three announcements of the **final** service `r.cfg.st.svc` (the name that
passed the last check), the first at the completion instant `now`, i.e. at the instant of the third probe, then `now + 225`,
`now + 450`; the last three probes are those of that final name at `now − 350`, `now − 175`, `now`; the name is appended to the
registry's key table.  In every other outcome (`NonUniqueNameException`, `BadTypeInNameException`,
`ServiceNameAlreadyRegistered`, check still waiting) no announcement is ever sent and the registry is unchanged. -/
theorem C09_only_then (allow : Bool) (valid : String → Bool) (lower : String → String) (names : Names) (svc : Svc) (inst : String) (oid : Nat)
    (w0 : Wake) (ws : List Wake) (r : RegResult)
    (h : registerRun allow valid lower names svc inst oid w0 ws = some r) :
    (∀ x ∈ r.cfg.sent, ∃ s, x.2 = probePkt s) ∧
    match r.task with
    | some t =>
        r.error = none ∧ r.cfg.phase = .done ∧ t = announceTask r.cfg.st.svc oid r.cfg.st.now ∧
        r.names = names ++ [(lower r.cfg.st.svc.name, oid)] ∧
        ∃ older, r.wire = older ++ probeSchedule (r.cfg.st.now - 350) r.cfg.st.svc ++
          [(r.cfg.st.now, broadcastPkt r.cfg.st.svc none true), (r.cfg.st.now + 225, broadcastPkt r.cfg.st.svc none true),
           (r.cfg.st.now + 450, broadcastPkt r.cfg.st.svc none true)]
    | none => r.names = names ∧ r.wire = r.cfg.sent := by
  unfold registerRun at h
  split at h
  · simp at h
  rename_i c hrun
  have hip := run_inv_probes allow valid ws _ c (start_inv _ svc inst w0.now) (start_probes _ svc inst w0.now) hrun
  obtain ⟨hinv, hprobes⟩ := hip
  split at h
  · rename_i hdone
    split at h
    · rename_i names' hadd
      simp only [Option.some.injEq] at h
      subst h
      refine ⟨hprobes, rfl, hdone, rfl, ?_, ?_⟩
      · unfold Names.add at hadd
        split at hadd
        · simp at hadd
        · simp only [Except.ok.injEq] at hadd; exact hadd.symm
      · simp only [Inv, hdone] at hinv
        obtain ⟨⟨T, older, hs, hn⟩, hi3, hnow⟩ := hinv
        refine ⟨older, ?_⟩
        have hT : T = c.st.now - 350 := by rw [hi3] at hn; push_cast at hn; omega
        simp only [RegResult.wire, C09_announce_schedule, hs, hi3, hT]
        simp [seqProbes, probeSchedule, List.range_succ]
    · simp only [Option.some.injEq] at h
      subst h
      exact ⟨hprobes, rfl, by simp [RegResult.wire]⟩
  · simp only [Option.some.injEq] at h
    subst h
    exact ⟨hprobes, rfl, by simp [RegResult.wire]⟩
  · simp only [Option.some.injEq] at h
    subst h
    exact ⟨hprobes, rfl, by simp [RegResult.wire]⟩

/-- **The conflicting name is never announced.**  Whatever happens to the cache afterwards (the peer's record may expire or be
withdrawn), a name the registration has moved away from is never the name it completes — and hence (`C09_only_then`) is announced —
under: names only move forward through `name`, `-2`, `-3`, … (the suffix counter never decreases and candidate names are injective).
`hname`: the instance part is what `instance_name_from_service_info` computes. -/
theorem C09_abandoned_never_returns (allow : Bool) (valid : String → Bool) (svc : Svc) (inst : String) (w0 : Wake) (ws1 ws2 : List Wake)
    (c1 c2 c3 : Cfg) (w : Wake) (hname : svc.name = inst ++ "." ++ svc.type)
    (h1 : (Cfg.start { allow, valid, bucket := w0.bucket } svc inst w0.now).run allow valid ws1 = some c1)
    (hw : c1.wake { allow, valid, bucket := w.bucket } w.now = some c2) (hch : c2.st.svc.name ≠ c1.st.svc.name)
    (h3 : c2.run allow valid ws2 = some c3) (hd : c3.phase = .done) : c3.st.svc.name ≠ c1.st.svc.name := by
  have i1 := run_inv allow valid ws1 _ c1 (start_inv _ svc inst w0.now) h1
  have n1 := run_ninv allow valid inst svc.type svc.name 2 ws1 _ c1 (start_inv _ svc inst w0.now) (start_ninv _ svc inst w0.now) h1
  obtain ⟨due, hph1, _⟩ := wake_some _ c1 c2 w.now hw
  simp only [NInv, hph1] at n1
  obtain ⟨a1, a2, _, a4, a5⟩ := n1
  have i2 := wake_inv _ c1 c2 w.now i1 hw
  have n2 : NInv inst svc.type svc.name c1.st.nextInst c2 :=
    wake_ninv _ inst svc.type svc.name c1.st.nextInst c1 c2 w.now i1 (by simp only [NInv, hph1]; exact ⟨a1, a2, Nat.le_refl _, a4, a5⟩) hw
  -- c2 is still alive (otherwise the run could not end `done` … unless c2 itself is `done`)
  have hal : (∃ due, c2.phase = .waiting due) ∨ c2.phase = .done := by
    cases hp : c2.phase with
    | waiting due => exact Or.inl ⟨due, rfl⟩
    | done => exact Or.inr rfl
    | failed e =>
      have := run_not_waiting allow valid c2 c3 ws2 (by intro d; simp [hp]) h3
      rw [this, hp] at hd; simp at hd
    | stuck =>
      have := run_not_waiting allow valid c2 c3 ws2 (by intro d; simp [hp]) h3
      rw [this, hp] at hd; simp at hd
  have n2' : c1.st.nextInst ≤ c2.st.nextInst ∧ 2 ≤ c2.st.nextInst ∧ c2.st.svc.name = nameOf inst svc.type svc.name c2.st.nextInst := by
    rcases hal with ⟨d, hp⟩ | hp <;> simp only [NInv, hp] at n2 <;> exact ⟨n2.2.2.1, n2.2.2.2.1, n2.2.2.2.2⟩
  have hlt : c1.st.nextInst < c2.st.nextInst := by
    rcases Nat.lt_or_ge c1.st.nextInst c2.st.nextInst with h | h
    · exact h
    · exfalso; apply hch
      have : c2.st.nextInst = c1.st.nextInst := by omega
      rw [n2'.2.2, a5, this]
  have n3 := run_ninv allow valid inst svc.type svc.name c2.st.nextInst ws2 c2 c3 i2
    (by rcases hal with ⟨d, hp⟩ | hp <;> simp only [NInv, hp] at n2 ⊢ <;> exact ⟨n2.1, n2.2.1, Nat.le_refl _, n2.2.2.2.1, n2.2.2.2.2⟩) h3
  simp only [NInv, hd] at n3
  obtain ⟨_, _, b3, b4, b5⟩ := n3
  intro heq
  rw [b5, a5, hname] at heq
  have := nameOf_inj inst svc.type _ _ b4 a4 heq
  omega

/-- non-vacuity of `C09_conflict` (a conflict learnt in mid-run, at a notification wake-up 100 ms after the first probe): the
hypotheses hold together and the registration goes on under `-2`, probing again at once and 175 ms later -/
example :
    let env : Env := { allow := true, valid := fun _ => true, bucket := [] }
    let c := Cfg.start env ⟨"_http._tcp.local.", "svc._http._tcp.local.", "host.local.", 80, 0, 0, [], [[10, 0, 0, 1]], [], 120, 4500⟩ "svc" 1000
    (c.wake { env with bucket := [⟨"_http._tcp.local.", 12, 1, false, 4500, 0, .ptr "svc._http._tcp.local."⟩] } 1100).map
        (fun c' => (c'.st.svc.name, c'.st.i, c'.phase, c'.sent.map (·.1))) =
      some ("svc-2._http._tcp.local.", 1, .waiting 1275, [1000, 1100]) := by
  decide

/-! ### the conflicting name as an owner name (known finding D16, `C09:server-none-keeps-conflicting-host-name`) -/

/-- every record of an announcement is owned by the service type (PTR), the instance name (SRV, TXT, NSEC) or the host name (A, AAAA) -/
theorem C09_announce_owners (svc : Svc) (r : Rec) (h : r ∈ (broadcastPkt svc none true).answers) :
    r.name = svc.type ∨ r.name = svc.name ∨ r.name = svc.server := by
  open Zc.GenFacts.Register in
  have h' : r = svc.ptr none ∨ r = svc.srv none ∨ r = svc.txt none ∨ r ∈ svc.addrs none ∨ r = svc.nsec none := by
    simp only [broadcastPkt, broadcastAnswers, Svc.addrNsec, add_addresses_eq, if_true, List.cons_append, List.nil_append,
      List.mem_cons, List.mem_append] at h
    rcases h with h | h | h | h | h
    · exact Or.inl h
    · exact Or.inr (Or.inl h)
    · exact Or.inr (Or.inr (Or.inl h))
    · exact Or.inr (Or.inr (Or.inr (Or.inl h)))
    · split at h
      · simp at h
      · simp only [List.mem_singleton] at h
        exact Or.inr (Or.inr (Or.inr (Or.inr h)))
  simp only [Svc.addrs, List.mem_append, List.mem_map] at h'
  rcases h' with rfl | rfl | rfl | (⟨_, _, rfl⟩ | ⟨_, _, rfl⟩) | rfl
  all_goals (simp [Svc.ptr, Svc.srv, Svc.txt, Svc.nsec, mkRec])

/-- full strength: once the registration has moved away from a conflicting name `old` (the service is announced under another
name), no announced record is owned by `old` -/
def C09_conflicting_name_not_owner : Prop :=
  ∀ (svc : Svc) (old : String), svc.name ≠ old → svc.type ≠ old → ∀ r ∈ (broadcastPkt svc none true).answers, r.name ≠ old

/-- **false of the code** (known finding): in the legacy `server=None` mode `set_server_if_missing` has copied the first
instance name into `server` before the check, a rename does not move it, and the address records keep the conflicting name -/
theorem C09_conflicting_name_not_owner_refuted : ¬ C09_conflicting_name_not_owner := by
  intro h
  have := h { type := "_http._tcp.local.", name := "svc-2._http._tcp.local.", server := "svc._http._tcp.local.", port := 80, weight := 0,
              priority := 0, text := [], v4 := [[10, 0, 0, 1]], v6 := [], hostTtl := 120, otherTtl := 4500 }
    "svc._http._tcp.local." (by decide) (by decide)
    (mkRec "svc._http._tcp.local." Gen.typeA Gen.classInUnique 120 (.addr [10, 0, 0, 1] none)) (by decide)
  exact this (by decide)

/-- what does hold: with a host name of its own (`server` given, or anything but the conflicting name) no record of the
announcement is owned by the conflicting name -/
theorem C09_conflicting_name_not_owner_partial (svc : Svc) (old : String) (hn : svc.name ≠ old) (ht : svc.type ≠ old)
    (hs : svc.server ≠ old) : ∀ r ∈ (broadcastPkt svc none true).answers, r.name ≠ old := by
  intro r hr
  rcases C09_announce_owners svc r hr with h | h | h <;> rw [h] <;> assumption

/-! ### "… or answered for": the registry key follows the name, and the responder finds instances by that key

`registerRun` files the final service under `lower (final name)` (`C09_only_then`).  That the *real* registry does so rests on
`ServiceInfo.key` following the name through every rename: the constructor and the `name` setter both assign
`self.key = name.lower()` (shape pins `src_info_ctor_key`, `src_info_name_setter_key`; making `key` a stale attribute — second review,
escape E2 — breaks `C09_key_follows_name`, and the harness asks for the abandoned and for the held name after every rename).
The responder's choice of records is C03's model (`Zc.instancePart`, `Zc.pointerPart`: look-ups in the registry by lower-cased name). -/

/-- the public wrappers pass `allow_name_change`, `cooperating_responders`, `strict` on in that order (third review: a swap in the
synchronous `register_service` registered a taken name with no probe at all).  Shape pins; the harness registers through
`AsyncZeroconf.async_register_service` in 30 % of the scenarios and through the threaded `register_service` in a small real-loop stream. -/
theorem C09_api_wrappers_pass_arguments :
    Gen.Register.src_sync_register_arg2 = "allow_name_change" ∧ Gen.Register.src_sync_register_arg3 = "cooperating_responders" ∧
    Gen.Register.src_sync_register_arg4 = "strict" ∧ Gen.Register.src_aio_register_arg2 = "allow_name_change" ∧
    Gen.Register.src_aio_register_arg3 = "cooperating_responders" ∧ Gen.Register.src_aio_register_arg4 = "strict" :=
  Zc.GenFacts.Register.api_wrappers_pass_arguments

/-- the registry key of an info is its lower-cased name at construction and after every rename -/
theorem C09_key_follows_name :
    Gen.Register.src_info_ctor_key = "name.lower()" ∧ Gen.Register.src_info_name_setter_key = "name.lower()" :=
  Zc.GenFacts.Register.info_key_follows_name

/-- a question for `name` is an SRV / TXT / ANY question about an instance the registry does not hold: no instance record answers it -/
theorem instancePart_none (lower : String → String) (reg : Zc.Registry) (q : Question)
    (h : Zc.sget lower (lower q.name) reg.services = none) : Zc.instancePart lower reg q = [] := by
  unfold Zc.instancePart
  split
  · simp [h]
  · rfl

/-- **"… or answered for", the registry side.**  A fact about C03's registry model, deliberately small: adding the service under its final
name makes no *other* key answerable.  `hne` (the abandoned name has another key than the final one) and `hfree` (the instance did not
hold it before) are the substance — the theorem only says that `Registry.add` files the new service under `lower s.name` and nothing else,
so that an SRV / TXT / ANY question for `old` finds no instance (`Zc.instancePart`; the pointer part answers from registered services of
the type, the address part by *host* name — with `server=None` that is D16).  It is **not composed** with the registration run in Lean:
`registerRun` keeps the keys in `Names`, C03's `Zc.Registry` is another table, and `lower` is arbitrary (names that differ only in case
are one key, which is why `hne` cannot be derived from `C09_abandoned_never_returns`' "the final name is another *string*").  The link is:
`C09_only_then` / `C09_abandoned_key_not_filed` (the run files exactly `lower final`), `C09_key_follows_name` (the real object's key follows
every rename), and stage O, which asks for every abandoned name and for the held name after each renamed registration. -/
theorem C09_abandoned_not_answered (lower : String → String) (reg reg' : Zc.Registry) (s : Zc.Svc) (old : String) (q : Question)
    (hadd : reg.add lower s = .ok reg') (hq : lower q.name = lower old) (hne : lower old ≠ lower s.name)
    (hfree : Zc.sget lower (lower old) reg.services = none) :
    Zc.instancePart lower reg' q = [] ∧ Zc.sget lower (lower old) reg'.services = none := by
  have hs : reg'.services = reg.services ++ [s.clearMemo] := by
    simp only [Zc.Registry.add] at hadd
    split at hadd
    · simp at hadd
    · simp only [Except.ok.injEq] at hadd; subst hadd; rfl
  have hnone : Zc.sget lower (lower old) reg'.services = none := by
    unfold Zc.sget at hfree ⊢
    rw [hs, List.find?_append, hfree]
    simp only [Option.none_or, List.find?_cons, List.find?_nil]
    have : lower s.clearMemo.name ≠ lower old := by
      simpa [Zc.Svc.clearMemo] using fun h => hne h.symm
    simp [this]
  exact ⟨instancePart_none lower reg' q (by rw [hq]; exact hnone), hnone⟩

/-- … while the name it completed under *is* held: a question for it finds the service -/
theorem C09_held_name_found (lower : String → String) (reg reg' : Zc.Registry) (s : Zc.Svc)
    (hadd : reg.add lower s = .ok reg') : ∃ s', Zc.sget lower (lower s.name) reg'.services = some s' ∧ s'.name = s.name := by
  simp only [Zc.Registry.add] at hadd
  split at hadd
  · simp at hadd
  · rename_i hnot
    simp only [Except.ok.injEq] at hadd
    subst hadd
    have hn : Zc.sget lower (lower s.name) reg.services = none := by
      simpa [Zc.Svc.key] using hnot
    refine ⟨s.clearMemo, ?_, by simp [Zc.Svc.clearMemo]⟩
    unfold Zc.sget at hn ⊢
    rw [List.find?_append, hn]
    simp [Zc.Svc.clearMemo]

/-- the same on the run's own key table: a completed `registerRun` files exactly the key of the final name; a name with another key that the
table did not hold before is not in it afterwards (with `C09_abandoned_never_returns`: the names the run moved away from are other strings
than the final one) -/
theorem C09_abandoned_key_not_filed (allow : Bool) (valid : String → Bool) (lower : String → String) (names : Names) (svc : Svc) (inst : String) (oid : Nat)
    (w0 : Wake) (ws : List Wake) (r : RegResult) (h : registerRun allow valid lower names svc inst oid w0 ws = some r)
    (old : String) (hne : lower old ≠ lower r.cfg.st.svc.name) (hfree : lower old ∉ names.map Prod.fst) :
    lower old ∉ r.names.map Prod.fst := by
  have key := C09_only_then allow valid lower names svc inst oid w0 ws r h
  cases ht : r.task with
  | none =>
    rw [ht] at key
    rw [key.2.1]; exact hfree
  | some t =>
    rw [ht] at key
    obtain ⟨_, _, _, _, hn, _⟩ := key
    rw [hn]
    simp only [List.map_append, List.map_cons, List.map_nil, List.mem_append, List.mem_singleton, not_or]
    exact ⟨hfree, hne⟩

/-! ### one instance never holds the same name twice -/

/-- the registry's name table never lists a key twice, whatever sequence of add / remove / update is applied;
an `add` of a present key raises `ServiceNameAlreadyRegistered` and changes nothing -/
theorem C09_unique_add (r r' : Names) (key : String) (oid : Nat) (h : (r.map Prod.fst).Nodup) (ha : r.add key oid = .ok r') :
    (r'.map Prod.fst).Nodup ∧ ¬ key ∈ r.map Prod.fst := by
  unfold Names.add at ha
  split at ha
  · simp at ha
  · rename_i hany
    simp only [Except.ok.injEq] at ha
    subst ha
    have hk : ¬ key ∈ r.map Prod.fst := by
      intro hm
      apply hany
      rw [List.mem_map] at hm
      obtain ⟨e, he, rfl⟩ := hm
      rw [List.any_eq_true]
      exact ⟨e, he, by simp⟩
    refine ⟨?_, hk⟩
    rw [List.map_append, List.nodup_append]
    refine ⟨h, by simp, ?_⟩
    intro a ha b hb
    simp at hb
    subst hb
    intro hab; subst hab; exact hk ha

theorem C09_unique_add_dup (r : Names) (key : String) (oid : Nat) (h : key ∈ r.map Prod.fst) :
    r.add key oid = .error .alreadyRegistered := by
  unfold Names.add
  rw [List.mem_map] at h
  obtain ⟨e, he, rfl⟩ := h
  have : r.any (fun x => x.1 == e.1) = true := by
    rw [List.any_eq_true]; exact ⟨e, he, by simp⟩
  simp [this]

theorem C09_unique_remove (r : Names) (key : String) (h : (r.map Prod.fst).Nodup) :
    ((r.remove key).map Prod.fst).Nodup ∧ ¬ key ∈ (r.remove key).map Prod.fst := by
  unfold Names.remove
  constructor
  · exact List.Nodup.sublist (List.Sublist.map _ List.filter_sublist) h
  · simp [List.mem_map, List.mem_filter]

theorem C09_unique_update (r r' : Names) (key : String) (oid : Nat) (h : (r.map Prod.fst).Nodup) (hu : r.update key oid = .ok r') :
    (r'.map Prod.fst).Nodup :=
  (C09_unique_add _ _ key oid (C09_unique_remove r key h).1 hu).1

/-! ### non-vacuity -/

private def exSvc : Svc :=
  { type := "_http._tcp.local.", name := "svc._http._tcp.local.", server := "host.local.", port := 80, weight := 0, priority := 0,
    text := [], v4 := [[10, 0, 0, 1]], v6 := [], hostTtl := 120, otherTtl := 4500 }

private def exPtr (al : String) : Rec :=
  { name := "_http._tcp.local.", type := 12, class_ := 1, unique := false, ttl := 4500, created := 0, rdata := .ptr al }

/-- a conflicting cache: the name and its `-2` are taken, `-3` is free — the hypotheses of `C09_conflict_at_start` are satisfiable
and the registration proceeds under `-3` -/
example : (Cfg.start { allow := true, valid := fun _ => true, bucket := [exPtr "svc._http._tcp.local.", exPtr "svc-2._http._tcp.local."] }
    exSvc "svc" 1000).st.svc.name = "svc-3._http._tcp.local." := by decide

example : conflict [exPtr "svc._http._tcp.local."] 1000 exSvc.name = true := by decide
/-- an expired entry, another spelling and another record type are not conflicts -/
example : conflict [{ exPtr "svc._http._tcp.local." with ttl := 1 }, exPtr "SVC._http._tcp.local."] 1000 exSvc.name = false := by decide

end Zc.Register
