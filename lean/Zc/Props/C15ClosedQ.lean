import Zc.Props.C15Closed
import Zc.Proofs.SurviveClosedQ
import Zc.Props.C15RouteQ
/-! # C15 — one model for all three clauses (review 2, finding 6)

`C15_history_all_timers_partial` was about `Comp.down … (Route.rest …)` (routing over the merged answer map, attribution a
parameter), `C15_query_reaches_responder_routed_partial` about `RouteQ.downQ` (routing per strategy of each question): no single
model carried both.  The closed composite is parametric in the listener's downstream (`hstepD` / `hrunD`), and the per-question
downstream is closed as well (`downQ_closed`).  Over **that one model** — `hrunD … (downQ …)`: every block kind, no residual-block
hypothesis, clock as an invariant — this file states survival (`C15_history_closedQ_partial`) and both halves of the third clause:
the asked record reaches the set the routing rule names (`C15_query_reaches_responder_closed_partial`) and an announcement reaches
its browsers (`C15_announcement_reaches_browser_closedQ_partial`). -/
namespace Zc
open Zc.Wire Zc.Wire.DecodeLib Zc.Survive Zc.Survive.Comp Zc.Survive.Route Zc.Survive.User Zc.Survive.Api Zc.Survive.Closed
open Zc.Listener (Addr alGet TcTimer)

section closedQ
variable (lower : String → String) (possible : String → List String) (ettl : Nat)
variable (orc : Route.Oracle) (sz : QueryGen.QOut → Nat)
variable {υ ω : Type} (U : UserL υ ω) (upd : Ms → List (Rec × Option Rec) → Nat → Bool) (Iυ : υ → Prop)

/-- **Survival, every history, every block kind, per-question routing** (`_partial`: `UserOK`, `ApiSafe` of the API arguments, `Mono`) — `C15_history_closed_partial` over the downstream that routes each strategy with its own question's QU bit. -/
theorem C15_history_closedQ_partial (hU : UserOK U Iυ) (bs : List (HBlock υ)) (c : Ms) (s : State (CS υ))
    (hI : HInv lower ettl Iυ c s) (hm : Mono c bs) (hs : ∀ b ∈ bs, HSafe lower ettl Iυ b) :
    (∃ s' out, hrunD lower possible sz U upd (downQ lower possible ettl orc U upd) s bs = .ok (s', out) ∧
        HInv lower ettl Iυ (lastTime c bs) s') ∨
    (∃ pre addr post s1 o1, bs = pre ++ HBlock.tcFire addr :: post ∧
      hrunD lower possible sz U upd (downQ lower possible ettl orc U upd) s pre = .ok (s1, o1) ∧ alGet addr s1.timers = none) :=
  hrun_ok lower possible ettl sz U upd Iυ textGlue hU (downQ_closed lower possible ettl orc U upd Iυ textGlue hU) bs c s hI hm hs

/-- **A well-formed query sent after any closed history is answered, and the asked record reaches the set the routing rule names**
(`_partial`: `UserOK`, `ApiSafe`, `Mono`).  After ANY history of blocks of every kind from a state satisfying the
invariant: a valid untruncated query that the duplicate guard does not drop, one of whose questions `q` asks for a record `r` of a
registered service (not suppressed by its known answers), makes `datagram_received` return with tag `responded`; the unicast and
immediate-multicast sets are sent inside the block (`Sent`); a record identical to `r` (C20) is in one of the four routed sets —
for a legacy source port in the unicast reply and in a multicast set; for a QU question from port 5353 in the unicast reply if the
cache saw it within a quarter of its TTL, in the immediate multicast otherwise.  (Same conclusion as
`C15_query_reaches_responder_routed_partial`; the hypothesis `hO` about residual blocks is gone.) -/
theorem C15_query_reaches_responder_closed_partial (hU : UserOK U Iυ) (bs : List (HBlock υ)) (c : Ms)
    (s0 s1 : State (CS υ)) (o1 : List (Out (COut ω)))
    (hI : HInv lower ettl Iυ c s0) (hm : Mono c bs) (hs : ∀ b ∈ bs, HSafe lower ettl Iυ b)
    (hrun' : hrunD lower possible sz U upd (downQ lower possible ettl orc U upd) s0 bs = .ok (s1, o1))
    (data : Bytes) (addr : Addr) (port : Nat) (now : Ms) (draw : Nat) (p : Parsed)
    (hsize : data.length ≤ 8966) (hg : guardHit s1 data now = false) (hp : (parse data).out = .ok p)
    (hv : p.valid = true) (hq : Gen.Listener.is_query p.hdr.flags = true) (htc : Gen.Listener.truncated p.hdr.flags = false)
    (he : s1.down.reg.hasEntries = true)
    {q : Question} (hqq : q ∈ (msgOf ⟨data, now, p, none⟩).questions) {s : Svc} (hsv : s ∈ s1.down.reg.services) {r : Rec}
    (hr : r ∈ RespSpec.candidates lower ettl s q)
    (hk : RespSpec.isNsec r = true ∨
      suppresses lower (knownOf (((alGet addr s1.deferred).getD [] ++ [(⟨data, now, p, none⟩ : Pkt)]).map msgOf)) r = false) :
    ∃ (sel : Routed) (d1 : CS υ) (s' : State (CS υ)) (out : List (Out (COut ω))) (r'' : Rec),
      let ks := (alGet addr s1.deferred).getD [] ++ [(⟨data, now, p, none⟩ : Pkt)]
      let qa : Survive.QA := ⟨setOf lower sel.ucast, setOf lower sel.mcastNow, !sel.aggregate.isEmpty, !sel.aggregateLast.isEmpty⟩
      RouteQ.answerQ lower ettl s1.down ks (Gen.Listener.ucast_source port) = .ok (d1, some qa) ∧ d1.pending = some sel ∧
      recv (downQ lower possible ettl orc U upd) s1 data addr port now draw = .ok (s', out, .responded ks.length) ∧
      Sent addr port (some qa) out ∧
      r''.beq lower r = true ∧
      (r'' ∈ keysOf sel.ucast ∨ r'' ∈ keysOf sel.mcastNow ∨ r'' ∈ keysOf sel.aggregate ∨ r'' ∈ keysOf sel.aggregateLast) ∧
      (Gen.Listener.ucast_source port = true →
        r'' ∈ keysOf sel.ucast ∧ (r'' ∈ keysOf sel.mcastNow ∨ r'' ∈ keysOf sel.aggregate ∨ r'' ∈ keysOf sel.aggregateLast)) ∧
      (Gen.Listener.ucast_source port = false → q.unique = true →
        let items := ks.map (fun k => RouteQ.pureQ lower ettl s1.down.reg (knownOf (ks.map msgOf)) (msgOf k).questions)
        let tbl := Route.internAll lower s1.down.rest.2.recs
          (dictRecords (answerMap lower ettl s1.down.reg (ks.map msgOf)) ++ RouteQ.stratRecords items)
        (Reply.withinQuarter ((Route.seenOf lower s1.down.cache tbl).get (Route.idOf lower tbl r)) now = true → r'' ∈ keysOf sel.ucast) ∧
        (Reply.withinQuarter ((Route.seenOf lower s1.down.cache tbl).get (Route.idOf lower tbl r)) now = false → r'' ∈ keysOf sel.mcastNow)) := by
  have hDC := downQ_closed lower possible ettl orc U upd Iυ textGlue hU
  have hH1 := hrun_inv lower possible ettl sz U upd Iυ textGlue hU hDC bs c s0 s1 o1 hI hm hs hrun'
  have hI1 := hH1.full.1.1
  have hL1 := hH1.linv
  have hD := RouteQ.downQ_downOK lower possible ettl orc (userBase U upd) (UInv Iυ) (userBase_ok U upd Iυ hU)
  obtain ⟨d1, qa, s', out, ha, hrecv, _, _, hsent⟩ :=
    recv_query_answered hD sendOK_safe s1 hI1 hL1 data addr port now draw p hsize hg hp hv hq htc he
  generalize hks : (alGet addr s1.deferred).getD [] ++ [(⟨data, now, p, none⟩ : Pkt)] = ks at *
  have hk0 : (⟨data, now, p, none⟩ : Pkt) ∈ ks := by rw [← hks]; simp
  have hqmem : q ∈ questionsOf (ks.map msgOf) := by
    unfold questionsOf
    exact List.mem_flatMap.mpr ⟨msgOf ⟨data, now, p, none⟩, List.mem_map_of_mem hk0, hqq⟩
  obtain ⟨st0, hst, a, haK, har⟩ := strategy_complete lower ettl (knownOf (ks.map msgOf)) hI1.reg hI1.fresh hsv hr hk
  have hdict := answerMap_complete lower ettl hI1.reg hI1.fresh (ks.map msgOf) hqmem hsv hr hk
  have hans : ∃ x : Route.RState × Routed,
      x = RouteQ.routeQ lower s1.down.rest.2 s1.down.cache ks (Gen.Listener.ucast_source port)
            (answerMap lower ettl s1.down.reg (ks.map msgOf))
            (ks.map (fun k => RouteQ.pureQ lower ettl s1.down.reg (knownOf (ks.map msgOf)) (msgOf k).questions)) ∧
      RouteQ.answerQ lower ettl s1.down ks (Gen.Listener.ucast_source port) =
        .ok ({ s1.down with reg := warmed lower s1.down.reg (ks.map msgOf), rest := (s1.down.rest.1, x.1), pending := some x.2 },
             some ⟨setOf lower x.2.ucast, setOf lower x.2.mcastNow, !x.2.aggregate.isEmpty, !x.2.aggregateLast.isEmpty⟩) := by
    refine ⟨_, rfl, ?_⟩
    unfold RouteQ.answerQ
    rcases Zc.respond_ok lower ettl hI1.reg (ks.map msgOf) with ⟨hnil, _⟩ | ⟨_, hrsp⟩
    · exfalso
      have : st0 ∈ strategiesOf lower s1.down.reg (ks.map msgOf) := List.mem_flatMap.mpr ⟨q, hqmem, hst⟩
      rw [hnil] at this; cases this
    · rw [hrsp]
      dsimp only
      rw [RouteQ.perPacket_ok lower ettl hI1.reg]
  obtain ⟨x, hx, hans⟩ := hans
  have ha'' : RouteQ.answerQ lower ettl s1.down ks (Gen.Listener.ucast_source port) = .ok (d1, qa) := ha
  rw [hans] at ha''
  simp only [Except.ok.injEq, Prod.mk.injEq] at ha''
  obtain ⟨hd1, hqa⟩ := ha''
  obtain ⟨r'', hbeq, hsets, hleg, hqu⟩ := RouteQ.routeQ_reaches lower ettl s1.down.rest.2 s1.down.cache ks (Gen.Listener.ucast_source port)
    (answerMap lower ettl s1.down.reg (ks.map msgOf)) s1.down.reg (knownOf (ks.map msgOf)) hk0 hqq hst haK har hdict
  rw [← hx] at hsets hleg hqu
  refine ⟨x.2, d1, s', out, r'', ?_, ?_, hrecv, ?_, hbeq, hsets, hleg, ?_⟩
  · rw [hans, hd1]
  · rw [← hd1]
  · rw [← hqa] at hsent; exact hsent
  · intro hu hquq
    have hlast : ks.getLast? = some (⟨data, now, p, none⟩ : Pkt) := by rw [← hks]; simp
    exact hqu hu hquq _ hlast

/-- **An announcement sent after any closed history still reaches its browsers**, over the same model -/
theorem C15_announcement_reaches_browser_closedQ_partial (hU : UserOK U Iυ) (bs : List (HBlock υ)) (c : Ms)
    (s0 s1 : State (CS υ)) (o1 : List (Out (COut ω)))
    (hI : HInv lower ettl Iυ c s0) (hm : Mono c bs) (hs : ∀ b ∈ bs, HSafe lower ettl Iυ b)
    (hrun' : hrunD lower possible sz U upd (downQ lower possible ettl orc U upd) s0 bs = .ok (s1, o1))
    (data : Bytes) (addr : Addr) (port : Nat) (now : Ms) (draw : Nat) (p : Parsed)
    (hsize : data.length ≤ 8966) (hg : guardHit s1 data now = false) (hp : (parse data).out = .ok p)
    (hv : p.valid = true) (hq : Gen.Listener.is_query p.hdr.flags = false)
    {w : Rec} (hw : w ∈ recsOf ⟨data, now, p, none⟩) {alias t : String}
    (hty : w.type = Gen.typePtr) (hrd : w.rdata = .ptr alias)
    (hlive : (floorPtr (w.setLife now w.ttl)).isExpired now = false)
    (hnew : PtrNotCached lower s1.down.cache w now)
    {b : Browser} (hb : b ∈ s1.down.browsers) (ht : t ∈ b.types) (hposs : (possible w.name).contains t = true) :
    ∃ s' out i, recv (downQ lower possible ettl orc U upd) s1 data addr port now draw = .ok (s', out, .response) ∧
      Out.down (COut.callback i ⟨.added, t, alias⟩) ∈ out := by
  have hI1 := hrun_inv lower possible ettl sz U upd Iυ textGlue hU (downQ_closed lower possible ettl orc U upd Iυ textGlue hU) bs c s0 s1 o1 hI hm hs hrun'
  obtain ⟨p', hp', hk⟩ := parse_pkt data now hsize
  rw [hp] at hp'
  cases hp'
  have hL := Route.listenersOK lower (fun _ _ => true) orc (userBase U upd) (UInv Iυ) (userBase_ok U upd Iυ hU)
  obtain ⟨d', out, i, hi, hmem⟩ := comp_ingest_added lower possible ettl (Route.rest lower (fun _ _ => true) orc (userBase U upd))
    (Route.Inv (UInv Iυ)) hL hI1.full.1.1 ⟨data, now, p, none⟩ hk hw hty hrd hlive hnew hb ht hposs
  have heq := recv_response_eq (downQ lower possible ettl orc U upd) s1 data addr port now draw p hsize hg hp hv hq
  have hi' : (downQ lower possible ettl orc U upd).ingest s1.down ⟨data, now, p, none⟩ = .ok (d', out) := hi
  rw [hi'] at heq
  exact ⟨_, _, i, heq, List.mem_map_of_mem hmem⟩

end closedQ

end Zc
