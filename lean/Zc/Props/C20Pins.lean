import Zc.Props.C20
import Zc.GenFacts.IdentPins
/-! # C20 — companion: the two hand-modelled loops are what the source says today

`Rec.suppressedBy` (`DNSRecord.suppressed_by`) and `replyAdditionals` (`_add_answers_additionals`) are written by hand in
`Zc/Model/Dns.lean`; their statements are pinned to the source text (`Zc/GenFacts/IdentPins.lean`, generated from the working
tree on every run).  This module is separate from `Props/C20.lean` because other properties' proofs — and through them the
compiled driver — import `Props/C20`: a changed pin must break C20's proof stage, not everybody's driver. -/
namespace Zc
open Zc.Gen.IdentPins Zc.GenFacts.IdentPins

/-- `suppressed_by` asks `msg.answers()` once, loops over **all** of them, tests each with `_suppressed_by_answer`, and
contains nothing else (census: one assignment, one `for`, one `if`, two `return`s) — the shape `Rec.suppressedBy` models and
`C20_suppressed_by_iff` is about -/
theorem C20_suppressed_by_shape :
    src_suppressed_by_answers = "msg.answers()" ∧ src_suppressed_by_iter = "answers"
    ∧ src_suppressed_by_test = "self._suppressed_by_answer(record)"
    ∧ src_suppressed_by_census = "Assign:1 For:1 If:1 Return:2 | answers" :=
  ⟨pin_suppressed_by_answers, pin_suppressed_by_iter, pin_suppressed_by_test, pin_suppressed_by_census⟩

/-- `_add_answers_additionals` starts from `set(answers)`, takes each answer's additionals, sends one only if it is
`not in sending`, and contains nothing else — the shape `replyAdditionals` models and `C20_reply_no_duplicates` is about -/
theorem C20_reply_shape :
    src_reply_sending = "set(answers)" ∧ src_reply_additionals = "answers[answer]" ∧ src_reply_iter = "additionals"
    ∧ src_reply_test = "additional not in sending" ∧ src_reply_sending_add = "additional"
    ∧ src_reply_add_additional = "additional" ∧ src_reply_add_answer = "answer"
    ∧ src_reply_census = "AnnAssign:1 Assign:1 Expr:3 For:2 If:1 | sending additionals" :=
  ⟨pin_reply_sending, pin_reply_additionals, pin_reply_iter, pin_reply_test, pin_reply_sending_add, pin_reply_add_additional,
    pin_reply_add_answer, pin_reply_census⟩

end Zc
