import Zc.Model.Wire.DecodeSpec
/-! # C02 — the decoder is total, bounded and faithful on arbitrary datagrams -/
namespace Zc
open Zc.Wire Zc.Wire.DecodeLib Zc.Wire.DecodeSpec

/-- the listener only hands datagrams of at most 8966 bytes to the decoder -/
theorem C02_guard (b : Bytes) (h : listenerAccepts b = true) : b.length ≤ 8966 := by
  simp [listenerAccepts, Gen.Incoming.oversize] at h
  omega

end Zc
