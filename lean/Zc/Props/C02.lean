import Zc.Proofs.DecodeLib
import Zc.Proofs.DecodeRefute
import Zc.Proofs.DecodeAgree
/-! # C02 — the decoder is total, bounded and faithful on arbitrary datagrams

`parse b` is the model of `DNSIncoming(b)` followed by `.answers()` (`Zc.Wire.DecodeLib`), a total
function on **all** byte strings; every theorem below is quantified over all of them (the 8966-byte
datagram limit only enters where a number is derived from the length).  The hop bound of the D2
repair enters through `GenFacts.Incoming.hop_limit`; on a tree without it that lemma, and therefore
this file, does not build. -/
namespace Zc
open Zc.Wire Zc.Wire.DecodeLib Zc.Wire.DecodeSpec

/-- the listener only hands datagrams of at most 8966 bytes to the decoder -/
theorem C02_guard (b : Bytes) (h : listenerAccepts b = true) : b.length ≤ 8966 := by
  simp [listenerAccepts, Gen.Incoming.oversize] at h
  omega

/-- **Totality.** No exception leaves `DNSIncoming(b)` or `answers()`: every raise site of the
decoder is an `IndexError` or an `IncomingDecodeError`, both are in `DECODE_EXCEPTIONS`, and the
interpreter's recursion limit (the only other way out) is never reached. -/
theorem C02_no_escape (b : Bytes) : (parse b).escaped = none :=
  (parseWith_spec libCfg_ok b).noEscape

/-- consequently the constructor always returns an object -/
theorem C02_object_exists (b : Bytes) : ∃ p, (parse b).out = .ok p := by
  have h := C02_no_escape b
  unfold Run.escaped at h
  split at h <;> simp_all

/-- **Bounded recursion.** `_decode_labels_at_offset` never nests deeper than 129 activations
(`MAX_DNS_LABELS + 1`), however the compression pointers are arranged. -/
theorem C02_depth (b : Bytes) : (parse b).st.maxDepth ≤ 129 := by
  have h := (parseWith_spec libCfg_ok b).eff.depthB
  simp at h
  exact h

/-- the bound is reached: a chain of 128 pointer hops is accepted at depth 129, one more hop is rejected
(as an invalid message, not as an exception) -/
example : (parse (chainPacket 128)).st.maxDepth = 129 ∧ (parse (chainPacket 128)).parsed?.map (·.valid) = some true
    ∧ (parse (chainPacket 129)).st.maxDepth = 129 ∧ (parse (chainPacket 129)).parsed?.map (·.valid) = some false := by
  decide +kernel

/-- **D2**: the bound is owed to the hop test.  On the decoder without it (`noHopCfg`, the unrepaired
tree) a 277-byte datagram already nests 131 deep, and the depth grows with the chain until the
interpreter's limit raises `RecursionError`, which is not in `DECODE_EXCEPTIONS`. -/
theorem C02_depth_refuted_without_hop_bound : ¬ ∀ b : Bytes, (parseWith noHopCfg b).st.maxDepth ≤ 129 :=
  depth_unbounded_without_hop_bound

/-- **Bounded work.** For a datagram of `n` bytes: at most `3n + 2` calls of `_read_name`, at most
129 activations of `_decode_labels_at_offset` per name, at most `n` label reads per activation. -/
theorem C02_work (b : Bytes) :
    (parse b).st.names ≤ 3 * b.length + 2 ∧ (parse b).st.acts ≤ 129 * (parse b).st.names ∧
    (parse b).st.reads ≤ b.length * (parse b).st.acts := by
  obtain ⟨h1, h2, h3, h4, h5, h6, h7⟩ := (parseWith_spec libCfg_ok b).eff
  simp at h1 h2 h3 h4 h5 h6 h7
  exact ⟨h2, h5, h6⟩

/-- the budget predicate the harness evaluates on the implementation's counters holds of the model -/
theorem C02_within_budget (b : Bytes) : runWithinBudget (parse b) b.length = true := by
  obtain ⟨h1, h2, h3⟩ := C02_work b
  have h4 := C02_depth b
  simp [runWithinBudget, withinBudget, h1, h2, h3, h4]

/-- the budget as plain numbers at the datagram limit: fewer than 3.5 million activations -/
theorem C02_work_8966 (b : Bytes) (hb : b.length ≤ 8966) :
    (parse b).st.names ≤ 26900 ∧ (parse b).st.acts ≤ 3470100 := by
  obtain ⟨h1, h2, _⟩ := C02_work b
  omega

/-- **Short names.** Every name on the returned object — question names, owner names, PTR/CNAME
targets, SRV targets, NSEC next names — is at most 253 characters long (valid or not). -/
theorem C02_names_short (b : Bytes) (p : Parsed) (h : (parse b).parsed? = some p) : namesShort p = true :=
  (parseWith_spec libCfg_ok b).short p h

/-- the same, name by name -/
theorem C02_names_short_each (b : Bytes) (p : Parsed) (h : (parse b).parsed? = some p) :
    ∀ n ∈ namesOf p, nameLen n ≤ 253 := by
  have := C02_names_short b p h
  simpa [namesShort, List.all_eq_true] using this

/-- **Faithfulness, full statement**: whenever the strict RFC 1035 parser accepts the datagram, it
uses only supported record types and every label can be written back as a label (`reencodable`, the
reading of "strict" under the D8 repair, cf. RFC 6762 §16), the object is valid and carries exactly
the strict parser's header, questions and records. -/
def C02_agrees_strict_statement : Prop :=
  ∀ (b : Bytes) (m : WMsg), Strict.decode b = some m → Strict.supportedOnly m = true → reencodable m = true →
    ∃ p, (parse b).out = .ok p ∧ agrees p m = true

/-- **Faithful names** — the core of `C02_agrees_strict_statement`, proved for every single name and
every state of the name cache that can arise: wherever the strict decoder reads a name (backward
pointers, ≤ 128 hops, ≤ 253 characters), `_read_name` returns the same labels and stops at the same
offset — the `seen_pointers` test, the hop bound, the label-count test, the re-encoding test and
cache hits (including the recomputation of empty entries) never interfere — and the cache stays
correct.  `_partial`: the lifting to whole messages (fixed-size fields, the seven rdata layouts and
the section loops, which contain no pointer logic) is not proved here (see the stronger theorems
below for the part that is); it is checked differentially on every run. -/
theorem C02_name_agrees_strict_partial (b : Bytes) (st : St) (n : WName) (e : Nat)
    (h : Strict.decName b st.off = some (n, e)) (hl : ∀ l ∈ n, Utf8.reencodedLen l ≤ 63)
    (hc : CacheOK b st.cache) :
    ∃ st', readName libCfg b st = (st', .ok n) ∧ st'.off = e ∧ CacheOK b st'.cache :=
  readName_agrees libCfg_ok libCfg_agree b st n e h hl hc

/-- the hypotheses are satisfiable: a compressed name (`a.b` at 12, then `c` + pointer to 14)
is decoded by both to `c.b`, through the pointer -/
example : Strict.decName [0,0,0,0,0,0,0,0,0,0,0,0, 1,97,1,98,0, 1,99,0xC0,14] 17 = some ([[99],[98]], 21)
    ∧ (match (readName libCfg [0,0,0,0,0,0,0,0,0,0,0,0, 1,97,1,98,0, 1,99,0xC0,14] { off := 17 }).2 with
       | .ok n => decide (n = [[99],[98]])
       | .error _ => false) = true := by
  decide +kernel

end Zc
