import Zc.Proofs.DecodeLib
import Zc.Proofs.DecodeWork
import Zc.Proofs.DecodeRefute
import Zc.Proofs.DecodeAgreeMsg
import Zc.Proofs.DecodeAgreeMixed
import Zc.Proofs.Utf8RoundTrip
import Zc.Proofs.NameText
/-! # C02 — the decoder is total, bounded and faithful on arbitrary datagrams

`parse b` is the model of `DNSIncoming(b)` followed by `.answers()` (`Zc.Wire.DecodeLib`), a total
function on **all** byte strings; every theorem below is quantified over all of them (the 8966-byte
datagram limit only enters where a number is derived from the length).  **Every theorem here is a statement
about that model** — its control flow, containers and raise sites are hand-written (exception classes are
assigned by hand at each site), its numeric tests and constants are translated from the source; what ties
the model to `incoming.py` is the result-exact differential run of stage C, not these theorems.  The hop bound of the D2
repair enters through `GenFacts.Incoming.hop_limit`; on a tree without it that lemma, and therefore
this file, does not build. -/
namespace Zc
open Zc.Wire Zc.Wire.DecodeLib Zc.Wire.DecodeSpec

/-- the size test of the listener: `listenerAccepts` is *defined* as the negation of the translated leaf
`oversize` (`len(data) > _MAX_MSG_ABSOLUTE`, `_listener.py`), so this says that today's constant makes that test
let through at most 8966 bytes.  That `datagram_received` applies the test before anything else is not a theorem
of this file: the harness (`guard_stream`) runs the real method on lengths around the limit. -/
theorem C02_guard (b : Bytes) (h : listenerAccepts b = true) : b.length ≤ 8966 := by
  unfold listenerAccepts at h
  exact GenFacts.Incoming.not_oversize_le (by simpa using h)

/-- **Totality (of the model).** No exception leaves the model's `DNSIncoming(b)` or `answers()`: every raise site
*of the model* — the subscripts `view[i]` (`byteAt`), the explicit `raise IncomingDecodeError` sites of
`_decode_labels_at_offset` / `_read_name`, each placed by hand where `incoming.py` has it — carries the class
`IndexError` or `IncomingDecodeError`, both names are in the translated `DECODE_EXCEPTIONS`, and the model's
recursion budget (900 nested activations standing for the interpreter's limit) is never reached.  That the code has
no other raise site is checked by stage C (exception class and place of escape compared on every generated
datagram), not proved. -/
theorem C02_no_escape (b : Bytes) : (parse b).escaped = none :=
  (parseWith_spec libCfg_ok b).noEscape

/-- consequently the constructor always returns an object -/
theorem C02_object_exists (b : Bytes) : ∃ p, (parse b).out = .ok p := by
  have h := C02_no_escape b
  unfold Run.escaped at h
  split at h <;> simp_all

/-- **Bounded recursion.** `_decode_labels_at_offset` never nests deeper than 129 activations
(`MAX_DNS_LABELS + 1`), however the compression pointers are arranged. -/
theorem C02_depth (b : Bytes) : (parse b).st.maxDepth ≤ 129 := by
  have h := (parseWith_spec libCfg_ok b).eff.depthB
  simp at h
  exact h

/-- the bound is reached: a chain of 128 pointer hops is accepted at depth 129, one more hop is rejected
(as an invalid message, not as an exception) -/
example : (parse (chainPacket 128)).st.maxDepth = 129 ∧ (parse (chainPacket 128)).parsed?.map (·.valid) = some true
    ∧ (parse (chainPacket 129)).st.maxDepth = 129 ∧ (parse (chainPacket 129)).parsed?.map (·.valid) = some false := by
  decide +kernel

/-- **D2**: the bound is owed to the hop test.  On the decoder without it (`noHopCfg`, the unrepaired
tree) a 277-byte datagram already nests 131 deep, and the depth grows with the chain until the
interpreter's limit raises `RecursionError`, which is not in `DECODE_EXCEPTIONS`. -/
theorem C02_depth_refuted_without_hop_bound : ¬ ∀ b : Bytes, (parseWith noHopCfg b).st.maxDepth ≤ 129 :=
  depth_unbounded_without_hop_bound

/-- **Bounded work.** For a datagram of `n` bytes: at most `3n + 2` calls of `_read_name`, at most
129 activations of `_decode_labels_at_offset` per name, at most `n` label reads per activation. -/
theorem C02_work (b : Bytes) :
    (parse b).st.names ≤ 3 * b.length + 2 ∧ (parse b).st.acts ≤ 129 * (parse b).st.names ∧
    (parse b).st.reads ≤ b.length * (parse b).st.acts := by
  obtain ⟨h1, h2, h3, h4, h5, h6, h7⟩ := (parseWith_spec libCfg_ok b).eff
  simp at h1 h2 h3 h4 h5 h6 h7
  exact ⟨h2, h5, h6⟩

/-- the budget predicate the harness evaluates on the implementation's counters holds of the model -/
theorem C02_within_budget (b : Bytes) : runWithinBudget (parse b) b.length = true := by
  obtain ⟨h1, h2, h3⟩ := C02_work b
  have h4 := C02_depth b
  simp [runWithinBudget, withinBudget, h1, h2, h3, h4]

/-- the budget as plain numbers at the datagram limit.  (The label-read bound is the product of the
three factors — names, activations per name, reads per activation — because the code really can
redo that work: a record whose rdata name fails is skipped and the next one may walk the same
chain again.  It is a fixed budget, not a small one.) -/
theorem C02_work_8966 (b : Bytes) (hb : b.length ≤ 8966) :
    (parse b).st.names ≤ 26900 ∧ (parse b).st.acts ≤ 3470100 ∧ (parse b).st.reads ≤ 31112916600 := by
  obtain ⟨h1, h2, h3⟩ := C02_work b
  refine ⟨by omega, by omega, ?_⟩
  calc (parse b).st.reads ≤ b.length * (parse b).st.acts := h3
    _ ≤ 8966 * 3470100 := Nat.mul_le_mul hb (by omega)

/-- **The other loop, per call.**  The model's `readBitmap` (`_read_bitmap`) carries `len + 1` units of fuel per
call and never runs out of them (running out is the `.other` pseudo-exception), wherever it starts and whatever
`end` is.  This is a fact about one call of the model's loop; the total over a datagram is `C02_total_work`. -/
theorem C02_bitmap_loop_bounded (b : Bytes) (end_ : Nat) (st : St) :
    (readBitmap b end_ (b.length + 1) st).2 ≠ .error .other := by
  intro h
  have := (readBitmap_spec b end_ (b.length + 1) st (by omega)).2.1 _ h
  simp [Benign] at this

/-- **Bounded work, every other loop of the model: linear in the length of the datagram.**  `parseWork b` is a
*ghost re-walk*: a second function (`Model/Wire/DecodeWork.lean`) that follows the branches of `parseWith` /
`readRecords` / `readRData` / `readBitmap` again, calls the model for every state, and counts the iterations of
the question loop and of the record loop, the calls of `_read_bitmap`, its `while` iterations, the bitmap bytes
its inner loop scans and the rdtypes it appends.  No theorem says that these counters count the iterations of
`parse` itself — the lemmas relate each counter to the offsets the model reaches; that the numbers are the loop
counts of the *code* is checked by stage C (line events of the loop bodies compared on every datagram).  With
`names/acts/reads` of `C02_work` these are the Python-level loops of the model; work inside C calls (`sorted`,
`list.extend`, `str.join`, hashing) is counted by no theorem and held only to the harness's CPU yardstick.  For a
datagram of `n` bytes:
a question takes at least 5 bytes and a record at least 11; `_read_bitmap` runs at most once per record; **over all
calls together** the scanned bitmap bytes are disjoint pieces of the datagram and every completed `while` iteration
consumes two more bytes (`bmBytes + 2·bmIters ≤ n + 2`: the only way the offset moves backwards is `self.offset = end`
after a failed record, and a record that fails inside `_read_bitmap` did so at the end of the datagram with `end`
beyond it); a byte names at most 8 rdtypes.  (The earlier prose bound `(n+1)(3n+2)` iterations was an
over-estimate by a factor `n`.) -/
theorem C02_total_work (b : Bytes) :
    5 * (parseWork b).questions ≤ b.length + 5 ∧ 11 * (parseWork b).records ≤ b.length + 11 ∧
    (parseWork b).bmCalls ≤ (parseWork b).records ∧
    (parseWork b).bmBytes + 2 * (parseWork b).bmIters ≤ b.length + 2 ∧
    (parseWork b).bmTypes ≤ 8 * (parseWork b).bmBytes :=
  parseWorkWith_spec libCfg_ok b

/-- the predicate the harness evaluates on the loop counters measured on the implementation holds of the model -/
theorem C02_work_within (b : Bytes) : workWithin b.length (parseWork b) = true := by
  obtain ⟨h1, h2, h3, h4, h5⟩ := C02_total_work b
  simp [workWithin, h1, h2, h3, h4, h5]

/-- the bound is reached up to the constant: one NSEC record whose rdata is 100 windows of one `0xFF` byte makes the
loop run 100 times over 100 bytes and append 800 types, in a datagram of 326 bytes -/
example : parseWork (nsecWindowsPacket 100) = { records := 1, bmCalls := 1, bmIters := 100, bmBytes := 100, bmTypes := 800 }
    ∧ (nsecWindowsPacket 100).length = 326 := by
  decide +kernel

/-- the loop counters as plain numbers at the datagram limit -/
theorem C02_total_work_8966 (b : Bytes) (hb : b.length ≤ 8966) :
    (parseWork b).questions ≤ 1794 ∧ (parseWork b).records ≤ 816 ∧ (parseWork b).bmCalls ≤ 816 ∧
    (parseWork b).bmIters ≤ 4484 ∧ (parseWork b).bmBytes ≤ 8968 ∧ (parseWork b).bmTypes ≤ 71744 := by
  obtain ⟨h1, h2, h3, h4, h5⟩ := C02_total_work b
  refine ⟨by omega, by omega, by omega, by omega, by omega, by omega⟩

/-- **The fixed budget in executed source lines.**  `lineCost` is the calibrated cost model the harness holds the
implementation to (stage O: the source lines of the `zeroconf` package executed while decoding a datagram must not
exceed it, evaluated on the counters measured on the implementation).  On the model's own counters it is bounded
by a fixed number for every datagram the listener lets through; the part owed to the two section loops and to
`_read_bitmap` is at most 2 454 768 lines, the rest is the name decoder's product bound of `C02_work_8966`:
fixed, nothing more — about six orders of magnitude above the most expensive datagram known (648 PTR records that
each walk the same 127-hop chain, which is never cached because it ends in a reserved label: 2.4 million lines,
the harness's `uncached-chain` family). -/
theorem C02_lines_8966 (b : Bytes) (hb : b.length ≤ 8966) :
    lineCost (parse b).st.names (parse b).st.acts (parse b).st.reads (parseWork b) ≤ 2489455422768 := by
  obtain ⟨h1, h2, h3⟩ := C02_work_8966 b hb
  obtain ⟨g1, g2, g3, g4, g5, g6⟩ := C02_total_work_8966 b hb
  unfold lineCost
  omega

/-- **Short names.** Every name on the returned object — question names, owner names, PTR/CNAME
targets, SRV targets, NSEC next names — is at most 253 characters long (valid or not). -/
theorem C02_names_short (b : Bytes) (p : Parsed) (h : (parse b).parsed? = some p) : namesShort p = true :=
  (parseWith_spec libCfg_ok b).short p h

/-- the same, name by name -/
theorem C02_names_short_each (b : Bytes) (p : Parsed) (h : (parse b).parsed? = some p) :
    ∀ n ∈ namesOf p, nameLen n ≤ 253 := by
  have := C02_names_short b p h
  simpa [namesShort, List.all_eq_true] using this

/-- **Faithfulness.** Whenever the strict RFC 1035 parser (`Wire.Strict`: exact counts, backward
pointers, ≤ 128 hops, names ≤ 253 characters, exact rdlength, no trailing bytes) accepts the datagram,
the message uses only supported record types, and every label can be written back as a label
(`reencodable`: its decoded text re-encodes to ≤ 63 bytes — always true of valid UTF-8 labels; this
is the reading of "strict" under the D8 repair, cf. RFC 6762 §16), the constructor returns a *valid*
object that carries exactly the strict parser's header fields, questions and records (the three
sections in order, NSEC type lists sorted as `DNSNsec` keeps them).  Proved for the whole object:
fixed-size fields, all seven rdata layouts, the section loops, and the name decoder with its
`seen_pointers` test, hop bound, label-count test and cache (hits and empty-entry recomputation). -/
theorem C02_agrees_strict (b : Bytes) (m : WMsg) (h : Strict.decode b = some m)
    (hs : Strict.supportedOnly m = true) (hr : reencodable m = true) :
    ∃ p, (parse b).out = .ok p ∧ agrees p m = true :=
  parse_agrees libCfg_ok libCfg_agree b m h hs hr

/-- **Faithfulness beyond the sentence: records of unsupported types are skipped and disturb nothing.**  The
property only speaks of datagrams that use supported record types; nearly half of the strict-accepted datagrams the
harness generates carry an unsupported record somewhere (second review, finding 4).  For those the model's object is
valid and carries the strict parser's header, questions and its records *of supported types*, in packet order
(`agreesSupported`: an unsupported record costs `self.offset += length` and nothing else).  No `supportedOnly`
hypothesis; with it, `flatSupported = flat` and this is `C02_agrees_strict` again
(`C02_agrees_strict_from_supported_part`).  The harness judges the implementation against this on every
strict-accepted datagram that is outside the property's hypothesis only because of an unsupported type, and reports a
difference as a broken correspondence (the property itself does not forbid, say, dropping such a message). -/
theorem C02_agrees_strict_supported_part (b : Bytes) (m : WMsg) (h : Strict.decode b = some m)
    (hr : reencodable m = true) :
    ∃ p, (parse b).out = .ok p ∧ agreesSupported p m = true :=
  parse_agrees_mixed libCfg_ok libCfg_agree b m h hr

theorem C02_agrees_strict_from_supported_part (b : Bytes) (m : WMsg) (h : Strict.decode b = some m)
    (hs : Strict.supportedOnly m = true) (hr : reencodable m = true) :
    ∃ p, (parse b).out = .ok p ∧ agrees p m = true := by
  obtain ⟨p, hp, ha⟩ := C02_agrees_strict_supported_part b m h hr
  refine ⟨p, hp, ?_⟩
  simpa [agrees, agreesSupported, flatSupported_eq_flat m hs] using ha

/-- a message with content: an answer of the unsupported type 99 between two PTR answers (the second one owned by a
pointer *across* the unsupported record); the model returns the two PTR records -/
example : (match Strict.decode mixedWitness, (parse mixedWitness).out with
           | some m, .ok p => !Strict.supportedOnly m && reencodable m && agreesSupported p m && decide (p.records.length = 2)
               && decide (m.answers.length = 3)
           | _, _ => false) = true := by
  decide +kernel

/-- the literal sentence of the property, without the `reencodable` proviso -/
def C02_agrees_strict_literal : Prop :=
  ∀ (b : Bytes) (m : WMsg), Strict.decode b = some m → Strict.supportedOnly m = true →
    ∃ p, (parse b).out = .ok p ∧ agrees p m = true

/-- the D8 witness, evaluated: the strict parser accepts it, it has no unsupported record, and the
object the decoder builds does not agree with it (it is marked invalid and has no question) -/
theorem d8_witness_evaluated :
    (match Strict.decode d8Witness with
     | some m => Strict.supportedOnly m && !reencodable m &&
        (match (parse d8Witness).out with
         | .ok p => !agrees p m && !p.valid && p.questions.isEmpty
         | _ => false)
     | none => false) = true := by
  decide +kernel

/-- **The literal sentence is false of the tree with the D8 repair**: the decoder-level repair of D8
deliberately rejects a strict-accepted datagram (a label of 40 × `0xFF`, `corpus/C02/d8-label-40xff.json`).
This is the content of the `reencodable` proviso of `C02_agrees_strict`. -/
theorem C02_agrees_strict_literal_refuted : ¬ C02_agrees_strict_literal := by
  intro h
  have hw := d8_witness_evaluated
  cases hd : Strict.decode d8Witness with
  | none => rw [hd] at hw; simp at hw
  | some m =>
    rw [hd] at hw
    simp only [Bool.and_eq_true] at hw
    obtain ⟨⟨hs, _⟩, hp⟩ := hw
    obtain ⟨p, hout, hag⟩ := h d8Witness m hd hs
    rw [hout] at hp
    simp [hag] at hp

/-- **… and true of the decoder without that test** (`noD8Cfg`: hop bound of D2, no label test): there
the agreement needs no proviso about labels. -/
theorem C02_agrees_strict_literal_without_d8 (b : Bytes) (m : WMsg) (h : Strict.decode b = some m)
    (hs : Strict.supportedOnly m = true) :
    ∃ p, (parseWith noD8Cfg b).out = .ok p ∧ agrees p m = true :=
  parse_agrees_noD8 b m h hs

/-- **The 253-character limit, at the boundary, and where it departs from RFC 1035.**  A question name
of 253 characters (254 octets on the wire) is accepted by the decoder and by `Wire.Strict`; one of 254
characters — 255 octets on the wire, the longest name RFC 1035 §2.3.4 allows — is rejected by both
(the object is marked invalid).  The property's first sentence demands exactly this of the decoder;
`Wire.Strict` follows the library's documented limit here, so `C02_agrees_strict` says nothing about
that one RFC-legal length (reading recorded in notes/agents/C02.md). -/
theorem C02_name_limit_boundary :
    (parse (longNameQuestion 60)).parsed?.map (fun p => (p.valid, p.questions.map (fun q => nameLen q.name))) = some (true, [253])
    ∧ (Strict.decode (longNameQuestion 60)).isSome = true
    ∧ (parse (longNameQuestion 61)).parsed?.map (fun p => (p.valid, p.questions.length)) = some (false, 0)
    ∧ (Strict.decode (longNameQuestion 61)).isSome = false
    ∧ (longNameQuestion 61).length = 12 + 255 + 4 := by
  decide +kernel

/-- the hypotheses are satisfiable by a message with content: a PTR question `a.` and a PTR answer
owned by a pointer to it, whose rdata `b.a.` is compressed as well -/
example : (Strict.decode [0,0, 0x84,0, 0,1, 0,1, 0,0, 0,0,  1,97,0, 0,12, 0,1,
                          0xC0,12, 0,12, 0,1, 0,0,0,120, 0,4, 1,98,0xC0,12]).map
      (fun m => Strict.supportedOnly m && reencodable m && decide (m.answers.length = 1) && decide (m.questions.length = 1))
    = some true := by
  decide +kernel

/-- the name-level core of the agreement, for every state of the name cache that can arise -/
theorem C02_name_agrees_strict (b : Bytes) (st : St) (n : WName) (e : Nat)
    (h : Strict.decName b st.off = some (n, e)) (hl : ∀ l ∈ n, Reencodable l)
    (hc : CacheOK b st.cache) :
    ∃ st', readName libCfg b st = (st', .ok n) ∧ st'.off = e ∧ CacheOK b st'.cache :=
  readName_agrees libCfg_ok libCfg_agree b st n e h hl hc

/-- … and on that message the conclusion is not vacuous either: the decoder's object is the valid one
with that question and that answer -/
example : (match Strict.decode [0,0, 0x84,0, 0,1, 0,1, 0,0, 0,0,  1,97,0, 0,12, 0,1,
                                 0xC0,12, 0,12, 0,1, 0,0,0,120, 0,4, 1,98,0xC0,12],
                 (parse [0,0, 0x84,0, 0,1, 0,1, 0,0, 0,0,  1,97,0, 0,12, 0,1,
                         0xC0,12, 0,12, 0,1, 0,0,0,120, 0,4, 1,98,0xC0,12]).out with
           | some m, .ok p => agrees p m && p.valid && decide (p.records.length = 1)
           | _, _ => false) = true := by
  decide +kernel

/-- a compressed name (`a.b` at 12, then `c` + pointer to 14) is decoded by both to `c.b` -/
example : Strict.decName [0,0,0,0,0,0,0,0,0,0,0,0, 1,97,1,98,0, 1,99,0xC0,14] 17 = some ([[99],[98]], 21)
    ∧ (match (readName libCfg [0,0,0,0,0,0,0,0,0,0,0,0, 1,97,1,98,0, 1,99,0xC0,14] { off := 17 }).2 with
       | .ok n => decide (n = [[99],[98]])
       | .error _ => false) = true := by
  decide +kernel

/-! ### labels that are text -/

/-- **Names that came from a `str` are re-encodable.**  If every label of every name in a list is text
(`Utf8.IsText`: the UTF-8 encoding of Unicode scalar values, i.e. what `str.encode('utf-8')` yields for
a `str` without lone surrogates) and at most 63 bytes long, then every label's decoded form re-encodes
to at most 63 bytes — by `Utf8.decode_encode` (`decodeReplace (encode cps) = cps`).  This is the shape
of C01's `TextLabels` and of `reencodable` below. -/
theorem names_text_of_str (names : List WName)
    (h : ∀ n ∈ names, ∀ l ∈ n, Utf8.IsText l ∧ l.length ≤ 63) :
    ∀ n ∈ names, ∀ l ∈ n, Utf8.reencodedLen l ≤ 63 :=
  fun n hn l hl => Utf8.reencodedLen_le_of_text (h n hn l hl).1 (h n hn l hl).2

theorem C02_text_is_reencodable (m : WMsg) (h : ∀ n ∈ msgNames m, ∀ l ∈ n, Utf8.IsText l ∧ l.length ≤ 63) :
    reencodable m = true := by
  simp only [reencodable, List.all_eq_true, decide_eq_true_eq]
  exact names_text_of_str (msgNames m) h

/-- **Faithfulness for text names, without the `reencodable` proviso**: the D8 test only ever rejects
labels that are not text. -/
theorem C02_agrees_strict_text (b : Bytes) (m : WMsg) (h : Strict.decode b = some m)
    (hs : Strict.supportedOnly m = true) (ht : ∀ n ∈ msgNames m, ∀ l ∈ n, Utf8.IsText l ∧ l.length ≤ 63) :
    ∃ p, (parse b).out = .ok p ∧ agrees p m = true :=
  C02_agrees_strict b m h hs (C02_text_is_reencodable m ht)

/-- text labels exist beyond ASCII: `é`, `日本` and an emoji round-trip through the model -/
example : Utf8.decodeReplace (Utf8.encode [0xE9, 0x65E5, 0x672C, 0x1F600, 0x41]) = [0xE9, 0x65E5, 0x672C, 0x1F600, 0x41]
    ∧ Utf8.encode [0xE9, 0x65E5, 0x672C, 0x1F600, 0x41] = [0xC3, 0xA9, 0xE6, 0x97, 0xA5, 0xE6, 0x9C, 0xAC, 0xF0, 0x9F, 0x98, 0x80, 0x41] := by
  decide +kernel

/-! ## text layer: the names as the `str`s a caller sees (work package TEXTGLUE)

The model carries a decoded name as its labels (bytes); `_read_name` returns `'.'.join(labels) + '.'` with every label
decoded `('utf-8', 'replace')` — `NameText.textOfLabels`. -/
section text_layer
open Zc.NameText

/-- **`len(name)` is `nameLen`**: the number `_read_name` compares with `MAX_NAME_LENGTH` — and the 253 of this
property — is the character count of the joined, `'replace'`-decoded text, trailing dot included (1 for the root) -/
theorem C02_name_length_is_text_length (n : WName) : (textOfLabels n).length = nameLen n := textOfLabels_length n

/-- **Short names, as strings**: every name on the returned object, as the `str` the caller reads, has at most 253 characters -/
theorem C02_names_short_text (b : Bytes) (p : Parsed) (h : (parse b).parsed? = some p) :
    ∀ n ∈ namesOf p, (textOfLabels n).length ≤ 253 := by
  intro n hn
  rw [textOfLabels_length]
  exact C02_names_short_each b p h n hn

/-- what `write_name` would write for a decoded name, for **every** wire name: the root becomes the single empty label
(`00 00` on the wire), every other label is decoded, split at its dots, and the pieces are encoded -/
theorem C02_reencoded_labels (n : WName) :
    labelsOfText (textOfLabels n) =
      if n.isEmpty then [[]] else n.flatMap (fun l => (splitOn 0x2E (Utf8.decodeReplace l)).map Utf8.encode) :=
  labelsOfText_textOfLabels n

/-- the decode-side sentence at full strength: *the text of a decoded name determines its labels* (so that handing the
name back to the encoder writes the name that was received) — for names of well-formed text labels -/
def C02_text_determines_labels : Prop :=
  ∀ n : WName, n ≠ [] → (∀ l ∈ n, Utf8.IsText l ∧ 1 ≤ l.length ∧ l.length ≤ 63) → labelsOfText (textOfLabels n) = n

/-- **Refuted: a dot inside a wire label.**  The label `61 2e 62` (`a.b`, as DNS-SD instance names routinely contain)
followed by `6c` decodes to the text `a.b.l.`, which `write_name` splits into *three* labels `a`, `b`, `l`: the joined
text cannot tell a literal `2e` byte from a label boundary.  (What the real code does on it — `DNSIncoming` gives
`'a.b.l.'`, `DNSOutgoing.write_name` of that writes `01 61 01 62 01 6c 00` — is replayed in `harness/c02.py`, stream
`text-layer`; this is the library's representation of names, not a decoding fault: C02's agreement with the strict
parser is stated on label lists and is unaffected.) -/
theorem C02_text_determines_labels_refuted : ¬ C02_text_determines_labels := by
  intro h
  have := h [[0x61, 0x2e, 0x62], [0x6c]] (by decide)
    (by
      intro l hl
      simp only [List.mem_cons, List.not_mem_nil, or_false] at hl
      rcases hl with rfl | rfl
      · exact ⟨⟨[0x61, 0x2e, 0x62], by decide, by decide⟩, by decide, by decide⟩
      · exact ⟨⟨[0x6c], by decide, by decide⟩, by decide, by decide⟩)
  exact absurd this (by decide)

/-- … and that is the only obstacle: labels that are text **without a dot** are recovered exactly -/
theorem C02_text_determines_labels_partial (n : WName) (hne : n ≠ [])
    (h : ∀ l ∈ n, Utf8.IsText l ∧ dot ∉ decodeLabel l) : labelsOfText (textOfLabels n) = n :=
  labelsOfText_textOfLabels_of_text n hne h

/-- the witness on the decoder model itself: the datagram with the question name `03 61 2e 62 01 6c 00` is accepted by the
strict parser and by the library's decoder with the two-label name; its text is `a.b.l.`; written back it has three labels.
Likewise the root name (`00`, text `.`) is written back as the one empty label `['']` (`00 00`), a label that is not UTF-8
(`ff 61`) comes back as `ef bf bd 61`, and a label that is just `2e` (text `..`) as two empty labels (`00 00 00`). -/
example :
    let pkt : Bytes := [0,0, 0,0, 0,1, 0,0, 0,0, 0,0,  3,0x61,0x2e,0x62, 1,0x6c, 0,  0,12, 0,1]
    (Strict.decode pkt).map (fun m => m.questions.map (·.name)) = some [[[0x61,0x2e,0x62],[0x6c]]]
    ∧ (parse pkt).parsed?.map (fun p => (p.valid, p.questions.map (fun q => textOfLabels q.name))) = some (true, ["a.b.l.".toList])
    ∧ labelsOfText "a.b.l.".toList = [[0x61],[0x62],[0x6c]]
    ∧ labelsOfText (textOfLabels []) = [[]]
    ∧ labelsOfText (textOfLabels [[0xff, 0x61]]) = [[0xef, 0xbf, 0xbd, 0x61]]
    ∧ labelsOfText (textOfLabels [[0x2e]]) = [[], []] := by
  decide +kernel

end text_layer

end Zc
